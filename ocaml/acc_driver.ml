(* Driver for the extracted accessor evaluators. Lines:
     G <qualified method name> <a1> <a2> x<mem>        generated model  -> "A x<mem'> [ret]"
     S <class idx> <field idx> <0|1 setter> <v> x<mem>  layout spec      -> "A x<mem'> [ret]" or "A -" (value out of range)
   With --list prints the accessors named by the layout tables. *)
open Accmodel

let rec nat_of_int n = if n = 0 then O else S (nat_of_int (n - 1))
let rec int_of_nat = function O -> 0 | S k -> 1 + int_of_nat k
(* Z <-> bit lists (least significant first); no arithmetic from the extracted code is needed *)
let rec pos_of_bits = function
  | [] -> None
  | b :: t -> (match pos_of_bits t with
      | None -> if b then Some XH else None
      | Some p -> Some (if b then XI p else XO p))
let z_of_bits l = match pos_of_bits l with None -> Z0 | Some p -> Zpos p
let rec bits_of_pos = function XH -> [true] | XO p -> false :: bits_of_pos p | XI p -> true :: bits_of_pos p
let bits_of_z = function Z0 -> [] | Zpos p -> bits_of_pos p | Zneg _ -> []
let z_of_string s =
  let v = Int64.of_string ("0u" ^ s) in
  z_of_bits (List.init 64 (fun i -> Int64.logand (Int64.shift_right_logical v i) 1L = 1L))
let string_of_z z =
  let v = ref 0L in
  List.iteri (fun i b -> if b && i < 64 then v := Int64.logor !v (Int64.shift_left 1L i)) (bits_of_z z);
  Printf.sprintf "%Lu" !v
let hexval c = if c <= '9' then Char.code c - 48 else (Char.code c lor 32) - 87
(* memory image: little-endian integer of the bytes *)
let z_of_hex t =
  let n = (String.length t - 1) / 2 in
  z_of_bits (List.concat (List.init n (fun i -> let v = hexval t.[1 + 2 * i] * 16 + hexval t.[2 + 2 * i] in List.init 8 (fun k -> (v lsr k) land 1 = 1))))
let hex_of_z z n =
  let bits = Array.make (8 * n) false in
  List.iteri (fun i b -> if i < 8 * n then bits.(i) <- b) (bits_of_z z);
  let b = Buffer.create 64 in
  Buffer.add_char b 'x';
  for i = 0 to n - 1 do
    let v = ref 0 in
    for k = 0 to 7 do if bits.(8 * i + k) then v := !v lor (1 lsl k) done;
    Buffer.add_string b (Printf.sprintf "%02x" !v)
  done; Buffer.contents b
let coq_of_string s =
  let rec go i = if i >= String.length s then EmptyString else
      let c = Char.code s.[i] in
      let b k = (c lsr k) land 1 = 1 in
      String (Ascii (b 0, b 1, b 2, b 3, b 4, b 5, b 6, b 7), go (i + 1)) in go 0
let string_of_coq s =
  let b = Buffer.create 32 in
  let rec go = function
    | EmptyString -> ()
    | String (Ascii (b0, b1, b2, b3, b4, b5, b6, b7), r) ->
      let v = List.fold_left (fun a (k, x) -> if x then a lor (1 lsl k) else a) 0 [(0,b0);(1,b1);(2,b2);(3,b3);(4,b4);(5,b5);(6,b6);(7,b7)] in
      Buffer.add_char b (Char.chr v); go r in
  go s; Buffer.contents b

let out r n =
  match r with
  | None -> print_endline "A -"
  | Some (m, ro) -> (match ro with
      | Some v -> print_endline ("A " ^ hex_of_z m n ^ " " ^ string_of_z v)
      | None -> print_endline ("A " ^ hex_of_z m n))

let () =
  if Array.length Sys.argv > 1 && Sys.argv.(1) = "--list" then
    List.iter (fun ((((name, setter), ci), fi), mask) ->
        Printf.printf "%s %d %d %d %s\n" (string_of_coq name) (if setter then 1 else 0) (int_of_nat ci) (int_of_nat fi)
          (match mask with Some m -> string_of_z m | None -> "-")) spec_methods
  else begin
    let ic = if Array.length Sys.argv > 1 then open_in Sys.argv.(1) else stdin in
    try
      while true do
        let s = input_line ic in
        match String.split_on_char ' ' s with
        | ["G"; name; a1; a2; mem] ->
          out (gen_run (coq_of_string name) (z_of_hex mem) (z_of_string a1) (z_of_string a2)) ((String.length mem - 1) / 2)
        | ["S"; ci; fi; st; v; mem] ->
          out (spec_run (nat_of_int (int_of_string ci)) (nat_of_int (int_of_string fi)) (st = "1") (z_of_hex mem) (z_of_string v)) ((String.length mem - 1) / 2)
        | _ -> print_endline "A ?"
      done
    with End_of_file -> ()
  end
