(* Thin driver around the extracted Coq models: parses script lines into Model.op records, runs Model.run_case per case,
   prints observations in the harness's text format. No semantics lives here. *)
open Model

let rec pos_of_int n = if n = 1 then XH else if n land 1 = 0 then XO (pos_of_int (n lsr 1)) else XI (pos_of_int (n lsr 1))
let z_of_int n = if n = 0 then Z0 else if n > 0 then Zpos (pos_of_int n) else Zneg (pos_of_int (-n))
let byte_tbl = Array.init 256 z_of_int

(* decimal string (possibly up to 2^64-1) to Z *)
let z_of_string s =
  let neg = String.length s > 0 && s.[0] = '-' in
  let s' = if neg then String.sub s 1 (String.length s - 1) else s in
  let ten = z_of_int 10 in
  let acc = ref Z0 in
  String.iter (fun c -> acc := Z.add (Z.mul !acc ten) byte_tbl.(Char.code c - 48)) s';
  if neg then Z.opp !acc else !acc

let rec int_of_pos = function XH -> 1 | XO p -> 2 * int_of_pos p | XI p -> 2 * int_of_pos p + 1
(* Z to decimal string without overflowing OCaml ints: split by 10^9 *)
let rec string_of_z z =
  match z with
  | Z0 -> "0"
  | Zneg p -> "-" ^ string_of_z (Zpos p)
  | Zpos _ ->
    let base = z_of_int 1000000000 in
    let q = Z.div z base and r = Z.modulo z base in
    let ri = (match r with Z0 -> 0 | Zpos p -> int_of_pos p | Zneg _ -> 0) in
    (match q with
     | Z0 -> string_of_int ri
     | _ -> string_of_z q ^ Printf.sprintf "%09d" ri)

let hexval c = if c <= '9' then Char.code c - 48 else (Char.code c lor 32) - 87
let blob_of_string t =
  let n = (String.length t - 1) / 2 in
  let rec go i acc = if i < 0 then acc else go (i - 1) (byte_tbl.(hexval t.[1 + 2 * i] * 16 + hexval t.[2 + 2 * i]) :: acc) in
  go (n - 1) []
let hexd = "0123456789abcdef"
let string_of_blob l =
  let b = Buffer.create 64 in
  Buffer.add_char b 'x';
  List.iter (fun z -> let v = (match z with Z0 -> 0 | Zpos p -> int_of_pos p | Zneg _ -> 0) land 255 in
              Buffer.add_char b hexd.[v lsr 4]; Buffer.add_char b hexd.[v land 15]) l;
  Buffer.contents b

let code_of = function
  | "ENEW" -> 1 | "EDEV" -> 2 | "ESTR" -> 3 | "ERST" -> 4 | "EGET" -> 5 | "PKT" -> 6 | "PEMPTY" -> 7
  | "ENC" -> 8 | "ENC1" -> 9 | "ENCP" -> 10 | "DNEW" -> 11 | "DFEED" -> 12 | "DFRAMES" -> 13 | "DDROP" -> 14
  | "VALID" -> 15 | "VIEW" -> 16 | "PKTNEW" -> 17 | "ONEW" -> 18 | "ORAW" -> 19 | "OSET" -> 20 | "ODATA" -> 21
  | "OSHOW" -> 22 | "OPKT" -> 23 | "OFRAME" -> 24 | "XCOPY" -> 25 | "XMOVE" -> 26 | "XASG" -> 27 | "XMASG" -> 28
  | "XEQ" -> 29 | "XSHOW" -> 30 | "XMUT" -> 31 | "YCOPY" -> 32 | "YASG" -> 33 | "YEQ" -> 34 | "YMUT" -> 35
  | "TEQ" -> 36 | "SUPD" -> 37 | "SRMDEV" -> 38 | "SRMIF" -> 39 | "SCLR" -> 40 | "SSHOW" -> 41 | "ENCQ" -> 42 | "XTYPE" -> 43 | "DCOPY" -> 44 | "XETH" -> 45 | "DNULL" -> 46 | "ENCX" -> 47 | "SINIT" -> 48 | "SCOPY" -> 49 | "SOTHER" -> 50 | "ODATASELF" -> 51 | "OSHORT" -> 52 | "SUPDSELF" -> 53 | "ENCL" -> 8 | "ENCD" -> 8 | "ENCR" -> 8 | "SLEEP" -> 54 | "XRAWHDR" -> 55 | "XFLAGS" -> 56
  | _ -> 0
let tag_of = function
  | 1 -> "F" | 2 -> "Q" | 3 -> "N" | 4 -> "K" | 5 -> "V" | 6 -> "W" | 7 -> "R" | 8 -> "B" | 9 -> "G" | 10 -> "S"
  | 11 -> "SD" | 12 -> "SI" | 13 -> "SY" | 14 -> "SX" | 15 -> "OOB" | 16 -> "R -" | 17 -> "UNKNOWN-OP" | 18 -> "X" | _ -> "?"

let parse_line s =
  let toks = List.filter (fun t -> t <> "") (String.split_on_char ' ' s) in
  match toks with
  | [] -> None
  | m :: args ->
    let nums = List.filter_map (fun t -> if t.[0] = 'x' then None else Some (z_of_string t)) args in
    let blobs = List.filter_map (fun t -> if t.[0] = 'x' then Some (blob_of_string t) else None) args in
    Some { o_code = z_of_int (code_of m); o_nums = nums; o_blobs = blobs }

let print_obs o =
  let t = (match o.b_tag with Z0 -> 0 | Zpos p -> int_of_pos p | Zneg _ -> 0) in
  let b = Buffer.create 128 in
  Buffer.add_string b (tag_of t);
  List.iter (fun z -> Buffer.add_char b ' '; Buffer.add_string b (string_of_z z)) o.b_nums;
  List.iter (fun l -> Buffer.add_char b ' '; Buffer.add_string b (string_of_blob l)) o.b_blobs;
  print_endline (Buffer.contents b)

let () =
  let ic = if Array.length Sys.argv > 1 then open_in Sys.argv.(1) else stdin in
  let cur = ref [] and have = ref false in
  let flush_case () =
    if !have then begin
      List.iter print_obs (run_case (List.rev !cur));
      print_endline "END"
    end;
    cur := [] in
  (try
     while true do
       let s = input_line ic in
       if String.length s = 0 || s.[0] = '#' then ()
       else if String.length s >= 5 && String.sub s 0 5 = "CASE " then begin
         flush_case (); have := true; print_endline s end
       else if !have then (match parse_line s with Some o -> cur := o :: !cur | None -> ())
     done
   with End_of_file -> ());
  flush_case ()
