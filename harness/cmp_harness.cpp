// Correspondence harness (tie H of DESIGN.md): executes a script against the library built from /repo's
// working tree and prints one canonical observation line per observation. The same script is executed by the
// OCaml program extracted from the Coq models (ocaml/driver.ml); the two transcripts are diffed.
// Built with -fno-access-control (this TU only) so that private nested Header classes and Packet::payload are reachable.
#include <asam_cmp/analog_payload.h>
#include <asam_cmp/can_fd_payload.h>
#include <asam_cmp/can_payload.h>
#include <asam_cmp/capture_module_payload.h>
#include <asam_cmp/decoder.h>
#include <asam_cmp/encoder.h>
#include <list>
#include <deque>
#include <chrono>
#include <locale>
#include <asam_cmp/ethernet_payload.h>
#include <asam_cmp/interface_payload.h>
#include <asam_cmp/lin_payload.h>
#include <asam_cmp/packet.h>
#include <asam_cmp/status.h>
#include <asam_cmp/tecmp_can_payload.h>
#include <asam_cmp/tecmp_capture_module_payload.h>
#include <asam_cmp/tecmp_decoder.h>
#include <asam_cmp/tecmp_header.h>
#include <asam_cmp/tecmp_interface_payload.h>
#include <asam_cmp/tecmp_lin_payload.h>
#include <asam_cmp/tecmp_payload.h>

#include <atomic>
#include <cstdio>
#include <cstdlib>
#include <cstring>
#include <fstream>
#include <iostream>
#include <map>
#include <sstream>
#include <string>
#include <thread>
#include <vector>

using namespace ASAM::CMP;
typedef std::vector<uint8_t> Bytes;

// ---- allocation fill pattern (C20): every fresh operator-new block is filled with VERIF_FILL before use ----
static unsigned char g_fillPat[16];
static size_t g_fillLen = 0;
#ifndef VERIF_NO_NEW_OVERRIDE   // the valgrind build keeps the standard allocator (memcheck pairs new/delete itself)
void* operator new(size_t n)
{
    void* p = malloc(n ? n : 1);
    if (!p)
        abort();
    if (g_fillLen)
    {
        unsigned char* q = static_cast<unsigned char*>(p);
        for (size_t i = 0; i < n; ++i)
            q[i] = g_fillPat[i % g_fillLen];
    }
    return p;
}
void operator delete(void* p) noexcept
{
    free(p);
}
void operator delete(void* p, size_t) noexcept
{
    free(p);
}
#endif

// the harness' own streams always use the classic locale: the process-global C++ locale is deliberately a hostile one (digit
// grouping, decimal comma) - what the library produces must not depend on it
struct CStream : std::ostringstream
{
    CStream() { imbue(std::locale::classic()); }
};
struct HostileNumpunct : std::numpunct<char>
{
    char do_thousands_sep() const override { return ','; }
    std::string do_grouping() const override { return "\3"; }
    char do_decimal_point() const override { return ','; }
};

static const char* HEX = "0123456789abcdef";
static std::string hex(const uint8_t* p, size_t n)
{
    std::string s = "x";
    s.reserve(1 + 2 * n);
    for (size_t i = 0; i < n; ++i)
    {
        s.push_back(HEX[p[i] >> 4]);
        s.push_back(HEX[p[i] & 15]);
    }
    return s;
}
static std::string hex(const Bytes& b)
{
    return hex(b.data(), b.size());
}
static Bytes unhex(const std::string& t)
{
    Bytes b;
    auto v = [](char c) { return c <= '9' ? c - '0' : (c | 32) - 'a' + 10; };
    for (size_t i = 1; i + 1 < t.size(); i += 2)
        b.push_back(static_cast<uint8_t>(v(t[i]) * 16 + v(t[i + 1])));
    return b;
}

struct Line
{
    std::string op;
    std::vector<long long> n;
    std::vector<Bytes> b;
};

static Line parse(const std::string& s)
{
    Line l;
    std::istringstream is(s);
    std::string t;
    is >> l.op;
    while (is >> t)
    {
        if (t[0] == 'x')
            l.b.push_back(unhex(t));
        else
            l.n.push_back(strtoull(t.c_str(), nullptr, 10));
    }
    return l;
}

template <typename T>
static uint32_t fbits(T f)
{
    uint32_t u;
    float g = f;
    memcpy(&u, &g, 4);
    return u;
}

// ---- packet observation ----
static std::string obsPacket(const Packet& p)
{
    CStream o;
    o << "K " << +p.getVersion() << " " << p.getDeviceId() << " " << +p.getStreamId() << " " << p.getSequenceCounter() << " ";
    const Payload* pl = p.payload.get();
    if (pl)
        o << +to_underlying(p.getMessageType()) << " " << +p.getPayloadType() << " ";
    else
        o << "0 0 ";
    o << p.getTimestamp() << " " << p.getInterfaceId() << " " << p.getVendorId() << " " << +p.getCommonFlags() << " "
      << +to_underlying(p.getSegmentType()) << " ";
    if (pl)
        o << (p.isValid() ? 1 : 0) << " " << pl->getType().getType() << " " << p.getPayloadLength() << " "
          << hex(pl->getRawPayload(), pl->getLength());
    else
        o << "0 0 " << p.getPayloadLength() << " x";
    // field-by-field getter consistency is implied: every getter above is one field
    return o.str();
}

// kinds
enum Kind
{
    kMsg = 0,
    kCan = 1,
    kCanFd = 2,
    kLin = 3,
    kAnalog = 7,
    kEth = 8,
    kCm = 49,
    kIf = 50
};

static bool validKind(int kind, const uint8_t* d, size_t n)
{
    switch (kind)
    {
        case kMsg:
            return Packet::isValidPacket(d, n);
        case kCan:
            return CanPayload::isValidPayload(d, n);
        case kCanFd:
            return CanFdPayload::isValidPayload(d, n);
        case kLin:
            return LinPayload::isValidPayload(d, n);
        case kAnalog:
            return AnalogPayload::isValidPayload(d, n);
        case kEth:
            return EthernetPayload::isValidPayload(d, n);
        case kCm:
            return CaptureModulePayload::isValidPayload(d, n);
        case kIf:
            return InterfacePayload::isValidPayload(d, n);
    }
    return false;
}

static long long off(const Payload& p, const void* q)
{
    if (!q)
        return -1;
    return reinterpret_cast<const uint8_t*>(q) - p.getRawPayload();
}

// all const accessors of a typed payload; views are printed as (offset relative to raw payload, length)
static std::string viewOf(int kind, const Payload& base)
{
    CStream o;
    o << "W";
    switch (kind)
    {
        case kCan:
        {
            auto& p = static_cast<const CanPayload&>(base);
            o << " " << p.getFlags() << " " << p.getId() << " " << p.getRsvd() << " " << p.getIde() << " " << p.getRtr() << " " << p.getCrc()
              << " " << p.getCrcSupport() << " " << p.getErrorPosition() << " " << +p.getDlc() << " " << +p.getDataLength() << " "
              << off(p, p.getData()) << " " << +p.getDataLength();
            for (int m = 1; m <= 0x2000; m <<= 1)
                o << " " << p.getFlag(static_cast<CanPayloadBase::Flags>(m));
            break;
        }
        case kCanFd:
        {
            auto& p = static_cast<const CanFdPayload&>(base);
            o << " " << p.getFlags() << " " << p.getId() << " " << p.getRsvd() << " " << p.getIde() << " " << p.getRrs() << " " << p.getCrc()
              << " " << p.getCrcSupport() << " " << +p.getSbc() << " " << p.getSbcParity() << " " << p.getSbcSupport() << " "
              << p.getErrorPosition() << " " << +p.getDlc() << " " << +p.getDataLength() << " " << off(p, p.getData()) << " "
              << +p.getDataLength();
            for (int m = 1; m <= 0x2000; m <<= 1)
                o << " " << p.getFlag(static_cast<CanPayloadBase::Flags>(m));
            break;
        }
        case kLin:
        {
            auto& p = static_cast<const LinPayload&>(base);
            o << " " << p.getFlags() << " " << +p.getLinId() << " " << +p.getParityBits() << " " << +p.getChecksum() << " "
              << +p.getDataLength() << " " << off(p, p.getData()) << " " << +p.getDataLength();
            for (int m = 1; m <= 0x100; m <<= 1)
                o << " " << p.getFlag(static_cast<LinPayload::Flags>(m));
            break;
        }
        case kEth:
        {
            auto& p = static_cast<const EthernetPayload&>(base);
            o << " " << p.getFlags() << " " << p.getDataLength() << " " << off(p, p.getData()) << " " << p.getDataLength();
            for (int m = 1; m <= 0x80; m <<= 1)
                o << " " << p.getFlag(static_cast<EthernetPayload::Flags>(m));
            break;
        }
        case kAnalog:
        {
            auto& p = static_cast<const AnalogPayload&>(base);
            size_t cnt = p.getSamplesCount();
            size_t ssz = p.getSampleDt() == AnalogPayload::SampleDt::aInt16 ? 2 : 4;
            o << " " << p.getFlags() << " " << to_underlying(p.getSampleDt()) << " " << +to_underlying(p.getUnit()) << " "
              << fbits(p.getSampleInterval()) << " " << fbits(p.getSampleOffset()) << " " << fbits(p.getSampleScalar()) << " " << cnt << " "
              << off(p, p.getData()) << " " << cnt * ssz;
            break;
        }
        case kCm:
        {
            auto& p = static_cast<const CaptureModulePayload&>(base);
            o << " " << p.getUptime() << " " << p.getGmIdentity() << " " << p.getGmClockQuality() << " " << p.getCurrentUtcOffset() << " "
              << +p.getTimeSource() << " " << +p.getDomainNumber() << " " << +p.getGptpFlags();
            std::string_view sv[4] = {p.getDeviceDescription(), p.getSerialNumber(), p.getHardwareVersion(), p.getSoftwareVersion()};
            for (auto& s : sv)
                o << " " << off(p, s.data()) << " " << s.size();
            o << " " << p.getVendorDataLength() << " " << off(p, p.getVendorData());
            auto vs = p.getVendorDataStringView();
            o << " " << off(p, vs.data()) << " " << vs.size();
            break;
        }
        case kIf:
        {
            auto& p = static_cast<const InterfacePayload&>(base);
            o << " " << p.getInterfaceId() << " " << p.getMsgTotalRx() << " " << p.getMsgTotalTx() << " " << p.getMsgDroppedRx() << " "
              << p.getMsgDroppedTx() << " " << p.getErrorsTotalRx() << " " << p.getErrorsTotalTx() << " " << +p.getInterfaceType() << " "
              << +to_underlying(p.getInterfaceStatus()) << " " << p.getFeatureSupportBitmask() << " " << p.getStreamIdsCount() << " "
              << off(p, p.getStreamIds()) << " " << p.getVendorDataLength() << " " << off(p, p.getVendorData());
            break;
        }
        default:
            break;
    }
    return o.str();
}

static std::unique_ptr<Payload> makeTyped(int kind, const uint8_t* d, size_t n)
{
    switch (kind)
    {
        case kCan:
            return std::make_unique<CanPayload>(d, n);
        case kCanFd:
            return std::make_unique<CanFdPayload>(d, n);
        case kLin:
            return std::make_unique<LinPayload>(d, n);
        case kAnalog:
            return std::make_unique<AnalogPayload>(d, n);
        case kEth:
            return std::make_unique<EthernetPayload>(d, n);
        case kCm:
            return std::make_unique<CaptureModulePayload>(d, n);
        case kIf:
            return std::make_unique<InterfacePayload>(d, n);
    }
    return nullptr;
}
static std::unique_ptr<Payload> makeDefault(int kind)
{
    switch (kind)
    {
        case kCan:
            return std::make_unique<CanPayload>();
        case kCanFd:
            return std::make_unique<CanFdPayload>();
        case kLin:
            return std::make_unique<LinPayload>();
        case kAnalog:
            return std::make_unique<AnalogPayload>();
        case kEth:
            return std::make_unique<EthernetPayload>();
        case kCm:
            return std::make_unique<CaptureModulePayload>();
        case kIf:
            return std::make_unique<InterfacePayload>();
    }
    return nullptr;
}
static int kindOfType(uint32_t t)
{
    switch (t)
    {
        case PayloadType::can:
            return kCan;
        case PayloadType::canFd:
            return kCanFd;
        case PayloadType::lin:
            return kLin;
        case PayloadType::analog:
            return kAnalog;
        case PayloadType::ethernet:
            return kEth;
        case PayloadType::cmStatMsg:
            return kCm;
        case PayloadType::ifStatMsg:
            return kIf;
    }
    return -1;
}

// the type tag of a payload object is part of its state: FWD can change it through the public setters before the wrapper runs
template <class P>
static void applyRetag(P& o, int r)
{
    using MT = decltype(o.getMessageType());
    switch (r)
    {
        case 1: o.setRawPayloadType(1); break;
        case 2: o.setRawPayloadType(2); break;
        case 3: o.setRawPayloadType(3); break;
        case 4: o.setRawPayloadType(8); break;
        case 5: o.setMessageType(static_cast<MT>(3)); break;
        case 6: o.setMessageType(static_cast<MT>(1)); o.setRawPayloadType(0); break;
        case 7: o.setRawPayloadType(0xFF); break;
        default: break;
    }
}
#include "gen_dispatch.inc"  // generated by translator/cxx2coq.py: bool accDispatch(cls, method, mem, arg, out)

static std::string obsPacket(const Packet& p);
// ---- static-initialisation probe: the harness object file is linked BEFORE the library's, so this constructor runs before the
// library's own translation units are initialised. The all-static TECMP decoder must already behave as it does later.
struct InitProbe
{
    std::string transcript;
    InitProbe()
    {
        static const uint8_t fa[] = {0x00, 0x07, 0x00, 0x00, 0x03, 0x01, 0x00, 0x00, 0x00, 0x00, 0x00, 0x00, 0x11, 0x22, 0x33, 0x44, 0x01, 0x02, 0x03, 0x04, 0x05, 0x06, 0x07, 0x08, 0x00, 0x14, 0x00, 0x00, 0x01, 0x02, 0x03, 0x04, 0x05, 0x06, 0x07, 0x08, 0x09, 0x0a, 0x0b, 0x0c, 0x0d, 0x0e, 0x0f, 0x10, 0x11, 0x12, 0x13, 0x14};
        static const uint8_t fb[] = {0x00, 0x09, 0x00, 0x00, 0x03, 0x03, 0x00, 0x02, 0x00, 0x00, 0x00, 0x00, 0x00, 0x00, 0x00, 0x05, 0x00, 0x00, 0x00, 0x00, 0x00, 0x00, 0x00, 0x4d, 0x00, 0x0c, 0x00, 0x00, 0x00, 0x00, 0x01, 0x23, 0x04, 0x09, 0x08, 0x07, 0x06, 0x00, 0x00, 0x00};
        static const uint8_t fc[] = {0x00, 0x07, 0x00, 0x00, 0x03, 0x01, 0x00, 0x00, 0x00, 0x00, 0x00, 0x00, 0x00, 0x00, 0x00, 0x01, 0x00, 0x00, 0x00, 0x00, 0x00, 0x00, 0x00, 0x02, 0x00, 0x0a, 0x00, 0x00, 0x00, 0x00, 0x00, 0x00, 0x00, 0x00, 0x00, 0x00, 0x00, 0x00};
        const std::pair<const uint8_t*, size_t> frames[] = {{fa, sizeof(fa)}, {fb, sizeof(fb)}, {fc, sizeof(fc)}};
        for (auto& f : frames)
        {
            Decoder d;
            auto res = d.decode(f.first, f.second);
            long long pc = -1, pb = -1;
#ifdef ASAM_CMP_VERIF
            pc = static_cast<long long>(d.verifPendingCount());
            pb = static_cast<long long>(d.verifPendingBytes());
#endif
            transcript += "N " + std::to_string(res.size()) + " " + std::to_string(pc) + " " + std::to_string(pb) + "\n";
            for (auto& p : res)
                transcript += p ? obsPacket(*p) + "\n" : std::string("NULLPACKET\n");
        }
    }
};
static InitProbe g_initProbe;

// ---- input placement: a caller's buffer may start at ANY address (a CMP frame behind a 14-byte Ethernet header, ...). The copy handed to
// the library ends exactly at the end of its heap block (ASan sees every read past the end) and starts at an offset 0..7 into it that
// is derived from the content, so that all alignments occur.
struct Placed
{
    uint8_t* blk;
    uint8_t* p;
    size_t n;
    explicit Placed(const Bytes& src)
    {
        n = src.size();
        size_t off = (n * 5 + (n ? src[0] : 0) + (n > 1 ? src[n - 1] : 0)) % 8;
        blk = static_cast<uint8_t*>(malloc(n + off ? n + off : 1));
        p = blk + off;
        if (n)
            memcpy(p, src.data(), n);
    }
    ~Placed()
    {
        if (n)
            memset(p, 0xDD, n);
        free(blk);
    }
    Placed(const Placed&) = delete;
    Placed& operator=(const Placed&) = delete;
};

struct World
{
    CStream out;
    std::unique_ptr<Encoder> enc;
    std::map<long long, std::unique_ptr<Decoder>> dec;
    std::map<long long, Packet> pk;
    std::map<long long, std::unique_ptr<Payload>> ob;
    std::map<long long, int> obKind;
    std::vector<Bytes> frames;
    Status stx[2];
    int stCur = 0;
#define st stx[stCur]
    std::vector<std::pair<std::shared_ptr<Packet>, std::string>> late;

    void feed(long long k, const Bytes& buf)
    {
        if (!dec.count(k))
            dec[k] = std::make_unique<Decoder>();
        // heap copy of the input that ends at the end of its block and starts at a content-derived offset; released before the results
        // are read (C02: packets own their data)
        std::vector<std::shared_ptr<Packet>> res;
        bool modified = false;
        {
            Placed in(buf);
            res = dec[k]->decode(in.p, in.n);
            modified = in.n && memcmp(in.p, buf.data(), in.n) != 0;
        }
        long long pc = -1, pb = -1;
#ifdef ASAM_CMP_VERIF
        pc = static_cast<long long>(dec[k]->verifPendingCount());
        pb = static_cast<long long>(dec[k]->verifPendingBytes());
#endif
        out << "N " << res.size() << " " << pc << " " << pb << "\n";
        if (modified)
            out << "INPUT-MODIFIED\n";
        for (auto& p : res)
        {
            if (!p)
            {
                out << "NULLPACKET\n";
                continue;
            }
            std::string s = obsPacket(*p);
            out << s << "\n";
            if (!p->payload)
                out << "NOPAYLOAD\n";
            late.emplace_back(p, s);
        }
    }

    void showObj(long long slot)
    {
        auto it = ob.find(slot);
        if (it == ob.end() || !it->second)
        {
            out << "R -\n";
            return;
        }
        const Payload& p = *it->second;
        int kind = obKind[slot];
        out << "R " << p.getType().getType() << " " << hex(p.getRawPayload(), p.getLength()) << "\n";
        bool v = validKind(kind, p.getRawPayload(), p.getLength());
        out << "V " << v << "\n";
        if (v)
            out << viewOf(kind, p) << "\n";
    }

    void setField(long long slot, long long f, unsigned long long v)
    {
        Payload* b = ob[slot].get();
        int kind = obKind[slot];
        switch (kind)
        {
            case kCan:
            case kCanFd:
            {
                auto* p = static_cast<CanPayloadBase*>(b);
                switch (f)
                {
                    case 0:
                        p->setFlags(static_cast<uint16_t>(v));
                        break;
                    case 1:
                        p->setId(static_cast<uint32_t>(v));
                        break;
                    case 2:
                        p->setRsvd(v != 0);
                        break;
                    case 3:
                        p->setIde(v != 0);
                        break;
                    case 4:
                        if (kind == kCan)
                            static_cast<CanPayload*>(b)->setRtr(v != 0);
                        else
                            static_cast<CanFdPayload*>(b)->setRrs(v != 0);
                        break;
                    case 5:
                        if (kind == kCan)
                            static_cast<CanPayload*>(b)->setCrc(static_cast<uint16_t>(v));
                        else
                            static_cast<CanFdPayload*>(b)->setCrc(static_cast<uint32_t>(v));
                        break;
                    case 6:
                        p->setCrcSupport(v != 0);
                        break;
                    case 7:
                        p->setErrorPosition(static_cast<uint16_t>(v));
                        break;
                    case 8:
                        if (kind == kCanFd)
                            static_cast<CanFdPayload*>(b)->setSbc(static_cast<uint8_t>(v));
                        break;
                    case 9:
                        if (kind == kCanFd)
                            static_cast<CanFdPayload*>(b)->setSbcParity(v != 0);
                        break;
                    case 10:
                        if (kind == kCanFd)
                            static_cast<CanFdPayload*>(b)->setSbcSupport(v != 0);
                        break;
                    default:
                        if (f >= 100 && f < 116)
                            p->setFlag(static_cast<CanPayloadBase::Flags>(1 << (f - 100)), v != 0);
                }
                break;
            }
            case kLin:
            {
                auto* p = static_cast<LinPayload*>(b);
                switch (f)
                {
                    case 0:
                        p->setFlags(static_cast<uint16_t>(v));
                        break;
                    case 1:
                        p->setLinId(static_cast<uint8_t>(v));
                        break;
                    case 2:
                        p->setParityBits(static_cast<uint8_t>(v));
                        break;
                    case 3:
                        p->setChecksum(static_cast<uint8_t>(v));
                        break;
                    default:
                        if (f >= 100 && f < 116)
                            p->setFlag(static_cast<LinPayload::Flags>(1 << (f - 100)), v != 0);
                }
                break;
            }
            case kEth:
            {
                auto* p = static_cast<EthernetPayload*>(b);
                if (f == 0)
                    p->setFlags(static_cast<uint16_t>(v));
                else if (f >= 100 && f < 116)
                    p->setFlag(static_cast<EthernetPayload::Flags>(1 << (f - 100)), v != 0);
                break;
            }
            case kAnalog:
            {
                auto* p = static_cast<AnalogPayload*>(b);
                float fl;
                uint32_t u = static_cast<uint32_t>(v);
                memcpy(&fl, &u, 4);
                switch (f)
                {
                    case 0:
                        p->setFlags(static_cast<uint16_t>(v));
                        break;
                    case 1:
                        p->setSampleDt(static_cast<AnalogPayload::SampleDt>(v));
                        break;
                    case 2:
                        p->setUnit(static_cast<AnalogPayload::Unit>(v));
                        break;
                    case 3:
                        p->setSampleInterval(fl);
                        break;
                    case 4:
                        p->setSampleOffset(fl);
                        break;
                    case 5:
                        p->setSampleScalar(fl);
                        break;
                }
                break;
            }
            case kCm:
            {
                auto* p = static_cast<CaptureModulePayload*>(b);
                switch (f)
                {
                    case 0:
                        p->setUptime(v);
                        break;
                    case 1:
                        p->setGmIdentity(v);
                        break;
                    case 2:
                        p->setGmClockQuality(static_cast<uint32_t>(v));
                        break;
                    case 3:
                        p->setCurrentUtcOffset(static_cast<uint16_t>(v));
                        break;
                    case 4:
                        p->setTimeSource(static_cast<uint8_t>(v));
                        break;
                    case 5:
                        p->setDomainNumber(static_cast<uint8_t>(v));
                        break;
                    case 6:
                        p->setGptpFlags(static_cast<uint8_t>(v));
                        break;
                }
                break;
            }
            case kIf:
            {
                auto* p = static_cast<InterfacePayload*>(b);
                uint32_t u = static_cast<uint32_t>(v);
                switch (f)
                {
                    case 0:
                        p->setInterfaceId(u);
                        break;
                    case 1:
                        p->setMsgTotalRx(u);
                        break;
                    case 2:
                        p->setMsgTotalTx(u);
                        break;
                    case 3:
                        p->setMsgDroppedRx(u);
                        break;
                    case 4:
                        p->setMsgDroppedTx(u);
                        break;
                    case 5:
                        p->setErrorsTotalRx(u);
                        break;
                    case 6:
                        p->setErrorsTotalTx(u);
                        break;
                    case 7:
                        p->setInterfaceType(static_cast<uint8_t>(v));
                        break;
                    case 8:
                        p->setInterfaceStatus(static_cast<InterfacePayload::InterfaceStatus>(v));
                        break;
                    case 9:
                        p->setFeatureSupportBitmask(u);
                        break;
                }
                break;
            }
        }
    }

    void run(const Line& l)
    {
        const std::string& op = l.op;
        auto N = [&](size_t i) -> long long { return i < l.n.size() ? l.n[i] : 0; };
        static const Bytes empty;
        auto B = [&](size_t i) -> const Bytes& { return i < l.b.size() ? l.b[i] : empty; };
        if (op == "ENEW")
            enc = std::make_unique<Encoder>();
        else if (op == "EDEV")
            enc->setDeviceId(static_cast<uint16_t>(N(0)));
        else if (op == "ESTR")
            enc->setStreamId(static_cast<uint8_t>(N(0)));
        else if (op == "ERST")
            enc->restart();
        else if (op == "EGET")
            out << "G " << enc->getDeviceId() << " " << +enc->getStreamId() << " " << enc->getSequenceCounter() << "\n";
        else if (op == "PKT")
        {
            Packet p;
            p.setVersion(static_cast<uint8_t>(N(1)));
            p.setTimestamp(static_cast<uint64_t>(l.n[4]));
            p.setInterfaceId(static_cast<uint32_t>(N(5)));
            p.setVendorId(static_cast<uint16_t>(N(6)));
            p.setCommonFlags(static_cast<uint8_t>(N(7)));
            p.setDeviceId(static_cast<uint16_t>(N(8)));
            p.setStreamId(static_cast<uint8_t>(N(9)));
            p.setSequenceCounter(static_cast<uint16_t>(N(10)));
            p.setSegmentType(static_cast<MessageHeader::SegmentType>(N(11)));
            const Bytes& d = B(0);
            p.setPayload(Payload(PayloadType(static_cast<CmpHeader::MessageType>(N(2)), static_cast<uint8_t>(N(3))), d.data(), d.size()));
            pk[N(0)] = std::move(p);
        }
        else if (op == "PEMPTY")
            pk[N(0)] = Packet();
        else if (op == "ENC" || op == "ENC1" || op == "ENCP" || op == "ENCQ" || op == "ENCL" || op == "ENCD" || op == "ENCR")
        {
            DataContext ctx{static_cast<size_t>(N(0)), static_cast<size_t>(N(1))};
            if (op == "ENC1")
                frames = enc->encode(pk[N(2)], ctx);
            else if (op == "ENCP")
            {
                std::vector<std::shared_ptr<Packet>> v;
                for (size_t i = 2; i < l.n.size(); ++i)
                    v.push_back(std::make_shared<Packet>(pk[l.n[i]]));
                frames = enc->encode(v.begin(), v.end(), ctx);
            }
            else if (op == "ENCL")
            {
                // any forward range is a legal batch: a linked list ...
                std::list<Packet> v;
                for (size_t i = 2; i < l.n.size(); ++i)
                    v.push_back(pk[l.n[i]]);
                frames = enc->encode(v.begin(), v.end(), ctx);
            }
            else if (op == "ENCD")
            {
                // ... a deque (random access, not contiguous) ...
                std::deque<Packet> v;
                for (size_t i = 2; i < l.n.size(); ++i)
                    v.push_back(pk[l.n[i]]);
                frames = enc->encode(v.begin(), v.end(), ctx);
            }
            else if (op == "ENCR")
            {
                // ... reverse iterators over a vector that holds the batch back to front (plus a decoy in front)
                std::vector<Packet> v;
                for (size_t i = l.n.size(); i > 2; --i)
                    v.push_back(pk[l.n[i - 1]]);
                frames = enc->encode(v.rbegin(), v.rend(), ctx);
            }
            else
            {
                std::vector<Packet> v;
                for (size_t i = 2; i < l.n.size(); ++i)
                    v.push_back(pk[l.n[i]]);
                frames = enc->encode(v.begin(), v.end(), ctx);
            }
            if (op != "ENCQ")
                for (auto& f : frames)
                    out << "F " << hex(f) << "\n";
            out << "Q " << frames.size() << " " << enc->getSequenceCounter() << "\n";
        }
        else if (op == "ENCX")
        {
            // ENCX <max> <packet slots...>: an encode() call that leaves by exception (minimum frame size SIZE_MAX -> length_error)
            DataContext ctx{static_cast<size_t>(-1), static_cast<size_t>(N(0))};
            std::vector<Packet> v;
            for (size_t i = 1; i < l.n.size(); ++i)
                v.push_back(pk[l.n[i]]);
            try
            {
                auto fr = enc->encode(v.begin(), v.end(), ctx);
                out << "Q " << fr.size() << " " << enc->getSequenceCounter() << "\n";
            }
            catch (const std::exception&)
            {
                out << "X " << enc->getSequenceCounter() << "\n";
            }
        }
        else if (op == "SCOPY")
        {
            // copy-construct a tracker from the selected one, then copy-assign it into the other slot (both special members)
            Status tmp(stx[stCur]);
            stx[1 - stCur] = tmp;
        }
        else if (op == "SOTHER")
            stCur = 1 - stCur;
        else if (op == "SLEEP")
            std::this_thread::sleep_for(std::chrono::milliseconds(N(0)));
        else if (op == "XRAWHDR")
        {
            // Packet::getRawCmpHeader / getRawMessageHeader into a destination that already holds other data
            if (!pk[N(0)].payload)
            {
                // without a payload there is no message type to serialise (the accessors require one)
                out << "R -\n";
                return;
            }
            uint8_t buf[24];
            memset(buf, static_cast<int>(N(1)), sizeof(buf));
            pk[N(0)].getRawCmpHeader(buf);
            pk[N(0)].getRawMessageHeader(buf + 8);
            out << "R 0 " << hex(buf, sizeof(buf)) << "\n";
        }
        else if (op == "SINIT")
            out << g_initProbe.transcript;
        else if (op == "DNEW")
            dec[N(0)] = std::make_unique<Decoder>();
        else if (op == "DFEED")
            feed(N(0), B(0));
        else if (op == "DNULL")
        {
            // decode(nullptr, n): no data - nothing is returned, nothing changes
            if (!dec.count(N(0)))
                dec[N(0)] = std::make_unique<Decoder>();
            auto res = dec[N(0)]->decode(nullptr, static_cast<size_t>(N(1)));
            long long pc = -1, pb = -1;
#ifdef ASAM_CMP_VERIF
            pc = static_cast<long long>(dec[N(0)]->verifPendingCount());
            pb = static_cast<long long>(dec[N(0)]->verifPendingBytes());
#endif
            out << "N " << res.size() << " " << pc << " " << pb << "\n";
        }
        else if (op == "DCOPY")
        {
            if (dec.count(N(1)))
                dec[N(0)] = std::make_unique<Decoder>(*dec[N(1)]);
        }
        else if (op == "DFRAMES")
        {
            auto fr = frames;
            for (auto& f : fr)
                feed(N(0), f);
        }
        else if (op == "DDROP")
            dec.erase(N(0));
        else if (op == "VALID")
        {
            Placed c(B(0));
            out << "V " << validKind(static_cast<int>(N(0)), c.p, c.n) << "\n";
        }
        else if (op == "VIEW")
        {
            Placed c(B(0));
            int kind = static_cast<int>(N(0));
            bool v = validKind(kind, c.p, c.n);
            out << "V " << v << "\n";
            if (v)
            {
                auto p = makeTyped(kind, c.p, c.n);
                out << viewOf(kind, *p) << "\n";
            }
        }
        else if (op == "PKTNEW")
        {
            Placed c(B(0));
            bool v = Packet::isValidPacket(c.p, c.n);
            out << "V " << v << "\n";
            if (v)
            {
                Packet p(static_cast<CmpHeader::MessageType>(N(0)), c.p, c.n);
                out << obsPacket(p) << "\n";
                // a typed payload accepted by create() must expose in-bounds views only
                int kind = kindOfType(p.getPayload().getType().getType());
                if (kind >= 0)
                    out << viewOf(kind, p.getPayload()) << "\n";
            }
        }
        else if (op == "ONEW")
        {
            ob[N(0)] = makeDefault(static_cast<int>(N(1)));
            obKind[N(0)] = static_cast<int>(N(1));
        }
        else if (op == "ORAW")
        {
            Bytes c(B(0));
            c.shrink_to_fit();
            int kind = static_cast<int>(N(1));
            bool v = validKind(kind, c.data(), c.size());
            out << "V " << v << "\n";
            if (v)
            {
                ob[N(0)] = makeTyped(kind, c.data(), c.size());
                obKind[N(0)] = kind;
            }
        }
        else if (op == "OSHORT")
        {
            // a typed payload object over ANY raw bytes, also fewer than its header (like a moved-from or truncated object)
            Bytes c(B(0));
            c.shrink_to_fit();
            int kind = static_cast<int>(N(1));
            ob[N(0)] = makeTyped(kind, c.data(), c.size());
            obKind[N(0)] = kind;
        }
        else if (op == "ODATASELF")
        {
            // setData with the object's own data pointer: in-place truncation to at most the current data length
            if (!ob.count(N(0)) || !ob[N(0)])
                return;
            Payload* b = ob[N(0)].get();
            int kind = obKind[N(0)];
            size_t hdr = kind == kCan || kind == kCanFd ? 16 : kind == kLin ? 8 : kind == kEth ? 6 : kind == kAnalog ? 16 : 0;
            if (!hdr || b->getLength() < hdr)
                return;
            size_t m = std::min(static_cast<size_t>(N(1)), b->getLength() - hdr);
            const uint8_t* own = b->getRawPayload() + hdr;
            switch (kind)
            {
                case kCan:
                case kCanFd:
                    static_cast<CanPayloadBase*>(b)->setData(own, static_cast<uint8_t>(m));
                    break;
                case kLin:
                    static_cast<LinPayload*>(b)->setData(own, static_cast<uint8_t>(m));
                    break;
                case kEth:
                    static_cast<EthernetPayload*>(b)->setData(own, static_cast<uint16_t>(m));
                    break;
                case kAnalog:
                    static_cast<AnalogPayload*>(b)->setData(own, m);
                    break;
            }
        }
        else if (op == "SUPDSELF")
        {
            // the tracker is fed its OWN stored packet of (device, interface) again, by reference (a re-announce job)
            auto di = st.getIndexByDeviceId(static_cast<uint16_t>(N(0)));
            if (di < st.getDeviceStatusCount())
            {
                auto& ds = st.getDeviceStatus(di);
                auto ii = ds.getIndexByInterfaceId(static_cast<uint32_t>(N(1)));
                if (ii < ds.getInterfaceStatusCount())
                    st.update(ds.getInterfaceStatus(ii).getPacket());
            }
        }
        else if (op == "OSET")
        {
            if (ob.count(N(0)) && ob[N(0)])
                setField(N(0), N(1), static_cast<unsigned long long>(N(2)));
        }
        else if (op == "ODATA")
        {
            if (!ob.count(N(0)) || !ob[N(0)])
                return;
            Bytes d(B(0));
            d.shrink_to_fit();
            Payload* b = ob[N(0)].get();
            switch (obKind[N(0)])
            {
                case kCan:
                case kCanFd:
                    static_cast<CanPayloadBase*>(b)->setData(d.data(), static_cast<uint8_t>(d.size()));
                    break;
                case kLin:
                    static_cast<LinPayload*>(b)->setData(d.data(), static_cast<uint8_t>(d.size()));
                    break;
                case kEth:
                    static_cast<EthernetPayload*>(b)->setData(d.data(), static_cast<uint16_t>(d.size()));
                    break;
                case kAnalog:
                    static_cast<AnalogPayload*>(b)->setData(d.data(), d.size());
                    break;
                case kCm:
                {
                    // strings are handed over as views over exact-size heap blocks WITHOUT a terminator behind them (a string_view
                    // promises none): reading data()[size()] is a heap-buffer-overflow under ASan
                    std::vector<std::vector<char>> keep;
                    keep.reserve(4);
                    auto sv = [&](size_t i) {
                        const Bytes& src = B(i);
                        keep.emplace_back(src.begin(), src.end());
                        keep.back().shrink_to_fit();
                        return std::string_view(keep.back().data() ? keep.back().data() : "", src.size());
                    };
                    std::string_view s0 = sv(0), s1 = sv(1), s2 = sv(2), s3 = sv(3);
                    static_cast<CaptureModulePayload*>(b)->setData(s0, s1, s2, s3, B(4));
                    break;
                }
                case kIf:
                {
                    Bytes ids(B(0)), vd(B(1));
                    ids.shrink_to_fit();
                    vd.shrink_to_fit();
                    static_cast<InterfacePayload*>(b)->setData(
                        ids.data(), static_cast<uint16_t>(ids.size()), vd.data(), static_cast<uint16_t>(vd.size()));
                    break;
                }
            }
        }
        else if (op == "OSHOW")
            showObj(N(0));
        else if (op == "OPKT")
        {
            if (ob.count(N(0)) && ob[N(0)])
                pk[N(1)].setPayload(*ob[N(0)]);
        }
        else if (op == "OFRAME")
        {
            // hand-laid frame around the object's raw bytes: version 1, device 1, stream 1, counter 0, timestamp 0
            if (!ob.count(N(0)) || !ob[N(0)])
                return;
            const Payload& p = *ob[N(0)];
            Bytes f(24 + p.getLength(), 0);
            f[0] = 1;
            f[3] = 1;
            f[4] = static_cast<uint8_t>(p.getType().getType() >> 8);
            f[5] = 1;
            f[21] = static_cast<uint8_t>(p.getType().getType());
            f[22] = static_cast<uint8_t>(p.getLength() >> 8);
            f[23] = static_cast<uint8_t>(p.getLength());
            if (p.getLength())
                memcpy(f.data() + 24, p.getRawPayload(), p.getLength());
            feed(N(1), f);
        }
        else if (op == "XCOPY")
        {
            Packet c(pk[N(1)]);
            pk.erase(N(0));
            pk.emplace(N(0), std::move(c));
        }
        else if (op == "XMOVE")
        {
            Packet c(std::move(pk[N(1)]));
            pk.erase(N(0));
            pk.emplace(N(0), std::move(c));
        }
        else if (op == "XASG")
            pk[N(0)] = pk[N(1)];
        else if (op == "XMASG")
            pk[N(0)] = std::move(pk[N(1)]);
        else if (op == "XEQ")
            out << "B " << (pk[N(0)] == pk[N(1)]) << " " << (pk[N(0)] != pk[N(1)]) << "\n";
        else if (op == "XSHOW")
            out << obsPacket(pk[N(0)]) << "\n";
        else if (op == "XMUT")
        {
            Packet& p = pk[N(0)];
            p.setTimestamp(p.getTimestamp() + 1);
            p.setCommonFlags(static_cast<uint8_t>(p.getCommonFlags() ^ 1));
            if (p.payload && p.payload->getLength())
                p.payload->payloadData[0] ^= 0xFF;
        }
        else if (op == "XETH")
        {
            // the idiom of example/main.cpp: edit the payload the packet already owns, through the non-const getPayload()
            Packet& p = pk[N(0)];
            if (p.payload)
            {
                Bytes d(B(0));
                d.shrink_to_fit();
                static_cast<EthernetPayload&>(p.getPayload()).setData(d.data(), static_cast<uint16_t>(d.size()));
            }
        }
        else if (op == "XFLAGS")
        {
            // one header field of the payload the packet owns, through the typed setter (no resize, no raw poke)
            Packet& p = pk[N(0)];
            if (p.payload && p.payload->getLength() >= 6)
                static_cast<EthernetPayload&>(p.getPayload()).setFlags(static_cast<uint16_t>(N(1)));
        }
        else if (op == "XTYPE")
        {
            Packet& p = pk[N(0)];
            if (p.payload)
            {
                if (N(3) == 1)
                    p.payload->setType(PayloadType(static_cast<CmpHeader::MessageType>(N(1) & 255), static_cast<uint8_t>(N(2))));
                else
                {
                    p.payload->setMessageType(static_cast<CmpHeader::MessageType>(N(1) & 255));
                    p.payload->setRawPayloadType(static_cast<uint8_t>(N(2)));
                }
            }
        }
        else if (op == "YCOPY")
        {
            if (ob.count(N(1)) && ob[N(1)])
            {
                ob[N(0)] = std::make_unique<Payload>(*ob[N(1)]);
                obKind[N(0)] = obKind[N(1)];
            }
        }
        else if (op == "YASG")
        {
            if (ob.count(N(1)) && ob[N(1)] && ob.count(N(0)) && ob[N(0)])
            {
                *ob[N(0)] = *ob[N(1)];
                obKind[N(0)] = obKind[N(1)];
            }
        }
        else if (op == "YEQ")
        {
            if (ob.count(N(1)) && ob[N(1)] && ob.count(N(0)) && ob[N(0)])
                out << "B " << (*ob[N(0)] == *ob[N(1)]) << " 0\n";
        }
        else if (op == "YMUT")
        {
            if (ob.count(N(0)) && ob[N(0)] && ob[N(0)]->getLength())
                ob[N(0)]->payloadData[0] ^= 0xFF;
        }
        else if (op == "TEQ")
        {
            TECMP::Payload a(TECMP::PayloadType(static_cast<uint32_t>(N(0))), B(0).data(), B(0).size());
            TECMP::Payload b(TECMP::PayloadType(static_cast<uint32_t>(N(1))), B(1).data(), B(1).size());
            out << "B " << (a == b) << " " << (a == a) << "\n";
        }
        else if (op == "SUPD")
            st.update(pk[N(0)]);
        else if (op == "SRMDEV")
            st.removeDeviceById(static_cast<uint16_t>(N(0)));
        else if (op == "SRMIF")
        {
            auto i = st.getIndexByDeviceId(static_cast<uint16_t>(N(0)));
            if (i < st.getDeviceStatusCount())
                st.getDeviceStatus(i).removeInterfaceById(static_cast<uint32_t>(N(1)));
        }
        else if (op == "SCLR")
            st.clear();
        else if (op == "SSHOW")
        {
            const Status& cs = st;
            out << "S " << cs.getDeviceStatusCount() << "\n";
            for (size_t i = 0; i < cs.getDeviceStatusCount(); ++i)
            {
                const DeviceStatus& d = cs.getDeviceStatus(i);
                out << "SD " << d.getInterfaceStatusCount() << " " << obsPacket(d.getPacket()).substr(2) << "\n";
                for (size_t j = 0; j < d.getInterfaceStatusCount(); ++j)
                    out << "SI " << d.getInterfaceStatus(j).getInterfaceId() << " " << obsPacket(d.getInterfaceStatus(j).getPacket()).substr(2) << "\n";
                out << "SY";
                for (size_t q = 0; q < l.n.size(); ++q)
                    out << " " << d.getIndexByInterfaceId(static_cast<uint32_t>(l.n[q]));
                out << "\n";
            }
            out << "SX";
            for (size_t q = 0; q < l.n.size(); ++q)
                out << " " << cs.getIndexByDeviceId(static_cast<uint16_t>(l.n[q]));
            out << "\n";
        }
        else if (op == "ACC")
        {
            // ACC <class-id> <method-id> <arg> <arg2> x<mem>
            Bytes mem(B(0));
            unsigned long long ret = 0;
            int hasRet = 0;
            bool ok = accDispatch(static_cast<int>(N(0)), static_cast<int>(N(1)), mem, static_cast<unsigned long long>(N(2)), static_cast<unsigned long long>(N(3)), ret, hasRet);
            if (!ok)
                out << "A ?\n";
            else if (hasRet)
                out << "A " << hex(mem) << " " << ret << "\n";
            else
                out << "A " << hex(mem) << "\n";
        }
        else if (op == "FWD")
        {
            // FWD <wrapper-id> <arg> <arg2> x<image of the payload>
            Bytes mem(B(0));
            unsigned long long ret = 0;
            int hasRet = 0;
            bool ok = fwdDispatch(static_cast<int>(N(0)), mem, static_cast<unsigned long long>(N(1)), static_cast<unsigned long long>(N(2)), ret, hasRet, static_cast<int>(N(3)));
            if (!ok)
                out << "A ?\n";
            else if (hasRet)
                out << "A " << hex(mem) << " " << ret << "\n";
            else
                out << "A " << hex(mem) << "\n";
        }
        else if (op == "DEF")
        {
            Bytes b;
            if (accDefault(static_cast<int>(N(0)), b))
                out << "A " << hex(b) << "\n";
            else
                out << "A ?\n";
        }
        else
            out << "UNKNOWN-OP " << op << "\n";
    }

    void finish()
    {
        // C02: returned packets stay intact after further decoding and after every decoder is destroyed
        dec.clear();
        enc.reset();
        for (auto& e : late)
            if (obsPacket(*e.first) != e.second)
                out << "LATE-MISMATCH " << e.second << "\n";
    }
};

static std::string runCase(const std::vector<std::string>& lines)
{
    World w;
    for (auto& s : lines)
        w.run(parse(s));
    w.finish();
    return w.out.str();
}

int main(int argc, char** argv)
{
    std::locale::global(std::locale(std::locale::classic(), new HostileNumpunct));
    std::cout.imbue(std::locale::classic());
    // VERIF_FILL: hex string (1..16 bytes) repeated over every fresh operator-new block
    const char* fill = getenv("VERIF_FILL");
    if (fill && *fill)
    {
        size_t len = strlen(fill) / 2;
        for (size_t i = 0; i < len && i < sizeof(g_fillPat); ++i)
        {
            unsigned v = 0;
            sscanf(fill + 2 * i, "%2x", &v);
            g_fillPat[g_fillLen++] = static_cast<unsigned char>(v);
        }
    }
    int threads = 1;
    const char* path = nullptr;
    for (int i = 1; i < argc; ++i)
    {
        if (!strcmp(argv[i], "--threads") && i + 1 < argc)
            threads = atoi(argv[++i]);
        else
            path = argv[i];
    }
    std::ifstream fin;
    if (path)
        fin.open(path);
    std::istream& in = path ? static_cast<std::istream&>(fin) : std::cin;

    std::vector<std::string> ids;
    std::vector<std::vector<std::string>> cases;
    std::string s;
    while (std::getline(in, s))
    {
        if (s.empty() || s[0] == '#')
            continue;
        if (s.compare(0, 5, "CASE ") == 0)
        {
            ids.push_back(s);
            cases.emplace_back();
        }
        else if (!cases.empty())
            cases.back().push_back(s);
    }
    if (threads <= 1)
    {
        for (size_t i = 0; i < cases.size(); ++i)
        {
            // announce first so that a crash is attributable to this case
            std::cout << ids[i] << std::endl;
            std::cout << runCase(cases[i]) << "END" << std::endl;
        }
        return 0;
    }
    std::vector<std::string> outs(cases.size());
    std::atomic<size_t> next{0};
    std::vector<std::thread> ts;
    for (int t = 0; t < threads; ++t)
        ts.emplace_back(
            [&]
            {
                for (;;)
                {
                    size_t i = next.fetch_add(1);
                    if (i >= cases.size())
                        return;
                    outs[i] = runCase(cases[i]);
                }
            });
    for (auto& t : ts)
        t.join();
    for (size_t i = 0; i < cases.size(); ++i)
        std::cout << ids[i] << "\n" << outs[i] << "END\n";
    return 0;
}
