#!/bin/bash
# try_seed.sh <seeded dir> <property id>... : applies the seeded change to /repo, runs the quick checks, undoes it
D="$1"; shift
git -C /repo apply "$D/patch.diff" || exit 2
for p in "$@"; do echo "== $p"; (cd /verif && timeout 1500 bin/check $p --tier quick 2>&1 | grep -E "VIOLATION|KNOWN" | head -4; echo "exit ${PIPESTATUS[0]}"); done
git -C /repo checkout -- .
git -C /repo status --short | head -3
