#!/bin/bash
# build_harness.sh <outdir> [variant]   variant: asan (default) | tsan | plain
# Compiles /repo's current sources and the correspondence harness into <outdir>/harness_<variant>.
set -e
OUT="$1"; VAR="${2:-asan}"
REPO="${VERIF_REPO:-/repo}"
mkdir -p "$OUT/obj_$VAR"
case "$VAR" in
  asan) SAN="-O1 -g -fsanitize=address,undefined -fno-sanitize=vptr,alignment,nonnull-attribute -fno-sanitize-recover=all" ;;
  tsan) SAN="-O1 -g -fsanitize=thread" ;;
  plain) SAN="-O2 -DVERIF_NO_NEW_OVERRIDE" ;;
esac
CXXF="-std=c++17 $SAN -DASAM_CMP_VERIF -I$REPO/include -pthread"
# the library objects are compiled as a release library would be (-DNDEBUG), the harness as a client without it: class layouts or
# inline code in the public headers that depend on such a macro then disagree between the two, as they would for a user
ls "$REPO"/src/*.cpp | xargs -P 16 -I{} sh -c 'g++ '"$CXXF"' -DNDEBUG -c {} -o '"$OUT/obj_$VAR"'/$(basename {} .cpp).o' 
[ -f "$OUT/gen_dispatch.inc" ] || cp /verif/harness/gen_dispatch_stub.inc "$OUT/gen_dispatch.inc"
g++ $CXXF -fno-access-control -I"$OUT" /verif/harness/cmp_harness.cpp "$OUT/obj_$VAR"/*.o -o "$OUT/harness_$VAR"
