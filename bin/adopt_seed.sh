#!/bin/bash
# adopt_seed.sh <worktree> <name> : copies a sub-agent's MUTATION into /verif/seeded/<name> and removes the scratch worktree
WT="$1"; NAME="$2"; D=/verif/seeded/$NAME
mkdir -p "$D" && cp "$WT/MUTATION/patch.diff" "$WT/MUTATION/demo.cpp" "$WT/MUTATION/README.md" "$D/" || exit 2
git -C /repo worktree remove --force "$WT"; rm -rf "$WT"
ls "$D"
