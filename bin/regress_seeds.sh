#!/bin/bash
# regress_seeds.sh [<name> ...] : applies every seeded change (default: all under seeded/) to $VERIF_REPO (default /repo) in turn, runs the
# quick check of the property its meta.json names, and undoes it. One line per seed: caught with a failing input / caught without / MISSED.
V=$(cd "$(dirname "$0")/.." && pwd); R="${VERIF_REPO:-/repo}"
cd "$V"
for n in ${@:-$(ls seeded)}; do
  [ -f seeded/$n/meta.json ] || continue
  # the check to run: the property the seed was written for, unless its meta says that another check is the one that detects it
  p=$(python3 -c "import json;m=json.load(open('seeded/$n/meta.json'));d=list(m.get('detected_by',{}));print(m['property'] if (m['property'] in d or not d) else d[0])")
  git -C "$R" apply --whitespace=nowarn "$V/seeded/$n/patch.diff" 2>/dev/null || { echo "$n $p PATCH-DOES-NOT-APPLY"; git -C "$R" checkout -- . ; continue; }
  out=$(timeout 3000 bin/check $p --tier quick 2>&1); rc=$?
  if [ $rc -eq 0 ]; then echo "$n $p MISSED"
  elif echo "$out" | grep "VIOLATION" | grep -qv "no-failing-input-found"; then echo "$n $p caught-with-input"
  else echo "$n $p caught-no-input"; fi
  git -C "$R" checkout -- .
done
git -C "$R" status --short | head -3
