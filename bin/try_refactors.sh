#!/bin/bash
# try_refactors.sh [<name> ...] : applies each behaviour-preserving refactoring under /verif/refactors/<name>/patch.diff to /repo in turn,
# runs ALL quick checks, and restores the tree. Expected: every check exits 0 (a broken tie without a failing input is reported as such).
V=$(cd "$(dirname "$0")/.." && pwd); R="${VERIF_REPO:-/repo}"
cd "$V"
for n in ${@:-$(ls refactors)}; do
  git -C "$R" apply --whitespace=nowarn "$V/refactors/$n/patch.diff" || { echo "$n: patch does not apply"; git -C "$R" checkout -- .; continue; }
  for p in C01 C02 C03 C04 C05 C06 C07 C08 C09 C10 C11 C12 C13 C14 C15 C16 C17 C18 C19 C20; do
    out=$(timeout 3000 bin/check $p --tier quick 2>&1); rc=$?
    [ $rc -ne 0 ] && echo "$n $p rc=$rc $(echo "$out" | grep -A1 -E 'VIOLATION' | head -4 | cut -c1-400 | tr '\n' '|')"
  done
  echo "$n done"
  git -C "$R" checkout -- .
done
git -C "$R" status --short | head -3
