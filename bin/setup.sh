#!/bin/bash
# setup.sh [model]  — offline build of the framework: full .vo compilation of the Coq development (proofs included),
# extraction of the executable models and the OCaml driver. With argument "model" only the model part is rebuilt.
set -e
V=$(cd "$(dirname "$0")/.." && pwd)
# tie T: regenerate the accessor models / layouts / inventories from /repo's current sources into coq/gen
python3 -c "import sys; sys.path.insert(0,'$V/lib'); import runner; runner.gen_sync()"
cd $V/coq
[ -f Makefile ] || coq_makefile -f _CoqProject -o Makefile >/dev/null
coq_makefile -f _CoqProject -o Makefile >/dev/null
if [ "$1" = "model" ]; then
  timeout 1800 make -j16 theories/Interp.vo 2>&1 | grep -v '^COQ' || true
else
  timeout 3000 make -k -j16 2>&1 | grep -v '^COQ' || true
fi
mkdir -p $V/.work/ml
cd $V/.work/ml
timeout 600 coqc -Q $V/coq/theories CMP -Q $V/coq/gen CMPGen $V/coq/theories/Extract.v >/dev/null
cp $V/ocaml/driver.ml .
timeout 600 ocamlfind ocamlopt -O3 -w -a model.mli model.ml driver.ml -o model_driver.tmp 2>/dev/null
mv model_driver.tmp model_driver
echo "setup done"
