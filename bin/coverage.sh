#!/bin/bash
# coverage.sh : diagnostic, not a registered check. Measures which lines / branches of /repo/src the quick-tier inputs of all 20
# checks execute (gcov build of the library + harness), to expose code no generator reaches - there the differential tie is blind.
# Output: /verif/.work/cov/summary.txt (per file) and uncovered.txt (source lines never executed).
set -e
cd /verif
COV=/verif/.work/cov; rm -rf $COV; mkdir -p $COV/obj $COV/scripts
W=$(python3 -c "import sys; sys.path.insert(0,'lib'); import common; print(common.workdir())")
python3 -c "import sys; sys.path.insert(0,'lib'); import common; common.ensure_harness('asan')" >/dev/null
CXXF="-std=c++17 -O0 -g --coverage -DASAM_CMP_VERIF -I/repo/include -pthread"
ls /repo/src/*.cpp | xargs -P 16 -I{} sh -c 'g++ '"$CXXF"' -c {} -o '"$COV/obj"'/$(basename {} .cpp).o'
g++ $CXXF -fno-access-control -I"$W" harness/cmp_harness.cpp $COV/obj/*.o -o $COV/harness_cov
for id in ${@:-C01 C02 C03 C04 C05 C06 C07 C08 C09 C10 C11 C12 C13 C14 C15 C16 C17 C18 C19 C20}; do
  VERIF_KEEP_SCRIPTS=$COV/scripts/$id bin/check $id --tier quick --no-coq >/dev/null 2>&1 || true
done
for s in $COV/scripts/*/*.txt; do timeout 600 $COV/harness_cov $s >/dev/null 2>&1 || true; done
cd $COV/obj
: > $COV/summary.txt; : > $COV/uncovered.txt
for f in /repo/src/*.cpp; do
  b=$(basename $f .cpp)
  gcov -b -o . $f > gcov_$b.log 2>/dev/null || true
  grep -A3 "File '/repo/src/$b.cpp'" gcov_$b.log | tr '\n' ' ' >> $COV/summary.txt; echo >> $COV/summary.txt
  [ -f $b.cpp.gcov ] && grep -n "#####" $b.cpp.gcov | sed "s/^/$b.cpp: /" >> $COV/uncovered.txt || true
done
cat $COV/summary.txt | cut -c1-200
echo "uncovered lines: $(wc -l < $COV/uncovered.txt)  (see $COV/uncovered.txt)"
