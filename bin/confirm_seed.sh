#!/bin/bash
# confirm_seed.sh <seeded dir> : in a scratch worktree (removed afterwards) confirms that the seeded change compiles, passes the
# existing suite, and that its demonstration fails with the change and passes without it. Prints a JSON fragment.
D="$1"; N=$(basename "$D"); WT=/tmp/confirm_$N
git -C /repo worktree remove --force $WT 2>/dev/null; rm -rf $WT
git -C /repo worktree add -q $WT HEAD || exit 2
cd $WT
EXTRA=""; grep -q "ASAM_CMP_VERIF" "$D/demo.cpp" && EXTRA="-DASAM_CMP_VERIF"
grep -q "pthread\|std::thread" "$D/demo.cpp" && EXTRA="$EXTRA -pthread"
g++ -std=c++17 $EXTRA -I include "$D/demo.cpp" src/*.cpp -o demo_clean 2>/dev/null; ./demo_clean >/dev/null 2>&1; CLEAN=$?
git apply "$D/patch.diff" || { echo "patch does not apply"; exit 2; }
(cmake -G Ninja -B _build -DCMAKE_BUILD_TYPE=RelWithDebInfo >/dev/null && cmake --build _build >/dev/null 2>&1) ; BUILD=$?
TESTS=$(./_build/bin/test_asam_cmp 2>&1 | grep -E "PASSED|FAILED" | head -2 | tr '\n' ' ')
g++ -std=c++17 $EXTRA -I include "$D/demo.cpp" src/*.cpp -o demo_mut 2>/dev/null; timeout 120 ./demo_mut >/dev/null 2>&1; MUT=$?
cd /; git -C /repo worktree remove --force $WT
echo "{\"build_rc\": $BUILD, \"suite\": \"$TESTS\", \"demo_exit_without_change\": $CLEAN, \"demo_exit_with_change\": $MUT}"
