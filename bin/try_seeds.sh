#!/bin/bash
# try_seeds.sh <name>:<ids,comma> ... : applies each seeded change to /repo in turn, runs the quick checks of the given properties, undoes it
cd /verif
for spec in "$@"; do
  n=${spec%%:*}; ids=${spec#*:}
  git -C /repo apply /verif/seeded/$n/patch.diff || { echo "$n: patch does not apply"; continue; }
  for p in ${ids//,/ }; do
    out=$(timeout 3000 bin/check $p --tier quick 2>&1); rc=$?
    echo "$n $p rc=$rc $(echo "$out" | grep -E 'VIOLATION' | head -2 | tr '\n' '|')"
  done
  git -C /repo checkout -- .
done
git -C /repo status --short | head -3
