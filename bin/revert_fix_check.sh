#!/bin/bash
# revert_fix_check.sh [<fix id> ...] : for each repaired defect listed in known_findings.json (kind "fixed"), temporarily reverts its
# "fix:" commit in /repo's working tree, runs the quick check of the property it belongs to, and restores the tree.
# A fixed entry suppresses nothing: every line must show rc=1 with a VIOLATION (and no KNOWN-FINDING line).
cd /verif
python3 - "$@" <<'PY' > /tmp/rfc_list.$$
import json, sys
want = set(sys.argv[1:])
for f in json.load(open('/verif/known_findings.json'))['findings']:
    fid = f['what'].split(':')[0].replace(' ', '')
    if f.get('kind') == 'fixed' and (not want or fid in want):
        print(fid, f['property'], f['commit'])
PY
while read id prop commit; do
  git -C /repo show $commit -- src include | git -C /repo apply -R 2>/dev/null || { echo "$id: cannot revert $commit cleanly"; git -C /repo checkout -- .; continue; }
  out=$(timeout 3000 bin/check $prop --tier quick 2>&1); rc=$?
  echo "$id $prop $commit rc=$rc $(echo "$out" | grep -E 'VIOLATION|KNOWN-FINDING' | head -1)"
  git -C /repo checkout -- .
done < /tmp/rfc_list.$$
rm -f /tmp/rfc_list.$$
git -C /repo status --short | head -3
