#!/usr/bin/env python3
"""Writes /verif/MANIFEST.json from the table below (kept in one place so that it stays consistent)."""
import json, os
V = '/verif'
CLAIMED = {
 'C01': ('encode-then-decode round trip: Coq theorem on the encoder/decoder models (encode refines the greedy packing spec; the decoder returns the flattened messages of any serialised group list) + differential correspondence model/implementation + Python oracle of the expected packets applied to the implementation', '4/C01'),
 'C02': ('decode never reads outside the buffer / never exhausts fuel, for every byte string and state: Coq theorems decode_total, tecmp_total over models whose every read carries an extent check; partial: lifetime, const-ness and promptness are exercised by the ASan/UBSan harness only', '4/C02, 6'),
 'C03': ('validator acceptance implies in-bounds accessors: Coq theorems per payload class over checked-read view models + ASan correspondence on exact-size buffers', '4/C03'),
 'C04': ('decoded packets equal the big-endian wire fields: Coq theorem over an independent table-driven serialiser + correspondence with frames from an independent Python serialiser and reference decoder', '4/C04'),
 'C05': ('chain delivered exactly once at its last segment under any interleaving, any state, any counters/chunk sizes/trailing bytes: Coq theorems chain_delivers_interleaved (+isolation_per_call) + correspondence', '4/C05'),
 'C06': ('faulty streams never yield a corrupted packet: Coq invariant over all histories drawn from sent and corrupted frames + correspondence with exhaustive single-fault positions', '4/C06'),
 'C07': ('every frame well-formed and within bounds: Coq theorem that the model\'s frames pass the walker judge + independent Python walker on the implementation\'s frames', '4/C07'),
 'C08': ('segmentation/aggregation rules: Coq refinement theorem encode = ser o pack for all batches + correspondence + Python pack spec on the implementation', '4/C08'),
 'C09': ('consecutive counters and identity over any operation history incl. the wrap: Coq induction over operation lists + correspondence incl. one 68000-frame history', '4/C09'),
 'C10': ('encoder output independent of earlier calls: Coq theorem (encode reads only dev/stream/seq of the state) + correspondence on (history, batch) pairs', '4/C10'),
 'C11': ('set changes that field only: generated Gallina models of every accessor (translator over clang AST, regenerated each run) proved equal to the spec accessors of the independent layout table by a reflective bit-vector checker, for all memory images and in-range values', '4/C11'),
 'C12': ('wire layout: same obligations as C11 against SpecLayout.v (offset, width, bit range, big-endian), sizes and default initialisers from clang record layouts', '4/C12'),
 'C13': ('builders store data faithfully: Coq theorems per builder (getters return the data, canon bytes independent of prior content, validator accepts) + correspondence over all lengths 0..255', '4/C13'),
 'C14': ('value semantics: Coq theorems on the packet/payload value model (copy/assign/move, equality reflexive/symmetric/field-wise); partial: absence of shared state is aliasing and is exercised by the harness (mutate the copy, re-read the original)', '4/C14, 6'),
 'C15': ('TECMP conversion: Coq theorems over the TECMP model (supported kinds carry the big-endian fields, everything else yields no packet) + correspondence with table-built frames and a dispatch sweep', '4/C15'),
 'C16': ('status tracker refines a latest-message map: Coq refinement theorem by induction over operation lists + correspondence', '4/C16'),
 'C17': ('pending reassembly state only for open chains: Coq theorems reachable_inv, pending_isolation, entry_after_frame + hook-based correspondence (pending count / bytes after every call)', '4/C17'),
 'C18': ('endpoint isolation for all histories of arbitrary buffers: Coq theorems isolation, isolation_per_call, noncmp_transparent + correspondence with projected runs on the implementation', '4/C18'),
 'C19': ('independent instances under any schedule: Coq theorem on product machines + generated inventory obligation (no mutable static-storage object in the current sources); partial: data races cannot be exhibited by a pure model, exercised by threaded harness runs (and TSan in the thorough tier)', '4/C19, 6'),
 'C20': ('no uninitialised bytes: generated inventory obligations (every header member has a default initialiser, no indeterminate allocation form) + definedness theorems; partial: contents of indeterminate memory are exercised with two allocation fill patterns', '4/C20, 6'),
}
READY = os.environ.get('VERIF_READY', '').split() or [l.strip() for l in open(os.path.join(V, 'bin', 'ready.txt')) if l.strip()]
NOTE = ('trusted: Coq 8.16.1 kernel + VM (vm_compute), no axioms declared (Print Assumptions per theorem recorded in the evidence); translator/cxx2coq.py + clang 14 dumps (tie T); '
        'SpecLayout.v transcription of the protocol layouts; extraction via ExtrOcamlBasic only + ocaml/driver.ml; harness, generators, Python reference specs; g++ 12 ASan/UBSan. '
        'Layer-B models (encoder, decoder, validators, builders, TECMP, status) are hand-written and tied to /repo by differential testing on every run, layer-A accessors are re-translated from the sources on every run.')
checks = []
na = []
for pid in sorted(CLAIMED):
    text, ref = CLAIMED[pid]
    if pid in READY:
        checks.append(dict(property_id=pid, quick_cmd='bin/check %s --tier quick' % pid, thorough_cmd='bin/check %s --tier thorough' % pid,
                           evidence_file='/verif/evidence/%s.json' % pid, replay_cmd_template='bin/replay {path}', engine='coq-proof+correspondence',
                           level_claimed=dict(category='proof', text=text, design_ref='DESIGN.md section ' + ref + '; as built: section 8.3 (theorems and domains), 8.13 (trusted base)'), level_note=NOTE,
                           technique='machine-checked proof in Coq 8.16 over a model tied to the code (translator for accessors, differential correspondence for codecs)'))
    else:
        na.append(dict(property_id=pid, reason='not claimed yet: the Coq theorem file for this property is still being built in this session (technique applies; see DESIGN.md section %s)' % ref))
m = dict(version=1, setup_cmd='bin/setup.sh',
         hooks=dict(guard='ASAM_CMP_VERIF', enable='checks compile /repo/src/*.cpp and harness/cmp_harness.cpp with -DASAM_CMP_VERIF (bin/build_harness.sh)',
                    baseline_off_cmd='cmake --build /repo/_build && ctest --test-dir /repo/_build -j8 --timeout 900',
                    source_commits=['1c5a1e1'], add_only=True),
         engines=[dict(name='coq-proof+correspondence', path='/verif/bin/check', serves_properties=sorted(READY),
                       kind_free_text='Coq 8.16.1 theorems (coq/theories/Properties_<id>.v) over executable Gallina models; models tied to /repo by translator/cxx2coq.py (accessors, layouts, inventories) and by differential correspondence between the ASan harness and the extracted OCaml model')],
         checks=checks, not_applicable=na,
         notes='One entry point: bin/check <id> [--tier quick|thorough], seed from VERIF_SEED. Replays are written under /verif/evidence/replays. known_findings.json lists 22 repaired defects (kind=fixed) and no open finding.')
json.dump(m, open(os.path.join(V, 'MANIFEST.json'), 'w'), indent=1)
print('claimed', len(checks), 'not yet', len(na))
