(* C03: a payload accepted by its class validator exposes only in-bounds data: every accessor read succeeds (no read outside the
   buffer) and every variable-length view (offset, length) lies inside the payload. *)
Require Import CMP.Bytes CMP.Packet.
Local Open Scope Z_scope.
Local Open Scope bool_scope.
Ltac Zify.zify_post_hook ::= Z.div_mod_to_equations.

Lemma rdv_some d off n : 0 <= off -> off + n <= zlen d -> rdv d off n = Some (be_dec (take n (drop off d))).
Proof.
  intros H1 H2. unfold rdv. destruct (Z.leb_spec 0 off); [|lia]. destruct (Z.leb_spec (off + n) (zlen d)); [|lia]. reflexivity.
Qed.

Lemma u16_rdv d off : rdv d off 2 = Some (u16 d off) \/ rdv d off 2 = None.
Proof. unfold rdv, u16. destruct (_ && _); auto. Qed.

Lemma be_dec_nonneg' l : bytes_ok l -> 0 <= be_dec l.
Proof. intros H. destruct (be_dec_bound l H). assumption. Qed.
Lemma u16_nonneg d off : bytes_ok d -> 0 <= u16 d off.
Proof. intros H. unfold u16. apply be_dec_nonneg'. apply bytes_ok_take, bytes_ok_drop, H. Qed.
Lemma rd1_nonneg d off : bytes_ok d -> 0 <= be_dec (take 1 (drop off d)).
Proof. intros H. apply be_dec_nonneg'. apply bytes_ok_take, bytes_ok_drop, H. Qed.

(* one-byte checked read = the byte the validator looked at *)
Lemma be_dec_single x : be_dec [x] = x.
Proof. unfold be_dec. cbn. lia. Qed.
Lemma take1_drop d off : 0 <= off -> off < zlen d -> take 1 (drop off d) = [u8 d off].
Proof.
  intros H1 H2. unfold take, drop, u8, zlen in *. change (Z.to_nat 1) with 1%nat.
  set (k := Z.to_nat off). assert (Hk : (k < length d)%nat) by (subst k; lia). clearbody k. clear H1 H2.
  revert d Hk. induction k as [|k IH]; intros d Hk.
  - destruct d; [cbn in Hk; lia|]. reflexivity.
  - destruct d; [cbn in Hk; lia|]. cbn [skipn nth]. apply IH. cbn in Hk. lia.
Qed.
Lemma rd1_u8 d off : 0 <= off -> off < zlen d -> be_dec (take 1 (drop off d)) = u8 d off.
Proof. intros. rewrite take1_drop by assumption. apply be_dec_single. Qed.

(* positions of the (offset, length) views inside the number list of each kind (same table as lib/props_misc.py VIEWS) *)
Definition pr (a b : nat) : nat * nat := (a, b).
Definition views_of (k : Z) : list (nat * nat) :=
  if k =? 1 then [pr 10 11] else if k =? 2 then [pr 13 14] else if k =? 3 then [pr 5 6] else if k =? 8 then [pr 2 3]
  else if k =? 7 then [pr 7 8] else if k =? 49 then [pr 7 8; pr 9 10; pr 11 12; pr 13 14; pr 16 15; pr 17 18]
  else if k =? 50 then [pr 11 10; pr 13 12] else [].
Definition view_ok (w : list Z) (n : Z) (ol : nat * nat) : Prop :=
  let o := nth (fst ol) w 0 in let l := nth (snd ol) w 0 in o = -1 \/ (0 <= o /\ 0 <= l /\ o + l <= n).
Definition in_bounds (k : Z) (w : list Z) (n : Z) : Prop := Forall (view_ok w n) (views_of k).

Ltac rd_ok := rewrite rdv_some by lia; cbn [obind].

Lemma valid_can_views fd d : bytes_ok d -> valid_can d = true ->
  exists w, view_can fd d = Some w /\ in_bounds (if fd then 2 else 1) w (zlen d).
Proof.
  intros Hb H. unfold valid_can in H.
  apply andb_true_iff in H as [H H4]. apply andb_true_iff in H as [H H3]. apply andb_true_iff in H as [H1 H2].
  apply Z.leb_le in H1, H4.
  unfold view_can. repeat rd_ok.
  rewrite (rd1_u8 d 15) by lia.
  eexists. split; [reflexivity|].
  pose proof (rd1_nonneg d 15 Hb) as Hn. rewrite (rd1_u8 d 15) in Hn by lia.
  destruct fd; unfold in_bounds, views_of; cbn [Z.eqb Pos.eqb]; constructor; [|constructor| |constructor];
    unfold view_ok, pr; cbn [fst snd app nth];
    (destruct (u8 d 15 =? 0); [left; reflexivity | right; lia]).
Qed.

Lemma valid_lin_views d : bytes_ok d -> valid_lin d = true -> exists w, view_lin d = Some w /\ in_bounds 3 w (zlen d).
Proof.
  intros Hb H. unfold valid_lin in H. apply andb_true_iff in H as [H1 H2]. apply Z.leb_le in H1, H2.
  unfold view_lin. repeat rd_ok. rewrite (rd1_u8 d 7) by lia.
  eexists. split; [reflexivity|].
  pose proof (rd1_nonneg d 7 Hb) as Hn. rewrite (rd1_u8 d 7) in Hn by lia.
  unfold in_bounds, views_of; cbn [Z.eqb Pos.eqb]. constructor; [|constructor].
  unfold view_ok, pr; cbn [fst snd app nth]. destruct (u8 d 7 =? 0); [left; reflexivity | right; lia].
Qed.

Lemma valid_eth_views d : bytes_ok d -> valid_eth d = true -> exists w, view_eth d = Some w /\ in_bounds 8 w (zlen d).
Proof.
  intros Hb H. unfold valid_eth in H. apply andb_true_iff in H as [H H3]. apply andb_true_iff in H as [H1 H2].
  apply Z.leb_le in H1, H3. unfold view_eth. repeat rd_ok.
  eexists. split; [reflexivity|].
  pose proof (u16_nonneg d 4 Hb) as Hn. unfold u16 in *.
  unfold in_bounds, views_of; cbn [Z.eqb Pos.eqb]. constructor; [|constructor].
  unfold view_ok, pr; cbn [fst snd app nth]. destruct (be_dec (take 2 (drop 4 d)) =? 0); [left; reflexivity | right; lia].
Qed.

Lemma valid_analog_views d : bytes_ok d -> valid_analog d = true -> exists w, view_analog d = Some w /\ in_bounds 7 w (zlen d).
Proof.
  intros Hb H. unfold valid_analog in H. apply andb_true_iff in H as [H1 H2]. apply Z.leb_le in H1.
  unfold view_analog. repeat rd_ok.
  eexists. split; [reflexivity|].
  unfold in_bounds, views_of; cbn [Z.eqb Pos.eqb]. constructor; [|constructor].
  unfold view_ok, pr; cbn [fst snd nth].
  set (ssz := if Z.land (be_dec (take 2 (drop 0 d))) 3 =? 0 then 2 else 4).
  assert (Hs : ssz = 2 \/ ssz = 4) by (subst ssz; destruct (_ =? 0); auto).
  clearbody ssz.
  destruct ((zlen d - 16) / ssz =? 0); [left; reflexivity|right].
  assert (0 <= (zlen d - 16) / ssz) by (apply Z.div_pos; lia).
  assert ((zlen d - 16) / ssz * ssz <= zlen d - 16) by (destruct Hs as [-> | ->]; lia).
  lia.
Qed.

(* length-prefixed blocks: what the validator walked is what the accessors read *)
Lemma walk_block k d pos e : bytes_ok d -> 0 <= pos ->
  walk (S k) d (zlen d) pos = Some e ->
  exists len, block d pos = Some (pos + 2, len, pos + 2 + len) /\ 0 <= len /\ pos + 2 + len <= zlen d /\
              walk k d (zlen d) (pos + 2 + len) = Some e.
Proof.
  intros Hb Hp. cbn [walk].
  destruct (Z.ltb_spec (zlen d - pos) 2); [discriminate|].
  destruct (Z.ltb_spec (zlen d - (pos + 2)) (u16 d pos)); [discriminate|].
  intros W. exists (u16 d pos). unfold block. rewrite rdv_some by lia. cbn [obind]. fold (u16 d pos).
  pose proof (u16_nonneg d pos Hb).
  destruct (Z.leb_spec (pos + 2 + u16 d pos) (zlen d)); [|lia].
  repeat split; try lia. exact W.
Qed.

Lemma first_nul_bound l k : 0 <= first_nul l k <= Z.of_nat k.
Proof.
  revert l. induction k as [|k IH]; intros l; destruct l as [|b t]; cbn [first_nul]; try lia.
  destruct (b =? 0); [lia|]. specialize (IH t). lia.
Qed.

Lemma valid_cm_views d : bytes_ok d -> valid_cm d = true -> exists w, view_cm d = Some w /\ in_bounds 49 w (zlen d).
Proof.
  intros Hb H. unfold valid_cm in H. apply andb_true_iff in H as [H1 H2]. apply Z.leb_le in H1.
  destruct (walk 5 d (zlen d) 26) as [e|] eqn:W; [|discriminate].
  destruct (walk_block 4 d 26 e Hb ltac:(lia) W) as (l1 & B1 & L1 & E1 & W1).
  destruct (walk_block 3 d (26 + 2 + l1) e Hb ltac:(lia) W1) as (l2 & B2 & L2 & E2 & W2).
  destruct (walk_block 2 d (26 + 2 + l1 + 2 + l2) e Hb ltac:(lia) W2) as (l3 & B3 & L3 & E3 & W3).
  destruct (walk_block 1 d (26 + 2 + l1 + 2 + l2 + 2 + l3) e Hb ltac:(lia) W3) as (l4 & B4 & L4 & E4 & W4).
  destruct (walk_block 0 d (26 + 2 + l1 + 2 + l2 + 2 + l3 + 2 + l4) e Hb ltac:(lia) W4) as (l5 & B5 & L5 & E5 & W5).
  unfold view_cm. repeat rd_ok. rewrite B1. cbn [obind]. rewrite B2. cbn [obind]. rewrite B3. cbn [obind].
  rewrite B4. cbn [obind]. rewrite B5. cbn [obind].
  eexists. split; [reflexivity|].
  unfold in_bounds, views_of; cbn [Z.eqb Pos.eqb].
  repeat (apply Forall_cons; [unfold view_ok, pr; cbn [fst snd nth]; right;
    repeat match goal with |- context [first_nul ?l ?k] => pose proof (first_nul_bound l k); set (first_nul l k) in * end; lia|]).
  apply Forall_nil.
Qed.

Lemma valid_if_views d : bytes_ok d -> valid_if d = true -> exists w, view_if d = Some w /\ in_bounds 50 w (zlen d).
Proof.
  intros Hb H. unfold valid_if in H. apply andb_true_iff in H as [H H3]. apply andb_true_iff in H as [H1 H2]. apply Z.leb_le in H1.
  destruct (Z.ltb_spec (zlen d - 36) 2) as [|Hc]; [discriminate|].
  set (cnt := u16 d 36) in *.
  destruct (Z.ltb_spec (zlen d - 38) (cnt + cnt mod 2)) as [|Hi]; [discriminate|].
  destruct (Z.ltb_spec (zlen d - (38 + (cnt + cnt mod 2))) 2) as [|Hv]; [discriminate|].
  apply Z.leb_le in H3.
  pose proof (u16_nonneg d 36 Hb) as Hcn. fold cnt in Hcn.
  assert (Hcb : cnt < 65536).
  { unfold cnt, u16. pose proof (be_dec_bound (take 2 (drop 36 d)) ltac:(apply bytes_ok_take, bytes_ok_drop, Hb)) as B.
    assert (Z.of_nat (length (take 2 (drop 36 d))) <= 2) by (unfold take; rewrite firstn_length; lia).
    assert (256 ^ Z.of_nat (length (take 2 (drop 36 d))) <= 256 ^ 2) by (apply Z.pow_le_mono_r; lia). lia. }
  unfold view_if. repeat rd_ok. fold (u16 d 36). fold cnt.
  destruct (Z.leb_spec (38 + cnt) (zlen d)); [|lia].
  (* the accessor pads the count in 16-bit arithmetic *)
  set (cntv := (cnt + cnt mod 2) mod 65536).
  assert (Hcv : cntv = cnt + cnt mod 2 \/ (cnt = 65535 /\ cntv = 0)).
  { subst cntv. destruct (Z.eq_dec cnt 65535) as [->|Hne]; [right; split; reflexivity|].
    left. apply Z.mod_small. lia. }
  destruct Hcv as [Hcv | [Hc65 Hcv]].
  - rewrite Hcv. rewrite rdv_some by lia. cbn [obind]. fold (u16 d (38 + (cnt + cnt mod 2))).
    pose proof (u16_nonneg d (38 + (cnt + cnt mod 2)) Hb).
    destruct (Z.leb_spec (38 + (cnt + cnt mod 2) + 2 + u16 d (38 + (cnt + cnt mod 2))) (zlen d)); [|lia].
    eexists. split; [reflexivity|].
    unfold in_bounds, views_of; cbn [Z.eqb Pos.eqb]. apply Forall_cons; [|apply Forall_cons; [|apply Forall_nil]]; unfold view_ok, pr; cbn [fst snd nth].
    + destruct (cnt =? 0); [left; reflexivity|right; lia].
    + destruct (u16 d (38 + (cnt + cnt mod 2)) =? 0); [left; reflexivity|right; lia].
  - rewrite Hcv. rewrite rdv_some by lia. cbn [obind]. fold (u16 d (38 + 0)).
    pose proof (u16_nonneg d (38 + 0) Hb).
    assert (u16 d (38 + 0) < 65536).
    { unfold u16. pose proof (be_dec_bound (take 2 (drop (38 + 0) d)) ltac:(apply bytes_ok_take, bytes_ok_drop, Hb)) as B.
      assert (Z.of_nat (length (take 2 (drop (38 + 0) d))) <= 2) by (unfold take; rewrite firstn_length; lia).
      assert (256 ^ Z.of_nat (length (take 2 (drop (38 + 0) d))) <= 256 ^ 2) by (apply Z.pow_le_mono_r; lia). lia. }
    subst cnt. rewrite Hc65 in *. change (65535 mod 2) with 1 in *.
    destruct (Z.leb_spec (38 + 0 + 2 + u16 d (38 + 0)) (zlen d)); [|lia].
    eexists. split; [reflexivity|].
    unfold in_bounds, views_of; cbn [Z.eqb Pos.eqb]. apply Forall_cons; [|apply Forall_cons; [|apply Forall_nil]]; unfold view_ok, pr; cbn [fst snd nth].
    + right; lia.
    + destruct (u16 d (38 + 0) =? 0); [left; reflexivity|right; lia].
Qed.

Theorem valid_views_in_bounds k d : bytes_ok d -> valid_kind k d = true ->
  exists w, view_kind k d = Some w /\ in_bounds k w (zlen d).
Proof.
  intros Hb. unfold valid_kind, view_kind.
  destruct (k =? 1) eqn:E1; [apply Z.eqb_eq in E1; subst; apply (valid_can_views false); assumption|].
  destruct (k =? 2) eqn:E2; [apply Z.eqb_eq in E2; subst; apply (valid_can_views true); assumption|].
  destruct (k =? 3) eqn:E3; [apply Z.eqb_eq in E3; subst; apply valid_lin_views; assumption|].
  destruct (k =? 7) eqn:E7; [apply Z.eqb_eq in E7; subst; apply valid_analog_views; assumption|].
  destruct (k =? 8) eqn:E8; [apply Z.eqb_eq in E8; subst; apply valid_eth_views; assumption|].
  destruct (k =? 49) eqn:E49; [apply Z.eqb_eq in E49; subst; apply valid_cm_views; assumption|].
  destruct (k =? 50) eqn:E50; [apply Z.eqb_eq in E50; subst; apply valid_if_views; assumption|].
  discriminate.
Qed.

(* packets handed out by Packet(msgType, ...) / the decoder: a typed payload type survives create only if its validator accepted *)
Theorem created_payload_views ty d k : bytes_ok d ->
  kind_of_type (pl_type (create ty d)) = Some k ->
  exists w, view_kind k (pl_data (create ty d)) = Some w /\ in_bounds k w (zlen (pl_data (create ty d))).
Proof.
  intros Hb. unfold create.
  destruct (kind_of_type ty) as [k0|] eqn:K.
  - destruct (valid_kind k0 d) eqn:V; unfold mk_payload; cbn [pl_type pl_data].
    + rewrite K. intros E; inversion E; subst k0.
      assert (ty =? 0 = false) as -> by (unfold kind_of_type in K; destruct (ty =? 0) eqn:E0; [apply Z.eqb_eq in E0; subst; discriminate|reflexivity]).
      apply valid_views_in_bounds; assumption.
    + cbn. discriminate.
  - unfold mk_payload; cbn [pl_type]. rewrite K. discriminate.
Qed.

(* a buffer accepted by the message-level check can be turned into a packet without reading past its end *)
Theorem valid_packet_ctor_in_bounds buf : valid_packet buf (zlen buf) = true -> 16 + h_plen (parse_mhdr buf) <= zlen buf.
Proof.
  unfold valid_packet. intros H. apply andb_true_iff in H as [H1 H2].
  apply andb_true_iff in H2 as [H2 _]. apply andb_true_iff in H2 as [H2 _].
  apply Z.leb_le in H1, H2. lia.
Qed.
