(* TECMP model: every read stays inside the buffer (never Oob), the entry loop never runs out of fuel,
   at most one packet per 12 input bytes; then totality of Decoder.decode for arbitrary byte strings (C02). *)
Require Import CMP.Bytes CMP.Packet CMP.Tecmp CMP.Decoder CMP.DecoderProofs.
Local Open Scope Z_scope.
Local Open Scope bool_scope.

Lemma rds_some l off n : 0 <= off -> 0 <= n -> off + n <= zlen l -> exists x, rds l off n = Some x.
Proof.
  intros H1 H2 H3. unfold rds.
  destruct (Z.leb_spec 0 off); [|lia]. destruct (Z.leb_spec 0 n); [|lia].
  destruct (Z.leb_spec (off + n) (zlen l)); [|lia]. cbn. eauto.
Qed.

Lemma u8_nonneg l i : bytes_ok l -> 0 <= u8 l i.
Proof.
  intros H. unfold u8. destruct (nth_in_or_default (Z.to_nat i) l 0) as [Hin | ->]; [|lia].
  unfold bytes_ok in H. rewrite Forall_forall in H. apply H in Hin. unfold byte_ok in Hin. lia.
Qed.

Lemma rds_bytes_ok l off n x : bytes_ok l -> rds l off n = Some x -> bytes_ok x.
Proof.
  unfold rds. intros H. destruct (_ && _); [|discriminate]. intros E. inversion E; subst.
  apply bytes_ok_take, bytes_ok_drop, H.
Qed.

(* bus status entry loop *)
Lemma bus_entries_ok : forall fuel pd psize off dev ts,
  psize = zlen pd -> 0 <= off -> Z.max 0 (psize - off) / 12 < Z.of_nat fuel ->
  exists ps, bus_entries fuel pd psize off dev ts = Ok ps /\ 12 * zlen ps <= Z.max 0 (psize - off).
Proof.
  induction fuel as [|fuel IH]; intros pd psize off dev ts Hp Ho Hf.
  - exfalso. assert (0 <= Z.max 0 (psize - off) / 12) by (apply Z.div_pos; lia). cbn in Hf. lia.
  - cbn [bus_entries].
    destruct (Z.leb_spec (off + 12) psize) as [Hfit|Hno].
    + destruct (rds_some pd off 12) as [x Hx]; [lia..|]. rewrite Hx. cbn [of_opt rbind].
      destruct (IH pd psize (off + 12) dev ts Hp ltac:(lia)) as (ps & Hps & Hn).
      { rewrite Nat2Z.inj_succ in Hf.
        replace (Z.max 0 (psize - off)) with (psize - off) in Hf by lia.
        replace (Z.max 0 (psize - (off + 12))) with (psize - off + (-1) * 12) by lia.
        rewrite Z.div_add by lia. lia. }
      rewrite Hps. cbn [rbind]. eexists. split; [reflexivity|].
      unfold zlen in *. cbn [length]. rewrite Nat2Z.inj_succ. lia.
    + exists []. split; [reflexivity|]. unfold zlen. cbn. lia.
Qed.

Ltac kill_rds :=
  match goal with
  | |- context [of_opt (rds ?l ?o ?n)] =>
    let x := fresh "x" in let Hx := fresh "Hx" in
    destruct (rds_some l o n) as [x Hx]; [try lia; try (unfold zlen in *; lia) ..|]; rewrite Hx; cbn [of_opt rbind]
  end.

Theorem tecmp_total buf : bytes_ok buf ->
  exists ps, tecmp_decode buf = Ok ps /\ 12 * zlen ps <= zlen buf.
Proof.
  intros Hb. unfold tecmp_decode.
  pose proof (zlen_nonneg buf) as Hn.
  assert (Z0 : forall (l : list packet), l = [] -> 12 * zlen l <= zlen buf) by (intros l ->; unfold zlen at 1; cbn; lia).
  assert (Z1 : forall (p : packet), 28 <= zlen buf -> 12 * zlen [p] <= zlen buf) by (intros p H; rewrite zlen_one; lia).
  destruct (Z.ltb_spec (zlen buf) 28) as [Hs|Hs]; [eexists; split; [reflexivity|auto]|].
  destruct (rds_some buf 0 28) as [hd Hhd]; [lia..|]. rewrite Hhd. cbn [of_opt rbind].
  destruct (u16 hd 24 =? 0); [eexists; split; [reflexivity|auto]|].
  destruct (zlen buf <? 28 + u16 hd 24); [eexists; split; [reflexivity|auto]|].
  destruct ((u8 hd 5 =? 255) || (u8 hd 6 + 256 * u8 hd 7 =? 255)); [eexists; split; [reflexivity|auto]|].
  assert (Hpd : zlen (drop 28 buf) = zlen buf - 28) by (apply zlen_drop; lia).
  set (pd := drop 28 buf) in *.
  assert (Hpdok : bytes_ok pd) by (apply bytes_ok_drop; exact Hb).
  destruct (u8 hd 5 =? 1).
  { destruct (Z.ltb_spec (zlen buf - 28) 36); [eexists; split; [reflexivity|auto]|].
    kill_rds. eexists; split; [reflexivity|auto]. }
  destruct (u8 hd 5 =? 2).
  { destruct (Z.ltb_spec (zlen buf - 28) 12); [eexists; split; [reflexivity|auto]|].
    kill_rds.
    destruct (bus_entries_ok (S (Z.to_nat ((zlen buf - 28) / 12))) pd (zlen buf - 28) 12 (u8 hd 1) (u64 hd 16)) as (ps & Hps & Hc);
      [symmetry; exact Hpd | lia | |].
    { rewrite Nat2Z.inj_succ, Z2Nat.id by (apply Z.div_pos; lia).
      assert (Z.max 0 (zlen buf - 28 - 12) / 12 <= (zlen buf - 28) / 12) by (apply Z.div_le_mono; lia). lia. }
    rewrite Hps. eexists; split; [reflexivity|]. lia. }
  destruct (u8 hd 5 =? 3); [|eexists; split; [reflexivity|auto]].
  destruct ((u16 hd 6 =? 2) || (u16 hd 6 =? 3)).
  { destruct (Z.ltb_spec (zlen buf - 28) 5); [eexists; split; [reflexivity|auto]|].
    destruct (rds_some pd 0 5) as [h Hh]; [lia..|]. rewrite Hh. cbn [of_opt rbind].
    pose proof (u8_nonneg h 4 (rds_bytes_ok _ _ _ _ Hpdok Hh)) as Hdlc.
    destruct (Z.ltb_spec (zlen buf - 28 - 5) (u8 h 4)); [eexists; split; [reflexivity|auto]|].
    destruct (rds_some pd 5 (u8 h 4)) as [data Hd]; [lia..|]. rewrite Hd. cbn [of_opt rbind].
    destruct (Z.ltb_spec (zlen buf - 28) (5 + u8 h 4 + 3)); cbn [rbind].
    - destruct (8 <? u8 h 4); eexists; (split; [reflexivity|auto]).
    - destruct (rds_some pd (5 + u8 h 4) 3) as [c Hc]; [lia..|]. rewrite Hc. cbn [of_opt rbind].
      destruct (8 <? u8 h 4); eexists; (split; [reflexivity|auto]). }
  destruct (u16 hd 6 =? 4); [|eexists; split; [reflexivity|auto]].
  destruct (Z.ltb_spec (zlen buf - 28) 2); [eexists; split; [reflexivity|auto]|].
  destruct (rds_some pd 0 2) as [h Hh]; [lia..|]. rewrite Hh. cbn [of_opt rbind].
  pose proof (u8_nonneg h 1 (rds_bytes_ok _ _ _ _ Hpdok Hh)) as Hlen.
  destruct (Z.ltb_spec (zlen buf - 28 - 2) (u8 h 1)); [eexists; split; [reflexivity|auto]|].
  destruct (rds_some pd 2 (u8 h 1)) as [data Hd]; [lia..|]. rewrite Hd. cbn [of_opt rbind].
  destruct (Z.leb_spec (zlen buf - 28) (2 + u8 h 1)); cbn [rbind].
  - eexists; (split; [reflexivity|auto]).
  - destruct (rds_some pd (2 + u8 h 1) 1) as [c Hc]; [lia..|]. rewrite Hc. cbn [of_opt rbind].
    eexists; (split; [reflexivity|auto]).
Qed.

(* ---------- C02 at model level: decode is total on every byte string and from every state ---------- *)
Theorem decode_total st buf : bytes_ok buf ->
  exists st' out, decode st buf = Ok (st', out) /\ 12 * zlen out <= zlen buf.
Proof.
  intros Hb. unfold decode.
  pose proof (zlen_nonneg buf) as Hn.
  destruct (Z.ltb_spec (zlen buf) 8); [eexists _, _; split; [reflexivity|unfold zlen at 1; cbn; lia]|].
  destruct (u8 buf 0 =? 0).
  { destruct (tecmp_total buf Hb) as (ps & Hps & Hc). rewrite Hps. cbn [rbind]. eauto. }
  destruct (Z.eqb_spec (zlen buf - 8) 0); [eexists _, _; split; [reflexivity|unfold zlen at 1; cbn; lia]|].
  pose proof (dloop_total (fuel_of (zlen buf - 8)) (parse_fhdr buf) (drop 8 buf) (zlen buf - 8) st []) as T.
  assert (Hd : bytes_ok (drop 8 buf)) by (apply bytes_ok_drop; exact Hb).
  specialize (T Hd ltac:(lia)).
  assert (HF : (zlen buf - 8) / 16 < Z.of_nat (fuel_of (zlen buf - 8))).
  { unfold fuel_of. rewrite Nat2Z.inj_succ, Z2Nat.id by (apply Z.div_pos; lia). lia. }
  specialize (T HF).
  destruct (dloop _ _ _ _ st []) as [[s o]| |] eqn:E; try contradiction.
  eexists _, _. split; [reflexivity|].
  assert (Hs0 : 0 <= zlen buf - 8) by lia.
  pose proof (dloop_count _ _ _ _ _ _ _ _ Hd Hs0 E) as C. rewrite zlen_nil in C. lia.
Qed.

(* ====================================================================================================
   C15: what TECMP conversion returns
   ==================================================================================================== *)
Lemma rds_eq l off n : 0 <= off -> 0 <= n -> off + n <= zlen l -> rds l off n = Some (take n (drop off l)).
Proof.
  intros H1 H2 H3. unfold rds.
  destruct (Z.leb_spec 0 off); [|lia]. destruct (Z.leb_spec 0 n); [|lia]. destruct (Z.leb_spec (off + n) (zlen l)); [|lia]. reflexivity.
Qed.

(* the header as the decoder reads it *)
Definition t_hd (buf : list Z) : list Z := take 28 (drop 0 buf).
Definition t_pd (buf : list Z) : list Z := drop 28 buf.
Definition t_accepts (buf : list Z) : Prop :=
  28 <= zlen buf /\ u16 (t_hd buf) 24 <> 0 /\ 28 + u16 (t_hd buf) 24 <= zlen buf /\
  u8 (t_hd buf) 5 <> 255 /\ u8 (t_hd buf) 6 + 256 * u8 (t_hd buf) 7 <> 255.

Ltac t_open buf Hacc :=
  destruct Hacc as (Hsz & Hpl & Hfit & Hmt & Hdt);
  unfold tecmp_decode;
  destruct (Z.ltb_spec (zlen buf) 28); [lia|];
  rewrite (rds_eq buf 0 28) by lia; cbn [of_opt rbind];
  change (take 28 (drop 0 buf)) with (t_hd buf);
  destruct (Z.eqb_spec (u16 (t_hd buf) 24) 0); [contradiction|];
  destruct (Z.ltb_spec (zlen buf) (28 + u16 (t_hd buf) 24)); [lia|];
  destruct (Z.eqb_spec (u8 (t_hd buf) 5) 255); [contradiction|];
  destruct (Z.eqb_spec (u8 (t_hd buf) 6 + 256 * u8 (t_hd buf) 7) 255); [contradiction|]; cbn [orb].

(* messages that are not accepted at all, of unsupported kinds, or whose inner lengths do not fit yield no packet *)
Theorem tecmp_rejected buf : ~ t_accepts buf -> tecmp_decode buf = Ok [].
Proof.
  intros H. unfold tecmp_decode.
  destruct (Z.ltb_spec (zlen buf) 28); [reflexivity|].
  rewrite (rds_eq buf 0 28) by lia. cbn [of_opt rbind]. change (take 28 (drop 0 buf)) with (t_hd buf).
  destruct (Z.eqb_spec (u16 (t_hd buf) 24) 0); [reflexivity|].
  destruct (Z.ltb_spec (zlen buf) (28 + u16 (t_hd buf) 24)); [reflexivity|].
  destruct (Z.eqb_spec (u8 (t_hd buf) 5) 255); [reflexivity|].
  destruct (Z.eqb_spec (u8 (t_hd buf) 6 + 256 * u8 (t_hd buf) 7) 255); [reflexivity|].
  exfalso. apply H. unfold t_accepts. repeat split; assumption.
Qed.

Theorem tecmp_unsupported buf :
  let mt := u8 (t_hd buf) 5 in let dt := u16 (t_hd buf) 6 in
  (mt <> 1 /\ mt <> 2 /\ (mt <> 3 \/ (dt <> 2 /\ dt <> 3 /\ dt <> 4))) -> tecmp_decode buf = Ok [].
Proof.
  intros mt dt (H1 & H2 & H3). unfold tecmp_decode.
  destruct (Z.ltb_spec (zlen buf) 28); [reflexivity|].
  rewrite (rds_eq buf 0 28) by lia. cbn [of_opt rbind]. change (take 28 (drop 0 buf)) with (t_hd buf).
  fold mt dt.
  destruct (u16 (t_hd buf) 24 =? 0); [reflexivity|]. destruct (zlen buf <? 28 + u16 (t_hd buf) 24); [reflexivity|].
  destruct ((mt =? 255) || _); [reflexivity|].
  destruct (Z.eqb_spec mt 1); [contradiction|]. destruct (Z.eqb_spec mt 2); [contradiction|].
  destruct (Z.eqb_spec mt 3) as [E3|]; [|reflexivity].
  destruct H3 as [H3|(D2 & D3 & D4)]; [contradiction|].
  destruct (Z.eqb_spec dt 2); [contradiction|]. destruct (Z.eqb_spec dt 3); [contradiction|]. cbn [orb].
  destruct (Z.eqb_spec dt 4); [contradiction|]. reflexivity.
Qed.

(* CAN / CAN-FD data: one packet; device id, timestamp and interface id are the header's big-endian fields, the payload carries the
   arbitration id, the data length, the DLC code and exactly the announced data bytes *)
Theorem tecmp_can buf : bytes_ok buf -> t_accepts buf ->
  u8 (t_hd buf) 5 = 3 -> (u16 (t_hd buf) 6 = 2 \/ u16 (t_hd buf) 6 = 3) ->
  let pd := t_pd buf in let psize := zlen buf - 28 in
  5 <= psize -> u8 (take 5 (drop 0 pd)) 4 <= psize - 5 ->
  let dlc := u8 (take 5 (drop 0 pd)) 4 in
  exists crc, tecmp_decode buf =
    Ok [tecmp_packet (u8 (t_hd buf) 1) (u64 (t_hd buf) 16) (u32 (t_hd buf) 12)
          {| pl_type := if 8 <? dlc then 258 else 257;
             pl_data := [0;0;0;0] ++ be_enc 4 (u32 (take 5 (drop 0 pd)) 0) ++ be_enc 4 crc ++ [0;0] ++ [encode_dlc dlc; dlc] ++ take dlc (drop 5 pd) |}].
Proof.
  intros Hb Hacc Hm Hd pd psize H5 Hdl dlc.
  assert (Hpd : zlen pd = psize) by (unfold pd, t_pd, psize; apply zlen_drop; destruct Hacc; lia).
  assert (Hdn : 0 <= dlc).
  { unfold dlc. apply u8_nonneg. apply bytes_ok_take, bytes_ok_drop, bytes_ok_drop, Hb. }
  t_open buf Hacc. rewrite Hm. cbn [Z.eqb Pos.eqb].
  assert (((u16 (t_hd buf) 6 =? 2) || (u16 (t_hd buf) 6 =? 3)) = true) as -> by (destruct Hd as [-> | ->]; reflexivity).
  fold psize. destruct (Z.ltb_spec psize 5); [lia|].
  fold (t_pd buf). fold pd. rewrite (rds_eq pd 0 5) by lia. cbn [of_opt rbind]. fold dlc.
  destruct (Z.ltb_spec (psize - 5) dlc); [lia|].
  rewrite (rds_eq pd 5 dlc) by lia. cbn [of_opt rbind].
  destruct (Z.ltb_spec psize (5 + dlc + 3)); cbn [rbind].
  - exists 0. destruct (8 <? dlc); reflexivity.
  - rewrite (rds_eq pd (5 + dlc) 3) by lia. cbn [of_opt rbind].
    destruct (8 <? dlc); eexists; reflexivity.
Qed.

(* LIN data *)
Theorem tecmp_lin buf : bytes_ok buf -> t_accepts buf ->
  u8 (t_hd buf) 5 = 3 -> u16 (t_hd buf) 6 = 4 ->
  let pd := t_pd buf in let psize := zlen buf - 28 in
  2 <= psize -> u8 (take 2 (drop 0 pd)) 1 <= psize - 2 ->
  let len := u8 (take 2 (drop 0 pd)) 1 in let pid := u8 (take 2 (drop 0 pd)) 0 in
  exists cs, tecmp_decode buf =
    Ok [tecmp_packet (u8 (t_hd buf) 1) (u64 (t_hd buf) 16) (u32 (t_hd buf) 12)
          {| pl_type := 259; pl_data := [0;0;0;0] ++ [Z.land pid 63; 0; cs; len] ++ take len (drop 2 pd) |}] /\
    (2 + len < psize -> cs = u8 (take 1 (drop (2 + len) pd)) 0).
Proof.
  intros Hb Hacc Hm Hd pd psize H2 Hdl len pid.
  assert (Hpd : zlen pd = psize) by (unfold pd, t_pd, psize; apply zlen_drop; destruct Hacc; lia).
  assert (Hdn : 0 <= len).
  { unfold len. apply u8_nonneg. apply bytes_ok_take, bytes_ok_drop, bytes_ok_drop, Hb. }
  t_open buf Hacc. rewrite Hm, Hd. cbn [Z.eqb Pos.eqb orb].
  fold psize. destruct (Z.ltb_spec psize 2); [lia|].
  fold (t_pd buf). fold pd. rewrite (rds_eq pd 0 2) by lia. cbn [of_opt rbind]. fold len pid.
  destruct (Z.ltb_spec (psize - 2) len); [lia|].
  rewrite (rds_eq pd 2 len) by lia. cbn [of_opt rbind].
  destruct (Z.leb_spec psize (2 + len)); cbn [rbind].
  - exists 0. split; [reflexivity|lia].
  - rewrite (rds_eq pd (2 + len) 1) by lia. cbn [of_opt rbind]. eexists. split; [reflexivity|]. intros _. reflexivity.
Qed.

(* capture-module status: decimal serial number and "vX.Y" / "vX.Y.Z" strings *)
Theorem tecmp_cm buf : bytes_ok buf -> t_accepts buf -> u8 (t_hd buf) 5 = 1 ->
  let pd := t_pd buf in 36 <= zlen buf - 28 ->
  let h := take 36 (drop 0 pd) in
  tecmp_decode buf =
    Ok [tecmp_packet (u8 (t_hd buf) 1) (u64 (t_hd buf) 16) (u32 (t_hd buf) 12)
          {| pl_type := 769;
             pl_data := zeros 26 ++ cm_string [] ++ cm_string (dec_str (u32 h 8)) ++
                        cm_string ([V] ++ dec_str (u8 h 16) ++ [DOT] ++ dec_str (u8 h 17)) ++
                        cm_string ([V] ++ dec_str (u8 h 13) ++ [DOT] ++ dec_str (u8 h 14) ++ [DOT] ++ dec_str (u8 h 15)) ++ [0; 0] |}].
Proof.
  intros Hb Hacc Hm pd H36 h.
  assert (Hpd : zlen pd = zlen buf - 28) by (unfold pd, t_pd; apply zlen_drop; destruct Hacc; lia).
  t_open buf Hacc. rewrite Hm. cbn [Z.eqb Pos.eqb].
  destruct (Z.ltb_spec (zlen buf - 28) 36); [lia|].
  fold (t_pd buf). fold pd. rewrite (rds_eq pd 0 36) by lia. cbn [of_opt rbind]. reflexivity.
Qed.

(* bus status: one interface-status packet per complete 12-byte entry, carrying that entry's big-endian fields *)
Lemma bus_entries_spec : forall fuel pd psize off dev ts,
  psize = zlen pd -> 0 <= off -> Z.max 0 (psize - off) / 12 < Z.of_nat fuel ->
  exists ps, bus_entries fuel pd psize off dev ts = Ok ps /\
    zlen ps = Z.max 0 (psize - off) / 12 /\
    forall i, (i < length ps)%nat ->
      let e := take 12 (drop (off + 12 * Z.of_nat i) pd) in
      nth i ps default_packet =
        tecmp_packet dev ts (be_dec (take 4 e))
          {| pl_type := 770; pl_data := be_enc 4 (be_dec (take 4 e)) ++ be_enc 4 (be_dec (take 4 (drop 4 e))) ++ zeros 12 ++
                                        be_enc 4 (be_dec (take 4 (drop 8 e))) ++ zeros 16 |}.
Proof.
  induction fuel as [|fuel IH]; intros pd psize off dev ts Hp Ho Hf.
  - exfalso. assert (0 <= Z.max 0 (psize - off) / 12) by (apply Z.div_pos; lia). cbn in Hf. lia.
  - cbn [bus_entries].
    destruct (Z.leb_spec (off + 12) psize) as [Hfit|Hno].
    + rewrite (rds_eq pd off 12) by lia. cbn [of_opt rbind].
      assert (Hq : Z.max 0 (psize - off) / 12 = Z.max 0 (psize - (off + 12)) / 12 + 1).
      { replace (Z.max 0 (psize - off)) with (Z.max 0 (psize - (off + 12)) + 1 * 12) by lia. rewrite Z.div_add by lia. reflexivity. }
      destruct (IH pd psize (off + 12) dev ts Hp ltac:(lia)) as (ps & Hps & Hn & Hall).
      { rewrite Nat2Z.inj_succ in Hf. lia. }
      rewrite Hps. cbn [rbind]. eexists. split; [reflexivity|]. split.
      * unfold zlen in *. cbn [length]. rewrite Nat2Z.inj_succ. lia.
      * intros i Hi. destruct i as [|i]; cbn [nth].
        -- cbn [Z.of_nat]. rewrite Z.mul_0_r, Z.add_0_r. reflexivity.
        -- cbn [length] in Hi. rewrite (Hall i) by lia. rewrite Nat2Z.inj_succ.
           replace (off + 12 + 12 * Z.of_nat i) with (off + 12 * Z.succ (Z.of_nat i)) by lia. reflexivity.
    + exists []. split; [reflexivity|]. split; [|intros i Hi; cbn in Hi; lia].
      unfold zlen. cbn [length Z.of_nat]. symmetry. apply Z.div_small. lia.
Qed.

Theorem tecmp_bus buf : bytes_ok buf -> t_accepts buf -> u8 (t_hd buf) 5 = 2 ->
  let pd := t_pd buf in let psize := zlen buf - 28 in 12 <= psize ->
  exists ps, tecmp_decode buf = Ok ps /\ zlen ps = (psize - 12) / 12 /\
    forall i, (i < length ps)%nat ->
      let e := take 12 (drop (12 + 12 * Z.of_nat i) pd) in
      nth i ps default_packet =
        tecmp_packet (u8 (t_hd buf) 1) (u64 (t_hd buf) 16) (be_dec (take 4 e))
          {| pl_type := 770; pl_data := be_enc 4 (be_dec (take 4 e)) ++ be_enc 4 (be_dec (take 4 (drop 4 e))) ++ zeros 12 ++
                                        be_enc 4 (be_dec (take 4 (drop 8 e))) ++ zeros 16 |}.
Proof.
  intros Hb Hacc Hm pd psize H12.
  assert (Hpd : zlen pd = psize) by (unfold pd, t_pd, psize; apply zlen_drop; destruct Hacc; lia).
  t_open buf Hacc. rewrite Hm. cbn [Z.eqb Pos.eqb].
  fold psize. destruct (Z.ltb_spec psize 12); [lia|].
  fold (t_pd buf). fold pd. rewrite (rds_eq pd 0 12) by lia. cbn [of_opt rbind].
  destruct (bus_entries_spec (S (Z.to_nat (psize / 12))) pd psize 12 (u8 (t_hd buf) 1) (u64 (t_hd buf) 16) (eq_sym Hpd) ltac:(lia)) as (ps & Hps & Hn & Hall).
  { rewrite Nat2Z.inj_succ, Z2Nat.id by (apply Z.div_pos; lia).
    assert (Z.max 0 (psize - 12) / 12 <= psize / 12) by (apply Z.div_le_mono; lia). lia. }
  exists ps. split; [exact Hps|]. split; [rewrite Hn; f_equal; lia|exact Hall].
Qed.
