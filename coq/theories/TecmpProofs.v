(* TECMP model: every read stays inside the buffer (never Oob), the entry loop never runs out of fuel,
   at most one packet per 12 input bytes; then totality of Decoder.decode for arbitrary byte strings (C02). *)
Require Import CMP.Bytes CMP.Packet CMP.Tecmp CMP.Decoder CMP.DecoderProofs.
Local Open Scope Z_scope.
Local Open Scope bool_scope.

Lemma rds_some l off n : 0 <= off -> 0 <= n -> off + n <= zlen l -> exists x, rds l off n = Some x.
Proof.
  intros H1 H2 H3. unfold rds.
  destruct (Z.leb_spec 0 off); [|lia]. destruct (Z.leb_spec 0 n); [|lia].
  destruct (Z.leb_spec (off + n) (zlen l)); [|lia]. cbn. eauto.
Qed.

Lemma u8_nonneg l i : bytes_ok l -> 0 <= u8 l i.
Proof.
  intros H. unfold u8. destruct (nth_in_or_default (Z.to_nat i) l 0) as [Hin | ->]; [|lia].
  unfold bytes_ok in H. rewrite Forall_forall in H. apply H in Hin. unfold byte_ok in Hin. lia.
Qed.

Lemma rds_bytes_ok l off n x : bytes_ok l -> rds l off n = Some x -> bytes_ok x.
Proof.
  unfold rds. intros H. destruct (_ && _); [|discriminate]. intros E. inversion E; subst.
  apply bytes_ok_take, bytes_ok_drop, H.
Qed.

(* bus status entry loop *)
Lemma bus_entries_ok : forall fuel pd psize off dev ts,
  psize = zlen pd -> 0 <= off -> Z.max 0 (psize - off) / 12 < Z.of_nat fuel ->
  exists ps, bus_entries fuel pd psize off dev ts = Ok ps /\ 12 * zlen ps <= Z.max 0 (psize - off).
Proof.
  induction fuel as [|fuel IH]; intros pd psize off dev ts Hp Ho Hf.
  - exfalso. assert (0 <= Z.max 0 (psize - off) / 12) by (apply Z.div_pos; lia). cbn in Hf. lia.
  - cbn [bus_entries].
    destruct (Z.leb_spec (off + 12) psize) as [Hfit|Hno].
    + destruct (rds_some pd off 12) as [x Hx]; [lia..|]. rewrite Hx. cbn [of_opt rbind].
      destruct (IH pd psize (off + 12) dev ts Hp ltac:(lia)) as (ps & Hps & Hn).
      { rewrite Nat2Z.inj_succ in Hf.
        replace (Z.max 0 (psize - off)) with (psize - off) in Hf by lia.
        replace (Z.max 0 (psize - (off + 12))) with (psize - off + (-1) * 12) by lia.
        rewrite Z.div_add by lia. lia. }
      rewrite Hps. cbn [rbind]. eexists. split; [reflexivity|].
      unfold zlen in *. cbn [length]. rewrite Nat2Z.inj_succ. lia.
    + exists []. split; [reflexivity|]. unfold zlen. cbn. lia.
Qed.

Ltac kill_rds :=
  match goal with
  | |- context [of_opt (rds ?l ?o ?n)] =>
    let x := fresh "x" in let Hx := fresh "Hx" in
    destruct (rds_some l o n) as [x Hx]; [try lia; try (unfold zlen in *; lia) ..|]; rewrite Hx; cbn [of_opt rbind]
  end.

Theorem tecmp_total buf : bytes_ok buf ->
  exists ps, tecmp_decode buf = Ok ps /\ 12 * zlen ps <= zlen buf.
Proof.
  intros Hb. unfold tecmp_decode.
  pose proof (zlen_nonneg buf) as Hn.
  assert (Z0 : forall (l : list packet), l = [] -> 12 * zlen l <= zlen buf) by (intros l ->; unfold zlen at 1; cbn; lia).
  assert (Z1 : forall (p : packet), 28 <= zlen buf -> 12 * zlen [p] <= zlen buf) by (intros p H; rewrite zlen_one; lia).
  destruct (Z.ltb_spec (zlen buf) 28) as [Hs|Hs]; [eexists; split; [reflexivity|auto]|].
  destruct (rds_some buf 0 28) as [hd Hhd]; [lia..|]. rewrite Hhd. cbn [of_opt rbind].
  destruct (u16 hd 24 =? 0); [eexists; split; [reflexivity|auto]|].
  destruct (zlen buf <? 28 + u16 hd 24); [eexists; split; [reflexivity|auto]|].
  destruct ((u8 hd 5 =? 255) || (u8 hd 6 + 256 * u8 hd 7 =? 255)); [eexists; split; [reflexivity|auto]|].
  assert (Hpd : zlen (drop 28 buf) = zlen buf - 28) by (apply zlen_drop; lia).
  set (pd := drop 28 buf) in *.
  assert (Hpdok : bytes_ok pd) by (apply bytes_ok_drop; exact Hb).
  destruct (u8 hd 5 =? 1).
  { destruct (Z.ltb_spec (zlen buf - 28) 36); [eexists; split; [reflexivity|auto]|].
    kill_rds. eexists; split; [reflexivity|auto]. }
  destruct (u8 hd 5 =? 2).
  { destruct (Z.ltb_spec (zlen buf - 28) 12); [eexists; split; [reflexivity|auto]|].
    kill_rds.
    destruct (bus_entries_ok (S (Z.to_nat ((zlen buf - 28) / 12))) pd (zlen buf - 28) 12 (u8 hd 1) (u64 hd 16)) as (ps & Hps & Hc);
      [symmetry; exact Hpd | lia | |].
    { rewrite Nat2Z.inj_succ, Z2Nat.id by (apply Z.div_pos; lia).
      assert (Z.max 0 (zlen buf - 28 - 12) / 12 <= (zlen buf - 28) / 12) by (apply Z.div_le_mono; lia). lia. }
    rewrite Hps. eexists; split; [reflexivity|]. lia. }
  destruct (u8 hd 5 =? 3); [|eexists; split; [reflexivity|auto]].
  destruct ((u16 hd 6 =? 2) || (u16 hd 6 =? 3)).
  { destruct (Z.ltb_spec (zlen buf - 28) 5); [eexists; split; [reflexivity|auto]|].
    destruct (rds_some pd 0 5) as [h Hh]; [lia..|]. rewrite Hh. cbn [of_opt rbind].
    pose proof (u8_nonneg h 4 (rds_bytes_ok _ _ _ _ Hpdok Hh)) as Hdlc.
    destruct (Z.ltb_spec (zlen buf - 28 - 5) (u8 h 4)); [eexists; split; [reflexivity|auto]|].
    destruct (rds_some pd 5 (u8 h 4)) as [data Hd]; [lia..|]. rewrite Hd. cbn [of_opt rbind].
    destruct (Z.ltb_spec (zlen buf - 28) (5 + u8 h 4 + 3)); cbn [rbind].
    - destruct (8 <? u8 h 4); eexists; (split; [reflexivity|auto]).
    - destruct (rds_some pd (5 + u8 h 4) 3) as [c Hc]; [lia..|]. rewrite Hc. cbn [of_opt rbind].
      destruct (8 <? u8 h 4); eexists; (split; [reflexivity|auto]). }
  destruct (u16 hd 6 =? 4); [|eexists; split; [reflexivity|auto]].
  destruct (Z.ltb_spec (zlen buf - 28) 2); [eexists; split; [reflexivity|auto]|].
  destruct (rds_some pd 0 2) as [h Hh]; [lia..|]. rewrite Hh. cbn [of_opt rbind].
  pose proof (u8_nonneg h 1 (rds_bytes_ok _ _ _ _ Hpdok Hh)) as Hlen.
  destruct (Z.ltb_spec (zlen buf - 28 - 2) (u8 h 1)); [eexists; split; [reflexivity|auto]|].
  destruct (rds_some pd 2 (u8 h 1)) as [data Hd]; [lia..|]. rewrite Hd. cbn [of_opt rbind].
  destruct (Z.leb_spec (zlen buf - 28) (2 + u8 h 1)); cbn [rbind].
  - eexists; (split; [reflexivity|auto]).
  - destruct (rds_some pd (2 + u8 h 1) 1) as [c Hc]; [lia..|]. rewrite Hc. cbn [of_opt rbind].
    eexists; (split; [reflexivity|auto]).
Qed.

(* ---------- C02 at model level: decode is total on every byte string and from every state ---------- *)
Theorem decode_total st buf : bytes_ok buf ->
  exists st' out, decode st buf = Ok (st', out) /\ 12 * zlen out <= zlen buf.
Proof.
  intros Hb. unfold decode.
  pose proof (zlen_nonneg buf) as Hn.
  destruct (Z.ltb_spec (zlen buf) 8); [eexists _, _; split; [reflexivity|unfold zlen at 1; cbn; lia]|].
  destruct (u8 buf 0 =? 0).
  { destruct (tecmp_total buf Hb) as (ps & Hps & Hc). rewrite Hps. cbn [rbind]. eauto. }
  destruct (Z.eqb_spec (zlen buf - 8) 0); [eexists _, _; split; [reflexivity|unfold zlen at 1; cbn; lia]|].
  pose proof (dloop_total (fuel_of (zlen buf - 8)) (parse_fhdr buf) (drop 8 buf) (zlen buf - 8) st []) as T.
  assert (Hd : bytes_ok (drop 8 buf)) by (apply bytes_ok_drop; exact Hb).
  specialize (T Hd ltac:(lia)).
  assert (HF : (zlen buf - 8) / 16 < Z.of_nat (fuel_of (zlen buf - 8))).
  { unfold fuel_of. rewrite Nat2Z.inj_succ, Z2Nat.id by (apply Z.div_pos; lia). lia. }
  specialize (T HF).
  destruct (dloop _ _ _ _ st []) as [[s o]| |] eqn:E; try contradiction.
  eexists _, _. split; [reflexivity|].
  assert (Hs0 : 0 <= zlen buf - 8) by lia.
  pose proof (dloop_count _ _ _ _ _ _ _ _ Hd Hs0 E) as C. rewrite zlen_nil in C. lia.
Qed.
