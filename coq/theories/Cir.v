(* Tie T2: a small arithmetic IR for the guard / decision functions of layer B (payload validators, the message-level validity
   check, the segment predicates, the encoder's segmentation-flag rule). translator/code2coq.py re-translates those C++ function
   bodies into terms of this IR on every run (gen/GenCode.v); CodeRefine.v proves, for every input, that evaluating the translated
   body never reads outside the buffer and returns what the hand-written model (Packet.v ...) returns.

   Semantics: values are mathematical integers; every arithmetic node carries the C++ type clang computed for it (w bits, signed?)
   and its result is the exact integer result converted to that type (unsigned: modulo 2^w; signed: must be representable, otherwise
   the evaluation fails - signed overflow is undefined behaviour); shifts need 0 <= amount < w, divisions a non-zero divisor; `&&` and
   `||` are short-circuit (the right operand is not evaluated, hence performs no read, when the left one decides); KByte is a read of
   one byte of the buffer, KAcc the call of a header accessor (its bit-vector model from tie T, GenAccessors.v) on the object that
   starts at the given offset of the buffer: both fail with Oob when a byte they read lies outside the buffer. *)
From Coq Require Import ZArith List String Bool Lia.
Require Import CMP.Bytes CMP.Bv CMP.Packet CMP.Tecmp CMPGen.GenAccessors.
Import ListNotations.
Local Open Scope Z_scope.
Local Open Scope bool_scope.

Inductive binop := OAdd | OSub | OMul | ODiv | ORem | OAnd | OOr | OXor | OShl | OShr.
Inductive cmpop := CLt | CLe | CGt | CGe | CEq | CNe.
Inductive cexp :=
| KConst (z : Z)
| KVar (x : nat)
| KByte (off : cexp)
| KAcc (name : string) (off a1 a2 : cexp)
| KBin (op : binop) (w : Z) (sg : bool) (a b : cexp)
| KCmp (op : cmpop) (a b : cexp)
| KNot (a : cexp)
| KNeg (w : Z) (sg : bool) (a : cexp)
| KCpl (w : Z) (sg : bool) (a : cexp)
| KAndS (a b : cexp)
| KOrS (a b : cexp)
| KIte (c a b : cexp)
| KLet (x : nat) (e body : cexp)
| KCast (w : Z) (sg : bool) (a : cexp)
| KBswap (n : Z) (a : cexp)
| KRd (n : Z) (off : cexp).      (* an n-byte unsigned integer read straight out of the buffer (little-endian host), bounds-checked *)

Definition b2z (b : bool) : Z := if b then 1 else 0.
Definition wrap (w : Z) (sg : bool) (z : Z) : Z :=
  if sg then (z + 2 ^ (w - 1)) mod 2 ^ w - 2 ^ (w - 1) else z mod 2 ^ w.
(* result of an arithmetic operation at type (w, sg): None = undefined behaviour *)
Definition fit (w : Z) (sg : bool) (z : Z) : option Z :=
  if sg then (if (- 2 ^ (w - 1) <=? z) && (z <? 2 ^ (w - 1)) then Some z else None) else Some (z mod 2 ^ w).
Definition binop_eval (op : binop) (w : Z) (sg : bool) (a b : Z) : option Z :=
  match op with
  | OAdd => fit w sg (a + b)
  | OSub => fit w sg (a - b)
  | OMul => fit w sg (a * b)
  | ODiv => if b =? 0 then None else fit w sg (Z.quot a b)
  | ORem => if b =? 0 then None else fit w sg (Z.rem a b)
  | OAnd => fit w sg (Z.land a b)
  | OOr => fit w sg (Z.lor a b)
  | OXor => fit w sg (Z.lxor a b)
  | OShl => if (0 <=? b) && (b <? w) && (0 <=? a) then fit w sg (Z.shiftl a b) else None
  | OShr => if (0 <=? b) && (b <? w) && (0 <=? a) then fit w sg (Z.shiftr a b) else None
  end.
Definition cmp_eval (op : cmpop) (a b : Z) : bool :=
  match op with CLt => a <? b | CLe => a <=? b | CGt => b <? a | CGe => b <=? a | CEq => a =? b | CNe => negb (a =? b) end.

Definition upd (env : nat -> Z) (x : nat) (v : Z) : nat -> Z := fun y => if Nat.eqb y x then v else env y.

Fixpoint kassoc {A} (k : string) (l : list (string * A)) : option A :=
  match l with [] => None | (k', v) :: t => if String.eqb k k' then Some v else kassoc k t end.

(* environment of the bytes of the buffer from offset off on, as bit-vector variables 10, 11, ... (used by the reflective bridge) *)
Definition benv (d : list Z) (off : Z) : nat -> Z :=
  fun x => if Nat.ltb x 10 then 0 else nth (Z.to_nat off + (x - 10)) d 0.
(* a header accessor (bit-vector model mm, reading the member extents ext) on the object at offset off of buffer d *)
Definition acc_env (d : list Z) (size off a1 a2 : Z) : nat -> Z :=
  fun x => match x with 0%nat => le_dec (take size (drop off d)) | 1%nat => a1 | 2%nat => a2 | _ => benv d off x end.
Definition acc_eval (rds : list (string * list (Z * Z))) (d : list Z) (name : string) (off a1 a2 : Z) : res Z :=
  match kassoc name gen_methods, kassoc name rds with
  | Some mm, Some ext =>
    match mm_ret mm, mm_mem mm with
    | Some (w, r), None =>
      if (0 <=? off) && forallb (fun os => (0 <=? fst os) && (0 <=? snd os) && (off + fst os + snd os <=? zlen d)) ext
      then Ok (eval (acc_env d (mm_size mm) off a1 a2) r mod 2 ^ w)
      else Oob
    | _, _ => Oob
    end
  | _, _ => Oob
  end.

Definition zbswap (n : Z) (v : Z) : Z := be_dec (rev (be_enc (Z.to_nat n) v)).

Fixpoint ceval (rds : list (string * list (Z * Z))) (d : list Z) (env : nat -> Z) (e : cexp) : res Z :=
  match e with
  | KConst z => Ok z
  | KVar x => Ok (env x)
  | KByte off =>
    rbind (ceval rds d env off) (fun o => if (0 <=? o) && (o <? zlen d) then Ok (nth (Z.to_nat o) d 0) else Oob)
  | KAcc name off a1 a2 =>
    rbind (ceval rds d env off) (fun o => rbind (ceval rds d env a1) (fun v1 => rbind (ceval rds d env a2) (fun v2 =>
      acc_eval rds d name o v1 v2)))
  | KBin op w sg a b =>
    rbind (ceval rds d env a) (fun va => rbind (ceval rds d env b) (fun vb =>
      match binop_eval op w sg va vb with Some v => Ok v | None => Oob end))
  | KCmp op a b =>
    rbind (ceval rds d env a) (fun va => rbind (ceval rds d env b) (fun vb => Ok (b2z (cmp_eval op va vb))))
  | KNot a => rbind (ceval rds d env a) (fun va => Ok (b2z (va =? 0)))
  | KNeg w sg a => rbind (ceval rds d env a) (fun va => match fit w sg (- va) with Some v => Ok v | None => Oob end)
  | KCpl w sg a => rbind (ceval rds d env a) (fun va => Ok (wrap w sg (Z.lnot va)))
  | KAndS a b => rbind (ceval rds d env a) (fun va => if va =? 0 then Ok 0 else rbind (ceval rds d env b) (fun vb => Ok (b2z (negb (vb =? 0)))))
  | KOrS a b => rbind (ceval rds d env a) (fun va => if va =? 0 then rbind (ceval rds d env b) (fun vb => Ok (b2z (negb (vb =? 0)))) else Ok 1)
  | KIte c a b => rbind (ceval rds d env c) (fun vc => if vc =? 0 then ceval rds d env b else ceval rds d env a)
  | KLet x e body => rbind (ceval rds d env e) (fun v => ceval rds d (upd env x v) body)
  | KCast w sg a => rbind (ceval rds d env a) (fun va => Ok (wrap w sg va))
  | KBswap n a => rbind (ceval rds d env a) (fun va => Ok (zbswap n va))
  | KRd n off =>
    rbind (ceval rds d env off) (fun o => if (0 <=? o) && (o + n <=? zlen d) then Ok (le_dec (take n (drop o d))) else Oob)
  end.

(* parameters of a translated function: parameter i is variable i (a pointer parameter occupies its index and is never read as a number) *)
Fixpoint env_of_list (l : list Z) : nat -> Z :=
  fun x => match l, x with [], _ => 0 | v :: _, O => v | _ :: t, S k => env_of_list t k end.
