(* C17 — the decoder keeps reassembly state only for messages still in progress. *)
Require Import CMP.Bytes CMP.Packet CMP.Tecmp CMP.Decoder CMP.DecoderProofs.
Local Open Scope Z_scope.

(* (1) every reachable table has one entry per endpoint and only incomplete chains: the last accepted segment of an entry is a
   first or intermediary one. Completing a message therefore released its buffer. *)
Theorem C17_reachable_invariant : forall h : list (list Z), dec_inv (runh_st [] h).
Proof. exact reachable_inv. Qed.
Print Assumptions C17_reachable_invariant.

(* (2) an endpoint's entry is a function of that endpoint's own frames: foreign traffic, TECMP and undersized buffers neither
   create nor keep alive nor release it *)
Theorem C17_entry_depends_on_own_frames : forall e h st1 st2,
  lookup e st1 = lookup e st2 -> lookup e (runh_st st1 h) = lookup e (runh_st st2 (proj e h)).
Proof. exact pending_isolation. Qed.
Print Assumptions C17_entry_depends_on_own_frames.

(* (3) after a frame of endpoint e, e has pending data only if that frame opened a chain (entry = the first segment's header and
   exactly its declared bytes) or continued e's previous entry with the next counter, same version and message type (entry grows
   by exactly the declared bytes). Orphan segments, aborted / superseded chains, invalid messages, unsegmented messages and
   header-only frames leave e without an entry. *)
Theorem C17_entry_only_if_opened_or_continued : forall st b e,
  bytes_ok b -> buf_ep b = Some e ->
  match lookup e (fst (dec1 st b)) with
  | None => True
  | Some sg' => opened (parse_fhdr b) sg' \/ continued (parse_fhdr b) (lookup e st) sg'
  end.
Proof. exact entry_after_frame. Qed.
Print Assumptions C17_entry_only_if_opened_or_continued.

(* (4) no entry for any endpoint means an empty table: memory is at its baseline *)
Theorem C17_no_open_chain_no_state : forall st, (forall e, lookup e st = None) -> st = [] /\ pending_count st = 0 /\ pending_bytes st = 0.
Proof. intros st H. rewrite (all_none_empty st H). repeat split. Qed.
Print Assumptions C17_no_open_chain_no_state.

(* non-vacuity: open a chain, then a header-only frame of the same endpoint releases it *)
Example C17_example :
  let f1 := cframes 1 3 1 1 10 [ {| s_h := {| h_ts := 7; h_id := 9; h_flags := 4; h_ptype := 255; h_plen := 3 |}; s_chunk := [1;2;3]; s_trail := [238] |} ] in
  let hdr_only := [[1;0;0;3;1;1;0;11]] in
  pending_count (runh_st [] f1) = 1 /\ pending_bytes (runh_st [] f1) = 19 /\ runh_st [] (f1 ++ hdr_only) = [].
Proof. vm_compute. repeat split. Qed.
