(* C11 — setting a field changes that field and nothing else.
   The accessor models in CMPGen.GenAccessors are regenerated from /repo's sources by translator/cxx2coq.py on every run. *)
From Coq Require Import ZArith List String.
Require Import CMP.Bv CMP.SpecLayout CMP.Refine CMPGen.GenAccessors.
Local Open Scope Z_scope.

(* all obligations of all classes of the layout tables: O-get / O-set against the table, and on the generated code itself
   C11-a get(set(M, v)) = v, C11-b every bit-disjoint getter unchanged by a set, C11-c all bits outside the field unchanged *)
Theorem C11_obligations_checked : forallb check_ob all_obs = true.
Proof. vm_compute. reflexivity. Qed.

(* their meaning: for every memory image M of the object (any prior state), every in-range value of the field (the setter's argument
   is a variable of exactly the field's width) and every flag enumerator, the two sides agree modulo 2^width *)
Theorem C11_field_laws_hold_for_all_states_and_values : Forall ob_holds all_obs.
Proof. exact (all_obs_hold all_obs C11_obligations_checked). Qed.
Print Assumptions C11_field_laws_hold_for_all_states_and_values.

(* the checker's guarantee *)
Theorem C11_checker_sound : forall o, check_ob o = true -> forall env, eval env (ob_a o) mod 2 ^ ob_w o = eval env (ob_b o) mod 2 ^ ob_w o.
Proof. exact check_ob_sound. Qed.
Print Assumptions C11_checker_sound.

(* non-vacuity: there are obligations of every kind; e.g. the CAN header alone contributes more than 400 *)
(* the payload-level API (CanPayload::getId, LinPayload::setFlag, TECMP::CaptureModulePayload::getSerialNumber ... - about 160 wrappers in
   the current sources) is, wrapper by wrapper, a pure forwarder to the Header accessor of the same name *)
Theorem C11_wrappers_forward_to_the_header_accessors : wrappers_ok = true.
Proof. vm_compute. reflexivity. Qed.
Print Assumptions C11_wrappers_forward_to_the_header_accessors.

Example C11_nonvacuous : (1000 <? Z.of_nat (List.length all_obs)) = true /\ (400 <? Z.of_nat (List.length (obs_class spec_can_header))) = true.
Proof. vm_compute. split; reflexivity. Qed.
