(* Proofs about the decoder model: header round trips, totality (no Oob / Fuel), chain delivery from any state,
   endpoint isolation, pending-table characterisation. *)
Require Import CMP.Bytes CMP.Packet CMP.Tecmp CMP.Decoder.
Local Open Scope Z_scope.
Local Open Scope bool_scope.

(* ---------- message header round trip ---------- *)
Lemma ser_mhdr_length h : length (ser_mhdr h) = 16%nat.
Proof. unfold ser_mhdr. rewrite !app_length, !be_enc_length. reflexivity. Qed.
Lemma ser_mhdr_zlen h : zlen (ser_mhdr h) = 16.
Proof. unfold zlen. now rewrite ser_mhdr_length. Qed.

Lemma parse_ser h rest : mhdr_ok h -> parse_mhdr (ser_mhdr h ++ rest) = h.
Proof.
  intros (Hts & Hid & Hf & Hp & Hl). destruct h as [ts id fl pt pl]; cbn [h_ts h_id h_flags h_ptype h_plen] in *.
  unfold parse_mhdr, ser_mhdr; cbn [h_ts h_id h_flags h_ptype h_plen].
  rewrite <- !app_assoc.
  rewrite (firstn_app_exact (be_enc 8 ts)) by apply be_enc_length.
  rewrite (skipn_app_exact (be_enc 8 ts)) by apply be_enc_length.
  rewrite (firstn_app_exact (be_enc 4 id)) by apply be_enc_length.
  rewrite (skipn_app_exact (be_enc 4 id)) by apply be_enc_length.
  cbn [app nth skipn].
  rewrite (firstn_app_exact (be_enc 2 pl)) by apply be_enc_length.
  rewrite !be_dec_enc by (cbn; lia). reflexivity.
Qed.

(* ---------- association-list facts ---------- *)
Lemma ep_eqb_refl e : ep_eqb e e = true.
Proof. unfold ep_eqb. now rewrite !Z.eqb_refl. Qed.
Lemma ep_eqb_eq a b : ep_eqb a b = true <-> a = b.
Proof.
  unfold ep_eqb. destruct a as [a1 a2], b as [b1 b2]; cbn [fst snd]. rewrite andb_true_iff, !Z.eqb_eq.
  split; [intros [-> ->]; reflexivity | intros E; inversion E; auto].
Qed.
Lemma ep_eqb_neq a b : a <> b -> ep_eqb a b = false.
Proof. intros H. destruct (ep_eqb a b) eqn:E; auto. apply ep_eqb_eq in E. contradiction. Qed.
Lemma lookup_insert e s st : lookup e (insert e s st) = Some s.
Proof. unfold insert. cbn [lookup]. now rewrite ep_eqb_refl. Qed.
Lemma erase_erase e st : erase e (erase e st) = erase e st.
Proof.
  induction st as [|[k v] t IH]; cbn [erase]; auto.
  destruct (ep_eqb e k) eqn:E; cbn [erase]; rewrite ?E; auto. now rewrite IH.
Qed.
Lemma erase_insert e s st : erase e (insert e s st) = erase e st.
Proof. unfold insert. cbn [erase]. rewrite ep_eqb_refl. apply erase_erase. Qed.
Lemma lookup_erase_other e e' st : e <> e' -> lookup e (erase e' st) = lookup e st.
Proof.
  intros Hne. induction st as [|[k v] t IH]; cbn [erase lookup]; auto.
  destruct (ep_eqb e' k) eqn:E1.
  - apply ep_eqb_eq in E1; subst k. rewrite IH. now rewrite (ep_eqb_neq e e').
  - cbn [lookup]. destruct (ep_eqb e k); auto.
Qed.
Lemma lookup_erase_same e st : lookup e (erase e st) = None.
Proof.
  induction st as [|[k v] t IH]; cbn [erase lookup]; auto.
  destruct (ep_eqb e k) eqn:E1; auto. cbn [lookup]. now rewrite E1.
Qed.
Lemma lookup_insert_other e e' s st : e <> e' -> lookup e (insert e' s st) = lookup e st.
Proof. intros Hne. unfold insert. cbn [lookup]. rewrite (ep_eqb_neq e e') by assumption. now apply lookup_erase_other. Qed.
Lemma erase_absent e st : lookup e st = None -> erase e st = st.
Proof.
  induction st as [|[k v] t IH]; cbn [erase lookup]; auto.
  destruct (ep_eqb e k); [discriminate|]. intros H. now rewrite IH.
Qed.

(* ---------- extent of reads ---------- *)
Lemma valid_packet_extent buf size :
  valid_packet buf size = true -> (size <? 16 + h_plen (parse_mhdr buf)) = false.
Proof.
  unfold valid_packet. intros H. apply andb_true_iff in H as [H1 H2].
  apply andb_true_iff in H2 as [H2 _]. apply andb_true_iff in H2 as [H2 _].
  apply Z.leb_le in H1, H2. apply Z.ltb_ge. lia.
Qed.

(* ---------- totality: the message loop never reads outside the frame and never runs out of fuel ---------- *)
Definition is_ok {A} (r : res A) : Prop := match r with Ok _ => True | _ => False end.

Lemma be_dec_nonneg l : bytes_ok l -> 0 <= be_dec l.
Proof. intros H. destruct (be_dec_bound l H) as [H0 _]. exact H0. Qed.

Lemma bytes_ok_firstn n l : bytes_ok l -> bytes_ok (firstn n l).
Proof. unfold bytes_ok. intros H. rewrite Forall_forall in *. intros x Hx. apply H.
  rewrite <- (firstn_skipn n l). apply in_or_app. now left. Qed.
Lemma bytes_ok_skipn n l : bytes_ok l -> bytes_ok (skipn n l).
Proof. unfold bytes_ok. intros H. rewrite Forall_forall in *. intros x Hx. apply H.
  rewrite <- (firstn_skipn n l). apply in_or_app. now right. Qed.

Lemma plen_nonneg buf : bytes_ok buf -> 0 <= h_plen (parse_mhdr buf).
Proof.
  intros H. unfold parse_mhdr; cbn [h_plen]. apply be_dec_nonneg.
  repeat first [apply bytes_ok_firstn | apply bytes_ok_skipn]. exact H.
Qed.

Lemma dloop_total : forall fuel fh buf size st acc,
  bytes_ok buf -> 0 <= size -> size / 16 < Z.of_nat fuel -> is_ok (dloop fuel fh buf size st acc).
Proof.
  induction fuel as [|fuel IH]; intros fh buf size st acc Hb Hs Hf.
  - exfalso. assert (0 <= size / 16) by (apply Z.div_pos; lia). cbn in Hf. lia.
  - cbn [dloop].
    destruct (size <=? 0) eqn:E0; [exact I|].
    destruct (valid_packet buf size) eqn:EV; cbn [negb]; [|exact I].
    rewrite (valid_packet_extent _ _ EV).
    destruct (Z.land (h_flags (parse_mhdr buf)) 12 =? 0).
    { apply IH.
      - unfold drop. repeat apply bytes_ok_skipn. exact Hb.
      - apply valid_packet_extent in EV. apply Z.ltb_ge in EV. lia.
      - pose proof (plen_nonneg buf Hb) as Hp.
        apply valid_packet_extent in EV. apply Z.ltb_ge in EV. apply Z.leb_gt in E0.
        rewrite Nat2Z.inj_succ in Hf.
        assert ((size - 16 - h_plen (parse_mhdr buf)) / 16 <= (size - 16) / 16) by (apply Z.div_le_mono; lia).
        assert ((size - 16) / 16 = size / 16 - 1).
        { replace (size - 16) with (size + (-1) * 16) by lia. rewrite Z.div_add by lia. lia. }
        lia. }
    destruct (Z.land (h_flags (parse_mhdr buf)) 12 =? 4); [exact I|].
    destruct (lookup _ st) as [sg|]; [|exact I].
    destruct (add_segment sg _ _ fh) as [sg'|]; [|exact I].
    destruct (sg_type sg' =? 12); exact I.
Qed.

Lemma zlen_one {A} (x : A) : zlen [x] = 1.
Proof. reflexivity. Qed.
Lemma zlen_nil {A} : zlen (@nil A) = 0.
Proof. reflexivity. Qed.

(* the number of packets a frame can yield: one per 16 bytes of message area *)
Lemma dloop_count : forall fuel fh buf size st acc st' out,
  bytes_ok buf -> 0 <= size ->
  dloop fuel fh buf size st acc = Ok (st', out) -> 16 * (zlen out - zlen acc) <= size.
Proof.
  induction fuel as [|fuel IH]; intros fh buf size st acc st' out Hb Hs H; [discriminate|].
  cbn [dloop] in H.
  destruct (size <=? 0) eqn:E0; [inversion H; subst; lia|].
  destruct (valid_packet buf size) eqn:EV; cbn [negb] in H; [|inversion H; subst; lia].
  pose proof (valid_packet_extent _ _ EV) as EX. rewrite EX in H. apply Z.ltb_ge in EX.
  pose proof (plen_nonneg buf Hb) as Hp.
  destruct (Z.land (h_flags (parse_mhdr buf)) 12 =? 0).
  { apply IH in H; [| unfold drop; repeat apply bytes_ok_skipn; exact Hb | lia].
    rewrite zlen_app, zlen_one in H. lia. }
  destruct (Z.land (h_flags (parse_mhdr buf)) 12 =? 4); [inversion H; subst; lia|].
  destruct (lookup _ st) as [sg|]; [|inversion H; subst; lia].
  destruct (add_segment sg _ _ fh) as [sg'|]; [|inversion H; subst; lia].
  destruct (sg_type sg' =? 12); inversion H; subst; [|lia].
  rewrite zlen_app, zlen_one. lia.
Qed.

(* ====================================================================================================
   C05 core: a complete chain is delivered from ANY decoder state, any start counter (wrap included),
   any chunk sizes (0 included), any trailing bytes after the declared length
   ==================================================================================================== *)
Definition seg_msg (h : mhdr) (chunk trail : list Z) := ser_mhdr h ++ chunk ++ trail.
Definition msg_size (chunk trail : list Z) : Z := 16 + zlen chunk + zlen trail.

Definition seg_hdr_ok (h : mhdr) (t : Z) (chunk : list Z) :=
  mhdr_ok h /\ Z.land (h_flags h) 12 = t /\ Z.land (h_flags h) 64 = 0 /\ h_ptype h <> 0 /\ h_plen h = zlen chunk.

Lemma parse_seg_msg h t chunk trail :
  seg_hdr_ok h t chunk ->
  parse_mhdr (seg_msg h chunk trail) = h /\
  valid_packet (seg_msg h chunk trail) (msg_size chunk trail) = true /\
  take (h_plen h) (drop 16 (seg_msg h chunk trail)) = chunk.
Proof.
  intros (Hok & Ht & He & Hp & Hl). unfold seg_msg.
  assert (P : parse_mhdr (ser_mhdr h ++ chunk ++ trail) = h) by (apply parse_ser; auto).
  split; [exact P|]. split.
  - unfold valid_packet. rewrite P. unfold msg_size.
    rewrite He, Hl. apply Z.eqb_neq in Hp. rewrite Hp.
    pose proof (zlen_nonneg chunk). pose proof (zlen_nonneg trail).
    repeat (apply andb_true_iff; split); try reflexivity; try (apply Z.leb_le; lia).
  - rewrite (drop_app_exact (ser_mhdr h)) by apply ser_mhdr_zlen.
    rewrite Hl. apply take_app_exact. reflexivity.
Qed.

Section Chain.
  Variable fuel0 : nat.
  Variables ver dev mt stream : Z.
  Definition fh_at (c : Z) := {| f_ver := ver; f_dev := dev; f_mt := mt; f_stream := stream; f_seq := c mod 65536 |}.
  Notation e := (dev, stream).

  Lemma step_first c h chunk trail st acc :
    seg_hdr_ok h 4 chunk ->
    dloop (S fuel0) (fh_at c) (seg_msg h chunk trail) (msg_size chunk trail) st acc =
    Ok (insert e {| sg_hdr := h; sg_pay := chunk; sg_type := 4; sg_ver := ver; sg_mt := mt; sg_cur := c mod 65536 |} st, acc).
  Proof.
    intros H. destruct (parse_seg_msg h 4 chunk trail H) as (P & V & B).
    destruct H as (Hok & Ht & _).
    cbn [dloop]. unfold msg_size at 1.
    pose proof (zlen_nonneg chunk). pose proof (zlen_nonneg trail).
    destruct (Z.leb_spec (16 + zlen chunk + zlen trail) 0); [lia|].
    fold (msg_size chunk trail). rewrite V. cbn [negb].
    rewrite (valid_packet_extent _ _ V). rewrite P, Ht, B. reflexivity.
  Qed.

  Lemma step_next c h chunk trail st acc sg t :
    (t = 8 \/ t = 12) -> seg_hdr_ok h t chunk ->
    lookup e st = Some sg -> sg_ver sg = ver -> sg_mt sg = mt -> sg_cur sg = c mod 65536 ->
    (sg_type sg = 4 \/ sg_type sg = 8) ->
    let sg' := {| sg_hdr := sg_hdr sg; sg_pay := sg_pay sg ++ chunk; sg_type := t; sg_ver := ver; sg_mt := mt; sg_cur := (c + 1) mod 65536 |} in
    dloop (S fuel0) (fh_at (c + 1)) (seg_msg h chunk trail) (msg_size chunk trail) st acc =
    if t =? 12
    then Ok (erase e st, acc ++ [mkp_seg (fh_at (c + 1)) sg'])
    else Ok (insert e sg' st, acc).
  Proof.
    intros Ht H L Hv Hm Hc Hty sg'. destruct (parse_seg_msg h t chunk trail H) as (P & V & B).
    destruct H as (Hok & Hfl & _).
    cbn [dloop]. unfold msg_size at 1.
    pose proof (zlen_nonneg chunk). pose proof (zlen_nonneg trail).
    destruct (Z.leb_spec (16 + zlen chunk + zlen trail) 0); [lia|].
    fold (msg_size chunk trail). rewrite V. cbn [negb].
    rewrite (valid_packet_extent _ _ V). rewrite P, Hfl, B.
    assert (t =? 0 = false) as -> by (apply Z.eqb_neq; lia).
    assert (t =? 4 = false) as -> by (apply Z.eqb_neq; lia).
    change (f_dev (fh_at (c + 1)), f_stream (fh_at (c + 1))) with e. rewrite L.
    unfold add_segment. cbn [f_ver f_mt f_seq fh_at]. rewrite Hv, Hm, Hc, Hfl, !Z.eqb_refl.
    assert (((c + 1) mod 65536 =? (c mod 65536 + 1) mod 65536) = true) as ->.
    { apply Z.eqb_eq. rewrite <- Zplus_mod_idemp_l. reflexivity. }
    assert (seg_valid_next (sg_type sg) t = true) as ->.
    { unfold seg_valid_next. destruct Hty as [-> | ->], Ht as [-> | ->]; reflexivity. }
    cbn [andb sg_type sg_pay sg_hdr sg_mt sg_ver].
    replace ((c mod 65536 + 1) mod 65536) with ((c + 1) mod 65536) by (rewrite <- (Zplus_mod_idemp_l c); reflexivity).
    destruct Ht as [-> | ->]; reflexivity.
  Qed.
End Chain.

Section ChainThm.
  Variable fuel0 : nat.
  Variables ver dev mt stream : Z.
  Notation e := (dev, stream).
  Notation fh := (fh_at ver dev mt stream).

  (* a segment frame as the decoder sees it after the 8-byte frame header *)
  Record sframe := { s_h : mhdr; s_chunk : list Z; s_trail : list Z }.
  Definition feed (c : Z) (f : sframe) (st : dstate) : res (dstate * list packet) :=
    dloop (S fuel0) (fh c) (seg_msg (s_h f) (s_chunk f) (s_trail f)) (msg_size (s_chunk f) (s_trail f)) st [].

  (* feed frames numbered c, c+1, ...; collect per-call outputs *)
  Fixpoint run (c : Z) (fs : list sframe) (st : dstate) : res (dstate * list (list packet)) :=
    match fs with
    | [] => Ok (st, [])
    | f :: t => dor r1 <- feed c f st; let '(st1, o) := r1 in
                dor r2 <- run (c + 1) t st1; let '(st2, os) := r2 in Ok (st2, o :: os)
    end.

  (* the message the chain must deliver *)
  Definition chain_packet (c : Z) (h0 : mhdr) (pay : list Z) : packet :=
    mkp_seg (fh c) {| sg_hdr := h0; sg_pay := pay; sg_type := 12; sg_ver := ver; sg_mt := mt; sg_cur := c mod 65536 |}.

  Lemma run_tail : forall (mids : list sframe) (lastf : sframe) c sg st,
    Forall (fun f => seg_hdr_ok (s_h f) 8 (s_chunk f)) mids ->
    seg_hdr_ok (s_h lastf) 12 (s_chunk lastf) ->
    lookup e st = Some sg -> sg_ver sg = ver -> sg_mt sg = mt -> sg_cur sg = c mod 65536 ->
    (sg_type sg = 4 \/ sg_type sg = 8) ->
    let pay := sg_pay sg ++ concat (map s_chunk mids) ++ s_chunk lastf in
    run (c + 1) (mids ++ [lastf]) st =
    Ok (erase e st, map (fun _ => []) mids ++ [[chain_packet (c + 1 + zlen mids) (sg_hdr sg) pay]]).
  Proof.
    induction mids as [|m mids IH]; intros lastf c sg st Hm Hl L Hv Hmt Hc Hty pay.
    - cbn [app run map concat] in *. unfold feed.
      rewrite (step_next fuel0 ver dev mt stream c (s_h lastf) (s_chunk lastf) (s_trail lastf) st [] sg 12); [|auto..].
      cbn [Z.eqb Pos.eqb app rbind]. subst pay. cbn [app]. rewrite zlen_nil, Z.add_0_r. reflexivity.
    - inversion Hm as [|? ? Hm1 Hm2]; subst.
      cbn [app run]. unfold feed at 1.
      rewrite (step_next fuel0 ver dev mt stream c (s_h m) (s_chunk m) (s_trail m) st [] sg 8); [|auto..].
      cbn [Z.eqb Pos.eqb rbind].
      set (sg' := {| sg_hdr := sg_hdr sg; sg_pay := sg_pay sg ++ s_chunk m; sg_type := 8; sg_ver := ver; sg_mt := mt; sg_cur := (c + 1) mod 65536 |}).
      specialize (IH lastf (c + 1) sg' (insert e sg' st) Hm2 Hl (lookup_insert e sg' st) eq_refl eq_refl eq_refl (or_intror eq_refl)).
      cbn zeta in IH. rewrite IH. cbn [rbind]. rewrite erase_insert.
      f_equal. f_equal. cbn [map app]. f_equal. f_equal. f_equal.
      subst sg' pay. cbn [sg_pay sg_hdr map concat]. rewrite <- !app_assoc.
      replace (c + 1 + zlen (m :: mids)) with (c + 1 + 1 + zlen mids) by (unfold zlen; cbn [length]; lia).
      reflexivity.
  Qed.

  Theorem chain_delivers : forall firstf mids lastf c st,
    seg_hdr_ok (s_h firstf) 4 (s_chunk firstf) ->
    Forall (fun f => seg_hdr_ok (s_h f) 8 (s_chunk f)) mids ->
    seg_hdr_ok (s_h lastf) 12 (s_chunk lastf) ->
    let pay := s_chunk firstf ++ concat (map s_chunk mids) ++ s_chunk lastf in
    run c (firstf :: mids ++ [lastf]) st =
    Ok (erase e st, [] :: map (fun _ => []) mids ++ [[chain_packet (c + 1 + zlen mids) (s_h firstf) pay]]).
  Proof.
    intros firstf mids lastf c st Hf Hm Hl pay.
    cbn [run]. unfold feed at 1. rewrite step_first by assumption. cbn [rbind].
    set (sg := {| sg_hdr := s_h firstf; sg_pay := s_chunk firstf; sg_type := 4; sg_ver := ver; sg_mt := mt; sg_cur := c mod 65536 |}).
    pose proof (run_tail mids lastf c sg (insert e sg st) Hm Hl (lookup_insert e sg st) eq_refl eq_refl eq_refl (or_introl eq_refl)) as R.
    cbn zeta in R. rewrite R. cbn [rbind]. rewrite erase_insert. reflexivity.
  Qed.
End ChainThm.

(* what chain_packet is: header fields of the first segment, payload = the concatenated declared chunks *)
Lemma chain_packet_fields ver dev mt stream c h0 pay :
  zlen pay < 65536 ->
  let p := chain_packet ver dev mt stream c h0 pay in
  p_ver p = ver /\ p_dev p = dev /\ p_stream p = stream /\ p_ts p = h_ts h0 /\ p_flags p = h_flags h0 /\
  p_pl p = Some (create (mk_type mt (h_ptype h0)) pay).
Proof.
  intros Hlen. unfold chain_packet, mkp_seg, mkp, stamp, packet_of_msg, set_plen.
  cbn [p_ver p_dev p_stream p_ts p_flags p_pl sg_hdr sg_pay sg_ver sg_mt f_dev f_stream fh_at h_ts h_flags h_ptype h_plen].
  repeat split.
  pose proof (zlen_nonneg pay). rewrite Z.mod_small by lia.
  unfold take, zlen. rewrite Nat2Z.id, firstn_all. reflexivity.
Qed.

(* ====================================================================================================
   C18: endpoint isolation
   ==================================================================================================== *)
Definition fep (fh : fhdr) : ep := (f_dev fh, f_stream fh).
Definition pep (p : packet) : ep := (p_dev p, p_stream p).

Lemma pep_mkp fh mt ver h pay : pep (mkp fh mt ver h pay) = fep fh.
Proof. reflexivity. Qed.
Lemma pep_mkp_seg fh sg : pep (mkp_seg fh sg) = fep fh.
Proof. reflexivity. Qed.

(* (1) a frame of endpoint e' never touches another endpoint's pending entry, and only emits e' packets *)
Lemma dloop_other : forall fuel fh buf size st acc st' out e,
  e <> fep fh ->
  dloop fuel fh buf size st acc = Ok (st', out) ->
  lookup e st' = lookup e st /\ exists new, out = acc ++ new /\ Forall (fun p => pep p = fep fh) new.
Proof.
  induction fuel as [|fuel IH]; intros fh buf size st acc st' out e Hne H; [discriminate|].
  cbn [dloop] in H. unfold fep in *.
  assert (NIL : forall s, lookup e s = lookup e st -> lookup e s = lookup e st /\ exists new, acc = acc ++ new /\ Forall (fun p => pep p = (f_dev fh, f_stream fh)) new).
  { intros s Hs. split; auto. exists []. rewrite app_nil_r. auto. }
  destruct (size <=? 0); [inversion H; subst; apply NIL; reflexivity|].
  destruct (valid_packet buf size); cbn [negb] in H.
  2:{ inversion H; subst. apply NIL. apply lookup_erase_other; auto. }
  destruct (size <? 16 + h_plen (parse_mhdr buf)); [discriminate|].
  destruct (Z.land (h_flags (parse_mhdr buf)) 12 =? 0).
  { apply (IH _ _ _ _ _ _ _ e Hne) in H. destruct H as (L & new & Hs & Hall).
    split; [rewrite L; apply lookup_erase_other; auto|].
    eexists (_ :: new). rewrite Hs, <- app_assoc. split; [reflexivity|]. constructor; auto. }
  destruct (Z.land (h_flags (parse_mhdr buf)) 12 =? 4).
  { inversion H; subst. apply NIL. apply lookup_insert_other; auto. }
  destruct (lookup (f_dev fh, f_stream fh) st) as [sg|].
  2:{ inversion H; subst. apply NIL. reflexivity. }
  destruct (add_segment sg _ _ fh) as [sg'|].
  2:{ inversion H; subst. apply NIL. apply lookup_erase_other; auto. }
  destruct (sg_type sg' =? 12); inversion H; subst.
  - split; [apply lookup_erase_other; auto|]. eexists [_]. split; [reflexivity|]. constructor; auto.
  - apply NIL. apply lookup_insert_other; auto.
Qed.

Lemma dloop_outputs : forall fuel fh buf size st acc st' out,
  dloop fuel fh buf size st acc = Ok (st', out) ->
  exists new, out = acc ++ new /\ Forall (fun p => pep p = fep fh) new.
Proof.
  induction fuel as [|fuel IH]; intros fh buf size st acc st' out H; [discriminate|].
  cbn [dloop] in H. unfold fep in *.
  assert (NIL : exists new, acc = acc ++ new /\ Forall (fun p => pep p = (f_dev fh, f_stream fh)) new)
    by (exists []; rewrite app_nil_r; auto).
  destruct (size <=? 0); [inversion H; subst; exact NIL|].
  destruct (valid_packet buf size); cbn [negb] in H; [|inversion H; subst; exact NIL].
  destruct (size <? 16 + h_plen (parse_mhdr buf)); [discriminate|].
  destruct (Z.land (h_flags (parse_mhdr buf)) 12 =? 0).
  { apply IH in H. destruct H as (new & Hs & Hall).
    eexists (_ :: new). rewrite Hs, <- app_assoc. split; [reflexivity|]. constructor; auto. }
  destruct (Z.land (h_flags (parse_mhdr buf)) 12 =? 4); [inversion H; subst; exact NIL|].
  destruct (lookup (f_dev fh, f_stream fh) st) as [sg|]; [|inversion H; subst; exact NIL].
  destruct (add_segment sg _ _ fh) as [sg'|]; [|inversion H; subst; exact NIL].
  destruct (sg_type sg' =? 12); inversion H; subst; [|exact NIL].
  eexists [_]. split; [reflexivity|]. constructor; auto.
Qed.

(* (2) what a frame of endpoint e' does depends on the state only through lookup e' *)
Lemma dloop_local : forall fuel fh buf size st1 st2 acc,
  lookup (fep fh) st1 = lookup (fep fh) st2 ->
  match dloop fuel fh buf size st1 acc, dloop fuel fh buf size st2 acc with
  | Ok (s1, o1), Ok (s2, o2) => lookup (fep fh) s1 = lookup (fep fh) s2 /\ o1 = o2
  | Oob, Oob => True
  | Fuel, Fuel => True
  | _, _ => False
  end.
Proof.
  induction fuel as [|fuel IH]; intros fh buf size st1 st2 acc Heq; [exact I|].
  cbn [dloop]. unfold fep in *.
  destruct (size <=? 0); [auto|].
  destruct (valid_packet buf size); cbn [negb].
  2:{ rewrite !lookup_erase_same. auto. }
  destruct (size <? 16 + h_plen (parse_mhdr buf)); [exact I|].
  destruct (Z.land (h_flags (parse_mhdr buf)) 12 =? 0).
  { apply IH. rewrite !lookup_erase_same. reflexivity. }
  destruct (Z.land (h_flags (parse_mhdr buf)) 12 =? 4).
  { rewrite !lookup_insert. auto. }
  rewrite <- Heq.
  destruct (lookup (f_dev fh, f_stream fh) st1) as [sg|] eqn:L1; [|split; [congruence|reflexivity]].
  destruct (add_segment sg _ _ fh) as [sg'|].
  2:{ rewrite !lookup_erase_same. auto. }
  destruct (sg_type sg' =? 12).
  + rewrite !lookup_erase_same. auto.
  + rewrite !lookup_insert. auto.
Qed.

(* ---------- lifted to decode on whole buffers ---------- *)
Definition buf_ep (buf : list Z) : option ep :=
  if (zlen buf <? 8) || (u8 buf 0 =? 0) then None else Some (fep (parse_fhdr buf)).

(* one decode call; totality (below) shows the Oob / Fuel branch is never taken *)
Definition dec1 (st : dstate) (buf : list Z) : dstate * list packet :=
  match decode st buf with Ok r => r | _ => (st, []) end.
(* packets delivered for capture-module frames *)
Definition cmp_out (st : dstate) (buf : list Z) : list packet :=
  match buf_ep buf with Some _ => snd (dec1 st buf) | None => [] end.

Lemma dec1_noncmp st buf : buf_ep buf = None -> fst (dec1 st buf) = st.
Proof.
  unfold buf_ep, dec1, decode. intros H.
  destruct (zlen buf <? 8); [reflexivity|]. cbn [orb] in H.
  destruct (u8 buf 0 =? 0); [|discriminate].
  destruct (tecmp_decode buf); reflexivity.
Qed.

Lemma dec1_other st buf e e' :
  buf_ep buf = Some e' -> e <> e' ->
  lookup e (fst (dec1 st buf)) = lookup e st /\ Forall (fun p => pep p = e') (snd (dec1 st buf)).
Proof.
  unfold buf_ep, dec1, decode. intros H Hne.
  destruct (zlen buf <? 8); [discriminate|]. cbn [orb] in H.
  destruct (u8 buf 0 =? 0); [discriminate|]. inversion H; subst e'. clear H.
  destruct (zlen buf - 8 =? 0).
  { cbn [fst snd]. split; [apply lookup_erase_other; auto | constructor]. }
  destruct (dloop _ _ _ _ st []) as [[s o]| |] eqn:E; cbn [fst snd]; [|split; auto..].
  destruct (dloop_other _ _ _ _ _ _ _ _ e Hne E) as (L & new & Hn & Hall).
  cbn [app] in Hn. subst o. split; assumption.
Qed.

Lemma dec1_outputs st buf e' :
  buf_ep buf = Some e' -> Forall (fun p => pep p = e') (snd (dec1 st buf)).
Proof.
  unfold buf_ep, dec1, decode. intros H.
  destruct (zlen buf <? 8); [discriminate|]. cbn [orb] in H.
  destruct (u8 buf 0 =? 0); [discriminate|]. inversion H; subst e'. clear H.
  destruct (zlen buf - 8 =? 0); [constructor|].
  destruct (dloop _ _ _ _ st []) as [[s o]| |] eqn:E; cbn [snd]; [|constructor..].
  destruct (dloop_outputs _ _ _ _ _ _ _ _ E) as (new & Hn & Hall). cbn [app] in Hn. subst o. exact Hall.
Qed.

Lemma dec1_local st1 st2 buf e' :
  buf_ep buf = Some e' -> lookup e' st1 = lookup e' st2 ->
  lookup e' (fst (dec1 st1 buf)) = lookup e' (fst (dec1 st2 buf)) /\ snd (dec1 st1 buf) = snd (dec1 st2 buf).
Proof.
  unfold buf_ep, dec1, decode. intros H Heq.
  destruct (zlen buf <? 8); [discriminate|]. cbn [orb] in H.
  destruct (u8 buf 0 =? 0); [discriminate|]. inversion H; subst e'. clear H.
  destruct (zlen buf - 8 =? 0).
  { cbn [fst snd]. unfold fep. rewrite !lookup_erase_same. auto. }
  pose proof (dloop_local (fuel_of (zlen buf - 8)) (parse_fhdr buf) (drop 8 buf) (zlen buf - 8) st1 st2 [] Heq) as D.
  destruct (dloop _ _ _ _ st1 []) as [[s1 o1]| |]; destruct (dloop _ _ _ _ st2 []) as [[s2 o2]| |]; cbn [fst snd]; try contradiction; auto.
Qed.

Definition ep_dec (a b : ep) : {a = b} + {a <> b}.
Proof. decide equality; apply Z.eq_dec. Defined.
Definition is_ep (e : ep) (o : option ep) : bool := match o with Some e' => if ep_dec e' e then true else false | None => false end.

(* histories: all packets delivered for capture-module frames, in order *)
Fixpoint runh (st : dstate) (h : list (list Z)) : list packet :=
  match h with [] => [] | b :: t => cmp_out st b ++ runh (fst (dec1 st b)) t end.
Fixpoint runh_st (st : dstate) (h : list (list Z)) : dstate :=
  match h with [] => st | b :: t => runh_st (fst (dec1 st b)) t end.
Definition proj (e : ep) (h : list (list Z)) := filter (fun b => is_ep e (buf_ep b)) h.
Definition projp (e : ep) (ps : list packet) := filter (fun p => if ep_dec (pep p) e then true else false) ps.

Lemma projp_app e a b : projp e (a ++ b) = projp e a ++ projp e b.
Proof. unfold projp. apply filter_app. Qed.
Lemma projp_all e ps : Forall (fun p => pep p = e) ps -> projp e ps = ps.
Proof. induction 1 as [|p t Hp Ht IH]; cbn [projp filter]; auto. destruct (ep_dec (pep p) e); [|contradiction]. fold (projp e t). now rewrite IH. Qed.
Lemma projp_none e e' ps : e' <> e -> Forall (fun p => pep p = e') ps -> projp e ps = [].
Proof. intros Hne. induction 1 as [|p t Hp Ht IH]; cbn [projp filter]; auto. destruct (ep_dec (pep p) e); [congruence|]. exact IH. Qed.

Theorem isolation : forall e h st1 st2,
  lookup e st1 = lookup e st2 ->
  projp e (runh st1 h) = runh st2 (proj e h).
Proof.
  intros e. induction h as [|b t IH]; intros st1 st2 Heq; [reflexivity|].
  cbn [runh proj filter]. unfold cmp_out at 1.
  destruct (buf_ep b) as [e'|] eqn:EB; cbn [is_ep].
  - destruct (ep_dec e' e) as [He|Hne].
    + subst e'. fold (proj e t). cbn [runh]. unfold cmp_out. rewrite EB.
      destruct (dec1_local st1 st2 b e EB Heq) as [HL HO].
      rewrite projp_app, (projp_all e) by (apply dec1_outputs; exact EB).
      rewrite HO. f_equal. apply IH. exact HL.
    + fold (proj e t).
      destruct (dec1_other st1 b e e' EB (not_eq_sym Hne)) as [HL Hall].
      rewrite projp_app, (projp_none e e') by auto. cbn [app]. apply IH. congruence.
  - fold (proj e t). cbn [app]. apply IH. rewrite (dec1_noncmp st1 b EB). exact Heq.
Qed.

(* buffers that are no capture-module frames (TECMP, shorter than 8 bytes) leave the reassembly state unchanged *)
Theorem noncmp_transparent st b : buf_ep b = None -> fst (dec1 st b) = st /\ cmp_out st b = [].
Proof. intros H. split; [apply dec1_noncmp; exact H | unfold cmp_out; now rewrite H]. Qed.

(* ====================================================================================================
   C17: what the reassembly table holds
   ==================================================================================================== *)
(* state version of isolation: an endpoint's pending entry depends only on its own frames *)
Theorem pending_isolation : forall e h st1 st2,
  lookup e st1 = lookup e st2 ->
  lookup e (runh_st st1 h) = lookup e (runh_st st2 (proj e h)).
Proof.
  intros e. induction h as [|b t IH]; intros st1 st2 Heq; [exact Heq|].
  cbn [runh_st proj filter].
  destruct (buf_ep b) as [e'|] eqn:EB; cbn [is_ep].
  - destruct (ep_dec e' e) as [He|Hne].
    + subst e'. fold (proj e t). cbn [runh_st].
      destruct (dec1_local st1 st2 b e EB Heq) as [HL HO]. apply IH. exact HL.
    + fold (proj e t). destruct (dec1_other st1 b e e' EB (not_eq_sym Hne)) as [HL _]. apply IH. congruence.
  - fold (proj e t). apply IH. rewrite (dec1_noncmp st1 b EB). exact Heq.
Qed.

(* the entry an endpoint has after one of its frames: the frame opened a chain or continued the previous entry *)
Definition opened (fh : fhdr) (sg' : seg) : Prop :=
  exists h chunk, zlen chunk = h_plen h /\
    sg' = {| sg_hdr := h; sg_pay := chunk; sg_type := 4; sg_ver := f_ver fh; sg_mt := f_mt fh; sg_cur := f_seq fh |}.
Definition continued (fh : fhdr) (old : option seg) (sg' : seg) : Prop :=
  exists sg h chunk, old = Some sg /\ zlen chunk = h_plen h /\
    sg_ver sg = f_ver fh /\ sg_mt sg = f_mt fh /\ f_seq fh = (sg_cur sg + 1) mod 65536 /\
    sg' = {| sg_hdr := sg_hdr sg; sg_pay := sg_pay sg ++ chunk; sg_type := 8; sg_ver := sg_ver sg; sg_mt := sg_mt sg;
             sg_cur := (sg_cur sg + 1) mod 65536 |}.

Lemma zlen_take_drop (buf : list Z) (n size : Z) :
  size <= zlen buf -> 0 <= n -> 16 + n <= size -> zlen (take n (drop 16 buf)) = n.
Proof.
  intros H1 H2 H3. rewrite zlen_take; [reflexivity|]. rewrite zlen_drop by lia. lia.
Qed.

Lemma add_segment_inv sg h chunk fh sg' :
  add_segment sg h chunk fh = Some sg' ->
  sg_ver sg = f_ver fh /\ sg_mt sg = f_mt fh /\ f_seq fh = (sg_cur sg + 1) mod 65536 /\
  seg_valid_next (sg_type sg) (Z.land (h_flags h) 12) = true /\
  sg' = {| sg_hdr := sg_hdr sg; sg_pay := sg_pay sg ++ chunk; sg_type := Z.land (h_flags h) 12; sg_ver := sg_ver sg;
           sg_mt := sg_mt sg; sg_cur := (sg_cur sg + 1) mod 65536 |}.
Proof.
  unfold add_segment. destruct (_ && _) eqn:E; [|discriminate]. intros H; inversion H; subst; clear H.
  apply andb_true_iff in E as [E E4]. apply andb_true_iff in E as [E E3]. apply andb_true_iff in E as [E1 E2].
  apply Z.eqb_eq in E1, E2, E3. auto.
Qed.

(* a continuation that is accepted carries segment bits 8 or 12 *)
Lemma seg_valid_next_cont cur t : t <> 0 -> t <> 4 -> seg_valid_next cur t = true -> (t = 8 \/ t = 12) /\ cur <> 0 /\ cur <> 12.
Proof.
  intros H0 H4. unfold seg_valid_next.
  destruct ((cur =? 0) || (cur =? 12)) eqn:Es; intros H; apply orb_true_iff in H; destruct H as [H|H]; apply Z.eqb_eq in H; try contradiction.
  - apply orb_false_iff in Es. destruct Es as [E0 E12]. apply Z.eqb_neq in E0, E12. auto.
  - apply orb_false_iff in Es. destruct Es as [E0 E12]. apply Z.eqb_neq in E0, E12. auto.
Qed.

Lemma dloop_entry : forall fuel fh buf size st acc st' out,
  size <= zlen buf -> bytes_ok buf ->
  (0 < size \/ lookup (fep fh) st = None) ->
  dloop fuel fh buf size st acc = Ok (st', out) ->
  match lookup (fep fh) st' with
  | None => True
  | Some sg' => opened fh sg' \/ continued fh (lookup (fep fh) st) sg'
  end.
Proof.
  induction fuel as [|fuel IH]; intros fh buf size st acc st' out Hsz Hb Hpre H; [discriminate|].
  cbn [dloop] in H. unfold fep in *.
  destruct (Z.leb_spec size 0) as [Hle|Hgt].
  { inversion H; subst. destruct Hpre as [?|Hn]; [lia|]. rewrite Hn. exact I. }
  destruct (valid_packet buf size) eqn:EV; cbn [negb] in H.
  2:{ inversion H; subst. rewrite lookup_erase_same. exact I. }
  pose proof (valid_packet_extent _ _ EV) as EX. rewrite EX in H. apply Z.ltb_ge in EX.
  pose proof (plen_nonneg buf Hb) as Hp.
  destruct (Z.land (h_flags (parse_mhdr buf)) 12 =? 0) eqn:T0.
  { apply IH in H.
    - rewrite lookup_erase_same in H.
      destruct (lookup (f_dev fh, f_stream fh) st') as [sg'|]; [|exact I].
      destruct H as [H|H]; [left; exact H|]. destruct H as (sg & ? & ? & Habs & _). discriminate.
    - assert (D16 : zlen (drop 16 buf) = zlen buf - 16) by (apply zlen_drop; lia).
      rewrite zlen_drop by lia. lia.
    - unfold drop. repeat apply bytes_ok_skipn. exact Hb.
    - right. apply lookup_erase_same. }
  destruct (Z.land (h_flags (parse_mhdr buf)) 12 =? 4) eqn:T4.
  { inversion H; subst. rewrite lookup_insert. left. eexists _, _. split; [|reflexivity].
    eapply zlen_take_drop; eauto. }
  destruct (lookup (f_dev fh, f_stream fh) st) as [sg|] eqn:L.
  2:{ inversion H; subst. rewrite L. exact I. }
  destruct (add_segment sg _ _ fh) as [sg'|] eqn:A.
  2:{ inversion H; subst. rewrite lookup_erase_same. exact I. }
  destruct (sg_type sg' =? 12) eqn:T12; inversion H; subst.
  { rewrite lookup_erase_same. exact I. }
  rewrite lookup_insert. right.
  apply add_segment_inv in A. destruct A as (A1 & A2 & A3 & A4 & A5).
  apply Z.eqb_neq in T0, T4.
  destruct (seg_valid_next_cont _ _ T0 T4 A4) as [[T8|T12'] _].
  2:{ rewrite A5 in T12. cbn [sg_type] in T12. rewrite T12' in T12. discriminate. }
  exists sg, (parse_mhdr buf), (take (h_plen (parse_mhdr buf)) (drop 16 buf)).
  split; [reflexivity|]. split; [eapply zlen_take_drop; eauto|].
  rewrite A5, T8. auto.
Qed.

(* invariant of every reachable table: one entry per endpoint, only incomplete chains (last segment type first / intermediary) *)
Definition entry_ok (kv : ep * seg) : Prop := sg_type (snd kv) = 4 \/ sg_type (snd kv) = 8.
Definition dec_inv (st : dstate) : Prop := NoDup (map fst st) /\ Forall entry_ok st.

Lemma erase_keys e st k : In k (map fst (erase e st)) -> In k (map fst st) /\ k <> e.
Proof.
  induction st as [|[k' v] t IH]; cbn [erase map]; [contradiction|].
  destruct (ep_eqb e k') eqn:E.
  - intros H. destruct (IH H). split; [right|]; auto.
  - cbn [map In fst]. intros [H|H].
    + subst k'. split; [left; reflexivity|]. intros ->. rewrite ep_eqb_refl in E. discriminate.
    + destruct (IH H). split; [right|]; auto.
Qed.
Lemma erase_inv e st : dec_inv st -> dec_inv (erase e st).
Proof.
  intros [Hn Hf]. induction st as [|[k v] t IH]; cbn [erase]; [split; constructor|].
  inversion Hn as [|? ? Hnotin Hn']; subst. inversion Hf as [|? ? Hv Hf']; subst.
  destruct (IH Hn' Hf') as [I1 I2].
  destruct (ep_eqb e k); [split; assumption|].
  split; cbn [map fst].
  - constructor; [|exact I1]. intros Hin. apply erase_keys in Hin. destruct Hin. contradiction.
  - constructor; assumption.
Qed.
Lemma insert_inv e sg st : dec_inv st -> (sg_type sg = 4 \/ sg_type sg = 8) -> dec_inv (insert e sg st).
Proof.
  intros H Ht. destruct (erase_inv e st H) as [I1 I2]. unfold insert. split; cbn [map fst].
  - constructor; [|exact I1]. intros Hin. apply erase_keys in Hin. destruct Hin as [_ Hne]. congruence.
  - constructor; [exact Ht | exact I2].
Qed.

Lemma dloop_inv : forall fuel fh buf size st acc st' out,
  dec_inv st -> dloop fuel fh buf size st acc = Ok (st', out) -> dec_inv st'.
Proof.
  induction fuel as [|fuel IH]; intros fh buf size st acc st' out Hi H; [discriminate|].
  cbn [dloop] in H.
  destruct (size <=? 0); [inversion H; subst; exact Hi|].
  destruct (valid_packet buf size); cbn [negb] in H; [|inversion H; subst; apply erase_inv; exact Hi].
  destruct (size <? 16 + h_plen (parse_mhdr buf)); [discriminate|].
  destruct (Z.land (h_flags (parse_mhdr buf)) 12 =? 0) eqn:T0.
  { eapply IH; [|exact H]. apply erase_inv; exact Hi. }
  destruct (Z.land (h_flags (parse_mhdr buf)) 12 =? 4) eqn:T4.
  { inversion H; subst. apply insert_inv; [exact Hi|]. left; reflexivity. }
  destruct (lookup _ st) as [sg|]; [|inversion H; subst; exact Hi].
  destruct (add_segment sg _ _ fh) as [sg'|] eqn:A; [|inversion H; subst; apply erase_inv; exact Hi].
  destruct (sg_type sg' =? 12) eqn:T12; inversion H; subst; [apply erase_inv; exact Hi|].
  apply insert_inv; [exact Hi|].
  apply add_segment_inv in A. destruct A as (_ & _ & _ & A4 & A5).
  apply Z.eqb_neq in T0, T4. destruct (seg_valid_next_cont _ _ T0 T4 A4) as [[T8|T12'] _].
  - right. rewrite A5. exact T8.
  - rewrite A5 in T12. cbn [sg_type] in T12. rewrite T12' in T12. discriminate.
Qed.

Lemma dec1_inv st b : dec_inv st -> dec_inv (fst (dec1 st b)).
Proof.
  intros Hi. unfold dec1, decode.
  destruct (zlen b <? 8); [exact Hi|].
  destruct (u8 b 0 =? 0); [destruct (tecmp_decode b); exact Hi|].
  destruct (zlen b - 8 =? 0); [apply erase_inv; exact Hi|].
  destruct (dloop _ _ _ _ st []) as [[s o]| |] eqn:E; cbn [fst]; try exact Hi.
  eapply dloop_inv; eauto.
Qed.

Theorem reachable_inv h : dec_inv (runh_st [] h).
Proof.
  assert (G : forall h st, dec_inv st -> dec_inv (runh_st st h)).
  { induction h0 as [|b t IH]; intros st Hi; [exact Hi|]. cbn [runh_st]. apply IH. apply dec1_inv. exact Hi. }
  apply G. split; constructor.
Qed.

(* after a frame of endpoint e, e has an entry only if that frame opened a chain or continued e's previous entry *)
Theorem entry_after_frame st b e :
  bytes_ok b -> buf_ep b = Some e ->
  match lookup e (fst (dec1 st b)) with
  | None => True
  | Some sg' => opened (parse_fhdr b) sg' \/ continued (parse_fhdr b) (lookup e st) sg'
  end.
Proof.
  intros Hb. unfold buf_ep, dec1, decode.
  destruct (Z.ltb_spec (zlen b) 8) as [Hlt|Hge]; [discriminate|]. cbn [orb].
  destruct (u8 b 0 =? 0); [discriminate|]. intros HE; inversion HE; subst e; clear HE.
  destruct (Z.eqb_spec (zlen b - 8) 0) as [Hz|Hnz]; [cbn [fst]; unfold fep; rewrite lookup_erase_same; exact I|].
  destruct (dloop _ _ _ _ st []) as [[s o]| |] eqn:E; cbn [fst].
  - eapply dloop_entry; [| |left|exact E].
    + rewrite zlen_drop by lia. lia.
    + apply bytes_ok_drop; exact Hb.
    + lia.
  - pose proof (dloop_total (fuel_of (zlen b - 8)) (parse_fhdr b) (drop 8 b) (zlen b - 8) st [] (bytes_ok_drop 8 b Hb)) as T.
    rewrite E in T. exfalso. apply T; [lia|]. unfold fuel_of. rewrite Nat2Z.inj_succ, Z2Nat.id by (apply Z.div_pos; lia). lia.
  - pose proof (dloop_total (fuel_of (zlen b - 8)) (parse_fhdr b) (drop 8 b) (zlen b - 8) st [] (bytes_ok_drop 8 b Hb)) as T.
    rewrite E in T. exfalso. apply T; [lia|]. unfold fuel_of. rewrite Nat2Z.inj_succ, Z2Nat.id by (apply Z.div_pos; lia). lia.
Qed.

(* a table without entries for any endpoint is the empty table: traffic that leaves no chain open leaves nothing buffered *)
Lemma all_none_empty st : (forall e, lookup e st = None) -> st = [].
Proof.
  destruct st as [|[k v] t]; [reflexivity|]. intros H. specialize (H k). cbn [lookup] in H. rewrite ep_eqb_refl in H. discriminate.
Qed.

(* number of entries = number of endpoints with an open chain (keys are distinct) and buffered bytes per entry *)
Lemma pending_bytes_cons kv st : pending_bytes (kv :: st) = 16 + zlen (sg_pay (snd kv)) + pending_bytes st.
Proof. reflexivity. Qed.
Lemma lookup_in e st sg : lookup e st = Some sg -> In (e, sg) st.
Proof.
  induction st as [|[k v] t IH]; cbn [lookup]; [discriminate|].
  destruct (ep_eqb e k) eqn:E; [|intros H; right; auto].
  intros H; inversion H; subst. apply ep_eqb_eq in E. subst. left. reflexivity.
Qed.
Lemma in_lookup e st sg : NoDup (map fst st) -> In (e, sg) st -> lookup e st = Some sg.
Proof.
  induction st as [|[k v] t IH]; cbn [lookup map fst]; [contradiction|].
  intros Hn Hin. inversion Hn as [|? ? Hnot Hn']; subst.
  destruct Hin as [Hin|Hin].
  - inversion Hin; subst. now rewrite ep_eqb_refl.
  - destruct (ep_eqb e k) eqn:E; [|auto].
    apply ep_eqb_eq in E. subst k. exfalso. apply Hnot. apply (in_map fst) in Hin. exact Hin.
Qed.

(* ---------- per-call isolation: what each decode call of endpoint e returns is what it returns in e's own history ---------- *)
Fixpoint runc (st : dstate) (h : list (list Z)) : list (list packet) :=
  match h with [] => [] | b :: t => cmp_out st b :: runc (fst (dec1 st b)) t end.
(* outputs of the calls that carried a frame of e *)
Fixpoint callproj (e : ep) (h : list (list Z)) (outs : list (list packet)) : list (list packet) :=
  match h, outs with
  | b :: t, o :: os => if is_ep e (buf_ep b) then o :: callproj e t os else callproj e t os
  | _, _ => []
  end.

Theorem isolation_per_call : forall e h st1 st2,
  lookup e st1 = lookup e st2 ->
  callproj e h (runc st1 h) = runc st2 (proj e h).
Proof.
  intros e. induction h as [|b t IH]; intros st1 st2 Heq; [reflexivity|].
  cbn [runc callproj proj filter].
  destruct (buf_ep b) as [e'|] eqn:EB; cbn [is_ep].
  - destruct (ep_dec e' e) as [He|Hne].
    + subst e'. fold (proj e t). cbn [runc].
      destruct (dec1_local st1 st2 b e EB Heq) as [HL HO].
      unfold cmp_out. rewrite EB, HO. f_equal. apply IH. exact HL.
    + fold (proj e t). destruct (dec1_other st1 b e e' EB (not_eq_sym Hne)) as [HL _]. apply IH. congruence.
  - fold (proj e t). apply IH. rewrite (dec1_noncmp st1 b EB). exact Heq.
Qed.

(* ---------- frames on the wire: 8-byte header + message area ---------- *)
Definition fhdr_ok (f : fhdr) : Prop :=
  1 <= f_ver f < 256 /\ 0 <= f_dev f < 65536 /\ 0 <= f_mt f < 256 /\ 0 <= f_stream f < 256 /\ 0 <= f_seq f < 65536.

Lemma ser_fhdr_zlen f : zlen (ser_fhdr f) = 8.
Proof. unfold ser_fhdr. rewrite !zlen_app, !zlen_be_enc. reflexivity. Qed.

Lemma be_enc2 x : exists a b, be_enc 2 x = [a; b].
Proof. unfold be_enc. eexists _, _. reflexivity. Qed.

Lemma parse_ser_fhdr f rest : fhdr_ok f -> parse_fhdr (ser_fhdr f ++ rest) = f /\ u8 (ser_fhdr f ++ rest) 0 = f_ver f.
Proof.
  intros (Hv & Hd & Hm & Hs & Hq). destruct f as [v d m s q]; cbn [f_ver f_dev f_mt f_stream f_seq] in *.
  unfold parse_fhdr, ser_fhdr; cbn [f_ver f_dev f_mt f_stream f_seq].
  assert (Ud : u16 (([v; 0] ++ be_enc 2 d ++ [m; s] ++ be_enc 2 q) ++ rest) 2 = d).
  { unfold u16. rewrite <- !app_assoc. rewrite (drop_app_exact [v; 0]) by reflexivity.
    rewrite (take_app_exact (be_enc 2 d)) by apply zlen_be_enc. apply be_dec_enc. cbn; lia. }
  assert (Uq : u16 (([v; 0] ++ be_enc 2 d ++ [m; s] ++ be_enc 2 q) ++ rest) 6 = q).
  { unfold u16. replace (([v; 0] ++ be_enc 2 d ++ [m; s] ++ be_enc 2 q) ++ rest)
      with (([v; 0] ++ be_enc 2 d ++ [m; s]) ++ be_enc 2 q ++ rest) by (rewrite <- !app_assoc; reflexivity).
    rewrite (drop_app_exact ([v; 0] ++ be_enc 2 d ++ [m; s])) by (rewrite !zlen_app, zlen_be_enc; reflexivity).
    rewrite (take_app_exact (be_enc 2 q)) by apply zlen_be_enc. apply be_dec_enc. cbn; lia. }
  rewrite Ud, Uq.
  destruct (be_enc2 d) as (a & b & ->). destruct (be_enc2 q) as (a' & b' & ->).
  split; reflexivity.
Qed.

Lemma decode_frame f area st :
  fhdr_ok f -> 0 < zlen area ->
  decode st (ser_fhdr f ++ area) = dloop (fuel_of (zlen area)) f area (zlen area) st [].
Proof.
  intros Hf Ha. unfold decode.
  destruct (parse_ser_fhdr f area Hf) as [P U]. rewrite P, U.
  rewrite zlen_app, ser_fhdr_zlen.
  destruct (Z.ltb_spec (8 + zlen area) 8); [lia|].
  destruct Hf as (Hv & _). destruct (Z.eqb_spec (f_ver f) 0); [lia|].
  replace (8 + zlen area - 8) with (zlen area) by lia.
  destruct (Z.eqb_spec (zlen area) 0); [lia|].
  rewrite (drop_app_exact (ser_fhdr f)) by apply ser_fhdr_zlen. reflexivity.
Qed.

Section ChainDecode.
  Variables ver dev mt stream : Z.
  Hypothesis ids_ok : 1 <= ver < 256 /\ 0 <= dev < 65536 /\ 0 <= mt < 256 /\ 0 <= stream < 256.
  Notation e := (dev, stream).
  Notation fh := (fh_at ver dev mt stream).

  Lemma fh_ok c : fhdr_ok (fh c).
  Proof. unfold fhdr_ok, fh_at; cbn [f_ver f_dev f_mt f_stream f_seq]. pose proof (Z.mod_pos_bound c 65536). lia. Qed.

  (* the bytes of one segment frame with sequence counter c (mod 2^16) *)
  Definition cframe (c : Z) (f : sframe) : list Z := ser_fhdr (fh c) ++ seg_msg (s_h f) (s_chunk f) (s_trail f).

  Lemma zlen_seg_msg f : zlen (seg_msg (s_h f) (s_chunk f) (s_trail f)) = msg_size (s_chunk f) (s_trail f).
  Proof. unfold seg_msg, msg_size. rewrite !zlen_app, ser_mhdr_zlen. lia. Qed.

  Lemma decode_cframe c f st :
    decode st (cframe c f) = feed (Z.to_nat (msg_size (s_chunk f) (s_trail f) / 16)) ver dev mt stream c f st.
  Proof.
    unfold cframe, feed. rewrite decode_frame; [|apply fh_ok|].
    - rewrite zlen_seg_msg. reflexivity.
    - rewrite zlen_seg_msg. unfold msg_size. pose proof (zlen_nonneg (s_chunk f)). pose proof (zlen_nonneg (s_trail f)). lia.
  Qed.

  Lemma buf_ep_cframe c f : buf_ep (cframe c f) = Some e.
  Proof.
    unfold buf_ep, cframe. destruct (parse_ser_fhdr (fh c) (seg_msg (s_h f) (s_chunk f) (s_trail f)) (fh_ok c)) as [P U].
    rewrite P, U, zlen_app, ser_fhdr_zlen. pose proof (zlen_nonneg (seg_msg (s_h f) (s_chunk f) (s_trail f))).
    destruct (Z.ltb_spec (8 + zlen (seg_msg (s_h f) (s_chunk f) (s_trail f))) 8); [lia|].
    cbn [orb fh_at f_ver]. destruct (Z.eqb_spec ver 0); [lia|]. reflexivity.
  Qed.

  (* feeding whole frames through decode, per-call outputs *)
  Fixpoint cframes (c : Z) (fs : list sframe) : list (list Z) :=
    match fs with [] => [] | f :: t => cframe c f :: cframes (c + 1) t end.

  Lemma runc_tail : forall (mids : list sframe) (lastf : sframe) c sg st,
    Forall (fun f => seg_hdr_ok (s_h f) 8 (s_chunk f)) mids ->
    seg_hdr_ok (s_h lastf) 12 (s_chunk lastf) ->
    lookup e st = Some sg -> sg_ver sg = ver -> sg_mt sg = mt -> sg_cur sg = c mod 65536 ->
    (sg_type sg = 4 \/ sg_type sg = 8) ->
    let pay := sg_pay sg ++ concat (map s_chunk mids) ++ s_chunk lastf in
    runc st (cframes (c + 1) (mids ++ [lastf])) =
      map (fun _ => []) mids ++ [[chain_packet ver dev mt stream (c + 1 + zlen mids) (sg_hdr sg) pay]] /\
    lookup e (runh_st st (cframes (c + 1) (mids ++ [lastf]))) = None.
  Proof.
    induction mids as [|m mids IH]; intros lastf c sg st Hm Hl L Hv Hmt Hc Hty pay.
    - cbn [app cframes runc runh_st map concat] in *. unfold cmp_out, dec1.
      rewrite buf_ep_cframe, decode_cframe. unfold feed.
      rewrite (step_next _ ver dev mt stream c (s_h lastf) (s_chunk lastf) (s_trail lastf) st [] sg 12); [|auto..].
      cbn [Z.eqb Pos.eqb app snd fst]. subst pay. cbn [app]. rewrite zlen_nil, Z.add_0_r.
      split; [reflexivity | apply lookup_erase_same].
    - inversion Hm as [|? ? Hm1 Hm2]; subst.
      cbn [app cframes runc runh_st]. unfold cmp_out at 1, dec1 at 1 2 3.
      rewrite buf_ep_cframe, decode_cframe. unfold feed.
      rewrite (step_next _ ver dev mt stream c (s_h m) (s_chunk m) (s_trail m) st [] sg 8); [|auto..].
      cbn [Z.eqb Pos.eqb snd fst].
      set (sg' := {| sg_hdr := sg_hdr sg; sg_pay := sg_pay sg ++ s_chunk m; sg_type := 8; sg_ver := ver; sg_mt := mt; sg_cur := (c + 1) mod 65536 |}).
      destruct (IH lastf (c + 1) sg' (insert e sg' st) Hm2 Hl (lookup_insert e sg' st) eq_refl eq_refl eq_refl (or_intror eq_refl)) as [IH1 IH2].
      rewrite IH1, IH2. split; [|reflexivity].
      assert (E1 : c + 1 + 1 + zlen mids = c + 1 + zlen (m :: mids)) by (unfold zlen; cbn [length]; rewrite Nat2Z.inj_succ; lia).
      rewrite E1. subst sg' pay. cbn [sg_pay sg_hdr map concat app]. rewrite <- !app_assoc. reflexivity.
  Qed.

  (* C05, single endpoint: from ANY decoder state the chain is delivered exactly once, at its last frame *)
  Theorem chain_delivers_decode : forall firstf mids lastf c st,
    seg_hdr_ok (s_h firstf) 4 (s_chunk firstf) ->
    Forall (fun f => seg_hdr_ok (s_h f) 8 (s_chunk f)) mids ->
    seg_hdr_ok (s_h lastf) 12 (s_chunk lastf) ->
    let pay := s_chunk firstf ++ concat (map s_chunk mids) ++ s_chunk lastf in
    runc st (cframes c (firstf :: mids ++ [lastf])) =
      [] :: map (fun _ => []) mids ++ [[chain_packet ver dev mt stream (c + 1 + zlen mids) (s_h firstf) pay]] /\
    lookup e (runh_st st (cframes c (firstf :: mids ++ [lastf]))) = None.
  Proof.
    intros firstf mids lastf c st Hf Hm Hl pay.
    cbn [cframes runc runh_st]. unfold cmp_out at 1, dec1 at 1 2 3.
    rewrite buf_ep_cframe, decode_cframe. unfold feed. rewrite step_first by assumption. cbn [snd fst].
    set (sg := {| sg_hdr := s_h firstf; sg_pay := s_chunk firstf; sg_type := 4; sg_ver := ver; sg_mt := mt; sg_cur := c mod 65536 |}).
    destruct (runc_tail mids lastf c sg (insert e sg st) Hm Hl (lookup_insert e sg st) eq_refl eq_refl eq_refl (or_introl eq_refl)) as [R1 R2].
    rewrite R1, R2. split; reflexivity.
  Qed.

  (* C05: any interleaving. Whatever else is in the history h (other endpoints' segmented and unsegmented traffic, TECMP,
     garbage), if endpoint e's own frames in h are exactly the frames of the chain, then the calls carrying e's frames return
     nothing until the last one, which returns the reassembled message *)
  Theorem chain_delivers_interleaved : forall h firstf mids lastf c st,
    seg_hdr_ok (s_h firstf) 4 (s_chunk firstf) ->
    Forall (fun f => seg_hdr_ok (s_h f) 8 (s_chunk f)) mids ->
    seg_hdr_ok (s_h lastf) 12 (s_chunk lastf) ->
    proj e h = cframes c (firstf :: mids ++ [lastf]) ->
    let pay := s_chunk firstf ++ concat (map s_chunk mids) ++ s_chunk lastf in
    callproj e h (runc st h) =
      [] :: map (fun _ => []) mids ++ [[chain_packet ver dev mt stream (c + 1 + zlen mids) (s_h firstf) pay]].
  Proof.
    intros h firstf mids lastf c st Hf Hm Hl Hp pay.
    rewrite (isolation_per_call e h st st eq_refl), Hp.
    apply chain_delivers_decode; assumption.
  Qed.
End ChainDecode.

(* ====================================================================================================
   C04: a frame of unsegmented messages is decoded field by field as laid out on the wire
   ==================================================================================================== *)
Definition umsg := (mhdr * list Z)%type.
Definition umsg_ok (m : umsg) : Prop := seg_hdr_ok (fst m) 0 (snd m).
Definition ser_umsg (m : umsg) : list Z := ser_mhdr (fst m) ++ snd m.
Definition area (ms : list umsg) : list Z := concat (map ser_umsg ms).
(* what must come out for message m of a frame with header fh: every field as serialised *)
Definition spec_packet (fh : fhdr) (m : umsg) : packet := mkp fh (f_mt fh) (f_ver fh) (fst m) (snd m).

(* what may follow the complete messages: nothing, or bytes that are no complete valid message (padding, a message cut short) *)
Definition tail_stops (tail : list Z) : Prop := tail = [] \/ valid_packet tail (zlen tail) = false.

Lemma zlen_ser_umsg m : zlen (ser_umsg m) = 16 + zlen (snd m).
Proof. unfold ser_umsg. rewrite zlen_app, ser_mhdr_zlen. reflexivity. Qed.

Lemma dloop_msgs : forall ms fuel fh tail st acc,
  Forall umsg_ok ms -> tail_stops tail -> (length ms < fuel)%nat ->
  exists st', dloop fuel fh (area ms ++ tail) (zlen (area ms ++ tail)) st acc = Ok (st', acc ++ map (spec_packet fh) ms) /\
              ((ms <> [] \/ tail <> []) -> lookup (fep fh) st' = None) /\ ((ms = [] /\ tail = []) -> st' = st).
Proof.
  induction ms as [|m ms IH]; intros fuel fh tail st acc Hok Ht Hf.
  - destruct fuel as [|fuel]; [cbn in Hf; lia|]. cbn [area map concat app]. rewrite app_nil_r.
    destruct Ht as [->|Hv].
    + cbn [dloop]. change (zlen (@nil Z)) with 0. cbn [Z.leb]. eexists. split; [reflexivity|]. split; [intros [H|H]; congruence|auto].
    + cbn [dloop]. destruct (Z.leb_spec (zlen tail) 0).
      * (* an empty tail is excluded by Hv only if ... zlen tail = 0 means tail = [] *)
        assert (tail = []) as -> by (destruct tail; [reflexivity|unfold zlen in *; cbn [length] in *; lia]).
        eexists. split; [reflexivity|]. split; [intros [H'|H']; congruence|auto].
      * rewrite Hv. cbn [negb]. eexists. split; [reflexivity|]. split; [intros _; apply lookup_erase_same|].
        intros [_ ->]. unfold zlen in *. cbn in *. lia.
  - destruct fuel as [|fuel]; [cbn in Hf; lia|]. inversion Hok as [|? ? Hm Hms]; subst.
    destruct m as [h body]. unfold umsg_ok in Hm. cbn [fst snd] in Hm.
    cbn [area map concat]. fold (area ms). unfold ser_umsg at 1. cbn [fst snd]. rewrite <- !app_assoc.
    set (rest := area ms ++ tail).
    change (ser_mhdr h ++ body ++ rest) with (seg_msg h body rest).
    assert (Hsz : zlen (seg_msg h body rest) = msg_size body rest) by (unfold seg_msg, msg_size; rewrite !zlen_app, ser_mhdr_zlen; lia).
    replace (zlen (ser_umsg (h, body) ++ rest)) with (msg_size body rest)
      by (rewrite <- Hsz; unfold ser_umsg, seg_msg; cbn [fst snd]; rewrite <- app_assoc; reflexivity).
    destruct (parse_seg_msg h 0 body rest Hm) as (P & V & B).
    destruct Hm as (Hhok & Hfl & _ & _ & Hpl).
    cbn [dloop]. unfold msg_size at 1.
    pose proof (zlen_nonneg body). pose proof (zlen_nonneg rest).
    destruct (Z.leb_spec (16 + zlen body + zlen rest) 0); [lia|].
    fold (msg_size body rest). rewrite V. cbn [negb]. rewrite (valid_packet_extent _ _ V). rewrite P, Hfl, B. cbn [Z.eqb].
    assert (Hd : drop (h_plen h) (drop 16 (seg_msg h body rest)) = rest).
    { unfold seg_msg. rewrite (drop_app_exact (ser_mhdr h)) by apply ser_mhdr_zlen. rewrite Hpl. apply drop_app_exact. reflexivity. }
    rewrite Hd. replace (msg_size body rest - 16 - h_plen h) with (zlen rest) by (unfold msg_size; lia).
    destruct (IH fuel fh tail (erase (f_dev fh, f_stream fh) st) (acc ++ [mkp fh (f_mt fh) (f_ver fh) h body]) Hms Ht ltac:(cbn in Hf; lia))
      as (st' & E & L1 & L2).
    fold rest in E. rewrite E. exists st'. split.
    + rewrite <- app_assoc. reflexivity.
    + split; [|intros [H' _]; discriminate]. intros _.
      destruct ms as [|m' ms']; [destruct tail as [|t0 tl]|].
      * rewrite (L2 (conj eq_refl eq_refl)). apply lookup_erase_same.
      * apply L1. right. discriminate.
      * apply L1. left. discriminate.
Qed.

(* zero padding never looks like a message *)
Lemma nth_repeat0 n k : nth n (repeat 0 k) 0 = 0.
Proof. revert n. induction k as [|k IH]; intros [|n]; cbn; auto. Qed.
Lemma skipn_repeat {A} (x : A) n k : skipn n (repeat x k) = repeat x (k - n).
Proof. revert n. induction k as [|k IH]; intros [|n]; cbn [skipn repeat Nat.sub]; auto. Qed.
Lemma zeros_stop k : tail_stops (zeros k).
Proof.
  right. unfold valid_packet. destruct (16 <=? zlen (zeros k)); [|reflexivity]. cbn [andb].
  assert (h_ptype (parse_mhdr (zeros k)) = 0) as ->.
  { unfold parse_mhdr, zeros. cbn [h_ptype]. rewrite !skipn_repeat. apply nth_repeat0. }
  rewrite !andb_false_r. reflexivity.
Qed.

(* a message cut short never looks like a complete message *)
Lemma take_app_ge {A} (n : Z) (a b : list A) : zlen a <= n -> take n (a ++ b) = a ++ take (n - zlen a) b.
Proof.
  intros H. unfold take, zlen in *. rewrite firstn_app. rewrite firstn_all2 by lia. f_equal. f_equal. lia.
Qed.
Lemma cut_stops m n : umsg_ok m -> 0 <= n < zlen (ser_umsg m) -> tail_stops (take n (ser_umsg m)).
Proof.
  intros Hm Hn. right. destruct m as [h body]. unfold umsg_ok in Hm. cbn [fst snd] in Hm. rewrite zlen_ser_umsg in Hn. cbn [snd] in Hn.
  assert (Hz : zlen (take n (ser_umsg (h, body))) = n).
  { apply zlen_take. rewrite zlen_ser_umsg. cbn [snd]. lia. }
  unfold valid_packet. rewrite Hz. destruct (Z.leb_spec 16 n) as [H16|H16]; [|reflexivity]. cbn [andb].
  unfold ser_umsg. cbn [fst snd]. rewrite take_app_ge by (rewrite ser_mhdr_zlen; exact H16). rewrite ser_mhdr_zlen.
  destruct Hm as (Hhok & _ & _ & _ & Hpl).
  rewrite (parse_ser h _ Hhok). rewrite Hpl.
  destruct (Z.leb_spec (zlen body) (n - 16)); [lia|]. reflexivity.
Qed.

(* the decoder on a whole frame *)
Theorem decode_unsegmented_frame : forall fh ms tail st,
  fhdr_ok fh -> Forall umsg_ok ms -> tail_stops tail -> (ms <> [] \/ tail <> []) ->
  exists st', decode st (ser_fhdr fh ++ area ms ++ tail) = Ok (st', map (spec_packet fh) ms) /\ lookup (fep fh) st' = None.
Proof.
  intros fh ms tail st Hf Hok Ht Hne.
  assert (Hpos : 0 < zlen (area ms ++ tail)).
  { destruct Hne as [H|H].
    - destruct ms as [|m ms']; [congruence|]. cbn [area map concat]. rewrite <- app_assoc, zlen_app, zlen_ser_umsg.
      pose proof (zlen_nonneg (snd m)). pose proof (zlen_nonneg (concat (map ser_umsg ms') ++ tail)). lia.
    - rewrite zlen_app. pose proof (zlen_nonneg (area ms)). destruct tail; [congruence|]. unfold zlen at 2. cbn [length]. lia. }
  rewrite decode_frame by assumption.
  destruct (dloop_msgs ms (fuel_of (zlen (area ms ++ tail))) fh tail st [] Hok Ht) as (st' & E & L1 & _).
  { (* one iteration per message: every message takes at least 16 bytes *)
    unfold fuel_of.
    assert (G : 16 * Z.of_nat (length ms) <= zlen (area ms)).
    { clear. induction ms as [|m ms IH]; [unfold zlen; cbn; lia|].
      cbn [area map concat length]. fold (area ms). rewrite zlen_app, zlen_ser_umsg, Nat2Z.inj_succ. pose proof (zlen_nonneg (snd m)). lia. }
    rewrite zlen_app. pose proof (zlen_nonneg tail).
    assert (Z.of_nat (length ms) <= (zlen (area ms) + zlen tail) / 16) by (apply Z.div_le_lower_bound; lia).
    lia. }
  exists st'. split; [exact E|]. apply L1. exact Hne.
Qed.
