(* The greedy packing spec (DESIGN.md Appendix B) and the refinement theorem: the control flow of the encoder model
   (putPacket / checkIfSegmented / addNewCMPFrame with bytesLeft arithmetic) produces exactly the frames of the spec. *)
Require Import CMP.Bytes CMP.Packet CMP.Decoder CMP.Encoder.
Local Open Scope Z_scope.
Local Open Scope bool_scope.

Section Pack.
  Variable cap : Z.                      (* max - 8 *)
  Variable v : Z.                        (* the batch's protocol version *)
  Hypothesis cap_ok : 17 <= cap.         (* max >= 25 *)

  Notation mk_frame t its := {| fr_type := t; fr_ver := v; fr_items := its |}.

  (* ---------- the spec ---------- *)
  (* frames newest first, free bytes in the newest frame; a closed frame is one with 0 bytes left *)
  Definition pst := (list frame * Z)%type.

  (* segments of a packet that does not fit an empty frame: one per frame, each but the last fills its frame *)
  Fixpoint seg_frames (fuel : nat) (p : packet) (L pos : Z) (first : bool) : list frame :=
    match fuel with
    | O => []
    | S f =>
      if pos <? L then
        let n := Z.min (cap - 16) (L - pos) in
        let flag := if first then 4 else if pos + n =? L then 12 else 8 in
        mk_frame (p_mt p) [{| it_pkt := p; it_pos := pos; it_len := n; it_flag := flag |}] :: seg_frames f p L (pos + n) false
      else []
    end.

  Definition padd (i : item) (s : pst) (left' : Z) : pst :=
    match fst s with
    | [] => s
    | f :: fs => ({| fr_type := fr_type f; fr_ver := fr_ver f; fr_items := fr_items f ++ [i] |} :: fs, left')
    end.

  Definition pput (s : pst) (p : packet) : pst :=
    let L := p_len p in
    if 16 + L <=? cap then
      (* fits an empty frame: never split; joins the current frame iff same message type and enough room *)
      let s1 := match fst s with
                | f :: _ => if (fr_type f =? p_mt p) && (16 + L <=? snd s) then s else (mk_frame (p_mt p) [] :: fst s, cap)
                | [] => (mk_frame (p_mt p) [] :: fst s, cap)
                end in
      padd {| it_pkt := p; it_pos := 0; it_len := L; it_flag := 0 |} s1 (snd s1 - 16 - L)
    else (rev (seg_frames (S (Z.to_nat L)) p L 0 true) ++ fst s, 0).

  Definition pack (b : list packet) : list frame := rev (fst (fold_left pput b ([], 0))).

  (* ---------- refinement ---------- *)
  Definition pkt_ok (p : packet) : Prop := 1 <= p_len p /\ p_ver p = v.

  (* the model state that corresponds to a spec state *)
  Definition rel (s : est) (q : pst) : Prop :=
    es_frames s = fst q /\ es_left s = snd q /\
    match fst q with [] => snd q = 0 | f :: _ => es_ver s = v /\ es_type s = fr_type f /\ fr_items f <> [] /\ 0 <= snd q <= cap - 17 end.

  Notation mk_est fs l t := {| es_frames := fs; es_left := l; es_type := t; es_ver := v |}.

  Lemma seg_tail : forall fuel p L pos k fs t,
    0 < k -> 0 <= pos -> t = p_mt p ->
    cloop cap fuel p L true pos k (mk_est fs 0 t) = mk_est (rev (seg_frames fuel p L pos false) ++ fs) 0 t.
  Proof.
    induction fuel as [|fuel IH]; intros p L pos k fs t Hk Hpos Ht; [reflexivity|].
    cbn [cloop seg_frames].
    destruct (Z.ltb_spec pos L) as [Hlt|Hge]; [|reflexivity].
    cbn [es_left]. change (0 <? 16) with true. unfold newf; cbn [es_left es_frames es_type es_ver].
    assert (Hk0 : (k =? 0) = false) by (apply Z.eqb_neq; lia). rewrite Hk0.
    set (n := Z.min (cap - 16) (L - pos)).
    assert (Hn : 1 <= n <= cap - 16) by (subst n; lia).
    destruct (Z.eqb_spec (pos + n) L) as [Hlast|Hnot].
    - unfold add_item, close; cbn [es_frames es_left es_type es_ver Z.eqb Pos.eqb app fr_type fr_ver fr_items].
      rewrite (IH p L (pos + n) (k + 1)) by lia.
      cbn [rev]. rewrite <- app_assoc. subst t. reflexivity.
    - assert (Hfull : n = cap - 16) by (subst n; lia).
      unfold add_item; cbn [es_frames es_left es_type es_ver Z.eqb Pos.eqb app fr_type fr_ver fr_items].
      replace (cap - 16 - n) with 0 by lia.
      rewrite (IH p L (pos + n) (k + 1)) by lia.
      cbn [rev]. rewrite <- app_assoc. subst t. reflexivity.
  Qed.

  Lemma seg_all : forall fuel p L fs t,
    cap < 16 + L -> t = p_mt p ->
    cloop cap (S fuel) p L true 0 0 (mk_est (mk_frame t [] :: fs) cap t)
    = mk_est (rev (seg_frames (S fuel) p L 0 true) ++ fs) 0 t.
  Proof.
    intros fuel p L fs t Hbig Ht. cbn [cloop seg_frames].
    assert (Hlt : (0 <? L) = true) by (apply Z.ltb_lt; lia). rewrite Hlt.
    cbn [es_left]. assert (H16 : (cap <? 16) = false) by (apply Z.ltb_ge; lia). rewrite H16.
    cbn [es_left Z.eqb].
    assert (Hn : Z.min (cap - 16) (L - 0) = cap - 16) by lia. rewrite Hn.
    unfold add_item; cbn [es_frames es_left es_type es_ver fr_type fr_ver fr_items app Z.eqb Pos.eqb].
    replace (cap - 16 - (cap - 16)) with 0 by lia.
    rewrite seg_tail by lia.
    cbn [rev]. rewrite <- app_assoc. subst t. reflexivity.
  Qed.

  Lemma one_msg : forall fuel p L f fs left t,
    1 <= L -> 16 + L <= left ->
    cloop cap (S (S fuel)) p L false 0 0 (mk_est (f :: fs) left t)
    = add_item {| it_pkt := p; it_pos := 0; it_len := L; it_flag := 0 |} (mk_est (f :: fs) left t) (left - 16 - L).
  Proof.
    intros fuel p L f fs left t HL Hfit. cbn [cloop].
    assert (Hlt : (0 <? L) = true) by (apply Z.ltb_lt; lia). rewrite Hlt.
    cbn [es_left]. assert (H16 : (left <? 16) = false) by (apply Z.ltb_ge; lia). rewrite H16.
    cbn [es_left]. assert (Hn : Z.min (left - 16) (L - 0) = L) by lia. rewrite Hn.
    unfold add_item; cbn [es_frames es_left es_type es_ver Z.eqb].
    assert (Hend : (0 + L <? L) = false) by (apply Z.ltb_ge; lia). rewrite Hend.
    reflexivity.
  Qed.

  Lemma seg_frames_nonempty : forall fuel p L pos b g, In g (seg_frames fuel p L pos b) -> fr_items g <> [].
  Proof.
    induction fuel as [|fuel IH]; intros p L pos b g; cbn [seg_frames]; [contradiction|].
    destruct (pos <? L); [|contradiction]. intros [<- | Hin]; [discriminate | eauto].
  Qed.
  Lemma seg_frames_type : forall fuel p L pos b g, In g (seg_frames fuel p L pos b) -> fr_type g = p_mt p.
  Proof.
    induction fuel as [|fuel IH]; intros p L pos b g; cbn [seg_frames]; [contradiction|].
    destruct (pos <? L); [|contradiction]. intros [<- | Hin]; [reflexivity | eauto].
  Qed.

  Ltac red_proj :=
    repeat match goal with
    | |- context [es_left {| es_frames := ?a; es_left := ?b; es_type := ?c; es_ver := ?d |}] =>
      change (es_left {| es_frames := a; es_left := b; es_type := c; es_ver := d |}) with b
    | |- context [es_frames {| es_frames := ?a; es_left := ?b; es_type := ?c; es_ver := ?d |}] =>
      change (es_frames {| es_frames := a; es_left := b; es_type := c; es_ver := d |}) with a
    | |- context [es_type {| es_frames := ?a; es_left := ?b; es_type := ?c; es_ver := ?d |}] =>
      change (es_type {| es_frames := a; es_left := b; es_type := c; es_ver := d |}) with c
    | |- context [es_ver {| es_frames := ?a; es_left := ?b; es_type := ?c; es_ver := ?d |}] =>
      change (es_ver {| es_frames := a; es_left := b; es_type := c; es_ver := d |}) with d
    end.
  Ltac kill c b :=
    let E := fresh "E" in
    assert (E : c = b) by (first [apply Z.ltb_ge; lia | apply Z.ltb_lt; lia | apply Z.eqb_neq; lia | apply Z.eqb_eq; lia | apply Z.leb_le; lia | apply Z.leb_gt; lia]);
    red_proj; rewrite ?E; cbn [negb orb andb]; red_proj; rewrite ?E.

  (* one packet: the model step equals the spec step and the relation is kept *)
  Lemma step_refines : forall s q p, rel s q -> pkt_ok p -> rel (cput cap s p) (pput q p).
  Proof.
    intros s [fs left] p (Hf & Hl & Hq) [Hp Hpv]. cbn [fst snd] in *.
    destruct s as [sf sl st sv]. cbn [es_frames es_left es_type es_ver] in *. subst sf sl.
    assert (Hfuel : exists m, Z.to_nat (p_len p) = S m) by (exists (Z.to_nat (p_len p) - 1)%nat; lia).
    destruct Hfuel as [m Hm].
    unfold cput, pput, set_type, newf. cbn [es_frames es_left es_type es_ver fst snd]. rewrite Hm, Hpv.
    set (L := p_len p) in *.
    destruct (Z.leb_spec (16 + L) cap) as [Hfit|Hbig].
    - (* fits an empty frame *)
      destruct fs as [|f fs'].
      + subst left. kill (cap <? 16 + L) false.
        rewrite one_msg by lia. unfold padd, add_item, rel. cbn [es_frames es_left es_type es_ver fst snd fr_type fr_items].
        repeat split; try lia. discriminate.
      + destruct Hq as (Hv & Ht & Hne & Hl). subst sv.
        destruct (Z.eqb_spec st (p_mt p)) as [Ht1|Ht1].
        * rewrite <- Ht, Ht1, Z.eqb_refl. cbn [andb].
          destruct (Z.leb_spec (16 + L) left) as [Hj|Hj].
          -- kill (left <? 16 + L) false.
             rewrite one_msg by lia. unfold padd, add_item, rel. cbn [es_frames es_left es_type es_ver fst snd fr_type fr_items].
             repeat split; try lia; try assumption. destruct (fr_items f); discriminate.
          -- kill (left <? 16 + L) true. kill (left =? cap) false. kill (cap <? 16 + L) false.
             rewrite one_msg by lia. unfold padd, add_item, rel. cbn [es_frames es_left es_type es_ver fst snd fr_type fr_items].
             rewrite <- Ht1. repeat split; try lia. discriminate.
        * assert (Hne' : (fr_type f =? p_mt p) = false) by (apply Z.eqb_neq; congruence). rewrite Hne'. cbn [andb].
          kill (cap <? 16 + L) false.
          rewrite one_msg by lia. unfold padd, add_item, rel. cbn [es_frames es_left es_type es_ver fst snd fr_type fr_items].
          repeat split; try lia. discriminate.
    - (* must be segmented: the spec emits the segment frames, the model reaches the same frames *)
      assert (REL : forall fs0, rel (mk_est (rev (seg_frames (S (S m)) p L 0 true) ++ fs0) 0 (p_mt p)) (rev (seg_frames (S (S m)) p L 0 true) ++ fs0, 0)).
      { intros fs0. unfold rel. cbn [es_frames es_left es_type es_ver fst snd]. split; [reflexivity|]. split; [reflexivity|].
        remember (S m) as k eqn:Ek.
        assert (Hsf : exists g0 rest, seg_frames (S k) p L 0 true = g0 :: rest).
        { cbn [seg_frames]. assert ((0 <? L) = true) as -> by (apply Z.ltb_lt; lia). eexists _, _. reflexivity. }
        destruct Hsf as (g0 & rest & Hsf).
        destruct (rev (seg_frames (S k) p L 0 true) ++ fs0) as [|g gs] eqn:Eg.
        - exfalso. rewrite Hsf in Eg. cbn [rev] in Eg. destruct (rev rest); discriminate.
        - assert (Hin : In g (rev (seg_frames (S k) p L 0 true))).
          { destruct (rev (seg_frames (S k) p L 0 true)) as [|x xs] eqn:Er.
            - exfalso. rewrite Hsf in Er. cbn [rev] in Er. destruct (rev rest); discriminate.
            - cbn [app] in Eg. inversion Eg; subst. left. reflexivity. }
          apply in_rev in Hin. split; [reflexivity|]. split; [symmetry; eapply seg_frames_type; eauto|]. split; [eapply seg_frames_nonempty; eauto|lia]. }
      destruct fs as [|f fs'].
      + subst left. kill (cap <? 16 + L) true. kill (cap =? cap) true. kill (cap <? 16 + L) true.
        rewrite seg_all by lia. apply REL.
      + destruct Hq as (Hv & Ht & Hne & Hl). subst sv.
        destruct (Z.eqb_spec st (p_mt p)) as [Ht1|Ht1].
        * kill (left <? 16 + L) true. kill (left =? cap) false. kill (cap <? 16 + L) true.
          rewrite seg_all by (try lia; assumption). rewrite Ht1. apply REL.
        * kill (cap <? 16 + L) true. kill (cap =? cap) true. kill (cap <? 16 + L) true.
          rewrite seg_all by lia. apply REL.
  Qed.

  Theorem encode_refines_pack : forall b, Forall pkt_ok b -> enc_struct cap b = pack b.
  Proof.
    intros b Hb. unfold enc_struct, pack. f_equal.
    assert (G : forall b s q, rel s q -> Forall pkt_ok b -> es_frames (fold_left (cput cap) b s) = fst (fold_left pput b q)).
    { induction b0 as [|p b0 IH]; intros s q Hs Hall; [destruct Hs as (H & _); exact H|].
      inversion Hall as [|? ? Hp Hrest]; subst. cbn [fold_left].
      apply IH; [apply step_refines; assumption | assumption]. }
    apply G; [|assumption]. unfold rel, est0. cbn. repeat split.
  Qed.
End Pack.

(* ====================================================================================================
   Facts about the spec itself (C07 / C08): shape of segment frames, tiling, order, message types
   ==================================================================================================== *)
Section PackFacts.
  Variable cap : Z.
  Variable v : Z.
  Hypothesis cap_ok : 17 <= cap.
  Notation mk_frame' t := {| fr_type := t; fr_ver := v; fr_items := [] |}.

  Definition item_bytes (i : item) : list Z :=
    take (it_len i) (drop (it_pos i) (match p_pl (it_pkt i) with Some pl => pl_data pl | None => [] end)).
  Definition frame_used (f : frame) : Z := 8 + fold_right (fun i a => 16 + it_len i + a) 0 (fr_items f).

  (* segments: one item per frame, alone; each carries at most cap-16 bytes, every one but the last exactly cap-16;
     positions are consecutive; flags are first / intermediary... / last *)
  Lemma seg_frames_shape : forall fuel p L pos first g,
    In g (seg_frames cap v fuel p L pos first) ->
    fr_type g = p_mt p /\ fr_ver g = v /\
    exists i, fr_items g = [i] /\ it_pkt i = p /\ pos <= it_pos i /\ 1 <= it_len i <= cap - 16 /\ it_pos i + it_len i <= L /\
              (it_pos i + it_len i < L -> it_len i = cap - 16) /\
              (it_flag i = 4 \/ it_flag i = 8 \/ it_flag i = 12) /\
              (it_flag i = 12 <-> (it_pos i + it_len i = L /\ (it_pos i <> pos \/ first = false))) /\
              (it_flag i = 4 <-> (it_pos i = pos /\ first = true)).
  Proof.
    induction fuel as [|fuel IH]; intros p L pos first g; cbn [seg_frames]; [contradiction|].
    destruct (Z.ltb_spec pos L) as [Hlt|Hge]; [|contradiction].
    set (n := Z.min (cap - 16) (L - pos)). assert (Hn : 1 <= n <= cap - 16 /\ pos + n <= L) by (subst n; lia).
    intros [<- | Hin].
    - cbn [fr_type fr_ver fr_items]. split; [reflexivity|]. split; [reflexivity|].
      eexists. split; [reflexivity|]. cbn [it_pkt it_pos it_len it_flag].
      split; [reflexivity|]. split; [lia|]. split; [lia|]. split; [lia|].
      split; [intros; subst n; lia|].
      destruct first.
      + split; [auto|]. split; [split; [discriminate | intros [_ [H|H]]; [lia|discriminate]] | split; auto].
      + destruct (Z.eqb_spec (pos + n) L).
        * split; [auto|]. split; [split; auto | split; [discriminate | intros [_ H]; discriminate]].
        * split; [auto|]. split; [split; [discriminate | intros [H _]; lia] | split; [discriminate | intros [_ H]; discriminate]].
    - destruct (IH p L (pos + n) false g Hin) as (T & V & i & Hi & Hp & Hpos & Hlen & Hend & Hfull & Hfl & H12 & H4).
      split; [exact T|]. split; [exact V|]. exists i. split; [exact Hi|]. split; [exact Hp|].
      split; [lia|]. split; [exact Hlen|]. split; [exact Hend|]. split; [exact Hfull|]. split; [exact Hfl|].
      split.
      + rewrite H12. split; intros [A B]; (split; [exact A|]); [left; lia | right; reflexivity].
      + rewrite H4. split; [intros [_ H]; discriminate | intros [H _]; lia].
  Qed.


  Lemma take_add {A} (a b : nat) (l : list A) : firstn a l ++ firstn b (skipn a l) = firstn (a + b) l.
  Proof.
    revert l. induction a as [|a IH]; intros l; [reflexivity|].
    destruct l as [|x t]; [cbn; now rewrite firstn_nil|]. cbn [firstn skipn Nat.add app]. f_equal. apply IH.
  Qed.
  Lemma take_take_drop {A} (a b : Z) (l : list A) : 0 <= a -> 0 <= b -> take a l ++ take b (drop a l) = take (a + b) l.
  Proof. intros. unfold take, drop. rewrite Z2Nat.inj_add by lia. apply take_add. Qed.

  Definition pdata (p : packet) : list Z := match p_pl p with Some pl => pl_data pl | None => [] end.
  Definition frames_bytes (fs : list frame) : list Z := concat (map item_bytes (concat (map fr_items fs))).

  Lemma frames_bytes_app a b : frames_bytes (a ++ b) = frames_bytes a ++ frames_bytes b.
  Proof. unfold frames_bytes. now rewrite map_app, concat_app, map_app, concat_app. Qed.

  (* the segment frames carry exactly the bytes [pos, L) of the payload, once and in order *)
  Lemma seg_bytes : forall fuel p L pos first,
    0 <= pos -> pos <= L -> L - pos <= Z.of_nat fuel ->
    frames_bytes (seg_frames cap v fuel p L pos first) = take (L - pos) (drop pos (pdata p)).
  Proof.
    induction fuel as [|fuel IH]; intros p L pos first Hp Hle Hf.
    - cbn [seg_frames]. replace (L - pos) with 0 by (cbn in Hf; lia). reflexivity.
    - cbn [seg_frames]. destruct (Z.ltb_spec pos L) as [Hlt|Hge].
      + set (n := Z.min (cap - 16) (L - pos)). assert (Hn : 1 <= n /\ pos + n <= L) by (subst n; lia).
        change (frames_bytes (?f :: ?r)) with (frames_bytes ([f] ++ r)). rewrite frames_bytes_app.
        rewrite IH by (rewrite ?Nat2Z.inj_succ in Hf; lia).
        unfold frames_bytes at 1. cbn [map fr_items concat app]. rewrite app_nil_r.
        unfold item_bytes. cbn [it_len it_pos it_pkt].
        fold (pdata p). rewrite <- (drop_drop n pos) by lia.
        replace (L - (pos + n)) with (L - pos - n) by lia.
        rewrite take_take_drop by lia. f_equal. lia.
      + replace (L - pos) with 0 by lia. reflexivity.
  Qed.

  (* ---------- invariant of the spec's fold: what the frames built so far look like ---------- *)
  Definition item_ok (t : Z) (i : item) : Prop :=
    p_mt (it_pkt i) = t /\ 0 <= it_pos i /\ 1 <= it_len i /\ it_pos i + it_len i <= p_len (it_pkt i).
  Definition frame_ok (f : frame) : Prop :=
    fr_ver f = v /\ fr_items f <> [] /\ Forall (item_ok (fr_type f)) (fr_items f) /\ frame_used f <= cap + 8 /\
    (Forall (fun i => it_flag i = 0 /\ it_pos i = 0 /\ it_len i = p_len (it_pkt i)) (fr_items f) \/
     exists i, fr_items f = [i] /\ (it_flag i = 4 \/ it_flag i = 8 \/ it_flag i = 12) /\ cap < 16 + p_len (it_pkt i)).

  Definition pst_ok (q : pst) (done : list packet) : Prop :=
    Forall frame_ok (fst q) /\
    frames_bytes (rev (fst q)) = concat (map (fun p => take (p_len p) (pdata p)) done) /\
    match fst q with [] => True | f :: _ => frame_used f <= cap + 8 - snd q /\ 0 <= snd q /\ ((exists i, In i (fr_items f) /\ it_flag i <> 0) -> snd q = 0) end.

  Lemma frame_used_app f i : frame_used {| fr_type := fr_type f; fr_ver := fr_ver f; fr_items := fr_items f ++ [i] |} = frame_used f + 16 + it_len i.
  Proof.
    unfold frame_used. cbn [fr_items]. induction (fr_items f) as [|x t IH]; cbn [app fold_right]; lia.
  Qed.

  Lemma pput_ok q done p : pst_ok q done -> 1 <= p_len p -> pst_ok (pput cap v q p) (done ++ [p]).
  Proof.
    intros (HF & HB & HH) HL. destruct q as [fs left]. cbn [fst snd] in *.
    unfold pput. cbn [fst snd]. set (L := p_len p) in *.
    destruct (Z.leb_spec (16 + L) cap) as [Hfit|Hbig].
    - (* appended whole: to the current frame or to a new one *)
      assert (NEW : pst_ok (padd {| it_pkt := p; it_pos := 0; it_len := L; it_flag := 0 |} (mk_frame' (p_mt p) :: fs, cap) (cap - 16 - L)) (done ++ [p])).
      { unfold padd, pst_ok. cbn [fst snd fr_type fr_ver fr_items app]. split; [|split].
        - constructor; [|exact HF]. unfold frame_ok. cbn [fr_type fr_ver fr_items].
          split; [reflexivity|]. split; [discriminate|]. split; [constructor; [|constructor]; unfold item_ok; cbn [it_pkt it_pos it_len]; fold L; lia|].
          split; [unfold frame_used; cbn [fr_items fold_right it_len]; lia|]. left. constructor; [cbn [it_flag it_pos it_len it_pkt]; auto|constructor].
        - cbn [rev]. rewrite frames_bytes_app, HB, map_app, concat_app. f_equal.
        - unfold frame_used. cbn [fr_items fold_right it_len]. split; [lia|]. split; [lia|]. intros (i & [<-|[]] & Hfl). cbn in Hfl. congruence. }
      destruct fs as [|f fs']; [exact NEW|].
      destruct ((fr_type f =? p_mt p) && (16 + L <=? left)) eqn:EJ; [|exact NEW].
      apply andb_true_iff in EJ as [ET EL]. apply Z.eqb_eq in ET. apply Z.leb_le in EL.
      inversion HF as [|? ? Hf HF']; subst. destruct HH as (HU & H0 & HZ).
      destruct Hf as (Fv & Fne & Fit & Fus & Fsh).
      unfold padd, pst_ok. cbn [fst snd]. split; [|split].
      + constructor; [|exact HF']. unfold frame_ok. cbn [fr_type fr_ver fr_items].
        split; [exact Fv|]. split; [destruct (fr_items f); discriminate|].
        split; [apply Forall_app; split; [exact Fit|constructor; [|constructor]; unfold item_ok; cbn [it_pkt it_pos it_len]; fold L; lia]|].
        split; [rewrite frame_used_app; cbn [it_len]; lia|].
        destruct Fsh as [Fsh|(i & Hi & H & Hbig)].
        * left. apply Forall_app. split; [exact Fsh|]. constructor; [cbn [it_flag it_pos it_len it_pkt]; auto|constructor].
        * (* the current frame holds a segment: it is closed (left = 0), nothing can join *)
          exfalso. assert (left = 0) by (apply HZ; exists i; rewrite Hi; split; [left; reflexivity|]; destruct H as [-> | [-> | ->]]; discriminate). lia.
      + cbn [rev] in *. rewrite frames_bytes_app in *.
        rewrite map_app, concat_app. cbn [map concat]. rewrite app_nil_r. rewrite <- HB.
        rewrite <- app_assoc. f_equal.
        unfold frames_bytes. cbn [map fr_items concat app]. rewrite !app_nil_r. rewrite map_app, concat_app.
        cbn [map concat item_bytes it_len it_pos it_pkt]. rewrite app_nil_r. reflexivity.
      + rewrite frame_used_app. cbn [it_len fr_items]. split; [lia|]. split; [lia|].
        intros (i & Hin & Hfl). apply in_app_or in Hin. destruct Hin as [Hin|[<-|[]]]; [|cbn in Hfl; congruence].
        exfalso. assert (left = 0) by (apply HZ; exists i; split; assumption). lia.
    - (* segmented *)
      assert (Hfuel : L - 0 <= Z.of_nat (S (Z.to_nat L))) by lia.
      assert (HF2 : Forall frame_ok (rev (seg_frames cap v (S (Z.to_nat L)) p L 0 true) ++ fs)).
      { apply Forall_app. split; [|exact HF]. apply Forall_forall. intros g Hg. apply in_rev in Hg.
        destruct (seg_frames_shape _ _ _ _ _ _ Hg) as (T & V & i & Hi & Hp & Hpos & Hlen & Hend & _ & Hfl & _).
        unfold frame_ok, frame_used. rewrite Hi. split; [exact V|]. split; [discriminate|].
        split; [constructor; [|constructor]; unfold item_ok; rewrite Hp, T; fold L; lia|].
        split; [cbn [fold_right]; lia|].
        right. exists i. split; [reflexivity|]. split; [exact Hfl|]. rewrite Hp. fold L. lia. }
      unfold pst_ok. cbn [fst snd]. split; [exact HF2|split].
      + rewrite rev_app_distr, rev_involutive, frames_bytes_app, HB, map_app, concat_app. f_equal.
        rewrite seg_bytes by lia. cbn [map concat]. rewrite app_nil_r, Z.sub_0_r. reflexivity.
      + destruct (rev (seg_frames cap v (S (Z.to_nat L)) p L 0 true) ++ fs) as [|g gs] eqn:Eg; [exact I|].
        inversion HF2 as [|? ? Hg _]; subst. destruct Hg as (_ & _ & _ & Hus & _). split; [lia|]. split; [lia|]. reflexivity.
  Qed.

  Lemma fold_pput_ok : forall b q done,
    pst_ok q done -> Forall (fun p => 1 <= p_len p) b -> pst_ok (fold_left (pput cap v) b q) (done ++ b).
  Proof.
    induction b as [|p b IH]; intros q done Hq Hb; [rewrite app_nil_r; exact Hq|].
    inversion Hb as [|? ? Hp Hb']; subst. cbn [fold_left].
    replace (done ++ p :: b) with ((done ++ [p]) ++ b) by (rewrite <- app_assoc; reflexivity).
    apply IH; [apply pput_ok; assumption | assumption].
  Qed.

  (* C07 / C08 on the spec: every frame is non-empty, within capacity, homogeneous in message type, either whole messages or
     one segment alone; all payload bytes appear once and in batch order *)
  Theorem pack_ok : forall b, Forall (fun p => 1 <= p_len p) b ->
    Forall frame_ok (pack cap v b) /\
    frames_bytes (pack cap v b) = concat (map (fun p => take (p_len p) (pdata p)) b).
  Proof.
    intros b Hb. unfold pack.
    destruct (fold_pput_ok b ([], 0) [] ) as (H1 & H2 & _); [|exact Hb|].
    { unfold pst_ok. cbn. auto. }
    split; [|exact H2]. apply Forall_rev. exact H1.
  Qed.

  (* ---------- serialisation: sizes ---------- *)
  Lemma p_len_le p : p_len p <= zlen (pdata p).
  Proof.
    unfold p_len, pdata. destruct (p_pl p) as [pl|]; [|unfold zlen; cbn; lia].
    pose proof (zlen_nonneg (pl_data pl)). apply Z.mod_le; lia.
  Qed.

  Lemma zlen_ser_item t i : item_ok t i -> zlen (ser_item i) = 16 + it_len i.
  Proof.
    intros (_ & Hpos & Hlen & Hend). unfold ser_item. rewrite zlen_app.
    change (zlen (ser_mhdr ?h)) with (Z.of_nat (length (ser_mhdr h))).
    unfold ser_mhdr. rewrite !app_length, !be_enc_length. cbn [length].
    fold (pdata (it_pkt i)). pose proof (p_len_le (it_pkt i)).
    rewrite zlen_take; [lia|]. rewrite zlen_drop by lia. lia.
  Qed.

  Lemma zlen_concat_items t its : Forall (item_ok t) its ->
    zlen (concat (map ser_item its)) = fold_right (fun i a => 16 + it_len i + a) 0 its.
  Proof.
    induction 1 as [|i its Hi _ IH]; [reflexivity|].
    cbn [map concat fold_right]. rewrite zlen_app, (zlen_ser_item t i Hi), IH. lia.
  Qed.

  Lemma zlen_zeros' n : zlen (zeros n) = Z.max 0 n.
  Proof. unfold zlen, zeros. rewrite repeat_length. lia. Qed.

  Lemma zlen_ser_frame minb dev stream seq f : frame_ok f ->
    zlen (ser_frame minb dev stream seq f) = Z.max minb (frame_used f).
  Proof.
    intros (_ & _ & Hit & _). unfold ser_frame, pad_to, frame_used.
    rewrite zlen_app, zlen_zeros', zlen_app, (zlen_concat_items _ _ Hit).
    change (zlen (ser_fhdr ?h)) with (Z.of_nat (length (ser_fhdr h))).
    unfold ser_fhdr. rewrite !app_length, !be_enc_length. cbn [length]. lia.
  Qed.

  Lemma in_ser_frames : forall fs minb dev stream seq x,
    In x (ser_frames minb dev stream seq fs) -> exists f s, In f fs /\ x = ser_frame minb dev stream s f.
  Proof.
    induction fs as [|f fs IH]; intros minb dev stream seq x; cbn [ser_frames]; [contradiction|].
    intros [<-|Hin]; [eexists _, _; split; [left; reflexivity|reflexivity]|].
    destruct (IH _ _ _ _ _ Hin) as (g & s & Hg & Hx). eexists _, _. split; [right; exact Hg|exact Hx].
  Qed.
End PackFacts.

(* C07 for the encoder model: frame sizes within [min, max] for every batch and configuration of the domain *)
Theorem encode_frame_sizes : forall e b minb maxb v,
  25 <= maxb -> minb <= maxb ->
  Forall (pkt_ok v) b ->
  forall x, In x (snd (encode e b minb maxb)) -> minb <= zlen x <= maxb.
Proof.
  intros e b minb maxb v Hmax Hmin Hb x Hx. unfold encode in Hx. cbn [snd] in Hx.
  rewrite (encode_refines_pack (maxb - 8) v) in Hx by (try lia; exact Hb).
  destruct (in_ser_frames _ _ _ _ _ _ Hx) as (f & s & Hf & ->).
  destruct (pack_ok (maxb - 8) v ltac:(lia) b) as [HF _].
  { eapply Forall_impl; [|exact Hb]. intros p [H _]. exact H. }
  rewrite Forall_forall in HF. specialize (HF f Hf).
  rewrite (zlen_ser_frame (maxb - 8) v) by exact HF.
  destruct HF as (_ & _ & _ & Hus & _). lia.
Qed.

(* ====================================================================================================
   C09 / C10: sequence counters and identity over operation histories; independence of earlier calls
   ==================================================================================================== *)
Require Import CMP.Tecmp CMP.DecoderProofs.

Lemma nth_ser_frames : forall fs minb dev stream seq (i : nat) d dx,
  (i < length fs)%nat ->
  nth i (ser_frames minb dev stream seq fs) dx = ser_frame minb dev stream ((seq + 1 + Z.of_nat i) mod 65536) (nth i fs d).
Proof.
  induction fs as [|f fs IH]; intros minb dev stream seq i d dx Hi; [cbn in Hi; lia|].
  destruct i as [|i]; cbn [ser_frames nth].
  - rewrite Z.add_0_r. reflexivity.
  - rewrite (IH _ _ _ _ i d dx) by (cbn in Hi; lia). f_equal.
    rewrite Nat2Z.inj_succ.
    replace (seq + 1 + Z.succ (Z.of_nat i)) with ((seq + 1) + (1 + Z.of_nat i)) by lia.
    replace ((seq + 1) mod 65536 + 1 + Z.of_nat i) with ((seq + 1) mod 65536 + (1 + Z.of_nat i)) by lia.
    rewrite Zplus_mod_idemp_l. reflexivity.
Qed.

Lemma length_ser_frames fs minb dev stream seq : length (ser_frames minb dev stream seq fs) = length fs.
Proof. revert seq. induction fs as [|f fs IH]; intros seq; cbn [ser_frames length]; auto. Qed.

(* the frame header that is on the wire *)
Lemma ser_frame_header minb dev stream seq f :
  1 <= fr_ver f < 256 -> 0 <= dev < 65536 -> 0 <= fr_type f < 256 -> 0 <= stream < 256 -> 0 <= seq < 65536 ->
  parse_fhdr (ser_frame minb dev stream seq f) =
  {| f_ver := fr_ver f; f_dev := dev; f_mt := fr_type f; f_stream := stream; f_seq := seq |}.
Proof.
  intros. unfold ser_frame, pad_to. rewrite <- app_assoc.
  apply parse_ser_fhdr. unfold fhdr_ok. cbn [f_ver f_dev f_mt f_stream f_seq]. lia.
Qed.

Inductive eop := OSetDev (d : Z) | OSetStream (s : Z) | ORestart | OEncode (b : list packet) (minb maxb : Z).

(* one operation; `since` = frames emitted since the counter was last reset (oldest first) *)
Definition estep (st : enc * list (list Z)) (o : eop) : enc * list (list Z) :=
  let '(e, since) := st in
  match o with
  | OSetDev d => (enc_set_dev e d, [])
  | OSetStream s => (enc_set_stream e s, [])
  | ORestart => (enc_restart e, [])
  | OEncode b minb maxb => let '(e', fs) := encode e b minb maxb in (e', since ++ fs)
  end.

Definition op_ok (o : eop) : Prop :=
  match o with
  | OSetDev d => 0 <= d < 65536
  | OSetStream s => 0 <= s < 256
  | ORestart => True
  | OEncode b minb maxb => 25 <= maxb /\ minb <= maxb /\ exists v, 1 <= v < 256 /\ Forall (pkt_ok v) b
  end.

Definition enc_ok (e : enc) : Prop := 0 <= e_dev e < 65536 /\ 0 <= e_stream e < 256 /\ 0 <= e_seq e < 65536.

(* every frame emitted since the last reset: counter = its position (from 1, modulo 2^16), current device and stream id *)
Definition since_ok (e : enc) (since : list (list Z)) : Prop :=
  e_seq e = zlen since mod 65536 /\
  forall i, (i < length since)%nat ->
    let h := parse_fhdr (nth i since []) in
    f_seq h = (Z.of_nat i + 1) mod 65536 /\ f_dev h = e_dev e /\ f_stream h = e_stream e /\ 1 <= f_ver h < 256.

Lemma ty_mt_range ty : 0 <= ty_mt ty < 256.
Proof. unfold ty_mt. apply Z.mod_pos_bound. lia. Qed.
Lemma p_mt_range p : 0 <= p_mt p < 256.
Proof. unfold p_mt. destruct (p_pl p); [apply ty_mt_range|lia]. Qed.

Lemma estep_ok e since o : enc_ok e -> since_ok e since -> op_ok o ->
  enc_ok (fst (estep (e, since) o)) /\ since_ok (fst (estep (e, since) o)) (snd (estep (e, since) o)).
Proof.
  intros (Hd & Hs & Hq) (Hseq & Hall) Ho.
  destruct o as [d|s| |b minb maxb]; cbn [op_ok] in Ho; cbn [estep fst snd].
  - split; [unfold enc_ok, enc_set_dev; cbn; lia|]. split; [reflexivity|]. intros i Hi. cbn in Hi. lia.
  - split; [unfold enc_ok, enc_set_stream; cbn; lia|]. split; [reflexivity|]. intros i Hi. cbn in Hi. lia.
  - split; [unfold enc_ok, enc_restart; cbn; lia|]. split; [reflexivity|]. intros i Hi. cbn in Hi. lia.
  - destruct Ho as (Hmax & Hmin & v & Hv & Hb).
    unfold encode. cbn [fst snd].
    set (fs := enc_struct (maxb - 8) b).
    assert (Hfs : fs = pack (maxb - 8) v b) by (apply encode_refines_pack; [lia|exact Hb]).
    destruct (pack_ok (maxb - 8) v ltac:(lia) b) as [HF _].
    { eapply Forall_impl; [|exact Hb]. intros p [H _]. exact H. }
    rewrite <- Hfs in HF.
    split.
    + unfold enc_ok. cbn [e_dev e_stream e_seq]. pose proof (Z.mod_pos_bound (e_seq e + zlen fs) 65536). lia.
    + split.
      * cbn [e_seq]. rewrite zlen_app. unfold zlen at 3. rewrite length_ser_frames. fold (zlen fs).
        rewrite Hseq. rewrite Zplus_mod_idemp_l. reflexivity.
      * intros i Hi. cbn [e_dev e_stream].
        rewrite app_length, length_ser_frames in Hi.
        destruct (Nat.lt_ge_cases i (length since)) as [Hlt|Hge].
        { rewrite app_nth1 by exact Hlt. apply Hall. exact Hlt. }
        rewrite app_nth2 by exact Hge.
        rewrite (nth_ser_frames fs minb (e_dev e) (e_stream e) (e_seq e) (i - length since) {| fr_type := 0; fr_ver := 0; fr_items := [] |} []) by lia.
        assert (Hin : In (nth (i - length since) fs {| fr_type := 0; fr_ver := 0; fr_items := [] |}) fs) by (apply nth_In; lia).
        rewrite Forall_forall in HF. destruct (HF _ Hin) as (Fv & Fne & Fit & _).
        assert (Hty : 0 <= fr_type (nth (i - length since) fs {| fr_type := 0; fr_ver := 0; fr_items := [] |}) < 256).
        { destruct (fr_items (nth (i - length since) fs {| fr_type := 0; fr_ver := 0; fr_items := [] |})) as [|it its] eqn:Ei; [congruence|].
          inversion Fit as [|? ? Hio _]; subst. destruct Hio as (Ht & _). rewrite <- Ht. apply p_mt_range. }
        rewrite ser_frame_header; [|rewrite Fv; lia|lia|exact Hty|lia|apply Z.mod_pos_bound; lia].
        cbn [f_seq f_dev f_stream f_ver]. rewrite Fv. split; [|split; [reflexivity|split; [reflexivity|lia]]].
        rewrite Hseq.
        replace (zlen since mod 65536 + 1 + Z.of_nat (i - length since)) with (zlen since mod 65536 + (1 + Z.of_nat (i - length since))) by lia.
        rewrite Zplus_mod_idemp_l. f_equal. unfold zlen. lia.
Qed.

Theorem history_counters : forall ops e since,
  enc_ok e -> since_ok e since -> Forall op_ok ops ->
  let r := fold_left estep ops (e, since) in enc_ok (fst r) /\ since_ok (fst r) (snd r).
Proof.
  induction ops as [|o ops IH]; intros e since He Hs Ho; [cbn; auto|].
  inversion Ho as [|? ? Ho1 Ho2]; subst. cbn [fold_left].
  destruct (estep_ok e since o He Hs Ho1) as [He' Hs'].
  destruct (estep (e, since) o) as [e' since'] eqn:E. cbn [fst snd] in *.
  apply IH; assumption.
Qed.

(* ====================================================================================================
   C09 on the whole input domain of encode(): packets whose payload is EMPTY (or absent) included.
   Such packets open frames and consume counters without adding a message; the counter / identity statement does not
   need the packing specification, only that every frame carries the batch version and a message type in range.
   ==================================================================================================== *)
Definition fr_tagged (v : Z) (f : frame) : Prop := fr_ver f = v /\ 0 <= fr_type f < 256.
Definition est_tagged (v : Z) (s : est) : Prop := es_ver s = v /\ 0 <= es_type s < 256 /\ Forall (fr_tagged v) (es_frames s).

Lemma newf_tagged cap v s : est_tagged v s -> est_tagged v (newf cap s).
Proof. intros (Hv & Ht & HF). unfold est_tagged, newf. cbn. repeat split; try assumption; try lia. constructor; [split; assumption|exact HF]. Qed.
Lemma add_item_tagged v i s l : est_tagged v s -> est_tagged v (add_item i s l).
Proof.
  intros (Hv & Ht & HF). unfold add_item. destruct (es_frames s) as [|f fs] eqn:E; [unfold est_tagged; rewrite E; auto|].
  inversion HF as [|? ? Hf Hfs]; subst. unfold est_tagged. cbn. repeat split; try assumption; try lia. constructor; [exact Hf|exact Hfs].
Qed.
Lemma close_tagged v s : est_tagged v s -> est_tagged v (close s).
Proof. intros H. exact H. Qed.

Lemma cloop_tagged cap v p L seg : forall fuel pos k s, est_tagged v s -> est_tagged v (cloop cap fuel p L seg pos k s).
Proof.
  induction fuel as [|fuel IH]; intros pos k s H; cbn [cloop]; [exact H|].
  destruct (pos <? L); [|exact H]. apply IH.
  set (s1 := if es_left s <? 16 then newf cap s else s).
  assert (H1 : est_tagged v s1) by (subst s1; destruct (es_left s <? 16); [apply newf_tagged|]; exact H).
  match goal with |- est_tagged v (if ?c then close ?x else ?y) => destruct c; [apply close_tagged|]; apply add_item_tagged; exact H1 end.
Qed.

Lemma cput_tagged cap v s p : p_ver p = v -> 1 <= v < 256 ->
  Forall (fr_tagged v) (es_frames s) -> (es_frames s <> [] -> es_ver s = v /\ 0 <= es_type s < 256) ->
  est_tagged v (cput cap s p) /\ es_frames (cput cap s p) <> [].
Proof.
  intros Hp Hv HF Hne. unfold cput.
  set (s1 := match es_frames s with [] => set_type cap s p | _ => if es_type s =? p_mt p then s else set_type cap s p end).
  assert (Hst : est_tagged v (set_type cap s p) /\ es_frames (set_type cap s p) <> []).
  { unfold set_type. split; [|unfold newf; cbn; discriminate]. apply newf_tagged. unfold est_tagged. cbn. pose proof (p_mt_range p). auto. }
  assert (H1 : est_tagged v s1 /\ es_frames s1 <> []).
  { subst s1. destruct (es_frames s) as [|f fs] eqn:E; [exact Hst|].
    destruct (es_type s =? p_mt p); [|exact Hst].
    assert (Hn : f :: fs <> []) by discriminate. destruct (Hne Hn) as (Hv' & Ht'). split; [|rewrite E; exact Hn].
    unfold est_tagged. rewrite E. auto. }
  destruct H1 as [T1 N1].
  set (s2 := if es_left s1 <? 16 + p_len p then (if es_left s1 =? cap then s1 else newf cap s1) else s1).
  assert (H2 : est_tagged v s2 /\ es_frames s2 <> []).
  { subst s2. destruct (es_left s1 <? 16 + p_len p); [|auto]. destruct (es_left s1 =? cap); [auto|].
    split; [apply newf_tagged; exact T1|unfold newf; cbn; discriminate]. }
  destruct H2 as [T2 N2]. split; [apply cloop_tagged; exact T2|].
  (* frames are never removed *)
  assert (G : forall fuel pos k seg s0, es_frames s0 <> [] -> es_frames (cloop cap fuel p (p_len p) seg pos k s0) <> []).
  { induction fuel as [|fuel IH]; intros pos k seg s0 H0; cbn [cloop]; [exact H0|]. destruct (pos <? p_len p); [|exact H0]. apply IH.
    set (s1' := if es_left s0 <? 16 then newf cap s0 else s0).
    assert (N : es_frames s1' <> []) by (subst s1'; destruct (es_left s0 <? 16); [unfold newf; cbn; discriminate|exact H0]).
    match goal with |- es_frames (if ?c then close ?x else ?y) <> [] => destruct c; unfold close, add_item; cbn [es_frames]; destruct (es_frames s1'); [contradiction|discriminate|contradiction|discriminate] end. }
  apply G. exact N2.
Qed.

Lemma enc_struct_tagged cap v b : 1 <= v < 256 -> Forall (fun p => p_ver p = v) b -> Forall (fr_tagged v) (enc_struct cap b).
Proof.
  intros Hv Hb. unfold enc_struct. apply Forall_rev.
  assert (G : forall b s, Forall (fun p => p_ver p = v) b -> Forall (fr_tagged v) (es_frames s) ->
              (es_frames s <> [] -> es_ver s = v /\ 0 <= es_type s < 256) -> Forall (fr_tagged v) (es_frames (fold_left (cput cap) b s))).
  { induction b0 as [|p b0 IH]; intros s Hb0 HF Hne; [exact HF|]. inversion Hb0 as [|? ? Hp Hb']; subst. cbn [fold_left].
    destruct (cput_tagged cap (p_ver p) s p eq_refl Hv HF Hne) as [(V & T & F) N]. apply IH; auto. }
  apply G; [exact Hb|constructor|]. cbn. congruence.
Qed.

Definition op_ok_any (o : eop) : Prop :=
  match o with
  | OSetDev d => 0 <= d < 65536
  | OSetStream s => 0 <= s < 256
  | ORestart => True
  | OEncode b minb maxb => exists v, 1 <= v < 256 /\ Forall (fun p => p_ver p = v) b
  end.

Lemma estep_ok_any e since o : enc_ok e -> since_ok e since -> op_ok_any o ->
  enc_ok (fst (estep (e, since) o)) /\ since_ok (fst (estep (e, since) o)) (snd (estep (e, since) o)).
Proof.
  intros (Hd & Hs & Hq) (Hseq & Hall) Ho.
  destruct o as [d|s| |b minb maxb]; cbn [op_ok_any] in Ho; cbn [estep fst snd].
  - split; [unfold enc_ok, enc_set_dev; cbn; lia|]. split; [reflexivity|]. intros i Hi. cbn in Hi. lia.
  - split; [unfold enc_ok, enc_set_stream; cbn; lia|]. split; [reflexivity|]. intros i Hi. cbn in Hi. lia.
  - split; [unfold enc_ok, enc_restart; cbn; lia|]. split; [reflexivity|]. intros i Hi. cbn in Hi. lia.
  - destruct Ho as (v & Hv & Hb).
    unfold encode. cbn [fst snd].
    set (fs := enc_struct (maxb - 8) b).
    pose proof (enc_struct_tagged (maxb - 8) v b Hv Hb) as HF. fold fs in HF.
    split.
    + unfold enc_ok. cbn [e_dev e_stream e_seq]. pose proof (Z.mod_pos_bound (e_seq e + zlen fs) 65536). lia.
    + split.
      * cbn [e_seq]. rewrite zlen_app. unfold zlen at 3. rewrite length_ser_frames. fold (zlen fs).
        rewrite Hseq. rewrite Zplus_mod_idemp_l. reflexivity.
      * intros i Hi. cbn [e_dev e_stream].
        rewrite app_length, length_ser_frames in Hi.
        destruct (Nat.lt_ge_cases i (length since)) as [Hlt|Hge].
        { rewrite app_nth1 by exact Hlt. apply Hall. exact Hlt. }
        rewrite app_nth2 by exact Hge.
        rewrite (nth_ser_frames fs minb (e_dev e) (e_stream e) (e_seq e) (i - length since) {| fr_type := 0; fr_ver := 0; fr_items := [] |} []) by lia.
        assert (Hin : In (nth (i - length since) fs {| fr_type := 0; fr_ver := 0; fr_items := [] |}) fs) by (apply nth_In; lia).
        rewrite Forall_forall in HF. destruct (HF _ Hin) as (Fv & Hty).
        rewrite ser_frame_header; [|rewrite Fv; lia|lia|exact Hty|lia|apply Z.mod_pos_bound; lia].
        cbn [f_seq f_dev f_stream f_ver]. rewrite Fv. split; [|split; [reflexivity|split; [reflexivity|lia]]].
        rewrite Hseq.
        replace (zlen since mod 65536 + 1 + Z.of_nat (i - length since)) with (zlen since mod 65536 + (1 + Z.of_nat (i - length since))) by lia.
        rewrite Zplus_mod_idemp_l. f_equal. unfold zlen. lia.
Qed.

(* every history, every batch (empty payloads, payload-less packets, any frame sizes - even below the documented minimum of 25) *)
Theorem history_counters_any : forall ops e since,
  enc_ok e -> since_ok e since -> Forall op_ok_any ops ->
  let r := fold_left estep ops (e, since) in enc_ok (fst r) /\ since_ok (fst r) (snd r).
Proof.
  induction ops as [|o ops IH]; intros e since He Hs Ho; [cbn; auto|].
  inversion Ho as [|? ? Ho1 Ho2]; subst. cbn [fold_left].
  destruct (estep_ok_any e since o He Hs Ho1) as [He' Hs'].
  destruct (estep (e, since) o) as [e' since'] eqn:E. cbn [fst snd] in *.
  apply IH; assumption.
Qed.
