(* C06 — loss, duplication or reordering never yields a corrupted packet. *)
Require Import CMP.Bytes CMP.Packet CMP.Tecmp CMP.Decoder CMP.Encoder CMP.DecoderProofs CMP.EncoderProofs CMP.RoundTrip CMP.Faults.
Local Open Scope Z_scope.

(* The stream: frames = the frames the encoder returns for a batch b of the C01 domain (any encoder state, any frame sizes with
   25 <= maxb), fewer than 65536 of them.  A fault history is ANY list fed of triples (k, ver', mt'): "feed frame k with its version
   byte set to ver' (1..255) and its message-type byte set to mt'" - ver' = original version and mt' = original type is the
   uncorrupted frame.  Every finite sequence of drops, duplications, swaps / reorderings and version / type corruptions of the stream
   is such a list, of any length (no bound).  The decoder starts in any state in which this endpoint has no reassembly pending
   (pending chains of other endpoints: arbitrary).
   Then decoding never fails and EVERY delivered packet is `good`:
     - G_whole: it is a sent message p that travelled unsegmented in frame k, which was fed as (k, ver', mt'), and equals
       retyped ver' mt' 0 p; or
     - G_chain: it is a sent message p whose chain occupies the consecutive stream positions |pre| .. |pre|+|chain p|-1, EVERY frame of
       that chain was fed with the same announced (ver', mt'), and it equals retyped ver' mt' 4 p;
   retyped ver' mt' sb p has exactly p's payload bytes, payload-type byte, timestamp, id and flags (C06_good_packet_fields): never a
   mix of fragments of different messages, never a hole, never a repeated part.  It differs from the packet C01 returns only in the
   version / message type that ALL its carrying frames announced - which no decoder can tell from a sent value. *)
Theorem C06_faults_never_corrupt : forall (e : enc) (b : list packet) (minb maxb v : Z) (st : dstate) (fed : list (nat * Z * Z)),
  25 <= maxb -> 1 <= v < 256 -> 0 <= e_dev e < 65536 -> 0 <= e_stream e < 256 -> Forall (pkt_wf v) b ->
  let frames := snd (encode e b minb maxb) in
  Z.of_nat (length frames) < 65536 ->
  lookup (e_dev e, e_stream e) st = None ->
  Forall (fed_in_range (length frames)) fed ->
  exists st' outs, dec_frames st (map (fed_bytes frames) fed) = Ok (st', outs) /\
    Forall (good (maxb - 8) v (e_dev e) (e_stream e) b (pack (maxb - 8) v b) fed) outs.
Proof. exact encoder_stream_faults. Qed.
Print Assumptions C06_faults_never_corrupt.

Theorem C06_good_is_a_sent_message : forall cap v dev stream sent fs fed q,
  good cap v dev stream sent fs fed q ->
  exists p ver' mt' sb, In p sent /\ pkt_wf v p /\ (sb = 0 \/ sb = 4) /\ q = retyped dev stream ver' mt' sb p.
Proof. exact good_is_sent. Qed.
Print Assumptions C06_good_is_a_sent_message.

Theorem C06_good_packet_fields : forall dev stream ver' mt' sb p,
  let q := retyped dev stream ver' mt' sb p in
  p_ver q = ver' /\ p_dev q = dev /\ p_stream q = stream /\ p_ts q = p_ts p /\
  p_flags q = Z.lor (Z.land (p_flags p) 243) sb /\
  p_pl q = Some (create (mk_type mt' (p_raw p)) (pdata p)).
Proof. exact retyped_fields. Qed.
Print Assumptions C06_good_packet_fields.

(* drop / duplicate / reorder only (any list ks of frame indices): every delivered packet is byte-identical to the packet C01
   returns for one of the sent messages *)
Theorem C06_loss_duplication_reordering : forall (e : enc) (b : list packet) (minb maxb v : Z) (st : dstate) (ks : list nat),
  25 <= maxb -> 1 <= v < 256 -> 0 <= e_dev e < 65536 -> 0 <= e_stream e < 256 -> Forall (pkt_wf v) b ->
  let frames := snd (encode e b minb maxb) in
  Z.of_nat (length frames) < 65536 ->
  lookup (e_dev e, e_stream e) st = None ->
  Forall (fun k => (k < length frames)%nat) ks ->
  exists st' outs, dec_frames st (map (fun k => nth k frames []) ks) = Ok (st', outs) /\
    Forall (fun q => exists p, In p b /\ q = exp_of (maxb - 8) v (e_dev e) (e_stream e) p) outs.
Proof. exact encoder_stream_reordered. Qed.
Print Assumptions C06_loss_duplication_reordering.

(* the invariant behind it: after ANY fault history the endpoint's pending reassembly, if any, consists of the first segments of
   ONE sent message, consecutive in the stream, all announced alike (Faults.pend), and the run continues from there *)
Theorem C06_invariant_over_histories : forall cap v minb dev stream, 17 <= cap -> 1 <= v < 256 -> 0 <= dev < 65536 -> 0 <= stream < 256 ->
  forall sent fs c0, blocks cap v sent fs -> Z.of_nat (length fs) < 65536 ->
  forall todo done st, inv cap v dev stream sent fs c0 done st -> Forall (fed_ok fs) todo ->
  exists st' outs, dec_frames st (map (fbytes minb dev stream fs c0) todo) = Ok (st', outs) /\
    inv cap v dev stream sent fs c0 (done ++ todo) st' /\ Forall (good cap v dev stream sent fs (done ++ todo)) outs.
Proof. exact faults_run. Qed.
Print Assumptions C06_invariant_over_histories.

(* "on one or more endpoints": the fault history of this stream may be interleaved with ANY other buffers (frames of other endpoints with
   their own chains and faults, TECMP frames, garbage, short buffers): the packets delivered for THIS endpoint are still all good *)
Theorem C06_other_traffic_in_between : forall cap v minb dev stream, 17 <= cap -> 1 <= v < 256 -> 0 <= dev < 65536 -> 0 <= stream < 256 ->
  forall sent fs c0, blocks cap v sent fs -> Z.of_nat (length fs) < 65536 ->
  forall fed h st, lookup (dev, stream) st = None -> Forall (fed_ok fs) fed ->
  proj (dev, stream) h = map (fbytes minb dev stream fs c0) fed ->
  Forall (good cap v dev stream sent fs fed) (projp (dev, stream) (runh st h)).
Proof. exact faults_among_other_traffic. Qed.
Print Assumptions C06_other_traffic_in_between.

(* recovery: from ANY decoder state (whatever the faults left behind), the frames of later messages that arrive complete, in order and
   uninterrupted on the endpoint are all delivered - aggregated or segmented (this is C01's statement, which is for every state st);
   frames of other endpoints in between do not matter (C18_isolation) *)
Theorem C06_recovery : forall cap v minb dev stream, 17 <= cap -> 1 <= v < 256 -> 0 <= dev < 65536 -> 0 <= stream < 256 ->
  forall b, Forall (pkt_wf v) b ->
  forall st c, exists st', dec_frames st (ser_frames minb dev stream c (pack cap v b)) = Ok (st', map (exp_of cap v dev stream) b) /\
                           (b <> [] -> lookup (dev, stream) st' = None).
Proof. exact pack_round_trip. Qed.
Print Assumptions C06_recovery.

(* non-vacuity: the 5-frame stream of the C01 example (one aggregated frame, a 3-frame chain, a status frame).  History: frame 1
   (first segment), frame 3 (last segment, out of order -> nothing), frame 1 again, frame 2 with a corrupted version (chain dropped),
   frame 2 and 3 (orphans), frame 0 twice, then the complete chain 1 2 3 with a consistently corrupted message type, then frame 4. *)
Definition ex_pkt (ty : Z) (n : nat) (ts : Z) : packet :=
  {| p_pl := Some {| pl_type := ty; pl_data := repeat 7 n |}; p_ver := 1; p_dev := 0; p_stream := 0; p_seq := 0;
     p_ts := ts; p_ifid := 5; p_vendor := 77; p_flags := 129; p_seg := 0 |}.
Definition ex_batch := [ex_pkt 511 8 1000; ex_pkt 511 100 1001; ex_pkt 1023 9 1002].
Definition ex_enc : enc := {| e_dev := 3; e_stream := 9; e_seq := 65534 |}.
Definition ex_fed : list (nat * Z * Z) :=
  map (fun x : Z * Z * Z => let '(k, a, c) := x in (Z.to_nat k, a, c))
  [(1, 1, 1); (3, 1, 1); (1, 1, 1); (2, 2, 1); (2, 1, 1); (3, 1, 1); (0, 1, 1); (0, 1, 1);
   (1, 1, 2); (2, 1, 2); (3, 1, 2); (4, 1, 3)].
Example C06_example :
  match dec_frames [] (map (fed_bytes (snd (encode ex_enc ex_batch 0 64))) ex_fed) with
  | Ok (_, out) => map (fun q => (p_ts q, zlen (pdata q), p_mt q)) out = [(1000, 8, 1); (1000, 8, 1); (1001, 100, 2); (1002, 9, 3)]
  | _ => False
  end.
Proof. vm_compute. reflexivity. Qed.
Example C06_example_hyp : Forall (pkt_wf 1) ex_batch /\ Forall (fed_in_range (length (snd (encode ex_enc ex_batch 0 64)))) ex_fed.
Proof.
  split.
  - repeat (apply Forall_cons; [unfold pkt_wf; cbn; repeat split; try lia; discriminate|]). apply Forall_nil.
  - vm_compute. repeat (apply Forall_cons; [repeat split; try lia; discriminate|]). apply Forall_nil.
Qed.
