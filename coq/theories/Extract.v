(* Extraction of the executable models (ExtrOcamlBasic only: bool, option, list, prod, unit, sumbool map to OCaml's own;
   Z, positive, nat stay the extracted inductive types; no Extract Constant). Run from the directory that receives model.ml. *)
Require Extraction.
Require Import ExtrOcamlBasic.
Require Import CMP.Bytes CMP.Packet CMP.Tecmp CMP.Decoder CMP.Encoder CMP.Builders CMP.Status CMP.Interp.
Extraction Language OCaml.
Extraction "model.ml" run_case.
