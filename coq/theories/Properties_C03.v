(* C03 — payloads accepted by validation expose only in-bounds data. *)
Require Import CMP.Bytes CMP.Packet CMP.PacketProofs.
Local Open Scope Z_scope.

(* For every typed payload class (kind 1 CAN, 2 CAN-FD, 3 LIN, 7 analog, 8 Ethernet, 49 capture-module status, 50 interface status) and
   EVERY buffer: if the class's validity check accepts it, then every accessor read of the view model succeeds (view_kind is built
   from checked reads: None = a read outside the buffer) and every variable-length view it reports — data pointer + length, the four
   strings, stream-id list, vendor data, sample count x sample size — lies inside the payload's own bytes. *)
Theorem C03_accepted_payloads_expose_in_bounds_views : forall k d,
  bytes_ok d -> valid_kind k d = true -> exists w, view_kind k d = Some w /\ in_bounds k w (zlen d).
Proof. exact valid_views_in_bounds. Qed.
Print Assumptions C03_accepted_payloads_expose_in_bounds_views.

(* the same for every packet built by Packet(msgType, data, size) / returned by the decoder: a payload keeps a typed payload type
   only if its class validator accepted the bytes (otherwise it is marked invalid) *)
Theorem C03_packets_with_typed_payloads : forall ty d k,
  bytes_ok d -> kind_of_type (pl_type (create ty d)) = Some k ->
  exists w, view_kind k (pl_data (create ty d)) = Some w /\ in_bounds k w (zlen (pl_data (create ty d))).
Proof. exact created_payload_views. Qed.
Print Assumptions C03_packets_with_typed_payloads.

(* a buffer accepted by the message-level validity check can be turned into a packet without reading past its end:
   the constructor reads the 16-byte header and the declared payload length *)
Theorem C03_valid_message_ctor_in_bounds : forall buf,
  valid_packet buf (zlen buf) = true -> 16 + h_plen (parse_mhdr buf) <= zlen buf.
Proof. exact valid_packet_ctor_in_bounds. Qed.
Print Assumptions C03_valid_message_ctor_in_bounds.

(* non-vacuity: a LIN payload with 3 data bytes is accepted; one claiming 200 data bytes in 8 bytes is not *)
Example C03_example : valid_kind 3 [0;0;0;0;5;0;7;3;1;2;3] = true /\ valid_kind 3 [0;0;0;0;5;0;7;200] = false /\
                      view_kind 3 [0;0;0;0;5;0;7;3;1;2;3] = Some [0;5;0;7;3;8;3;0;0;0;0;0;0;0;0;0].
Proof. vm_compute. repeat split. Qed.
