(* C03 — payloads accepted by validation expose only in-bounds data. *)
Require Import CMP.Bytes CMP.Packet CMP.PacketProofs CMP.Tecmp CMP.Cir CMP.CodeBridge CMP.CodeValidators CMP.CodeViews CMPGen.GenCode.
From Coq Require Import String List.
Import ListNotations.
Local Open Scope Z_scope.

(* For every typed payload class (kind 1 CAN, 2 CAN-FD, 3 LIN, 7 analog, 8 Ethernet, 49 capture-module status, 50 interface status) and
   EVERY buffer: if the class's validity check accepts it, then every accessor read of the view model succeeds (view_kind is built
   from checked reads: None = a read outside the buffer) and every variable-length view it reports — data pointer + length, the four
   strings, stream-id list, vendor data, sample count x sample size — lies inside the payload's own bytes. *)
Theorem C03_accepted_payloads_expose_in_bounds_views : forall k d,
  bytes_ok d -> valid_kind k d = true -> exists w, view_kind k d = Some w /\ in_bounds k w (zlen d).
Proof. exact valid_views_in_bounds. Qed.
Print Assumptions C03_accepted_payloads_expose_in_bounds_views.

(* the same for every packet built by Packet(msgType, data, size) / returned by the decoder: a payload keeps a typed payload type
   only if its class validator accepted the bytes (otherwise it is marked invalid) *)
Theorem C03_packets_with_typed_payloads : forall ty d k,
  bytes_ok d -> kind_of_type (pl_type (create ty d)) = Some k ->
  exists w, view_kind k (pl_data (create ty d)) = Some w /\ in_bounds k w (zlen (pl_data (create ty d))).
Proof. exact created_payload_views. Qed.
Print Assumptions C03_packets_with_typed_payloads.

(* a buffer accepted by the message-level validity check can be turned into a packet without reading past its end:
   the constructor reads the 16-byte header and the declared payload length *)
Theorem C03_valid_message_ctor_in_bounds : forall buf,
  valid_packet buf (zlen buf) = true -> 16 + h_plen (parse_mhdr buf) <= zlen buf.
Proof. exact valid_packet_ctor_in_bounds. Qed.
Print Assumptions C03_valid_message_ctor_in_bounds.

(* Tie T2. The validators the theorems above speak about are the code: the bodies of the seven isValidPayload functions and of
   Packet::isValidPacket, RE-TRANSLATED FROM /repo ON THIS RUN into the arithmetic IR of Cir.v (gen/GenCode.v) and evaluated with checked
   reads (a read outside the buffer is Oob, unsigned arithmetic wraps at the C++ type's width, signed overflow / bad shifts fail),
   return - for EVERY buffer - exactly what the model validator returns, and never read outside the buffer. Hence "accepted by the
   compiled validator" implies the in-bounds views of the first theorem. (Buffers of 2^64 bytes or more do not exist.) *)
Theorem C03_translated_validators_refine_the_model : forall d k c,
  bytes_ok d -> zlen d < 2 ^ 64 -> code_of_kind k = Some c ->
  ceval gen_reads d (penv d) c = Ok (b2z (valid_kind k d)).
Proof. exact code_validator_refines. Qed.
Print Assumptions C03_translated_validators_refine_the_model.

Theorem C03_accepted_by_the_translated_code_exposes_in_bounds_views : forall d k c,
  bytes_ok d -> zlen d < 2 ^ 64 -> code_of_kind k = Some c -> ceval gen_reads d (penv d) c = Ok 1 ->
  exists w, view_kind k d = Some w /\ in_bounds k w (zlen d).
Proof.
  intros d k c Hd Hn Hc He. rewrite (code_validator_refines d k c Hd Hn Hc) in He.
  apply valid_views_in_bounds; [assumption|]. destruct (valid_kind k d); [reflexivity|discriminate].
Qed.
Print Assumptions C03_accepted_by_the_translated_code_exposes_in_bounds_views.

Theorem C03_translated_message_check_refines_the_model : forall d c,
  bytes_ok d -> zlen d < 2 ^ 64 -> code_Packet_isValidPacket = Some c ->
  ceval gen_reads d (penv d) c = Ok (b2z (valid_packet d (zlen d))).
Proof. exact code_valid_packet. Qed.
Print Assumptions C03_translated_message_check_refines_the_model.

(* Tie T2, views. The variable-length view accessors themselves - getData of CAN / CAN-FD, LIN and Ethernet, getSamplesCount / getData of the
   analog payload, getStreamIdsCount / getStreamIds / getVendorDataLength / getVendorData of the interface status -, re-translated from /repo on this run
   as member functions over the payload's own byte vector: on EVERY payload its validator accepts they read in bounds and return the
   offset (-1 = nullptr) and length that lie inside the payload. view_analog_model / view_if_model (CodeViews.v) identify these values
   with the elements of the model's view_analog / view_if that the first theorem speaks about. *)
Theorem C03_translated_data_views_in_bounds : forall d,
  bytes_ok d -> zlen d < 2 ^ 64 ->
  (valid_lin d = true -> forall c, code_LinPayload_getData = Some c ->
     ceval gen_reads d (penv d) c = Ok (if nb d 0 7 =? 0 then -1 else 8) /\ 8 + nb d 0 7 <= zlen d) /\
  (valid_can d = true -> forall c, code_CanPayloadBase_getData = Some c ->
     ceval gen_reads d (penv d) c = Ok (if nb d 0 15 =? 0 then -1 else 16) /\ 16 + nb d 0 15 <= zlen d) /\
  (valid_eth d = true -> forall c, code_EthernetPayload_getData = Some c ->
     ceval gen_reads d (penv d) c = Ok (if nb d 0 4 * 256 + nb d 0 5 =? 0 then -1 else 6) /\ 6 + (nb d 0 4 * 256 + nb d 0 5) <= zlen d).
Proof.
  intros d Hd Hn. split; [|split]; intros Hv c Hc;
    first [ apply (view_lin_data d c Hd Hn Hv Hc) | apply (view_can_data d c Hd Hn Hv Hc) | apply (view_eth_data d c Hd Hn Hv Hc) ].
Qed.
Print Assumptions C03_translated_data_views_in_bounds.

Theorem C03_translated_analog_views : forall d, bytes_ok d -> zlen d < 2 ^ 64 -> valid_analog d = true ->
  (forall c, code_AnalogPayload_getSamplesCount = Some c ->
     ceval gen_reads d (penv d) c = Ok ((zlen d - 16) / (if an_dt_le d =? 0 then 2 else 4))) /\
  (forall c, code_AnalogPayload_getData = Some c ->
     ceval gen_reads d (penv d) c = Ok (if (zlen d - 16) / (if an_dt_le d =? 0 then 2 else 4) =? 0 then -1 else 16)).
Proof. intros d Hd Hn Hv. split; intros c Hc; [apply view_analog_count | apply view_analog_data]; assumption. Qed.
Print Assumptions C03_translated_analog_views.

Theorem C03_translated_interface_views : forall d, bytes_ok d -> zlen d < 2 ^ 64 -> valid_if d = true ->
  (forall c, code_InterfacePayload_getStreamIdsCount = Some c -> ceval gen_reads d (penv d) c = Ok (if_cnt d)) /\
  (forall c, code_InterfacePayload_getStreamIds = Some c ->
     ceval gen_reads d (penv d) c = Ok (if if_cnt d =? 0 then -1 else 38) /\ 38 + if_cnt d <= zlen d) /\
  (forall c, code_InterfacePayload_getVendorDataLength = Some c -> ceval gen_reads d (penv d) c = Ok (u16 d (38 + if_cntv d))) /\
  (forall c, code_InterfacePayload_getVendorData = Some c ->
     ceval gen_reads d (penv d) c = Ok (if u16 d (38 + if_cntv d) =? 0 then -1 else 38 + if_cntv d + 2)).
Proof.
  intros d Hd Hn Hv. split; [|split; [|split]]; intros c Hc;
    first [ apply (view_if_count d c Hd Hn Hv Hc) | apply (view_if_ids d c Hd Hn Hv Hc) | apply (view_if_vendor_len d c Hd Hn Hv Hc)
          | apply (view_if_vendor_data d c Hd Hn Hv Hc) ].
Qed.
Print Assumptions C03_translated_interface_views.

Theorem C03_every_view_accessor_translated :
  lost_among ["ASAM::CMP::LinPayload::getData"; "ASAM::CMP::CanPayloadBase::getData"; "ASAM::CMP::EthernetPayload::getData";
              "ASAM::CMP::AnalogPayload::getSamplesCount"; "ASAM::CMP::AnalogPayload::getData";
              "ASAM::CMP::InterfacePayload::getStreamIdsCount"; "ASAM::CMP::InterfacePayload::getStreamIds";
              "ASAM::CMP::InterfacePayload::getVendorDataLength"; "ASAM::CMP::InterfacePayload::getVendorData"]%string = nil.
Proof. vm_compute. reflexivity. Qed.

(* every validator that exists in the sources was inside the translatable fragment on this run (a function that was removed is `None`
   above and has nothing to show; one that exists but could not be translated would be listed here) *)
Theorem C03_every_validator_translated : lost_among validator_names = nil.
Proof. vm_compute. reflexivity. Qed.

(* non-vacuity: a LIN payload with 3 data bytes is accepted; one claiming 200 data bytes in 8 bytes is not *)
Example C03_example : valid_kind 3 [0;0;0;0;5;0;7;3;1;2;3] = true /\ valid_kind 3 [0;0;0;0;5;0;7;200] = false /\
                      view_kind 3 [0;0;0;0;5;0;7;3;1;2;3] = Some [0;5;0;7;3;8;3;0;0;0;0;0;0;0;0;0].
Proof. vm_compute. repeat split. Qed.
(* the translated LIN validator, run on the same two buffers: accepts / rejects, in bounds *)
Definition run_code (c : option cexp) (d : list Z) : option (res Z) := match c with Some e => Some (ceval gen_reads d (penv d) e) | None => None end.
Example C03_example_code : forall r, In r [run_code code_LinPayload_isValidPayload [0;0;0;0;5;0;7;3;1;2;3]] -> r = Some (Ok 1) \/ r = None.
Proof. vm_compute. intros r [<-|[]]; auto. Qed.
Example C03_example_code_rejects : forall r, In r [run_code code_LinPayload_isValidPayload [0;0;0;0;5;0;7;200]; run_code code_LinPayload_isValidPayload [0;0;0]] -> r = Some (Ok 0) \/ r = None.
Proof. vm_compute. intros r [<-|[<-|[]]]; auto. Qed.
