(* Tie T2: Encoder::buildSegmentationFlag(isSegmented, segmentInd, bytesToAdd, payloadSize, currentPayloadPos), as translated from /repo on
   this run, against the flag rule of the model's segment loop (Encoder.cloop). *)
From Coq Require Import ZArith List String Bool Lia.
Require Import CMP.Bytes CMP.Bv CMP.Refine CMP.Packet CMP.Tecmp CMP.Cir CMPGen.GenAccessors CMPGen.GenCode CMP.CodeBridge.
Import ListNotations.
Local Open Scope Z_scope.
Local Open Scope bool_scope.

Definition seg_flag (seg : bool) (k pos n L : Z) : Z := if seg then (if k =? 0 then 4 else if pos + n =? L then 12 else 8) else 0.
Theorem code_seg_flag (seg : bool) k n L pos c : 0 <= n < 65536 -> 0 <= L < 2 ^ 64 -> 0 <= pos -> pos + n < 2 ^ 64 ->
  code_Encoder_buildSegmentationFlag = Some c ->
  ceval gen_reads [] (env_of_list [b2z seg; k; n; L; pos]) c = Ok (seg_flag seg k pos n L).
Proof.
  intros Hn HL Hp Hpn. t2_open code_Encoder_buildSegmentationFlag; (assert (Hd : bytes_ok []) by constructor; unfold seg_flag; destruct seg; t2_solve Hd).
Qed.
