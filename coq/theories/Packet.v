(* Packets, payloads, message header, payload validators, typed views and Packet::create.
   Hand-written model of src/packet.cpp, src/payload.cpp and the validators / variable-length
   accessors of the payload classes (tie H of DESIGN.md). *)
Require Import CMP.Bytes.
Local Open Scope Z_scope.
Local Open Scope bool_scope.

Arguments be_enc : simpl never.
Arguments be_dec : simpl never.

(* ---------- message header (16 bytes) ---------- *)
Record mhdr := { h_ts : Z; h_id : Z; h_flags : Z; h_ptype : Z; h_plen : Z }.
Definition mhdr_ok h :=
  0 <= h_ts h < 256^8 /\ 0 <= h_id h < 256^4 /\ byte_ok (h_flags h) /\ byte_ok (h_ptype h) /\ 0 <= h_plen h < 256^2.
Definition ser_mhdr h := be_enc 8 (h_ts h) ++ be_enc 4 (h_id h) ++ [h_flags h; h_ptype h] ++ be_enc 2 (h_plen h).
Definition parse_mhdr (b : list Z) : mhdr :=
  let b1 := skipn 8 b in
  let b2 := skipn 4 b1 in
  {| h_ts := be_dec (firstn 8 b); h_id := be_dec (firstn 4 b1);
     h_flags := nth 0 b2 0; h_ptype := nth 1 b2 0; h_plen := be_dec (firstn 2 (skipn 2 b2)) |}.

(* ---------- payload: a type word and owned bytes ---------- *)
Record payload := { pl_type : Z; pl_data : list Z }.
(* Payload(type, data, size): zero-filled vector, data copied unless the type is invalid (0) *)
Definition mk_payload (ty : Z) (d : list Z) : payload :=
  {| pl_type := ty; pl_data := if ty =? 0 then zeros (zlen d) else d |}.
Definition ty_mt (ty : Z) := (ty / 256) mod 256.
Definition ty_raw (ty : Z) := ty mod 256.
Definition ty_valid (ty : Z) := negb (ty mod 256 =? 0) && negb ((ty / 256) mod 256 =? 0).
Definition mk_type (mt raw : Z) := mt * 256 + raw.

(* ---------- packet ---------- *)
Record packet := { p_pl : option payload; p_ver : Z; p_dev : Z; p_stream : Z; p_seq : Z;
                   p_ts : Z; p_ifid : Z; p_vendor : Z; p_flags : Z; p_seg : Z }.
Definition default_packet : packet :=
  {| p_pl := None; p_ver := 1; p_dev := 0; p_stream := 0; p_seq := 0; p_ts := 0; p_ifid := 0; p_vendor := 0; p_flags := 0; p_seg := 0 |}.
Definition p_len (p : packet) : Z := match p_pl p with Some pl => zlen (pl_data pl) mod 65536 | None => 0 end.
Definition p_mt (p : packet) : Z := match p_pl p with Some pl => ty_mt (pl_type pl) | None => 0 end.
Definition p_raw (p : packet) : Z := match p_pl p with Some pl => ty_raw (pl_type pl) | None => 0 end.
Definition p_valid (p : packet) : bool := match p_pl p with Some pl => ty_valid (pl_type pl) | None => false end.

(* ---------- reads ---------- *)
Definition u8 (l : list Z) (off : Z) : Z := nth (Z.to_nat off) l 0.
Definition u16 (l : list Z) (off : Z) : Z := be_dec (take 2 (drop off l)).
Definition u32 (l : list Z) (off : Z) : Z := be_dec (take 4 (drop off l)).
Definition u64 (l : list Z) (off : Z) : Z := be_dec (take 8 (drop off l)).
(* checked read: None = the read leaves the buffer *)
Definition rdv (l : list Z) (off n : Z) : option Z :=
  if (0 <=? off) && (off + n <=? zlen l) then Some (be_dec (take n (drop off l))) else None.
Definition bit (v i : Z) : Z := if Z.testbit v i then 1 else 0.

Definition obind {A B} (o : option A) (f : A -> option B) : option B := match o with Some a => f a | None => None end.
Notation "'do' x <- o ; k" := (obind o (fun x => k)) (at level 200, x name, o at level 100, k at level 200).

(* ---------- validators (isValidPayload of each class, after the repairs) ---------- *)
Definition valid_can (d : list Z) : bool :=
  let n := zlen d in
  (16 <=? n) && (Z.land (u16 d 0) 1023 =? 0) && (u16 d 12 =? 0) && (u8 d 15 <=? n - 16).
Definition valid_lin (d : list Z) : bool :=
  let n := zlen d in (8 <=? n) && (u8 d 7 <=? n - 8).
Definition valid_analog (d : list Z) : bool :=
  let n := zlen d in (16 <=? n) && (let dt := Z.land (u16 d 0) 3 in (dt =? 0) || (dt =? 1)).
Definition valid_eth (d : list Z) : bool :=
  let n := zlen d in (6 <=? n) && (Z.land (u16 d 0) 59 =? 0) && (u16 d 4 <=? n - 6).
(* k length-prefixed blocks starting at pos; returns the end position *)
Fixpoint walk (k : nat) (d : list Z) (n pos : Z) : option Z :=
  match k with
  | O => Some pos
  | S k' => if n - pos <? 2 then None else
            let len := u16 d pos in
            if n - (pos + 2) <? len then None else walk k' d n (pos + 2 + len)
  end.
Definition is_some {A} (o : option A) : bool := match o with Some _ => true | None => false end.
Definition valid_cm (d : list Z) : bool :=
  let n := zlen d in (26 <=? n) && is_some (walk 5 d n 26).
Definition valid_if (d : list Z) : bool :=
  let n := zlen d in
  (36 <=? n) && (u8 d 29 <=? 2) &&
  (if n - 36 <? 2 then false else
   let cnt := u16 d 36 in let cnt' := cnt + cnt mod 2 in
   if n - 38 <? cnt' then false else
   let pos := 38 + cnt' in
   if n - pos <? 2 then false else
   u16 d pos <=? n - (pos + 2)).

Definition K_CAN := 1. Definition K_CANFD := 2. Definition K_LIN := 3. Definition K_ANALOG := 7.
Definition K_ETH := 8. Definition K_CM := 49. Definition K_IF := 50.
Definition valid_kind (k : Z) (d : list Z) : bool :=
  if k =? 1 then valid_can d else if k =? 2 then valid_can d else if k =? 3 then valid_lin d
  else if k =? 7 then valid_analog d else if k =? 8 then valid_eth d
  else if k =? 49 then valid_cm d else if k =? 50 then valid_if d else false.
Definition kind_of_type (ty : Z) : option Z :=
  if ty =? 257 then Some 1 else if ty =? 258 then Some 2 else if ty =? 259 then Some 3
  else if ty =? 263 then Some 7 else if ty =? 264 then Some 8
  else if ty =? 769 then Some 49 else if ty =? 770 then Some 50 else None.
Definition type_of_kind (k : Z) : Z :=
  if k =? 1 then 257 else if k =? 2 then 258 else if k =? 3 then 259 else if k =? 7 then 263
  else if k =? 8 then 264 else if k =? 49 then 769 else if k =? 50 then 770 else 0.

(* Packet::create *)
Definition create (ty : Z) (d : list Z) : payload :=
  match kind_of_type ty with
  | Some k => if valid_kind k d then mk_payload ty d else mk_payload 0 d
  | None => mk_payload ty d
  end.

(* Packet::isValidPacket on a suffix with `size` bytes left *)
Definition valid_packet (buf : list Z) (size : Z) : bool :=
  (16 <=? size) &&
  (let h := parse_mhdr buf in
   (h_plen h <=? size - 16) && (Z.land (h_flags h) 64 =? 0) && negb (h_ptype h =? 0)).

(* Packet(msgType, header, payload bytes) *)
Definition packet_of_msg (mt : Z) (h : mhdr) (body : list Z) : packet :=
  {| p_pl := Some (create (mk_type mt (h_ptype h)) body);
     p_ver := 1; p_dev := 0; p_stream := 0; p_seq := 0;
     p_ts := h_ts h;
     p_ifid := if mt =? 1 then h_id h else 0;
     p_vendor := if (mt =? 3) || (mt =? 255) then h_id h mod 65536 else 0;
     p_flags := h_flags h; p_seg := 0 |}.

(* Packet::getRawMessageHeader *)
Definition raw_mhdr (p : packet) : mhdr :=
  let mt := p_mt p in
  {| h_ts := p_ts p;
     h_id := if mt =? 1 then p_ifid p else if (mt =? 3) || (mt =? 255) then p_vendor p else 0;
     h_flags := p_flags p; h_ptype := p_raw p; h_plen := p_len p |}.

(* ---------- typed views: every const accessor; variable-length views as (offset, length), -1 = null ---------- *)
Fixpoint bits_from (v : Z) (i : Z) (k : nat) : list Z :=
  match k with O => [] | S k' => bit v i :: bits_from v (i + 1) k' end.

Definition view_can (fd : bool) (d : list Z) : option (list Z) :=
  do fl <- rdv d 0 2; do idw <- rdv d 4 4; do crcw <- rdv d 8 4; do ep <- rdv d 12 2;
  do dlc <- rdv d 14 1; do dl <- rdv d 15 1;
  let common1 := [fl; Z.land idw 536870911; bit idw 29; bit idw 31; bit idw 30] in
  let crcpart := if fd then [Z.land crcw 2097151; bit crcw 31; Z.land (Z.shiftr crcw 21) 7; bit crcw 24; bit crcw 30]
                 else [Z.land crcw 32767; bit crcw 31] in
  Some (common1 ++ crcpart ++ [ep; dlc; dl; (if dl =? 0 then -1 else 16); dl] ++ bits_from fl 0 14).

Definition view_lin (d : list Z) : option (list Z) :=
  do fl <- rdv d 0 2; do pid <- rdv d 4 1; do cs <- rdv d 6 1; do dl <- rdv d 7 1;
  Some ([fl; Z.land pid 63; Z.shiftr pid 6; cs; dl; (if dl =? 0 then -1 else 8); dl] ++ bits_from fl 0 9).

Definition view_eth (d : list Z) : option (list Z) :=
  do fl <- rdv d 0 2; do dl <- rdv d 4 2;
  Some ([fl; dl; (if dl =? 0 then -1 else 6); dl] ++ bits_from fl 0 8).

Definition view_analog (d : list Z) : option (list Z) :=
  do fl <- rdv d 0 2; do un <- rdv d 3 1; do si <- rdv d 4 4; do so <- rdv d 8 4; do ss <- rdv d 12 4;
  let dt := Z.land fl 3 in
  let ssz := if dt =? 0 then 2 else 4 in
  let cnt := (zlen d - 16) / ssz in
  Some [fl; dt * 256; un; si; so; ss; cnt; (if cnt =? 0 then -1 else 16); cnt * ssz].

(* index of the first NUL among the first len bytes of l, or len *)
Fixpoint first_nul (l : list Z) (len : nat) : Z :=
  match len, l with
  | S k, b :: t => if b =? 0 then 0 else 1 + first_nul t k
  | _, _ => 0
  end.

(* one length-prefixed block at pos: (data offset, raw length, next position) *)
Definition block (d : list Z) (pos : Z) : option (Z * Z * Z) :=
  do len <- rdv d pos 2;
  if pos + 2 + len <=? zlen d then Some (pos + 2, len, pos + 2 + len) else None.

Definition view_cm (d : list Z) : option (list Z) :=
  do up <- rdv d 0 8; do gm <- rdv d 8 8; do q <- rdv d 16 4; do utc <- rdv d 20 2;
  do tsrc <- rdv d 22 1; do dom <- rdv d 23 1; do gf <- rdv d 25 1;
  do b1 <- block d 26; let '(o1, l1, n1) := b1 in
  do b2 <- block d n1; let '(o2, l2, n2) := b2 in
  do b3 <- block d n2; let '(o3, l3, n3) := b3 in
  do b4 <- block d n3; let '(o4, l4, n4) := b4 in
  do b5 <- block d n4; let '(o5, l5, n5) := b5 in
  let tr o l := first_nul (drop o d) (Z.to_nat l) in
  Some [up; gm; q; utc; tsrc; dom; gf; o1; tr o1 l1; o2; tr o2 l2; o3; tr o3 l3; o4; tr o4 l4; l5; o5; o5; l5].

Definition view_if (d : list Z) : option (list Z) :=
  do id <- rdv d 0 4; do a <- rdv d 4 4; do b <- rdv d 8 4; do c <- rdv d 12 4; do e <- rdv d 16 4;
  do f <- rdv d 20 4; do g <- rdv d 24 4; do ty <- rdv d 28 1; do st <- rdv d 29 1; do fs <- rdv d 32 4;
  do cnt <- rdv d 36 2;
  (* the accessor pads the count in uint16_t arithmetic (65535 wraps to 0) *)
  let cntv := (cnt + cnt mod 2) mod 65536 in
  if 38 + cnt <=? zlen d then
    do vl <- rdv d (38 + cntv) 2;
    if 38 + cntv + 2 + vl <=? zlen d then
      Some [id; a; b; c; e; f; g; ty; st; fs; cnt; (if cnt =? 0 then -1 else 38); vl; (if vl =? 0 then -1 else 38 + cntv + 2)]
    else None
  else None.

Definition view_kind (k : Z) (d : list Z) : option (list Z) :=
  if k =? 1 then view_can false d else if k =? 2 then view_can true d else if k =? 3 then view_lin d
  else if k =? 7 then view_analog d else if k =? 8 then view_eth d
  else if k =? 49 then view_cm d else if k =? 50 then view_if d else Some [].

(* observation record of a packet: numbers then payload bytes (harness line "K ...") *)
Definition obs_packet (p : packet) : list Z * list Z :=
  ([p_ver p; p_dev p; p_stream p; p_seq p; p_mt p; p_raw p; p_ts p; p_ifid p; p_vendor p; p_flags p; p_seg p;
    (if p_valid p then 1 else 0); (match p_pl p with Some pl => pl_type pl | None => 0 end); p_len p],
   match p_pl p with Some pl => pl_data pl | None => [] end).

(* ---------- value semantics (packet.cpp, payload.cpp after the repairs) ---------- *)
Fixpoint list_eqb (a b : list Z) : bool :=
  match a, b with [], [] => true | x :: a', y :: b' => (x =? y) && list_eqb a' b' | _, _ => false end.
Definition payload_eqb (a b : payload) : bool := (pl_type a =? pl_type b) && list_eqb (pl_data a) (pl_data b).
Definition packet_eqb (a b : packet) : bool :=
  (p_ver a =? p_ver b) && (p_dev a =? p_dev b) && (p_stream a =? p_stream b) && (p_seq a =? p_seq b) &&
  (p_ts a =? p_ts b) && (p_ifid a =? p_ifid b) && (p_vendor a =? p_vendor b) && (p_flags a =? p_flags b) &&
  (p_seg a =? p_seg b) &&
  (if (p_len a =? p_len b) && (0 <? p_len a)
   then match p_pl a, p_pl b with Some x, Some y => payload_eqb x y | _, _ => false end
   else p_len a =? p_len b).
