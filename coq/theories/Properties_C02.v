(* C02 — decoding arbitrary bytes is memory-safe and terminates (model level; DESIGN.md section 4 / 6: partial).
   Every read of the decoder model (CMP path, Packet ctor, TECMP header, dispatch, converters) goes through an explicit
   extent check that yields Oob; the loops run on fuel that yields Fuel. The theorem says neither can happen, for every
   byte string and every decoder state (hence after any history), and bounds the number of returned packets.
   Not expressible in the model, exercised by the harness only: lifetime/ownership of the returned packets, const-ness of
   the input, wall-clock promptness. *)
Require Import CMP.Bytes CMP.Packet CMP.Tecmp CMP.Decoder CMP.DecoderProofs CMP.TecmpProofs CMP.Cir CMP.CodeBridge CMP.CodeValidators CMP.CodeSegPred CMPGen.GenCode.
Local Open Scope Z_scope.

Theorem C02_decode_total_in_bounds : forall (st : dstate) (buf : list Z),
  bytes_ok buf ->
  exists st' out, decode st buf = Ok (st', out) /\ 12 * zlen out <= zlen buf.
Proof. exact decode_total. Qed.
Print Assumptions C02_decode_total_in_bounds.

(* the TECMP branch separately: every read of the converter stays inside the buffer *)
Theorem C02_tecmp_total_in_bounds : forall buf, bytes_ok buf ->
  exists ps, tecmp_decode buf = Ok ps /\ 12 * zlen ps <= zlen buf.
Proof. exact tecmp_total. Qed.
Print Assumptions C02_tecmp_total_in_bounds.

(* every returned packet carries a payload object *)
Theorem C02_has_payload : forall fh mt ver h pay, p_pl (mkp fh mt ver h pay) <> None.
Proof. intros. discriminate. Qed.
Print Assumptions C02_has_payload.

(* Tie T2: the size guards themselves, as they stand in /repo on this run. The bodies of Packet::isValidPacket, of the seven payload
   validators and of the two segment predicates, re-translated into the IR of Cir.v, evaluate without any read outside the buffer
   (result Ok, never Oob) for EVERY buffer - the guard in front of each header read is the one that makes it safe. *)
Theorem C02_translated_guards_read_in_bounds : forall d, bytes_ok d -> zlen d < 2 ^ 64 ->
  (forall c, code_Packet_isValidPacket = Some c -> exists v, ceval gen_reads d (penv d) c = Ok v) /\
  (forall k c, code_of_kind k = Some c -> exists v, ceval gen_reads d (penv d) c = Ok v) /\
  (16 <= zlen d -> (forall c, code_Decoder_isSegmentedPacket = Some c -> exists v, ceval gen_reads d (penv d) c = Ok v) /\
                   (forall c, code_Decoder_isFirstSegment = Some c -> exists v, ceval gen_reads d (penv d) c = Ok v)).
Proof.
  intros d Hd Hn. split; [intros c Hc; eexists; apply code_valid_packet; assumption|]. split.
  - intros k c Hc. eexists. apply (code_validator_refines d k c); assumption.
  - intros L. split; intros c Hc; eexists; [apply code_is_segmented|apply code_is_first]; assumption.
Qed.
Print Assumptions C02_translated_guards_read_in_bounds.

(* non-vacuity: a TECMP CAN frame whose dlc byte (64) exceeds the 6 payload bytes present decodes to no packet, in bounds *)
Example C02_example :
  decode [] ([0;9;0;1;3;3;0;2;0;0;0;0;0;0;0;5;0;0;0;0;0;0;0;77;0;6;0;0] ++ [0;0;0;1;64;7]) = Ok ([], []).
Proof. vm_compute. reflexivity. Qed.
