(* C06: frames of one encoder stream that are dropped, duplicated, reordered, or whose version / message-type byte is changed,
   never make the decoder deliver anything but a sent message.
   Part A: one segment frame from any decoder state.  Part B: the structure of an encoder stream (whole-message frames and
   chains).  Part C: the invariant over arbitrary fault histories. *)
Require Import CMP.Bytes CMP.Packet CMP.Tecmp CMP.Decoder CMP.Encoder CMP.DecoderProofs CMP.EncoderProofs CMP.RoundTrip.
Local Open Scope Z_scope.
Local Open Scope bool_scope.

(* ---------- Part A: the decoder on one well-formed segment frame, any state, any header values ---------- *)
Definition seg_step (fh : fhdr) (h : mhdr) (chunk : list Z) (st : dstate) : dstate * list packet :=
  let e := (f_dev fh, f_stream fh) in
  let t := Z.land (h_flags h) 12 in
  if t =? 4 then
    (insert e {| sg_hdr := h; sg_pay := chunk; sg_type := 4; sg_ver := f_ver fh; sg_mt := f_mt fh; sg_cur := f_seq fh |} st, [])
  else match lookup e st with
       | None => (st, [])
       | Some sg =>
         match add_segment sg h chunk fh with
         | None => (erase e st, [])
         | Some sg' => if sg_type sg' =? 12 then (erase e st, [mkp_seg fh sg']) else (insert e sg' st, [])
         end
       end.

Lemma decode_seg_any fh h t chunk trail st :
  fhdr_ok fh -> (t = 4 \/ t = 8 \/ t = 12) -> seg_hdr_ok h t chunk ->
  decode st (ser_fhdr fh ++ seg_msg h chunk trail) = Ok (seg_step fh h chunk st).
Proof.
  intros Hf Ht H. destruct (parse_seg_msg h t chunk trail H) as (P & V & B).
  assert (Hz : zlen (seg_msg h chunk trail) = msg_size chunk trail)
    by (unfold seg_msg, msg_size; rewrite !zlen_app, ser_mhdr_zlen; lia).
  pose proof (zlen_nonneg chunk) as Hc. pose proof (zlen_nonneg trail) as Htr.
  rewrite decode_frame; [|exact Hf|rewrite Hz; unfold msg_size; lia].
  rewrite Hz. unfold fuel_of. destruct H as (Hok & Hfl & _).
  cbn [dloop].
  destruct (Z.leb_spec (msg_size chunk trail) 0) as [Hle|_]; [unfold msg_size in Hle; lia|].
  rewrite V. cbn [negb]. rewrite (valid_packet_extent _ _ V). rewrite P, Hfl, B.
  unfold seg_step. rewrite Hfl.
  assert (t =? 0 = false) as -> by (apply Z.eqb_neq; lia).
  destruct (t =? 4); [reflexivity|].
  destruct (lookup (f_dev fh, f_stream fh) st) as [sg|]; [|reflexivity].
  destruct (add_segment sg h chunk fh) as [sg'|]; [|reflexivity].
  destruct (sg_type sg' =? 12); reflexivity.
Qed.

(* ---------- corrupting the version / message-type byte of a frame ---------- *)
Definition retag (ver' mt' : Z) (f : frame) : frame := {| fr_type := mt'; fr_ver := ver'; fr_items := fr_items f |}.
Definition corrupt_bytes (ver' mt' : Z) (l : list Z) : list Z :=
  match l with a0 :: a1 :: a2 :: a3 :: a4 :: t => ver' :: a1 :: a2 :: a3 :: mt' :: t | _ => l end.
Lemma corrupt_ser_frame ver' mt' minb dev stream c f :
  corrupt_bytes ver' mt' (ser_frame minb dev stream c f) = ser_frame minb dev stream c (retag ver' mt' f).
Proof.
  unfold ser_frame, pad_to, ser_fhdr, retag. cbn [f_ver f_dev f_mt f_stream f_seq fr_ver fr_type fr_items].
  destruct (be_enc2 dev) as (a & b & ->). destruct (be_enc2 c) as (a' & b' & ->).
  cbn [app corrupt_bytes]. unfold zlen. cbn [length]. reflexivity.
Qed.
Lemma retag_id f : retag (fr_ver f) (fr_type f) f = f.
Proof. destruct f; reflexivity. Qed.

Section Faults.
  Variables (cap v minb dev stream : Z).
  Hypothesis cap_ok : 17 <= cap.
  Hypothesis v_ok : 1 <= v < 256.
  Hypothesis dev_ok : 0 <= dev < 65536.
  Hypothesis stream_ok : 0 <= stream < 256.
  Notation e := (dev, stream).
  Notation pkt_wf := (pkt_wf v).

  (* what the decoder returns for message p when the frames that carried it announced version ver' and message type mt' *)
  Definition hdr_of (sb : Z) (p : packet) : mhdr := item_hdr {| it_pkt := p; it_pos := 0; it_len := p_len p; it_flag := sb |}.
  Definition retyped (ver' mt' sb : Z) (p : packet) : packet :=
    mkp {| f_ver := ver'; f_dev := dev; f_mt := mt'; f_stream := stream; f_seq := 0 |} mt' ver' (hdr_of sb p) (pdata p).

  Lemma retyped_same sb p : pkt_wf p -> retyped v (p_mt p) sb p = expected v dev stream sb p.
  Proof.
    intros Hw. destruct Hw as (_ & Hl & _ & _ & _ & Hvn & _).
    unfold retyped, hdr_of, mkp, stamp, packet_of_msg, item_hdr, raw_mhdr, expected.
    cbn [fst snd h_ts h_id h_flags h_ptype h_plen f_ver f_dev f_mt f_stream it_pkt it_flag it_len
         p_pl p_ver p_dev p_stream p_seq p_ts p_ifid p_vendor p_flags p_seg].
    f_equal.
    - destruct (p_mt p =? 1); reflexivity.
    - destruct (p_mt p =? 1) eqn:E1.
      + apply Z.eqb_eq in E1. rewrite E1. reflexivity.
      + destruct ((p_mt p =? 3) || (p_mt p =? 255)); [apply Z.mod_small; lia|reflexivity].
  Qed.

  (* a frame of whole messages, with any announced version / type, from any state *)
  Lemma decode_whole_retag f ver' mt' c st :
    frame_ok cap v f -> head_whole v f -> 1 <= ver' < 256 -> 0 <= mt' < 256 -> 0 <= c < 65536 ->
    exists st', decode st (ser_frame minb dev stream c (retag ver' mt' f)) =
                  Ok (st', map (fun i => retyped ver' mt' 0 (it_pkt i)) (fr_items f)) /\ lookup e st' = None.
  Proof.
    intros Hf [Hu Hw] Hv' Hm' Hc. destruct Hf as (Hv & Hne & Hit & _).
    rewrite ser_frame_split. cbn [retag fr_items].
    set (fh := fh_of dev stream (retag ver' mt' f) c).
    set (pad := zeros _).
    assert (Hfh : fhdr_ok fh) by (unfold fhdr_ok, fh, fh_of, retag; cbn [f_ver f_dev f_mt f_stream f_seq fr_ver fr_type]; lia).
    destruct (decode_unsegmented_frame fh (map umsg_of (fr_items f)) pad st Hfh) as (st' & E & L).
    - rewrite Forall_forall in *. intros m Hm. apply in_map_iff in Hm. destruct Hm as (i & <- & Hi).
      unfold umsg_ok, umsg_of. cbn [fst snd]. destruct (Hu i Hi) as (Hfl & _).
      pose proof (item_hdr_ok v dev stream v_ok dev_ok stream_ok i (fr_type f) (Hw i Hi) (Hit i Hi) (or_introl Hfl)) as HH.
      rewrite Hfl in HH. exact HH.
    - apply zeros_stop.
    - left. destruct (fr_items f); [congruence|discriminate].
    - exists st'. split; [|exact L]. rewrite E. f_equal. f_equal. rewrite map_map.
      apply map_ext_in. intros i Hi. rewrite Forall_forall in *. destruct (Hu i Hi) as (H1 & H2 & H3).
      pose proof (p_len_wf v _ (Hw i Hi)) as HL.
      unfold spec_packet, umsg_of, retyped, hdr_of. cbn [fst snd].
      assert (item_bytes i = pdata (it_pkt i)) as ->.
      { unfold item_bytes. fold (pdata (it_pkt i)). rewrite H2, H3, HL. unfold drop. cbn [Z.to_nat skipn]. apply take_all. }
      assert (Ei : i = {| it_pkt := it_pkt i; it_pos := 0; it_len := p_len (it_pkt i); it_flag := 0 |})
        by (destruct i; cbn in *; subst; reflexivity).
      rewrite <- Ei. reflexivity.
  Qed.

  (* ---------- Part B: the structure of an encoder stream ---------- *)
  Variable sent : list packet.

  Definition chain (p : packet) : list frame := seg_frames cap v (S (Z.to_nat (p_len p))) p (p_len p) 0 true.
  Definition mkf (p : packet) (i : item) : frame := {| fr_type := p_mt p; fr_ver := v; fr_items := [i] |}.

  Definition whole_ok (f : frame) : Prop :=
    frame_ok cap v f /\ head_whole v f /\ Forall (fun i => In (it_pkt i) sent) (fr_items f).

  Inductive blocks : list frame -> Prop :=
  | Bnil : blocks []
  | Bwhole f fs : whole_ok f -> blocks fs -> blocks (f :: fs)
  | Bchain p fs : pkt_wf p -> In p sent -> cap < 16 + p_len p -> blocks fs -> blocks (chain p ++ fs).

  Lemma blocks_app a c : blocks a -> blocks c -> blocks (a ++ c).
  Proof.
    intros Ha Hc. induction Ha as [|f fs Hf _ IH|p fs Hp Hi Hb _ IH]; cbn [app]; [exact Hc|constructor; assumption|].
    rewrite <- app_assoc. constructor; assumption.
  Qed.

  Lemma chain_unfold p : 1 <= p_len p -> cap < 16 + p_len p ->
    chain p = mkf p (seg_item cap p 0 4) :: seg_frames cap v (Z.to_nat (p_len p)) p (p_len p) (cap - 16) false.
  Proof.
    intros HL Hbig. unfold chain. cbn [seg_frames]. destruct (Z.ltb_spec 0 (p_len p)); [|lia].
    assert (Hn : Z.min (cap - 16) (p_len p - 0) = cap - 16) by lia. rewrite Hn.
    unfold mkf, seg_item. rewrite Hn. reflexivity.
  Qed.

  Lemma seg_unfold fuel p pos : pos < p_len p ->
    seg_frames cap v (S fuel) p (p_len p) pos false =
    mkf p (seg_item cap p pos (if pos + Z.min (cap - 16) (p_len p - pos) =? p_len p then 12 else 8))
      :: seg_frames cap v fuel p (p_len p) (pos + Z.min (cap - 16) (p_len p - pos)) false.
  Proof. intros H. cbn [seg_frames]. destruct (Z.ltb_spec pos (p_len p)); [reflexivity|lia]. Qed.

  Lemma seg_end fuel p pos : p_len p <= pos -> seg_frames cap v fuel p (p_len p) pos false = [].
  Proof. intros H. destruct fuel; [reflexivity|]. cbn [seg_frames]. destruct (Z.ltb_spec pos (p_len p)); [lia|reflexivity]. Qed.

  (* the state of the greedy packing is a sequence of blocks, the newest frame possibly still open *)
  Inductive bl_inv (q : pst) : Prop :=
  | BI_nil : fst q = [] -> bl_inv q
  | BI_whole f fs' : fst q = f :: fs' -> whole_ok f -> blocks (rev fs') -> bl_inv q
  | BI_closed : fst q <> [] -> snd q = 0 -> blocks (rev (fst q)) -> bl_inv q.

  Lemma bl_all q : bl_inv q -> blocks (rev (fst q)).
  Proof.
    intros [Hn | f fs' Hq Hf Hb | _ _ Hb]; [rewrite Hn; constructor | | exact Hb].
    rewrite Hq. cbn [rev]. apply blocks_app; [exact Hb|]. constructor; [exact Hf|constructor].
  Qed.

  Lemma pput_bl q done p : pst_ok cap v q done -> bl_inv q -> pkt_wf p -> In p sent -> bl_inv (pput cap v q p).
  Proof.
    intros Hok Hinv Hw Hin.
    assert (HL1 : 1 <= p_len p) by (rewrite (p_len_wf v p Hw); destruct Hw as (_ & Hl & _); lia).
    pose proof (pput_ok cap v cap_ok q done p Hok HL1) as (HF' & _ & _).
    pose proof Hok as (HF & _ & HH).
    pose proof (bl_all q Hinv) as Hall.
    destruct q as [fs left]. cbn [fst snd] in *.
    unfold pput in *. cbn [fst snd] in *. set (L := p_len p) in *.
    set (it := {| it_pkt := p; it_pos := 0; it_len := L; it_flag := 0 |}) in *.
    destruct (Z.leb_spec (16 + L) cap) as [Hfit|Hbig].
    - assert (NEW : Forall (frame_ok cap v) (fst (padd it ({| fr_type := p_mt p; fr_ver := v; fr_items := [] |} :: fs, cap) (cap - 16 - L))) ->
                    bl_inv (padd it ({| fr_type := p_mt p; fr_ver := v; fr_items := [] |} :: fs, cap) (cap - 16 - L))).
      { unfold padd. cbn [fst snd fr_type fr_ver fr_items app]. intros HFn.
        eapply (BI_whole _ _ fs); [reflexivity| |exact Hall].
        inversion HFn as [|? ? Hfo _]; subst. split; [exact Hfo|]. cbn [fr_items].
        split; [split|]; (apply Forall_cons; [|apply Forall_nil]); cbn [it_flag it_pos it_len it_pkt it]; auto. }
      destruct fs as [|f fs']; [apply NEW; exact HF'|].
      destruct ((fr_type f =? p_mt p) && (16 + L <=? left)) eqn:EJ; [|apply NEW; exact HF'].
      apply andb_true_iff in EJ as [_ EL]. apply Z.leb_le in EL.
      unfold padd in *. cbn [fst snd] in *.
      destruct Hinv as [Hn | f0 fs0 Hq (Hfo & [Hu Hwf] & Hs) Hb | _ Hz _]; cbn [fst snd] in *; [discriminate| |lia].
      inversion Hq; subst f0 fs0.
      eapply (BI_whole _ _ fs'); [reflexivity| |exact Hb].
      inversion HF' as [|? ? Hfn _]; subst. split; [exact Hfn|]. cbn [fr_items].
      split; [split|]; apply Forall_app; (split; [assumption|]); (apply Forall_cons; [|apply Forall_nil]); cbn [it_flag it_pos it_len it_pkt it]; auto.
    - apply BI_closed; cbn [fst snd]; [|reflexivity|].
      + cbn [seg_frames]. destruct (Z.ltb_spec 0 L); [|lia]. cbn [rev].
        destruct (rev (seg_frames cap v (Z.to_nat L) p L (0 + Z.min (cap - 16) (L - 0)) false)); cbn; discriminate.
      + rewrite rev_app_distr, rev_involutive. apply blocks_app; [exact Hall|].
        pose proof (Bchain p [] Hw Hin Hbig Bnil) as Hc. rewrite app_nil_r in Hc. exact Hc.
  Qed.

  Lemma pack_blocks b : Forall pkt_wf b -> incl b sent -> blocks (pack cap v b).
  Proof.
    intros Hb Hs.
    assert (G : forall b q done, pst_ok cap v q done -> bl_inv q -> Forall pkt_wf b -> incl b sent ->
                bl_inv (fold_left (pput cap v) b q)).
    { induction b0 as [|p b0 IH]; intros q done Hok Hinv Hb0 Hs0; [exact Hinv|].
      inversion Hb0 as [|? ? Hp Hb']; subst. cbn [fold_left].
      assert (HL1 : 1 <= p_len p) by (rewrite (p_len_wf v p Hp); destruct Hp as (_ & Hl & _); lia).
      apply (IH _ (done ++ [p])); [apply pput_ok; assumption | eapply pput_bl; eauto; apply Hs0; left; reflexivity | assumption |].
      intros x Hx. apply Hs0. right. exact Hx. }
    unfold pack. apply bl_all. apply (G b ([], 0) []); [unfold pst_ok; cbn; auto | apply BI_nil; reflexivity | assumption | assumption].
  Qed.

  (* ---------- what the frame at index k of a stream is ---------- *)
  Definition seg_frame_of (p : packet) (f : frame) (i : item) : Prop :=
    f = mkf p i /\ it_pkt i = p /\ 0 <= it_pos i /\ 1 <= it_len i /\ it_pos i + it_len i <= p_len p.

  Inductive cls (fs : list frame) (k : nat) (f : frame) : Prop :=
  | C_whole : whole_ok f -> cls fs k f
  | C_first pre p post : fs = pre ++ chain p ++ post -> k = length pre -> pkt_wf p -> In p sent -> cap < 16 + p_len p -> cls fs k f
  | C_cont p i : pkt_wf p -> seg_frame_of p f i -> (it_flag i = 8 \/ it_flag i = 12) -> cls fs k f.

  Lemma cls_shift g fs k f : cls fs k f -> cls (g ++ fs) (length g + k) f.
  Proof.
    intros [H | pre p post Hfs Hk Hp Hi Hb | p i Hp Hs Hfl].
    - apply C_whole. exact H.
    - apply (C_first _ _ _ (g ++ pre) p post); [rewrite Hfs, app_assoc; reflexivity | rewrite app_length, Hk; reflexivity | assumption..].
    - apply (C_cont _ _ _ p i); assumption.
  Qed.

  Lemma in_seg_cont fuel p pos f : 0 <= pos -> In f (seg_frames cap v fuel p (p_len p) pos false) ->
    exists i, seg_frame_of p f i /\ (it_flag i = 8 \/ it_flag i = 12).
  Proof.
    intros Hpos Hin. destruct (seg_frames_shape cap v cap_ok _ _ _ _ _ _ Hin) as (Ht & Hv & i & Hi & Hp & H1 & H2 & H3 & _ & Hfl & _ & H4).
    exists i. split.
    - unfold seg_frame_of, mkf. split; [destruct f; cbn in *; subst; reflexivity|]. repeat split; try assumption; lia.
    - destruct Hfl as [F|[F|F]]; [|auto|auto]. apply H4 in F. destruct F as [_ F]. discriminate.
  Qed.

  Lemma blocks_nth fs : blocks fs -> forall k f, nth_error fs k = Some f -> cls fs k f.
  Proof.
    induction 1 as [|f0 fs0 Hf0 _ IH|p fs0 Hp Hi Hb _ IH]; intros k f Hn.
    - destruct k; discriminate.
    - destruct k as [|k]; cbn [nth_error] in Hn.
      + inversion Hn; subst. apply C_whole. exact Hf0.
      + apply (cls_shift [f0] fs0 k f). apply IH. exact Hn.
    - assert (HL1 : 1 <= p_len p) by (rewrite (p_len_wf v p Hp); destruct Hp as (_ & Hl & _); lia).
      destruct (Nat.ltb_spec k (length (chain p))) as [Hlt|Hge].
      + rewrite nth_error_app1 in Hn by exact Hlt.
        destruct k as [|k].
        * apply (C_first _ _ _ [] p fs0); auto.
        * rewrite (chain_unfold p HL1 Hb) in Hn. cbn [nth_error] in Hn. apply nth_error_In in Hn.
          assert (Hc0 : 0 <= cap - 16) by lia.
          destruct (in_seg_cont _ p _ f Hc0 Hn) as (i & Hs & Hfl). apply (C_cont _ _ _ p i); assumption.
      + rewrite nth_error_app2 in Hn by exact Hge.
        replace k with (length (chain p) + (k - length (chain p)))%nat by lia. apply cls_shift. apply IH. exact Hn.
  Qed.

  (* ---------- Part C: any fault history over one stream ---------- *)
  Variable fs : list frame.     (* the frames of the stream, in sending order *)
  Variable c0 : Z.              (* the encoder's counter before the stream: frame k carries (c0 + 1 + k) mod 2^16 *)
  Hypothesis fs_blocks : blocks fs.
  Hypothesis fs_short : Z.of_nat (length fs) < 65536.

  (* one fed frame: index into the stream, announced version, announced message type (the original ones = no corruption) *)
  Definition fedx := (nat * Z * Z)%type.
  Definition ctr (k : nat) : Z := (c0 + 1 + Z.of_nat k) mod 65536.
  Definition fhx (ver' mt' c : Z) : fhdr := {| f_ver := ver'; f_dev := dev; f_mt := mt'; f_stream := stream; f_seq := c |}.
  Definition fbytes (x : fedx) : list Z :=
    let '(k, ver', mt') := x in
    match nth_error fs k with Some f => ser_frame minb dev stream (ctr k) (retag ver' mt' f) | None => [] end.
  Definition fed_ok (x : fedx) : Prop :=
    let '(k, ver', mt') := x in (k < length fs)%nat /\ 1 <= ver' < 256 /\ 0 <= mt' < 256.

  (* a delivered packet is good when it is a sent message, re-typed by the version / type that ALL the frames carrying it announced *)
  Inductive good (fed : list fedx) (q : packet) : Prop :=
  | G_whole k f i ver' mt' : nth_error fs k = Some f -> whole_ok f -> In i (fr_items f) -> 16 + p_len (it_pkt i) <= cap ->
      In (k, ver', mt') fed -> q = retyped ver' mt' 0 (it_pkt i) -> good fed q
  | G_chain pre p post ver' mt' : fs = pre ++ chain p ++ post -> pkt_wf p -> In p sent -> cap < 16 + p_len p ->
      (forall j, (j < length (chain p))%nat -> In ((length pre + j)%nat, ver', mt') fed) ->
      q = retyped ver' mt' 4 p -> good fed q.

  Lemma good_mono fed fed' q : incl fed fed' -> good fed q -> good fed' q.
  Proof.
    intros Hi [k f i ver' mt' H1 H2 H3 H4 H5 H6 | pre p post ver' mt' H1 H2 H3 H4 H5 H6].
    - eapply G_whole; eauto.
    - eapply G_chain; eauto.
  Qed.

  (* the pending reassembly of the endpoint: the first segments of ONE sent message, all announced with the same version / type,
     and the counter of the last one *)
  Definition H0 (p : packet) : mhdr := item_hdr (seg_item cap p 0 4).
  Inductive pend (done : list fedx) (sg : seg) : Prop :=
  | Pend pre A fuel pos post p :
      fs = pre ++ A ++ seg_frames cap v fuel p (p_len p) pos false ++ post ->
      A ++ seg_frames cap v fuel p (p_len p) pos false = chain p ->
      pkt_wf p -> In p sent -> cap < 16 + p_len p ->
      0 < pos < p_len p -> p_len p - pos <= Z.of_nat fuel ->
      (forall j, (j < length A)%nat -> In ((length pre + j)%nat, sg_ver sg, sg_mt sg) done) ->
      sg_hdr sg = H0 p -> sg_pay sg = take pos (pdata p) -> (sg_type sg = 4 \/ sg_type sg = 8) ->
      sg_cur sg = (c0 + Z.of_nat (length pre + length A)) mod 65536 -> pend done sg.
  Definition inv (done : list fedx) (st : dstate) : Prop :=
    match lookup e st with None => True | Some sg => pend done sg end.

  Lemma pend_mono done done' sg : incl done done' -> pend done sg -> pend done' sg.
  Proof. intros Hi [pre A fuel pos post p H1 H2 H3 H4 H5 H6 H7 H8 H9 H10 H11 H12]. eapply Pend; eauto. Qed.

  Lemma ctr_range k : 0 <= ctr k < 65536.
  Proof. unfold ctr. apply Z.mod_pos_bound. lia. Qed.

  (* a (possibly re-tagged) segment frame, from any state *)
  Lemma decode_seg_retag p i ver' mt' c st :
    pkt_wf p -> it_pkt i = p -> 0 <= it_pos i -> 1 <= it_len i -> it_pos i + it_len i <= p_len p ->
    (it_flag i = 4 \/ it_flag i = 8 \/ it_flag i = 12) ->
    1 <= ver' < 256 -> 0 <= mt' < 256 -> 0 <= c < 65536 ->
    decode st (ser_frame minb dev stream c (retag ver' mt' (mkf p i))) = Ok (seg_step (fhx ver' mt' c) (item_hdr i) (item_bytes i) st) /\
    Z.land (h_flags (item_hdr i)) 12 = it_flag i.
  Proof.
    intros Hp Hi H1 H2 H3 Hfl Hv' Hm' Hc.
    assert (Hok : seg_hdr_ok (item_hdr i) (it_flag i) (item_bytes i)).
    { apply (item_hdr_ok v dev stream v_ok dev_ok stream_ok i (p_mt p)); [rewrite Hi; exact Hp | | tauto].
      unfold item_ok. rewrite Hi. repeat split; try reflexivity; lia. }
    split; [|destruct Hok as (_ & H & _); exact H].
    unfold ser_frame, pad_to, retag, mkf. cbn [fr_ver fr_type fr_items map concat]. rewrite app_nil_r, ser_item_eq.
    rewrite <- !app_assoc. fold (fhx ver' mt' c).
    change (ser_mhdr (item_hdr i) ++ item_bytes i ++ ?t) with (seg_msg (item_hdr i) (item_bytes i) t).
    apply (decode_seg_any _ _ (it_flag i)); [unfold fhdr_ok, fhx; cbn; lia | exact Hfl | exact Hok].
  Qed.

  Lemma frame_used_in f i : Forall (fun j => 0 <= it_len j) (fr_items f) -> In i (fr_items f) -> 24 + it_len i <= frame_used f.
  Proof.
    unfold frame_used. induction (fr_items f) as [|x t IH]; intros HF Hin; [contradiction|].
    inversion HF as [|? ? Hx Ht]; subst. cbn [fold_right].
    assert (0 <= fold_right (fun i a => 16 + it_len i + a) 0 t).
    { clear -Ht. induction t as [|y t IH]; cbn [fold_right]; [lia|]. inversion Ht as [|? ? Hy Ht']; subst. specialize (IH Ht'). lia. }
    destruct Hin as [->|Hin]; [lia|]. specialize (IH Ht Hin). lia.
  Qed.

  Lemma nth_error_mid {A} (a b r : list A) g : nth_error (a ++ b ++ g :: r) (length a + length b) = Some g.
  Proof.
    rewrite nth_error_app2 by lia. replace (length a + length b - length a)%nat with (length b) by lia.
    rewrite nth_error_app2 by lia. rewrite Nat.sub_diag. reflexivity.
  Qed.

  Lemma mkp_seg_retyped p ver' mt' c ty cur : pkt_wf p ->
    mkp_seg (fhx ver' mt' c) {| sg_hdr := H0 p; sg_pay := pdata p; sg_type := ty; sg_ver := ver'; sg_mt := mt'; sg_cur := cur |}
    = retyped ver' mt' 4 p.
  Proof.
    intros Hw. pose proof (p_len_wf v p Hw) as HL. destruct Hw as (_ & Hl & _).
    unfold mkp_seg, set_plen, retyped, hdr_of, H0, item_hdr, seg_item, mkp, stamp.
    cbn [sg_hdr sg_pay sg_ver sg_mt h_ts h_id h_flags h_ptype h_plen it_pkt it_flag it_len f_dev f_stream fhx].
    rewrite (Z.mod_small (zlen (pdata p))) by lia. rewrite take_all, HL. reflexivity.
  Qed.

  Lemma fault_step done x st : inv done st -> fed_ok x ->
    exists st1 o1, decode st (fbytes x) = Ok (st1, o1) /\ inv (done ++ [x]) st1 /\ Forall (good (done ++ [x])) o1.
  Proof.
    intros Hinv Hx. destruct x as [[k ver'] mt']. destruct Hx as (Hk & Hv' & Hm').
    destruct (nth_error fs k) as [f|] eqn:E; [|apply nth_error_None in E; lia].
    unfold fbytes. rewrite E. pose proof (ctr_range k) as Hc.
    assert (Hinc : incl done (done ++ [(k, ver', mt')])) by (intros y Hy; apply in_or_app; left; exact Hy).
    assert (Hlast : In (k, ver', mt') (done ++ [(k, ver', mt')])) by (apply in_or_app; right; left; reflexivity).
    destruct (blocks_nth fs fs_blocks k f E) as [Hwo | pre p post Hfs Hkp Hp Hi Hb | p i Hp Hs Hfl].
    - (* a frame of whole messages *)
      pose proof Hwo as (Hfo & Hhw & Hsent).
      destruct (decode_whole_retag f ver' mt' (ctr k) st Hfo Hhw Hv' Hm' Hc) as (st' & E' & L').
      exists st', (map (fun i => retyped ver' mt' 0 (it_pkt i)) (fr_items f)). split; [exact E'|]. split.
      + unfold inv. rewrite L'. exact I.
      + apply Forall_forall. intros q Hq. apply in_map_iff in Hq. destruct Hq as (i & <- & Hin).
        apply (G_whole _ _ k f i ver' mt'); auto.
        destruct Hfo as (_ & _ & Hit & Hus & _). destruct Hhw as [Hu _]. rewrite Forall_forall in Hu, Hit.
        destruct (Hu i Hin) as (_ & _ & Hlen).
        assert (HF0 : Forall (fun j => 0 <= it_len j) (fr_items f)).
        { apply Forall_forall. intros j Hj. destruct (Hit j Hj) as (_ & _ & H1 & _). lia. }
        pose proof (frame_used_in f i HF0 Hin). lia.
    - (* the first segment of a chain: always restarts the reassembly *)
      assert (HL1 : 1 <= p_len p) by (rewrite (p_len_wf v p Hp); destruct Hp as (_ & Hl & _); lia).
      assert (Ef : f = mkf p (seg_item cap p 0 4)).
      { rewrite Hfs, Hkp in E. rewrite nth_error_app2 in E by lia. rewrite Nat.sub_diag in E.
        rewrite (chain_unfold p HL1 Hb) in E. cbn in E. inversion E. reflexivity. }
      subst f.
      assert (Q1 : 0 <= it_pos (seg_item cap p 0 4)) by (cbn; lia).
      assert (Q2 : 1 <= it_len (seg_item cap p 0 4)) by (cbn [seg_item it_len]; lia).
      assert (Q3 : it_pos (seg_item cap p 0 4) + it_len (seg_item cap p 0 4) <= p_len p) by (cbn [seg_item it_len it_pos]; lia).
      assert (Q4 : it_flag (seg_item cap p 0 4) = 4 \/ it_flag (seg_item cap p 0 4) = 8 \/ it_flag (seg_item cap p 0 4) = 12) by (left; reflexivity).
      destruct (decode_seg_retag p (seg_item cap p 0 4) ver' mt' (ctr k) st Hp eq_refl Q1 Q2 Q3 Q4 Hv' Hm' Hc) as [D Fl].
      rewrite D. unfold seg_step. rewrite Fl. cbn [seg_item it_flag Z.eqb Pos.eqb fhx f_dev f_stream f_ver f_mt f_seq].
      eexists _, []. split; [reflexivity|]. split; [|constructor].
      unfold inv. rewrite lookup_insert.
      apply (Pend _ _ pre [mkf p (seg_item cap p 0 4)] (Z.to_nat (p_len p)) (cap - 16) post p); cbn [sg_hdr sg_pay sg_type sg_ver sg_mt sg_cur]; try assumption; try lia.
      + rewrite Hfs, (chain_unfold p HL1 Hb). reflexivity.
      + rewrite (chain_unfold p HL1 Hb). reflexivity.
      + intros j Hj. cbn [length] in Hj. assert (j = 0)%nat as -> by lia. rewrite Nat.add_0_r, <- Hkp. exact Hlast.
      + reflexivity.
      + rewrite seg_item_bytes by lia. unfold drop. cbn [Z.to_nat skipn]. f_equal. lia.
      + unfold ctr. f_equal. cbn [length]. rewrite Hkp. lia.
    - (* a later segment *)
      destruct Hs as (Ef & Hip & Hi1 & Hi2 & Hi3). subst f.
      assert (Q4 : it_flag i = 4 \/ it_flag i = 8 \/ it_flag i = 12) by tauto.
      destruct (decode_seg_retag p i ver' mt' (ctr k) st Hp Hip Hi1 Hi2 Hi3 Q4 Hv' Hm' Hc) as [D Fl].
      rewrite D. unfold seg_step. rewrite Fl.
      assert (it_flag i =? 4 = false) as -> by (apply Z.eqb_neq; lia).
      cbn [fhx f_dev f_stream].
      unfold inv in Hinv. destruct (lookup e st) as [sg|] eqn:Lk.
      2:{ eexists _, []. split; [reflexivity|]. split; [|constructor]. unfold inv. rewrite Lk. exact I. }
      destruct (add_segment sg (item_hdr i) (item_bytes i) (fhx ver' mt' (ctr k))) as [sg'|] eqn:A.
      2:{ eexists _, []. split; [reflexivity|]. split; [|constructor]. unfold inv. rewrite lookup_erase_same. exact I. }
      apply add_segment_inv in A. cbn [fhx f_ver f_mt f_seq] in A. destruct A as (Av & Am & Ac & _ & Asg).
      destruct Hinv as [pre A fuel pos post p0 Hfs HA Hp0 Hi0 Hb0 Hpos Hfuel Hfed Hh Hpay Hty Hcur].
      destruct fuel as [|fuel]; [cbn in Hfuel; lia|].
      rewrite (seg_unfold fuel p0 pos) in Hfs, HA by lia.
      set (n := Z.min (cap - 16) (p_len p0 - pos)) in *.
      set (flag' := if pos + n =? p_len p0 then 12 else 8) in *.
      set (g := mkf p0 (seg_item cap p0 pos flag')) in *.
      assert (Hn : 1 <= n /\ pos + n <= p_len p0) by (subst n; lia).
      (* the accepted frame is the next frame of that message *)
      assert (Hkn : k = (length pre + length A)%nat).
      { assert (Hlen : (length pre + length A < length fs)%nat).
        { rewrite Hfs. rewrite !app_length. cbn [length]. lia. }
        rewrite Hcur in Ac. unfold ctr in Ac.
        assert (Hz : Z.of_nat k = Z.of_nat (length pre + length A)); [|lia].
        set (a := Z.of_nat k) in *. set (bb := Z.of_nat (length pre + length A)) in *.
        assert (0 <= a < 65536) by lia. assert (0 <= bb < 65536) by lia. clearbody a bb. lia. }
      assert (Eg : mkf p i = g).
      { rewrite Hfs, Hkn in E. rewrite <- app_comm_cons in E. rewrite nth_error_mid in E. congruence. }
      assert (Ei : i = seg_item cap p0 pos flag') by (unfold g, mkf in Eg; inversion Eg; reflexivity).
      assert (Epp : p = p0) by (rewrite <- Hip, Ei; reflexivity). subst p.
      assert (Hflag : it_flag i = flag') by (rewrite Ei; reflexivity).
      assert (Hcat : sg_pay sg ++ item_bytes i = take (pos + n) (pdata p0)).
      { rewrite Hpay, Ei, seg_item_bytes by lia. fold n. apply take_take_drop'; lia. }
      rewrite Asg. cbn [sg_type]. rewrite Fl, Hflag.
      subst flag'. destruct (Z.eqb_spec (pos + n) (p_len p0)) as [Hlastseg|Hmore]; cbn [Z.eqb Pos.eqb].
      + (* last segment: the message is complete *)
        eexists _, [_]. split; [reflexivity|]. split; [unfold inv; rewrite lookup_erase_same; exact I|].
        constructor; [|constructor].
        rewrite (seg_end fuel p0 (pos + n)) in Hfs, HA by lia.
        apply (G_chain _ _ pre p0 post ver' mt'); try assumption.
        * rewrite Hfs, <- HA, <- app_assoc. reflexivity.
        * intros j Hj. rewrite <- HA, app_length in Hj. cbn [length] in Hj.
          destruct (Nat.ltb_spec j (length A)) as [Hlt|Hge].
          -- apply Hinc. rewrite <- Av, <- Am. apply Hfed. exact Hlt.
          -- assert (j = length A) as -> by lia. rewrite <- Hkn. exact Hlast.
        * rewrite Hh, Hcat, Hlastseg, (p_len_wf v p0 Hp0), take_all, Av, Am. apply mkp_seg_retyped. exact Hp0.
      + (* intermediary segment: one more piece of the same message *)
        eexists _, []. split; [reflexivity|]. split; [|constructor].
        unfold inv. rewrite lookup_insert.
        apply (Pend _ _ pre (A ++ [g]) fuel (pos + n) post p0); cbn [sg_hdr sg_pay sg_type sg_ver sg_mt sg_cur]; try assumption; try lia.
        * rewrite Hfs, <- !app_assoc. reflexivity.
        * rewrite <- HA, <- app_assoc. reflexivity.
        * intros j Hj. rewrite app_length in Hj. cbn [length] in Hj.
          destruct (Nat.ltb_spec j (length A)) as [Hlt|Hge].
          -- apply Hinc. apply Hfed. exact Hlt.
          -- assert (j = length A) as -> by lia. rewrite <- Hkn, Av, Am. exact Hlast.
        * rewrite Hcur. rewrite app_length. cbn [length]. rewrite Zplus_mod_idemp_l. f_equal. lia.
  Qed.

  Lemma faults_run : forall todo done st, inv done st -> Forall fed_ok todo ->
    exists st' outs, dec_frames st (map fbytes todo) = Ok (st', outs) /\ inv (done ++ todo) st' /\ Forall (good (done ++ todo)) outs.
  Proof.
    induction todo as [|x todo IH]; intros done st Hinv Hok.
    - exists st, []. rewrite app_nil_r. split; [reflexivity|]. split; [exact Hinv|constructor].
    - inversion Hok as [|? ? Hx Hrest]; subst.
      destruct (fault_step done x st Hinv Hx) as (st1 & o1 & E1 & I1 & G1).
      destruct (IH (done ++ [x]) st1 I1 Hrest) as (st2 & o2 & E2 & I2 & G2).
      rewrite <- app_assoc in I2, G2. cbn [app] in I2, G2.
      exists st2, (o1 ++ o2). cbn [map dec_frames]. rewrite E1. cbn [rbind]. rewrite E2. cbn [rbind].
      split; [reflexivity|]. split; [exact I2|]. apply Forall_app. split; [|exact G2].
      eapply Forall_impl; [|exact G1]. intros q Hq. eapply good_mono; [|exact Hq].
      intros y Hy. apply in_app_or in Hy. apply in_or_app. destruct Hy as [Hy|[<-|[]]]; [left; exact Hy|right; left; reflexivity].
  Qed.

  (* every drop / duplication / reordering / version- or type-corruption history over the stream, fed to a decoder whose endpoint has
     no reassembly pending (other endpoints: anything): the run succeeds and every delivered packet is good *)
  Theorem faults_never_corrupt fed st : lookup e st = None -> Forall fed_ok fed ->
    exists st' outs, dec_frames st (map fbytes fed) = Ok (st', outs) /\ Forall (good fed) outs.
  Proof.
    intros Hl Hok. destruct (faults_run fed [] st) as (st' & outs & E & _ & G); [unfold inv; rewrite Hl; exact I | exact Hok |].
    exists st', outs. split; assumption.
  Qed.

  (* what a good packet is, field by field: the payload bytes, payload-type byte, timestamp, id and flags of ONE sent message *)
  Lemma good_is_sent fed q : good fed q -> exists p ver' mt' sb, In p sent /\ pkt_wf p /\ (sb = 0 \/ sb = 4) /\ q = retyped ver' mt' sb p.
  Proof.
    intros [k f i ver' mt' H1 (Hfo & [Hu Hw] & Hs) H3 H4 H5 H6 | pre p post ver' mt' H1 H2 H3 H4 H5 H6].
    - rewrite Forall_forall in Hs, Hw. exists (it_pkt i), ver', mt', 0. auto.
    - exists p, ver', mt', 4. auto.
  Qed.

  Lemma retyped_fields ver' mt' sb p :
    let q := retyped ver' mt' sb p in
    p_ver q = ver' /\ p_dev q = dev /\ p_stream q = stream /\ p_ts q = p_ts p /\
    p_flags q = Z.lor (Z.land (p_flags p) 243) sb /\
    p_pl q = Some (create (mk_type mt' (p_raw p)) (pdata p)).
  Proof. cbn. repeat split. Qed.

  (* without corruption (drop, duplicate, reorder only) every delivered packet is exactly the packet C01 returns for a sent message *)
  Definition plain (x : fedx) : Prop :=
    let '(k, ver', mt') := x in ver' = v /\ forall f, nth_error fs k = Some f -> mt' = fr_type f.

  Lemma good_plain fed q : Forall plain fed -> good fed q -> exists p, In p sent /\ q = exp_of cap v dev stream p.
  Proof.
    intros Hpl [k f i ver' mt' H1 (Hfo & [Hu Hw] & Hs) H3 H4 H5 H6 | pre p post ver' mt' H1 H2 H3 H4 H5 H6]; rewrite Forall_forall in Hpl.
    - destruct (Hpl _ H5) as [-> Hm]. rewrite (Hm f H1) in H6.
      rewrite Forall_forall in Hs, Hw. exists (it_pkt i). split; [auto|].
      destruct Hfo as (_ & _ & Hit & _). rewrite Forall_forall in Hit. destruct (Hit i H3) as (Ht & _).
      rewrite H6, <- Ht, retyped_same by auto. symmetry. apply exp_of_fit. exact H4.
    - assert (HL1 : 1 <= p_len p) by (rewrite (p_len_wf v p H2); destruct H2 as (_ & Hl & _); lia).
      assert (H0c : (0 < length (chain p))%nat) by (rewrite (chain_unfold p HL1 H4); cbn [length]; lia).
      destruct (Hpl _ (H5 0%nat H0c)) as [-> Hm].
      assert (En : nth_error fs (length pre + 0) = Some (mkf p (seg_item cap p 0 4))).
      { rewrite H1, nth_error_app2 by lia. replace (length pre + 0 - length pre)%nat with 0%nat by lia.
        rewrite (chain_unfold p HL1 H4). reflexivity. }
      rewrite (Hm _ En) in H6. cbn [mkf fr_type] in H6.
      exists p. split; [exact H3|]. rewrite H6, retyped_same by exact H2. symmetry. apply exp_of_big. exact H4.
  Qed.

  Lemma stream_ver k f : nth_error fs k = Some f -> fr_ver f = v.
  Proof.
    intros E. destruct (blocks_nth fs fs_blocks k f E) as [((Hv & _) & _) | pre p post Hfs Hk Hp Hi Hb | p i Hp (-> & _) _]; [exact Hv| |reflexivity].
    assert (HL1 : 1 <= p_len p) by (rewrite (p_len_wf v p Hp); destruct Hp as (_ & Hl & _); lia).
    rewrite Hfs, Hk, nth_error_app2 in E by lia. rewrite Nat.sub_diag, (chain_unfold p HL1 Hb) in E. cbn in E. inversion E. reflexivity.
  Qed.

  Theorem reorderings_deliver_sent_packets ks st : lookup e st = None -> Forall (fun k => (k < length fs)%nat) ks ->
    exists st' outs, dec_frames st (map (fun k => nth k (ser_frames minb dev stream c0 fs) []) ks) = Ok (st', outs) /\
                     Forall (fun q => exists p, In p sent /\ q = exp_of cap v dev stream p) outs.
  Proof.
    intros Hl Hks.
    set (d := {| fr_type := 0; fr_ver := 0; fr_items := [] |}).
    set (fed := map (fun k => (k, v, fr_type (nth k fs d))) ks).
    assert (Hmap : map fbytes fed = map (fun k => nth k (ser_frames minb dev stream c0 fs) []) ks).
    { unfold fed. rewrite map_map. apply map_ext_in. intros k Hk. rewrite Forall_forall in Hks. specialize (Hks k Hk).
      unfold fbytes. rewrite (nth_error_nth' fs d Hks). rewrite (nth_ser_frames fs minb dev stream c0 k d []) by exact Hks.
      fold (ctr k). rewrite <- (stream_ver k (nth k fs d)) at 1 by (apply nth_error_nth'; exact Hks). rewrite retag_id. reflexivity. }
    assert (Hok : Forall fed_ok fed).
    { unfold fed. apply Forall_forall. intros x Hx. apply in_map_iff in Hx. destruct Hx as (k & <- & Hk).
      rewrite Forall_forall in Hks. specialize (Hks k Hk). unfold fed_ok. split; [exact Hks|]. split; [exact v_ok|].
      destruct (blocks_nth fs fs_blocks k (nth k fs d) (nth_error_nth' fs d Hks)) as [(Hfo & _) | pre p post Hfs Hkp Hp Hi Hb | p i Hp (-> & _) _].
      - apply (frame_type_range cap v). exact Hfo.
      - assert (HL1 : 1 <= p_len p) by (rewrite (p_len_wf v p Hp); destruct Hp as (_ & Hl' & _); lia).
        pose proof (nth_error_nth' fs d Hks) as E. rewrite Hfs, Hkp, nth_error_app2 in E at 1 by lia.
        rewrite Nat.sub_diag, (chain_unfold p HL1 Hb) in E. cbn in E. assert (E' : nth k fs d = mkf p (seg_item cap p 0 4)) by congruence. rewrite E'. cbn. apply p_mt_range.
      - cbn. apply p_mt_range. }
    assert (Hpl : Forall plain fed).
    { unfold fed. apply Forall_forall. intros x Hx. apply in_map_iff in Hx. destruct Hx as (k & <- & Hk).
      rewrite Forall_forall in Hks. specialize (Hks k Hk). split; [reflexivity|]. intros f Hf.
      rewrite (nth_error_nth' fs d Hks) in Hf. inversion Hf. reflexivity. }
    destruct (faults_never_corrupt fed st Hl Hok) as (st' & outs & E & G). rewrite Hmap in E.
    exists st', outs. split; [exact E|]. eapply Forall_impl; [|exact G]. intros q Hq. apply (good_plain fed); assumption.
  Qed.

  (* ---------- other traffic in between does not matter ---------- *)
  Lemma buf_ep_ser_frame c f : 1 <= fr_ver f < 256 -> 0 <= fr_type f < 256 -> 0 <= c < 65536 ->
    buf_ep (ser_frame minb dev stream c f) = Some e.
  Proof.
    intros Hv Ht Hc. unfold buf_ep, ser_frame, pad_to. rewrite <- app_assoc.
    set (fh := {| f_ver := fr_ver f; f_dev := dev; f_mt := fr_type f; f_stream := stream; f_seq := c |}).
    assert (Hfh : fhdr_ok fh) by (unfold fhdr_ok, fh; cbn; lia).
    destruct (parse_ser_fhdr fh (concat (map ser_item (fr_items f)) ++ zeros (minb - zlen (ser_fhdr fh ++ concat (map ser_item (fr_items f))))) Hfh) as [P U].
    rewrite P, U, zlen_app, ser_fhdr_zlen.
    match goal with |- context [8 + zlen ?x <? 8] => pose proof (zlen_nonneg x); destruct (Z.ltb_spec (8 + zlen x) 8); [lia|] end.
    cbn [orb fh f_ver]. destruct (Z.eqb_spec (fr_ver f) 0); [lia|]. reflexivity.
  Qed.

  Lemma buf_ep_fbytes x : fed_ok x -> buf_ep (fbytes x) = Some e.
  Proof.
    destruct x as [[k ver'] mt']. intros (Hk & Hv' & Hm'). unfold fbytes.
    destruct (nth_error fs k) as [f|] eqn:E; [|apply nth_error_None in E; lia].
    apply buf_ep_ser_frame; cbn [retag fr_ver fr_type]; try assumption. apply ctr_range.
  Qed.

  Lemma runh_dec_frames : forall bs st st' outs, dec_frames st bs = Ok (st', outs) -> Forall (fun b => buf_ep b <> None) bs -> runh st bs = outs.
  Proof.
    induction bs as [|b t IH]; intros st st' outs H HF; cbn [dec_frames] in H.
    - inversion H. reflexivity.
    - inversion HF as [|? ? Hb Ht]; subst. cbn [runh]. unfold cmp_out, dec1.
      destruct (decode st b) as [[s1 o1]| |] eqn:D; cbn [rbind] in H; try discriminate.
      destruct (dec_frames s1 t) as [[s2 o2]| |] eqn:D2; cbn [rbind] in H; try discriminate.
      inversion H; subst. destruct (buf_ep b); [|congruence]. cbn [fst snd]. f_equal. eapply IH; eauto.
  Qed.

  (* the fault history may be interleaved with ANY other buffers - frames of other endpoints (with their own reassemblies, faults,
     garbage), TECMP frames, short buffers: what the decoder delivers for this endpoint is still only good packets *)
  Theorem faults_among_other_traffic fed h st : lookup e st = None -> Forall fed_ok fed -> proj e h = map fbytes fed ->
    Forall (good fed) (projp e (runh st h)).
  Proof.
    intros Hl Hok Hp. rewrite (isolation e h st st eq_refl), Hp.
    destruct (faults_never_corrupt fed st Hl Hok) as (st' & outs & E & G).
    rewrite (runh_dec_frames _ _ _ _ E); [exact G|].
    apply Forall_forall. intros b Hb. apply in_map_iff in Hb. destruct Hb as (x & <- & Hx).
    rewrite Forall_forall in Hok. rewrite (buf_ep_fbytes x (Hok x Hx)). discriminate.
  Qed.
End Faults.

(* ---------- the same for the frames returned by the encoder model, at the byte level ---------- *)
Definition fed_bytes (frames : list (list Z)) (x : nat * Z * Z) : list Z :=
  let '(k, ver', mt') := x in corrupt_bytes ver' mt' (nth k frames []).
Definition fed_in_range (n : nat) (x : nat * Z * Z) : Prop :=
  let '(k, ver', mt') := x in (k < n)%nat /\ 1 <= ver' < 256 /\ 0 <= mt' < 256.

Lemma encode_frames e b minb maxb v : 25 <= maxb -> Forall (pkt_wf v) b ->
  snd (encode e b minb maxb) = ser_frames minb (e_dev e) (e_stream e) (e_seq e) (pack (maxb - 8) v b).
Proof.
  intros Hm Hb. unfold encode. cbn [snd].
  assert (Hok : Forall (pkt_ok v) b).
  { eapply Forall_impl; [|exact Hb]. intros p Hp. split;
      [rewrite (p_len_wf v p Hp); destruct Hp as (_ & Hl & _); lia | destruct Hp as (Hpv & _); exact Hpv]. }
  rewrite (encode_refines_pack (maxb - 8) v) by (try lia; exact Hok). reflexivity.
Qed.

Theorem encoder_stream_faults : forall (e : enc) (b : list packet) (minb maxb v : Z) (st : dstate) (fed : list (nat * Z * Z)),
  25 <= maxb -> 1 <= v < 256 -> 0 <= e_dev e < 65536 -> 0 <= e_stream e < 256 -> Forall (pkt_wf v) b ->
  let frames := snd (encode e b minb maxb) in
  Z.of_nat (length frames) < 65536 ->
  lookup (e_dev e, e_stream e) st = None ->
  Forall (fed_in_range (length frames)) fed ->
  exists st' outs, dec_frames st (map (fed_bytes frames) fed) = Ok (st', outs) /\
    Forall (good (maxb - 8) v (e_dev e) (e_stream e) b (pack (maxb - 8) v b) fed) outs.
Proof.
  intros e b minb maxb v st fed Hm Hv Hd Hs Hb frames Hn Hl Hfed.
  assert (Hfr : frames = ser_frames minb (e_dev e) (e_stream e) (e_seq e) (pack (maxb - 8) v b)) by (apply encode_frames; assumption).
  assert (Hlen : length frames = length (pack (maxb - 8) v b)) by (rewrite Hfr; apply length_ser_frames).
  assert (Hbl : blocks (maxb - 8) v b (pack (maxb - 8) v b)).
  { apply pack_blocks; try assumption; try lia. intros x Hx; exact Hx. }
  rewrite Hlen in Hn, Hfed.
  destruct (faults_never_corrupt (maxb - 8) v minb (e_dev e) (e_stream e) ltac:(lia) Hv Hd Hs b (pack (maxb - 8) v b) (e_seq e) Hbl Hn fed st Hl)
    as (st' & outs & E & G).
  { eapply Forall_impl; [|exact Hfed]. intros [[k ver'] mt'] H. exact H. }
  exists st', outs. split; [|exact G]. rewrite <- E. f_equal. apply map_ext_in. intros [[k ver'] mt'] Hx.
  rewrite Forall_forall in Hfed. destruct (Hfed _ Hx) as (Hk & _).
  set (d := {| fr_type := 0; fr_ver := 0; fr_items := [] |}).
  unfold fed_bytes, fbytes. rewrite (nth_error_nth' _ d Hk). rewrite Hfr.
  rewrite (nth_ser_frames _ minb (e_dev e) (e_stream e) (e_seq e) k d []) by exact Hk.
  rewrite corrupt_ser_frame. reflexivity.
Qed.

Theorem encoder_stream_reordered : forall (e : enc) (b : list packet) (minb maxb v : Z) (st : dstate) (ks : list nat),
  25 <= maxb -> 1 <= v < 256 -> 0 <= e_dev e < 65536 -> 0 <= e_stream e < 256 -> Forall (pkt_wf v) b ->
  let frames := snd (encode e b minb maxb) in
  Z.of_nat (length frames) < 65536 ->
  lookup (e_dev e, e_stream e) st = None ->
  Forall (fun k => (k < length frames)%nat) ks ->
  exists st' outs, dec_frames st (map (fun k => nth k frames []) ks) = Ok (st', outs) /\
    Forall (fun q => exists p, In p b /\ q = exp_of (maxb - 8) v (e_dev e) (e_stream e) p) outs.
Proof.
  intros e b minb maxb v st ks Hm Hv Hd Hs Hb frames Hn Hl Hks.
  assert (Hfr : frames = ser_frames minb (e_dev e) (e_stream e) (e_seq e) (pack (maxb - 8) v b)) by (apply encode_frames; assumption).
  assert (Hlen : length frames = length (pack (maxb - 8) v b)) by (rewrite Hfr; apply length_ser_frames).
  assert (Hbl : blocks (maxb - 8) v b (pack (maxb - 8) v b)).
  { apply pack_blocks; try assumption; try lia. intros x Hx; exact Hx. }
  rewrite Hlen in Hn, Hks. rewrite Hfr.
  apply (reorderings_deliver_sent_packets (maxb - 8) v minb (e_dev e) (e_stream e) ltac:(lia) Hv Hd Hs b (pack (maxb - 8) v b) (e_seq e) Hbl Hn ks st Hl Hks).
Qed.
