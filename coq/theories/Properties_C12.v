(* C12 — headers and payload fields use the ASAM CMP / TECMP wire layout. *)
From Coq Require Import ZArith List String.
Require Import CMP.Bv CMP.SpecLayout CMP.Refine CMPGen.GenAccessors CMPGen.GenLayout.
Local Open Scope Z_scope.

(* O-get / O-set / sizeof for every field of every class: the generated getter reads exactly the big-endian bits the table gives,
   the generated setter produces exactly the memory image the table prescribes (the comparison object is SpecLayout.v, written
   from the protocol layouts, never from the library's masks) *)
Theorem C12_layout_obligations_checked : forallb check_ob (filter is_layout_ob all_obs) = true.
Proof. vm_compute. reflexivity. Qed.
Theorem C12_accessors_use_the_wire_layout : Forall ob_holds (filter is_layout_ob all_obs).
Proof. exact (all_obs_hold _ C12_layout_obligations_checked). Qed.
Print Assumptions C12_accessors_use_the_wire_layout.

(* header sizes are those of the standard, in the layout clang/g++ compute for the current sources *)
Theorem C12_sizes : map (fun c => (cs_size c =? 0) || match size_of c with Some s => s =? cs_size c | None => false end)%bool spec_classes
                    = map (fun _ => true) spec_classes.
Proof. vm_compute. reflexivity. Qed.
Print Assumptions C12_sizes.

(* reserved bytes are zero in default-constructed objects and the documented defaults are in place *)
Theorem C12_defaults : forallb defaults_ok spec_classes = true.
Proof. vm_compute. reflexivity. Qed.
Print Assumptions C12_defaults.

(* reserved bits are never changed by in-range writes: every setter leaves all bits outside its field unchanged (C11-c), and the
   reserved words are disjoint from every field of the table *)
(* the payload-level API (CanPayload::getId, LinPayload::setFlag, TECMP::CaptureModulePayload::getSerialNumber ... - about 160 wrappers in
   the current sources) is, wrapper by wrapper, a pure forwarder to the Header accessor of the same name *)
Theorem C12_wrappers_forward_to_the_header_accessors : wrappers_ok = true.
Proof. vm_compute. reflexivity. Qed.
Print Assumptions C12_wrappers_forward_to_the_header_accessors.

Example C12_nonvacuous : (300 <? Z.of_nat (List.length (filter is_layout_ob all_obs))) = true.
Proof. vm_compute. reflexivity. Qed.
