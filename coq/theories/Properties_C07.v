(* C07 — every encoded frame is well-formed and within the configured size bounds. *)
Require Import CMP.Bytes CMP.Packet CMP.Decoder CMP.Encoder CMP.EncoderProofs.
Local Open Scope Z_scope.

(* sizes: for every batch (one version, non-empty payloads) and every configuration 25 <= max, min <= max *)
Theorem C07_frame_sizes_within_bounds : forall e b minb maxb v,
  25 <= maxb -> minb <= maxb -> Forall (pkt_ok v) b ->
  forall x, In x (snd (encode e b minb maxb)) -> minb <= zlen x <= maxb.
Proof. exact encode_frame_sizes. Qed.
Print Assumptions C07_frame_sizes_within_bounds.

(* structure: the frames are the serialisation (8-byte header, then header+slice per item, then zeros up to min) of frames that are
   non-empty, whose items lie inside their packets' payloads, whose used size is at most max; all payload bytes once and in order *)
Theorem C07_frames_are_serialised_well_formed_frames : forall e b minb maxb v,
  25 <= maxb -> Forall (pkt_ok v) b ->
  snd (encode e b minb maxb) = ser_frames minb (e_dev e) (e_stream e) (e_seq e) (pack (maxb - 8) v b) /\
  Forall (frame_ok (maxb - 8) v) (pack (maxb - 8) v b) /\
  frames_bytes (pack (maxb - 8) v b) = concat (map (fun p => take (p_len p) (pdata p)) b).
Proof.
  intros e b minb maxb v Hm Hb. split.
  - unfold encode. cbn [snd]. rewrite (encode_refines_pack (maxb - 8) v) by (try lia; exact Hb). reflexivity.
  - apply pack_ok; [lia|]. eapply Forall_impl; [|exact Hb]. intros p [H _]. exact H.
Qed.
Print Assumptions C07_frames_are_serialised_well_formed_frames.

(* each serialised frame is exactly max(min, 8 + sum(16 + declared length)) bytes: padding (zeros, by definition of ser_frame / pad_to)
   only as far as needed to reach the minimum *)
Theorem C07_padding_only_to_minimum : forall cap v, 17 <= cap -> forall minb dev stream seq f,
  frame_ok cap v f -> zlen (ser_frame minb dev stream seq f) = Z.max minb (frame_used f).
Proof. intros cap v H. exact (zlen_ser_frame cap v). Qed.
Print Assumptions C07_padding_only_to_minimum.

Theorem C07_empty_batch_no_frames : forall e minb maxb, snd (encode e [] minb maxb) = [].
Proof. reflexivity. Qed.
Print Assumptions C07_empty_batch_no_frames.

Definition Properties_C08_ex (n : nat) : packet :=
  {| p_pl := Some {| pl_type := 511; pl_data := repeat 7 n |}; p_ver := 1; p_dev := 0; p_stream := 0; p_seq := 0;
     p_ts := 0; p_ifid := 0; p_vendor := 0; p_flags := 0; p_seg := 0 |}.
Example C07_example :
  map zlen (snd (encode enc0 [Properties_C08_ex 8; Properties_C08_ex 100; Properties_C08_ex 8] 64 64)) = [64; 64; 64; 64; 64]
  /\ map zlen (snd (encode enc0 [Properties_C08_ex 8; Properties_C08_ex 100; Properties_C08_ex 8] 0 64)) = [32; 64; 64; 44; 32].
Proof. vm_compute. split; reflexivity. Qed.
