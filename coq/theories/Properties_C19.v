(* C19 — separate codec instances can be used concurrently (partial: a pure product machine has no shared memory, so data races
   cannot be exhibited by the model; they are exercised by threaded harness runs, TSan in the thorough tier). *)
From Coq Require Import List Arith String.
Require Import CMP.Concurrency CMP.Interp CMP.Inventory CMPGen.GenInventory.

(* any family of instances whose steps read and write only their own state, under ANY schedule (any interleaving of any number of
   threads): every instance ends in the state, and produces the outputs, it would have alone on its own operation list *)
Theorem C19_schedule_independence : forall (St Op Out : Type) (step : St -> Op -> St * Out) sched g i,
  fst (run_sched St Op Out step g sched) i = fst (run_alone St Op Out step (g i) (ops_of Op i sched)) /\
  outs_of Out i (snd (run_sched St Op Out step g sched)) = snd (run_alone St Op Out step (g i) (ops_of Op i sched)).
Proof. exact schedule_independence. Qed.
Print Assumptions C19_schedule_independence.

(* instantiated with the model of the whole library (encoder, decoders, payload objects, status: Interp.step on a world) *)
Theorem C19_library_instances : forall sched g i,
  outs_of _ i (snd (run_sched world op (list obs) step g sched)) = snd (run_alone world op (list obs) step (g i) (ops_of op i sched)).
Proof. intros. apply schedule_independence. Qed.
Print Assumptions C19_library_instances.

(* the premise "steps touch only their own instance" for the CODE: the inventory of objects with static storage duration,
   regenerated from the current sources (nm on freshly compiled objects), contains no mutable object *)
Theorem C19_no_shared_mutable_state_in_sources : statics_ok = true.
Proof. vm_compute. reflexivity. Qed.
Print Assumptions C19_no_shared_mutable_state_in_sources.

(* ... and no class holds state through a shared-ownership pointer, a raw pointer or a reference: copies of an instance (e.g. a
   Decoder copied while a reassembly is pending) are separate instances too *)
Theorem C19_no_state_shared_between_copies : no_aliasing_members = true.
Proof. vm_compute. reflexivity. Qed.
Print Assumptions C19_no_state_shared_between_copies.

(* non-vacuity: the obligation discriminates - a mutable object with static storage duration would fail it *)
Example C19_inventory_discriminates :
  static_immutable ("decoder.o", "scratch", "const")%string = true /\ static_immutable ("decoder.o", "scratch", "mutable")%string = false.
Proof. vm_compute. split; reflexivity. Qed.
