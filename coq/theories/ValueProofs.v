(* C14 (model level): packets and payloads as values — equality laws and the copy / assign / move operations of the interpreter. *)
Require Import CMP.Bytes CMP.Packet CMP.Tecmp CMP.Decoder CMP.Encoder CMP.Builders CMP.Status CMP.Interp.
Local Open Scope Z_scope.
Local Open Scope bool_scope.

Lemma list_eqb_eq a : forall b, list_eqb a b = true <-> a = b.
Proof.
  induction a as [|x a IH]; destruct b as [|y b]; cbn [list_eqb]; split; try discriminate; try reflexivity.
  - intros H. apply andb_true_iff in H as [H1 H2]. apply Z.eqb_eq in H1. apply IH in H2. congruence.
  - intros H. inversion H; subst. rewrite Z.eqb_refl. cbn. apply IH. reflexivity.
Qed.
Lemma list_eqb_refl a : list_eqb a a = true.
Proof. apply list_eqb_eq. reflexivity. Qed.
Lemma list_eqb_sym a b : list_eqb a b = list_eqb b a.
Proof.
  destruct (list_eqb a b) eqn:E.
  - apply list_eqb_eq in E. subst. symmetry. apply list_eqb_refl.
  - destruct (list_eqb b a) eqn:E2; [|reflexivity]. apply list_eqb_eq in E2. subst. rewrite list_eqb_refl in E. discriminate.
Qed.

Lemma payload_eqb_eq a b : payload_eqb a b = true <-> a = b.
Proof.
  unfold payload_eqb. destruct a as [ta da], b as [tb db]; cbn [pl_type pl_data]. rewrite andb_true_iff, Z.eqb_eq, list_eqb_eq.
  split; [intros [-> ->]; reflexivity | intros H; inversion H; auto].
Qed.
Lemma payload_eqb_refl a : payload_eqb a a = true.
Proof. apply payload_eqb_eq. reflexivity. Qed.
Lemma payload_eqb_sym a b : payload_eqb a b = payload_eqb b a.
Proof. unfold payload_eqb. rewrite Z.eqb_sym, list_eqb_sym. reflexivity. Qed.

Theorem packet_eqb_refl a : packet_eqb a a = true.
Proof.
  unfold packet_eqb. rewrite !Z.eqb_refl. cbn [andb].
  destruct (0 <? p_len a) eqn:E; [|reflexivity].
  destruct (p_pl a) as [pl|] eqn:P; [apply payload_eqb_refl|].
  unfold p_len in E. rewrite P in E. discriminate.
Qed.

Theorem packet_eqb_sym a b : packet_eqb a b = packet_eqb b a.
Proof.
  unfold packet_eqb.
  rewrite (Z.eqb_sym (p_ver a)), (Z.eqb_sym (p_dev a)), (Z.eqb_sym (p_stream a)), (Z.eqb_sym (p_seq a)), (Z.eqb_sym (p_ts a)),
          (Z.eqb_sym (p_ifid a)), (Z.eqb_sym (p_vendor a)), (Z.eqb_sym (p_flags a)), (Z.eqb_sym (p_seg a)), (Z.eqb_sym (p_len a)).
  destruct (p_len b =? p_len a) eqn:E; [|reflexivity].
  apply Z.eqb_eq in E. rewrite E.
  destruct (0 <? p_len a); [|reflexivity]. cbn [andb].
  destruct (p_pl a), (p_pl b); try reflexivity. rewrite payload_eqb_sym. reflexivity.
Qed.

(* for packets with non-empty payloads equality is field-by-field comparison *)
Definition fields_equal (a b : packet) : Prop :=
  p_ver a = p_ver b /\ p_dev a = p_dev b /\ p_stream a = p_stream b /\ p_seq a = p_seq b /\ p_ts a = p_ts b /\
  p_ifid a = p_ifid b /\ p_vendor a = p_vendor b /\ p_flags a = p_flags b /\ p_seg a = p_seg b /\ p_pl a = p_pl b.

Theorem packet_eqb_fields a b : 0 < p_len a -> 0 < p_len b ->
  (packet_eqb a b = true <-> fields_equal a b).
Proof.
  intros Ha Hb. unfold packet_eqb, fields_equal.
  rewrite !andb_true_iff, !Z.eqb_eq.
  destruct (p_pl a) as [x|] eqn:Pa; [|unfold p_len in Ha; rewrite Pa in Ha; lia].
  destruct (p_pl b) as [y|] eqn:Pb; [|unfold p_len in Hb; rewrite Pb in Hb; lia].
  split.
  - intros (((((((((H1 & H2) & H3) & H4) & H5) & H6) & H7) & H8) & H9) & H10).
    repeat (split; [assumption|]).
    destruct (Z.eqb_spec (p_len a) (p_len b)) as [E|E]; cbn [andb] in H10.
    + destruct (Z.ltb_spec 0 (p_len a)); [|lia]. apply payload_eqb_eq in H10. congruence.
    + discriminate.
  - intros (H1 & H2 & H3 & H4 & H5 & H6 & H7 & H8 & H9 & H10).
    repeat split; try assumption.
    assert (E : p_len a = p_len b) by (unfold p_len; rewrite Pa, Pb; inversion H10; reflexivity).
    rewrite E, Z.eqb_refl. destruct (Z.ltb_spec 0 (p_len b)); [|lia]. cbn [andb].
    inversion H10. apply payload_eqb_refl.
Qed.

(* the packet slots of the interpreter behave as values *)
Lemma aget_aset_same {A} k (v : A) l : aget k (aset k v l) = Some v.
Proof. unfold aset. cbn [aget]. now rewrite Z.eqb_refl. Qed.
Lemma aget_adel_other {A} k k' (l : list (Z * A)) : k <> k' -> aget k (adel k' l) = aget k l.
Proof.
  intros Hne. induction l as [|[j v] t IH]; cbn [adel aget]; [reflexivity|].
  destruct (Z.eqb_spec k' j) as [->|Hj].
  - rewrite IH. destruct (Z.eqb_spec k j); [contradiction|reflexivity].
  - cbn [aget]. destruct (k =? j); [reflexivity|exact IH].
Qed.
Lemma aget_aset_other {A} k k' (v : A) l : k <> k' -> aget k (aset k' v l) = aget k l.
Proof. intros Hne. unfold aset. cbn [aget]. destruct (Z.eqb_spec k k'); [contradiction|]. now apply aget_adel_other. Qed.

Lemma getpk_setpk_same w i p : getpk (setpk w i p) i = p.
Proof. unfold getpk, setpk. cbn [w_pk]. now rewrite aget_aset_same. Qed.
Lemma getpk_setpk_other w i j p : j <> i -> getpk (setpk w i p) j = getpk w j.
Proof. intros H. unfold getpk, setpk. cbn [w_pk]. now rewrite aget_aset_other. Qed.

Definition mkop (c : Z) (a b : Z) : op := {| o_code := c; o_nums := [a; b]; o_blobs := [] |}.

(* copy construction and copy assignment: the target equals the source, whatever it held before; every other slot is unchanged *)
Theorem copy_yields_source w dst src c : c = 25 \/ c = 27 ->
  getpk (fst (step w (mkop c dst src))) dst = getpk w src /\
  forall j, j <> dst -> getpk (fst (step w (mkop c dst src))) j = getpk w j.
Proof.
  intros [-> | ->]; unfold step, mkop; cbn [o_code o_nums o_blobs Z.eqb Pos.eqb orb nn nth fst].
  - split; [apply getpk_setpk_same | intros j Hj; now apply getpk_setpk_other].
  - destruct (aget src (w_pk w)) eqn:E; cbn [fst].
    + split; [apply getpk_setpk_same | intros j Hj; now apply getpk_setpk_other].
    + split.
      * rewrite getpk_setpk_same. reflexivity.
      * intros j Hj. rewrite getpk_setpk_other by assumption.
        destruct (Z.eq_dec j src) as [->|Hs].
        -- rewrite getpk_setpk_same. unfold getpk. now rewrite E.
        -- now rewrite getpk_setpk_other.
Qed.

(* move construction: the target holds the source's former state *)
Theorem move_yields_former_source w dst src :
  getpk (fst (step w (mkop 26 dst src))) dst = getpk w src.
Proof.
  unfold step, mkop; cbn [o_code o_nums o_blobs Z.eqb Pos.eqb orb nn nth fst]. apply getpk_setpk_same.
Qed.
(* move assignment exchanges the two packets *)
Theorem move_assign_swaps w dst src : dst <> src ->
  getpk (fst (step w (mkop 28 dst src))) dst = getpk w src /\ getpk (fst (step w (mkop 28 dst src))) src = getpk w dst.
Proof.
  intros H. unfold step, mkop; cbn [o_code o_nums o_blobs Z.eqb Pos.eqb orb nn nth fst].
  split; [apply getpk_setpk_same|]. rewrite getpk_setpk_other by congruence. apply getpk_setpk_same.
Qed.
