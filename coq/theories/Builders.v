(* Payload builders (setData) and payload-class field setters: model of the setData members of the payload classes
   (after the repairs) and of the forwarding setters, written from the wire layout. *)
Require Import CMP.Bytes CMP.Packet CMP.Tecmp.
Local Open Scope Z_scope.
Local Open Scope bool_scope.

(* overwrite n bytes at off with the big-endian digits of v (buffer is long enough by construction) *)
Definition put_be (off : Z) (n : nat) (v : Z) (d : list Z) : list Z :=
  take off d ++ be_enc n v ++ drop (off + Z.of_nat n) d.
(* replace bits [lo, lo+w) of the n-byte big-endian word at off by v *)
Definition put_bits (off : Z) (n : nat) (lo w v : Z) (d : list Z) : list Z :=
  let old := be_dec (take (Z.of_nat n) (drop off d)) in
  let mask := Z.shiftl (2 ^ w - 1) lo in
  put_be off n (Z.lor (Z.land old (Z.lnot mask)) (Z.shiftl (v mod 2 ^ w) lo)) d.

Definition hdr_size (k : Z) : Z :=
  if k =? 1 then 16 else if k =? 2 then 16 else if k =? 3 then 8 else if k =? 7 then 16
  else if k =? 8 then 6 else if k =? 49 then 26 else if k =? 50 then 36 else 0.
Definition default_size (k : Z) : Z := if k =? 49 then 36 else if k =? 50 then 40 else hdr_size k.
Definition default_obj (k : Z) : payload := {| pl_type := type_of_kind k; pl_data := zeros (default_size k) |}.

(* the preserved header part of an object (objects are never shorter than their header) *)
Definition keep_hdr (k : Z) (old : list Z) : list Z := take (hdr_size k) (old ++ zeros (hdr_size k)).

Definition set_data (k : Z) (old data : list Z) : list Z :=
  let n := zlen data in
  if (k =? 1) || (k =? 2) then take 14 (keep_hdr k old) ++ [encode_dlc (n mod 256); n mod 256] ++ data
  else if k =? 3 then take 7 (keep_hdr k old) ++ [n mod 256] ++ data
  else if k =? 8 then take 4 (keep_hdr k old) ++ be_enc 2 (n mod 65536) ++ data
  else keep_hdr k old ++ data.

Definition set_data_cm (old s1 s2 s3 s4 vendor : list Z) : list Z :=
  keep_hdr 49 old ++ cm_string s1 ++ cm_string s2 ++ cm_string s3 ++ cm_string s4 ++ be_enc 2 (zlen vendor mod 65536) ++ vendor.

Definition set_data_if (old ids vendor : list Z) : list Z :=
  keep_hdr 50 old ++ be_enc 2 (zlen ids mod 65536) ++ ids ++ zeros (zlen ids mod 2) ++ be_enc 2 (zlen vendor mod 65536) ++ vendor.

(* payload-class setters; f numbers follow harness/cmp_harness.cpp setField *)
Definition set_field (k f v : Z) (d : list Z) : list Z :=
  if (k =? 1) || (k =? 2) then
    if f =? 0 then put_be 0 2 (v mod 65536) d
    else if f =? 1 then put_bits 4 4 0 29 v d
    else if f =? 2 then put_bits 4 4 29 1 v d
    else if f =? 3 then put_bits 4 4 31 1 v d
    else if f =? 4 then put_bits 4 4 30 1 v d
    else if f =? 5 then (if k =? 1 then put_bits 8 4 0 15 v d else put_bits 8 4 0 21 v d)
    else if f =? 6 then put_bits 8 4 31 1 v d
    else if f =? 7 then put_be 12 2 (v mod 65536) d
    else if (f =? 8) && (k =? 2) then put_bits 8 4 21 3 v d
    else if (f =? 9) && (k =? 2) then put_bits 8 4 24 1 v d
    else if (f =? 10) && (k =? 2) then put_bits 8 4 30 1 v d
    else if (100 <=? f) && (f <? 116) then put_bits 0 2 (f - 100) 1 v d
    else d
  else if k =? 3 then
    if f =? 0 then put_be 0 2 (v mod 65536) d
    else if f =? 1 then put_bits 4 1 0 6 v d
    else if f =? 2 then put_bits 4 1 6 2 v d
    else if f =? 3 then put_be 6 1 (v mod 256) d
    else if (100 <=? f) && (f <? 116) then put_bits 0 2 (f - 100) 1 v d
    else d
  else if k =? 8 then
    if f =? 0 then put_be 0 2 (v mod 65536) d
    else if (100 <=? f) && (f <? 116) then put_bits 0 2 (f - 100) 1 v d
    else d
  else if k =? 7 then
    if f =? 0 then put_be 0 2 (v mod 65536) d
    else if f =? 1 then put_bits 0 2 0 2 (v / 256) d
    else if f =? 2 then put_be 3 1 (v mod 256) d
    else if f =? 3 then put_be 4 4 (v mod 2^32) d
    else if f =? 4 then put_be 8 4 (v mod 2^32) d
    else if f =? 5 then put_be 12 4 (v mod 2^32) d
    else d
  else if k =? 49 then
    if f =? 0 then put_be 0 8 (v mod 2^64) d
    else if f =? 1 then put_be 8 8 (v mod 2^64) d
    else if f =? 2 then put_be 16 4 (v mod 2^32) d
    else if f =? 3 then put_be 20 2 (v mod 65536) d
    else if f =? 4 then put_be 22 1 (v mod 256) d
    else if f =? 5 then put_be 23 1 (v mod 256) d
    else if f =? 6 then put_be 25 1 (v mod 256) d
    else d
  else if k =? 50 then
    if (0 <=? f) && (f <=? 6) then put_be (4 * f) 4 (v mod 2^32) d
    else if f =? 7 then put_be 28 1 (v mod 256) d
    else if f =? 8 then put_be 29 1 (v mod 256) d
    else if f =? 9 then put_be 32 4 (v mod 2^32) d
    else d
  else d.
