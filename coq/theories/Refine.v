(* Obligations "generated accessor = spec accessor" and the set/get laws on the generated code, as closed boolean
   computations discharged by Bv.check_eq (vm_compute), with the soundness theorem that gives them their meaning. *)
From Coq Require Import ZArith List String Bool Lia.
Require Import CMP.Bv CMP.SpecLayout CMPGen.GenAccessors CMPGen.GenLayout.
Import ListNotations.
Local Open Scope string_scope.
Local Open Scope Z_scope.

(* ---------- general substitution of an expression for a variable ---------- *)
Fixpoint subst_e (x : nat) (r : bv) (e : bv) : bv :=
  match e with
  | Var y w => if Nat.eqb x y then Trunc w r else e
  | Cst _ => e
  | And a b => And (subst_e x r a) (subst_e x r b)
  | Or a b => Or (subst_e x r a) (subst_e x r b)
  | Xor a b => Xor (subst_e x r a) (subst_e x r b)
  | Not a => Not (subst_e x r a)
  | Shl a n => Shl (subst_e x r a) n
  | Shr a n => Shr (subst_e x r a) n
  | Trunc w a => Trunc w (subst_e x r a)
  | NonZero w a => NonZero w (subst_e x r a)
  | Ite a b d => Ite (subst_e x r a) (subst_e x r b) (subst_e x r d)
  end.

Lemma subst_e_sound env x r e :
  eval env (subst_e x r e) = eval (fun y => if Nat.eqb x y then eval env r else env y) e.
Proof.
  induction e; simpl; try congruence.
  - destruct (Nat.eqb x x0); reflexivity.
  - rewrite IHe. reflexivity.
  - rewrite IHe1, IHe2, IHe3. reflexivity.
Qed.

(* ---------- lookups in the generated tables ---------- *)
Fixpoint assoc {A} (k : string) (l : list (string * A)) : option A :=
  match l with [] => None | (k', v) :: t => if String.eqb k k' then Some v else assoc k t end.
Definition find_method (cls name : string) : option method_model := assoc (cls ++ "::" ++ name) gen_methods.
Definition is_untranslatable (cls name : string) : bool :=
  match assoc (cls ++ "::" ++ name) gen_untranslatable with Some _ => true | None => false end.
Definition record_of (cls : string) : option (Z * list (string * Z * Z * option Z)) := assoc cls gen_records.
Fixpoint member_of (path : string) (l : list (string * Z * Z * option Z)) : option (Z * Z) :=
  match l with [] => None | (p, off, size, _) :: t => if String.eqb path p then Some (off, size) else member_of path t end.

(* where a field lives in the object's memory image: byte offset, bytes, big-endian? *)
Definition locate (cls : string) (f : fspec) : option (Z * nat * bool) :=
  match fs_loc f with
  | Wire off bytes => Some (off, bytes, true)
  | Member path => match record_of cls with
                   | Some (_, ms) => match member_of path ms with Some (off, size) => Some (off, Z.to_nat size, false) | None => None end
                   | None => None
                   end
  end.
Definition size_of (c : cspec) : option Z :=
  match record_of (cs_class c) with Some (s, _) => Some s | None => None end.

(* ---------- the spec accessors as bit-vector expressions over the memory image ---------- *)
Definition ones (n : Z) : Z := 2 ^ n - 1.
Definition word (be : bool) (off : Z) (bytes : nat) (m : bv) : bv :=
  let raw := Trunc (8 * Z.of_nat bytes) (Shr m (8 * off)) in if be then bswap bytes raw else raw.
Definition spec_get (off : Z) (bytes : nat) (be : bool) (lo w shift : Z) (m : bv) : bv :=
  Shl (Trunc w (Shr (word be off bytes m) lo)) shift.
Definition spec_set (size off : Z) (bytes : nat) (be : bool) (lo w : Z) (m v : bv) : bv :=
  let wb := 8 * Z.of_nat bytes in
  let W := word be off bytes m in
  let W' := Or (And W (Cst (Z.land (ones wb) (Z.lnot (Z.shiftl (ones w) lo))))) (Shl (Trunc w v) lo) in
  let raw' := if be then bswap bytes W' else W' in
  Or (And m (Cst (Z.land (ones (8 * size)) (Z.lnot (Z.shiftl (ones wb) (8 * off)))))) (Shl (Trunc wb raw') (8 * off)).

(* byte reversal on numbers, for the field's bit mask inside the memory image *)
Fixpoint bswapZ (bytes : nat) (x : Z) : Z :=
  match bytes with O => 0 | S k => Z.lor (Z.shiftl (Z.land x 255) (8 * Z.of_nat k)) (bswapZ k (Z.shiftr x 8)) end.
Definition field_mask (off : Z) (bytes : nat) (be : bool) (lo w : Z) : Z :=
  let m := Z.shiftl (ones w) lo in Z.shiftl (if be then bswapZ bytes m else m) (8 * off).

(* ---------- obligations ---------- *)
Record ob := { ob_label : string; ob_w : Z; ob_a : bv; ob_b : bv }.
Definition check_ob (o : ob) : bool := (0 <=? ob_w o) && check_eq (ob_w o) (ob_a o) (ob_b o).
Definition ob_holds (o : ob) : Prop := forall env, eval env (ob_a o) mod 2 ^ ob_w o = eval env (ob_b o) mod 2 ^ ob_w o.
Definition failed (l : string) : ob := {| ob_label := l; ob_w := 1; ob_a := Cst 0; ob_b := Cst 1 |}.

Lemma check_ob_sound o : check_ob o = true -> ob_holds o.
Proof.
  unfold check_ob, ob_holds. intros H env. apply andb_true_iff in H as [H1 H2]. apply Z.leb_le in H1.
  apply check_eq_sound; assumption.
Qed.
Theorem all_obs_hold (l : list ob) : forallb check_ob l = true -> Forall ob_holds l.
Proof. intros H. apply Forall_forall. intros o Ho. apply check_ob_sound. rewrite forallb_forall in H. auto. Qed.

Definition VAL : nat := 9%nat.       (* the field value written by a setter: a fresh variable of the field's width *)
Definition lbl (c : cspec) (f : fspec) (k : string) : string := cs_class c ++ " / " ++ fs_name f ++ " / " ++ k.

(* the generated getter of a field applied to memory m (mask argument fixed to the enumerator for flag accessors) *)
Definition gen_get (c : cspec) (f : fspec) (m : bv) : option (Z * bv) :=
  match find_method (cs_class c) (fs_get f) with
  | Some mm => match mm_ret mm with
               | Some (rw, r) => let r1 := match fs_mask f with Some k => subst 1%nat k r | None => r end in
                                 Some (rw, subst_e 0%nat m r1)
               | None => None
               end
  | None => None
  end.
(* the memory image after the generated setter wrote the in-range API value (VAL << shift) *)
Definition gen_set (c : cspec) (f : fspec) : option bv :=
  match find_method (cs_class c) (fs_set f) with
  | Some mm => match mm_mem mm with
               | Some e => let arg := Shl (Var VAL (fs_w f)) (fs_shift f) in
                           Some (match fs_mask f with
                                 | Some k => subst_e 2%nat arg (subst 1%nat k e)
                                 | None => subst_e 1%nat arg e
                                 end)
               | None => None
               end
  | None => None
  end.

(* absolute bit positions of a field, to decide disjointness of two fields *)
Definition fmask (c : cspec) (f : fspec) : option Z :=
  match locate (cs_class c) f with Some (off, bytes, be) => Some (field_mask off bytes be (fs_lo f) (fs_w f)) | None => None end.
Definition disjoint (c : cspec) (f g : fspec) : bool :=
  match fmask c f, fmask c g with Some a, Some b => Z.land a b =? 0 | _, _ => false end.

Definition has (s : string) : bool := negb (String.eqb s "").

Definition obs_field (c : cspec) (size : Z) (f : fspec) : list ob :=
  match locate (cs_class c) f with
  | None => [failed (lbl c f "field cannot be located in the generated layout")]
  | Some (off, bytes, be) =>
    let M := Var 0%nat (8 * size) in
    let og :=
      if has (fs_get f) then
        if is_untranslatable (cs_class c) (fs_get f)
        then [failed (lbl c f "O-get lost: the getter of this layout field is no longer translatable, no obligation can be generated")] else
        match gen_get c f M with
        | Some (rw, r) => [{| ob_label := lbl c f "O-get: getter reads the layout's bits"; ob_w := rw; ob_a := r;
                              ob_b := spec_get off bytes be (fs_lo f) (fs_w f) (fs_shift f) M |}]
        | None => [failed (lbl c f "getter missing from the generated accessors")]
        end
      else [] in
    let os :=
      if has (fs_set f) then
        if is_untranslatable (cs_class c) (fs_set f)
        then [failed (lbl c f "O-set lost: the setter of this layout field is no longer translatable, no obligation can be generated")] else
        match gen_set c f with
        | Some m' =>
          ([{| ob_label := lbl c f "O-set: setter writes the layout's bits and nothing else"; ob_w := 8 * size; ob_a := m';
              ob_b := spec_set size off bytes be (fs_lo f) (fs_w f) M (Var VAL (fs_w f)) |};
           {| ob_label := lbl c f "C11-c: bytes and bits outside the field unchanged"; ob_w := 8 * size;
              ob_a := And m' (Cst (Z.land (ones (8 * size)) (Z.lnot (field_mask off bytes be (fs_lo f) (fs_w f)))));
              ob_b := And M (Cst (Z.land (ones (8 * size)) (Z.lnot (field_mask off bytes be (fs_lo f) (fs_w f))))) |}]
          ++ (if has (fs_get f) && negb (is_untranslatable (cs_class c) (fs_get f)) then
                match gen_get c f m' with
                | Some (rw, r) => [{| ob_label := lbl c f "C11-a: get after set returns the value"; ob_w := rw; ob_a := r;
                                      ob_b := Shl (Var VAL (fs_w f)) (fs_shift f) |}]
                | None => []
                end
              else []))%list
        | None => [failed (lbl c f "setter missing from the generated accessors")]
        end
      else [] in
    (og ++ os)%list
  end.

(* C11-b: writing F leaves every other (bit-disjoint) field's getter result unchanged *)
Definition obs_frame (c : cspec) (size : Z) (f g : fspec) : list ob :=
  if has (fs_set f) && has (fs_get g) && disjoint c f g
     && negb (is_untranslatable (cs_class c) (fs_set f)) && negb (is_untranslatable (cs_class c) (fs_get g)) then
    match gen_set c f, gen_get c g (Var 0%nat (8 * size)) with
    | Some m', Some (rw, r0) =>
      match gen_get c g m' with
      | Some (_, r1) => [{| ob_label := cs_class c ++ " / set " ++ fs_name f ++ " keeps " ++ fs_name g; ob_w := rw; ob_a := r1; ob_b := r0 |}]
      | None => []
      end
    | _, _ => []
    end
  else [].

Definition obs_class (c : cspec) : list ob :=
  match size_of c with
  | None => [failed (cs_class c ++ " / class missing from the generated layout")]
  | Some size =>
    ((if (cs_size c =? 0) || (cs_size c =? size) then [] else [failed (cs_class c ++ " / sizeof differs from the layout table")%string])
    ++ flat_map (obs_field c size) (cs_fields c)
    ++ flat_map (fun f => flat_map (obs_frame c size f) (cs_fields c)) (cs_fields c))%list
  end.

(* layout-only subset (C12): O-get, O-set and sizes *)
Definition is_layout_ob (o : ob) : bool :=
  let l := ob_label o in
  match index 0 "O-get" l, index 0 "O-set" l, index 0 "sizeof" l, index 0 "missing" l, index 0 "located" l with
  | None, None, None, None, None => false
  | _, _, _, _, _ => true
  end.

Definition all_obs : list ob := flat_map obs_class spec_classes.
Definition failing_labels : list string := map ob_label (filter (fun o => negb (check_ob o)) all_obs).

(* ---------- defaults and reserved bytes (C12 / C20) ---------- *)
(* every byte of [off, off+bytes) is covered by generated members whose default initialiser is 0 *)
Definition covered_zero (ms : list (string * Z * Z * option Z)) (off : Z) (bytes : nat) : bool :=
  forallb (fun k => existsb (fun m => let '(_, o, s, d) := m in (o <=? k) && (k <? o + s) && match d with Some 0 => true | _ => false end) ms)
          (map (fun i => off + Z.of_nat i) (seq 0 bytes)).
Definition default_value (ms : list (string * Z * Z * option Z)) (off : Z) (bytes : nat) (v : Z) : bool :=
  existsb (fun m => let '(_, o, s, d) := m in (o =? off) && (s =? Z.of_nat bytes) &&
                    match d with Some x => x =? bswapZ bytes v | None => false end) ms.
Definition defaults_ok (c : cspec) : bool :=
  match record_of (cs_class c) with
  | Some (_, ms) => forallb (fun r => covered_zero ms (fst r) (snd r)) (cs_reserved c)
                    && forallb (fun r => let '(o, b, v) := r in default_value ms o b v) (cs_defaults c)
  | None => false
  end.
(* every byte of a wire class is covered by a data member that has a default member initialiser (for a union: by its initialised
   alternative): a default-constructed header has no indeterminate byte *)
Definition fully_initialised (cls : string) : bool :=
  match record_of cls with
  | Some (size, ms) =>
    forallb (fun k => existsb (fun m => let '(_, o, s, d) := m in (o <=? k) && (k <? o + s) && match d with Some _ => true | None => false end) ms)
            (map Z.of_nat (seq 0 (Z.to_nat size)))
  | None => false
  end.

(* ---------- payload-level wrappers (C11 / C12) ----------
   The typed payload classes expose every Header accessor again (`CanPayload::getId()` ...). The translator lists every method of an
   outer payload class that shares its name with a method of the class' Header record, with the Header method it purely forwards to
   ("" when its body is anything else than `[return] getHeader()->m(params...)`). Each must forward to the Header method of the same
   name - so everything proved about the Header accessors holds for the API the user calls. Two wrappers differ by design:
   CAN-FD's 21-bit CRC is the Header's crcSbc field. *)
Definition wrapper_ok (w : string * string * string) : bool :=
  let '(name, got, want) := w in
  String.eqb got want ||
  (String.eqb name "ASAM::CMP::CanFdPayload::getCrc" && String.eqb got "ASAM::CMP::CanPayloadBase::Header::getCrcSbc") ||
  (String.eqb name "ASAM::CMP::CanFdPayload::setCrc" && String.eqb got "ASAM::CMP::CanPayloadBase::Header::setCrcSbc").
Definition wrappers_ok : bool := forallb wrapper_ok gen_wrappers.
Definition bad_wrappers : list (string * string * string) := filter (fun w => negb (wrapper_ok w)) gen_wrappers.
