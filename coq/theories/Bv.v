(* Deeply embedded bit-vector expressions with C-like semantics, symbolic per-bit evaluation and a reflective
   equivalence checker: check_eq w a b = true implies that a and b agree modulo 2^w under every environment. *)
From Coq Require Import ZArith List Bool Lia.
Import ListNotations.
Local Open Scope Z_scope.
Local Open Scope bool_scope.

Inductive bv :=
| Var (x : nat) (w : Z)
| Cst (c : Z)
| And (a b : bv) | Or (a b : bv) | Xor (a b : bv) | Not (a : bv)
| Shl (a : bv) (n : Z) | Shr (a : bv) (n : Z)
| Trunc (w : Z) (a : bv)
| NonZero (w : Z) (a : bv)         (* 1 iff some bit of a below w is set *)
| Ite (c a b : bv).                (* c is a boolean (bit 0 decides) *)

Definition range (w : Z) : list Z := map Z.of_nat (seq 0 (Z.to_nat w)).

Fixpoint eval (env : nat -> Z) (e : bv) : Z :=
  match e with
  | Var x w => (env x) mod 2 ^ w
  | Cst c => c
  | And a b => Z.land (eval env a) (eval env b)
  | Or a b => Z.lor (eval env a) (eval env b)
  | Xor a b => Z.lxor (eval env a) (eval env b)
  | Not a => Z.lnot (eval env a)
  | Shl a n => Z.shiftl (eval env a) n
  | Shr a n => Z.shiftr (eval env a) n
  | Trunc w a => (eval env a) mod 2 ^ w
  | NonZero w a => if existsb (fun i => Z.testbit (eval env a) i) (range w) then 1 else 0
  | Ite c a b => if Z.testbit (eval env c) 0 then eval env a else eval env b
  end.

Inductive form := FT | FF | FAtom (x : nat) (i : Z) | FNeg (f : form) | FConj (f g : form) | FDisj (f g : form) | FXor (f g : form)
                | FIte (c f g : form).

Fixpoint feval (env : nat -> Z) (f : form) : bool :=
  match f with
  | FT => true | FF => false
  | FAtom x i => Z.testbit (env x) i
  | FNeg f => negb (feval env f)
  | FConj f g => feval env f && feval env g
  | FDisj f g => feval env f || feval env g
  | FXor f g => xorb (feval env f) (feval env g)
  | FIte c f g => if feval env c then feval env f else feval env g
  end.

Fixpoint form_eqb (f g : form) : bool :=
  match f, g with
  | FT, FT | FF, FF => true
  | FAtom x i, FAtom y j => Nat.eqb x y && Z.eqb i j
  | FNeg f, FNeg g => form_eqb f g
  | FConj f1 f2, FConj g1 g2 | FDisj f1 f2, FDisj g1 g2 | FXor f1 f2, FXor g1 g2 => form_eqb f1 g1 && form_eqb f2 g2
  | FIte c1 f1 f2, FIte c2 g1 g2 => form_eqb c1 c2 && form_eqb f1 g1 && form_eqb f2 g2
  | _, _ => false
  end.

Lemma form_eqb_sound f : forall g, form_eqb f g = true -> f = g.
Proof.
  induction f; destruct g; simpl; try discriminate; auto.
  - intros H. apply andb_true_iff in H as [H1 H2]. apply Nat.eqb_eq in H1. apply Z.eqb_eq in H2. congruence.
  - intros H. f_equal. auto.
  - intros H. apply andb_true_iff in H as [H1 H2]. f_equal; auto.
  - intros H. apply andb_true_iff in H as [H1 H2]. f_equal; auto.
  - intros H. apply andb_true_iff in H as [H1 H2]. f_equal; auto.
  - intros H. apply andb_true_iff in H as [H H3]. apply andb_true_iff in H as [H1 H2]. f_equal; auto.
Qed.

(* smart constructors: constant folding + idempotence *)
Definition mkNeg f := match f with FT => FF | FF => FT | FNeg g => g | _ => FNeg f end.
Definition mkConj f g := match f, g with FF, _ | _, FF => FF | FT, h | h, FT => h | _, _ => if form_eqb f g then f else FConj f g end.
Definition mkDisj f g := match f, g with FT, _ | _, FT => FT | FF, h | h, FF => h | _, _ => if form_eqb f g then f else FDisj f g end.
Definition mkXor f g := match f, g with FF, h | h, FF => h | FT, h | h, FT => mkNeg h | _, _ => if form_eqb f g then FF else FXor f g end.
Definition mkIte c f g :=
  match c with
  | FT => f | FF => g
  | _ => if form_eqb f g then f else
         match f, g with
         | FT, FF => c
         | FF, FT => mkNeg c
         | FT, _ => mkDisj c g
         | _, FF => mkConj c f
         | FF, _ => mkConj (mkNeg c) g
         | _, FT => mkDisj (mkNeg c) f
         | _, _ => FIte c f g
         end
  end.

Lemma mkNeg_ok env f : feval env (mkNeg f) = negb (feval env f).
Proof. destruct f; simpl; auto. now rewrite negb_involutive. Qed.
Arguments form_eqb : simpl never.
Ltac solve_mk :=
  try reflexivity;
  try (match goal with |- context [form_eqb ?a ?b] => destruct (form_eqb a b) eqn:E; [apply form_eqb_sound in E; inversion E; subst; simpl | simpl] end);
  repeat match goal with |- context [Z.testbit ?a ?b] => generalize (Z.testbit a b); intro end;
  repeat match goal with |- context [feval ?e ?f] => generalize (feval e f); intro end;
  repeat match goal with b : bool |- _ => destruct b end; try reflexivity.
Lemma mkConj_ok env f g : feval env (mkConj f g) = feval env f && feval env g.
Proof. unfold mkConj. destruct f, g; simpl; solve_mk. Qed.
Lemma mkDisj_ok env f g : feval env (mkDisj f g) = feval env f || feval env g.
Proof. unfold mkDisj. destruct f, g; simpl; solve_mk. Qed.
Lemma mkXor_ok env f g : feval env (mkXor f g) = xorb (feval env f) (feval env g).
Proof. unfold mkXor. destruct f, g; simpl; rewrite ?mkNeg_ok; simpl; solve_mk. Qed.
Lemma mkIte_ok env c f g : feval env (mkIte c f g) = if feval env c then feval env f else feval env g.
Proof.
  unfold mkIte.
  destruct c; try reflexivity;
    (destruct (form_eqb f g) eqn:E;
     [apply form_eqb_sound in E; subst; simpl; match goal with |- _ = if ?b then _ else _ => destruct b end; reflexivity|]);
    destruct f, g; cbv beta iota; rewrite ?mkDisj_ok, ?mkConj_ok, ?mkNeg_ok; cbn [feval];
    repeat match goal with |- context [Z.testbit ?a ?b] => generalize (Z.testbit a b); intro end;
    repeat match goal with |- context [feval ?e ?f] => generalize (feval e f); intro end;
    repeat match goal with b : bool |- _ => destruct b end; reflexivity.
Qed.

Fixpoint bit (e : bv) (i : Z) : form :=
  match e with
  | Var x w => if i <? w then FAtom x i else FF
  | Cst c => if Z.testbit c i then FT else FF
  | And a b => mkConj (bit a i) (bit b i)
  | Or a b => mkDisj (bit a i) (bit b i)
  | Xor a b => mkXor (bit a i) (bit b i)
  | Not a => mkNeg (bit a i)
  | Shl a n => if i <? n then FF else bit a (i - n)
  | Shr a n => bit a (i + n)
  | Trunc w a => if i <? w then bit a i else FF
  | NonZero w a => if i =? 0 then fold_right (fun j acc => mkDisj (bit a j) acc) FF (range w) else FF
  | Ite c a b => mkIte (bit c 0) (bit a i) (bit b i)
  end.

Fixpoint wf (e : bv) : bool :=
  match e with
  | Var _ w => 0 <=? w
  | Cst _ => true
  | And a b | Or a b | Xor a b => wf a && wf b
  | Not a => wf a
  | Shl a n | Shr a n => (0 <=? n) && wf a
  | Trunc w a => (0 <=? w) && wf a
  | NonZero w a => (0 <=? w) && wf a
  | Ite c a b => wf c && wf a && wf b
  end.

Lemma range_nonneg w j : In j (range w) -> 0 <= j.
Proof. unfold range. intros H. apply in_map_iff in H as (k & <- & _). lia. Qed.

Lemma fold_disj_ok env (g : Z -> form) (l : list Z) :
  feval env (fold_right (fun j acc => mkDisj (g j) acc) FF l) = existsb (fun j => feval env (g j)) l.
Proof. induction l as [|j l IH]; simpl; auto. rewrite mkDisj_ok, IH. reflexivity. Qed.

Lemma existsb_ext_in {A} (f g : A -> bool) l : (forall x, In x l -> f x = g x) -> existsb f l = existsb g l.
Proof. induction l as [|x l IH]; simpl; intros H; auto. rewrite H by (left; reflexivity). rewrite IH; auto. Qed.

Lemma testbit_bool01 (b : bool) i : 0 <= i -> Z.testbit (if b then 1 else 0) i = (i =? 0) && b.
Proof.
  intros Hi. destruct b.
  - destruct (Z.eqb_spec i 0) as [->|Hn]; [reflexivity|]. simpl. apply Z.bits_above_log2; simpl; lia.
  - rewrite Z.bits_0. now rewrite andb_false_r.
Qed.

Lemma bit_sound env e : wf e = true -> forall i, 0 <= i -> Z.testbit (eval env e) i = feval env (bit e i).
Proof.
  induction e; simpl; intros Hwf i Hi.
  - apply Z.leb_le in Hwf. rewrite Z.testbit_mod_pow2 by assumption.
    destruct (i <? w); simpl; auto.
  - destruct (Z.testbit c i); auto.
  - apply andb_true_iff in Hwf as [H1 H2]. rewrite Z.land_spec, mkConj_ok, IHe1, IHe2; auto.
  - apply andb_true_iff in Hwf as [H1 H2]. rewrite Z.lor_spec, mkDisj_ok, IHe1, IHe2; auto.
  - apply andb_true_iff in Hwf as [H1 H2]. rewrite Z.lxor_spec, mkXor_ok, IHe1, IHe2; auto.
  - rewrite Z.lnot_spec, mkNeg_ok, IHe; auto.
  - apply andb_true_iff in Hwf as [H1 H2]. apply Z.leb_le in H1.
    destruct (Z.ltb_spec i n).
    + rewrite Z.shiftl_spec_low; auto.
    + rewrite Z.shiftl_spec by assumption. apply IHe; auto. lia.
  - apply andb_true_iff in Hwf as [H1 H2]. apply Z.leb_le in H1.
    rewrite Z.shiftr_spec by assumption. apply IHe; auto. lia.
  - apply andb_true_iff in Hwf as [H1 H2]. apply Z.leb_le in H1.
    rewrite Z.testbit_mod_pow2 by assumption.
    destruct (i <? w); simpl; auto.
  - apply andb_true_iff in Hwf as [H1 H2].
    rewrite testbit_bool01 by assumption.
    destruct (i =? 0); simpl; [|reflexivity].
    rewrite (fold_disj_ok env (fun j => bit e j)).
    apply existsb_ext_in. intros j Hj. apply IHe; auto. eapply range_nonneg; eauto.
  - apply andb_true_iff in Hwf as [H H3]. apply andb_true_iff in H as [H1 H2].
    rewrite mkIte_ok. rewrite <- (IHe1 H1 0) by lia.
    change (Z.testbit (eval env e1) 0) with (Z.odd (eval env e1)).
    destruct (Z.odd (eval env e1)); auto.
Qed.

Definition check_eq (w : Z) (a b : bv) : bool :=
  wf a && wf b && forallb (fun i => form_eqb (bit a i) (bit b i)) (range w).

Lemma in_range w i : 0 <= i < w -> In i (range w).
Proof.
  intros H. unfold range. apply in_map_iff. exists (Z.to_nat i). split; [lia|].
  apply in_seq. lia.
Qed.

Theorem check_eq_sound w a b : 0 <= w -> check_eq w a b = true ->
  forall env, (eval env a) mod 2 ^ w = (eval env b) mod 2 ^ w.
Proof.
  intros Hw H env. unfold check_eq in H.
  apply andb_true_iff in H as [H H3]. apply andb_true_iff in H as [H1 H2].
  apply Z.bits_inj'. intros i Hi.
  rewrite !Z.testbit_mod_pow2 by assumption.
  destruct (Z.ltb_spec i w); simpl; auto.
  rewrite forallb_forall in H3. specialize (H3 i (in_range w i (conj Hi H))).
  apply form_eqb_sound in H3.
  rewrite !bit_sound by assumption. now rewrite H3.
Qed.

(* first bit on which two expressions differ syntactically, with the two formulas: the witness printed when an obligation fails *)
Definition first_diff (w : Z) (a b : bv) : option (Z * form * form) :=
  match find (fun i => negb (form_eqb (bit a i) (bit b i))) (range w) with
  | Some i => Some (i, bit a i, bit b i)
  | None => None
  end.

(* substitution of a constant for a variable (used to specialise flag accessors to one enumerator) *)
Fixpoint subst (x : nat) (c : Z) (e : bv) : bv :=
  match e with
  | Var y w => if Nat.eqb x y then Cst (c mod 2 ^ w) else e
  | Cst _ => e
  | And a b => And (subst x c a) (subst x c b)
  | Or a b => Or (subst x c a) (subst x c b)
  | Xor a b => Xor (subst x c a) (subst x c b)
  | Not a => Not (subst x c a)
  | Shl a n => Shl (subst x c a) n
  | Shr a n => Shr (subst x c a) n
  | Trunc w a => Trunc w (subst x c a)
  | NonZero w a => NonZero w (subst x c a)
  | Ite a b d => Ite (subst x c a) (subst x c b) (subst x c d)
  end.

Lemma subst_sound env x c e : eval env (subst x c e) = eval (fun y => if Nat.eqb x y then c else env y) e.
Proof.
  induction e; simpl; try congruence.
  - destruct (Nat.eqb x x0); reflexivity.
  - rewrite IHe. reflexivity.
  - rewrite IHe1, IHe2, IHe3. reflexivity.
Qed.

(* byte reversal of an n-byte value *)
Fixpoint bswap_aux (n k : nat) (e : bv) : bv :=
  match k with
  | O => Cst 0
  | S k' => Or (Shl (And (Shr e (8 * Z.of_nat k')) (Cst 255)) (8 * (Z.of_nat n - 1 - Z.of_nat k'))) (bswap_aux n k' e)
  end.
Definition bswap (n : nat) (e : bv) : bv := bswap_aux n n e.
