(* Tie T2: the payload validators and the message-level validity check, as translated from /repo on this run, against the model. Every
   theorem is proved by the same generic tactic (CodeBridge.t2_solve: symbolic execution of the translated body, case split on each
   condition it meets, linear arithmetic), so that a behaviour-preserving rewrite of the C++ is re-proved without touching this file.
   A translated body is `Some c`; a function that no longer exists in the sources is `None` and has nothing to be shown. *)
From Coq Require Import ZArith List String Bool Lia.
Require Import CMP.Bytes CMP.Bv CMP.Refine CMP.Packet CMP.Tecmp CMP.Cir CMPGen.GenAccessors CMPGen.GenCode CMP.CodeBridge.
Import ListNotations.
Local Open Scope Z_scope.
Local Open Scope bool_scope.

Theorem code_lin d c : bytes_ok d -> zlen d < 2 ^ 64 -> code_LinPayload_isValidPayload = Some c ->
  ceval gen_reads d (penv d) c = Ok (b2z (valid_lin d)).
Proof. intros Hd Hn. t2_open code_LinPayload_isValidPayload; (rewrite valid_lin_alt; unfold penv; t2_solve Hd). Qed.

Theorem code_valid_packet d c : bytes_ok d -> zlen d < 2 ^ 64 -> code_Packet_isValidPacket = Some c ->
  ceval gen_reads d (penv d) c = Ok (b2z (valid_packet d (zlen d))).
Proof. intros Hd Hn. t2_open code_Packet_isValidPacket; (rewrite valid_packet_alt; unfold penv; t2_solve Hd). Qed.

Theorem code_can d c : bytes_ok d -> zlen d < 2 ^ 64 -> code_CanPayloadBase_isValidPayload = Some c ->
  ceval gen_reads d (penv d) c = Ok (b2z (valid_can d)).
Proof. intros Hd Hn. t2_open code_CanPayloadBase_isValidPayload; (rewrite valid_can_alt; unfold penv; t2_solve Hd). Qed.

Theorem code_eth d c : bytes_ok d -> zlen d < 2 ^ 64 -> code_EthernetPayload_isValidPayload = Some c ->
  ceval gen_reads d (penv d) c = Ok (b2z (valid_eth d)).
Proof. intros Hd Hn. t2_open code_EthernetPayload_isValidPayload; (rewrite valid_eth_alt; unfold penv; t2_solve Hd). Qed.

Theorem code_analog d c : bytes_ok d -> zlen d < 2 ^ 64 -> code_AnalogPayload_isValidPayload = Some c ->
  ceval gen_reads d (penv d) c = Ok (b2z (valid_analog d)).
Proof. intros Hd Hn. t2_open code_AnalogPayload_isValidPayload; (rewrite valid_analog_alt by assumption; unfold penv; t2_solve Hd). Qed.

Theorem code_if d c : bytes_ok d -> zlen d < 2 ^ 64 -> code_InterfacePayload_isValidPayload = Some c ->
  ceval gen_reads d (penv d) c = Ok (b2z (valid_if d)).
Proof. intros Hd Hn. t2_open code_InterfacePayload_isValidPayload; (rewrite valid_if_alt; unfold penv; t2_solve Hd). Qed.

Theorem code_cm d c : bytes_ok d -> zlen d < 2 ^ 64 -> code_CaptureModulePayload_isValidPayload = Some c ->
  ceval gen_reads d (penv d) c = Ok (b2z (valid_cm d)).
Proof. intros Hd Hn. t2_open code_CaptureModulePayload_isValidPayload; (unfold valid_cm, penv; cbn [walk]; t2_solve Hd). Qed.

(* the translated validator of each typed payload kind (Packet::create's dispatch: 1 CAN, 2 CAN-FD, 3 LIN, 7 analog, 8 Ethernet,
   49 capture-module status, 50 interface status) *)
Definition code_of_kind (k : Z) : option cexp :=
  if k =? 1 then code_CanPayloadBase_isValidPayload else if k =? 2 then code_CanPayloadBase_isValidPayload
  else if k =? 3 then code_LinPayload_isValidPayload else if k =? 7 then code_AnalogPayload_isValidPayload
  else if k =? 8 then code_EthernetPayload_isValidPayload else if k =? 49 then code_CaptureModulePayload_isValidPayload
  else if k =? 50 then code_InterfacePayload_isValidPayload else None.

Theorem code_validator_refines d k c : bytes_ok d -> zlen d < 2 ^ 64 -> code_of_kind k = Some c ->
  ceval gen_reads d (penv d) c = Ok (b2z (valid_kind k d)).
Proof.
  intros Hd Hn. unfold code_of_kind, valid_kind.
  destruct (k =? 1); [apply code_can; assumption|].
  destruct (k =? 2); [apply code_can; assumption|].
  destruct (k =? 3); [apply code_lin; assumption|].
  destruct (k =? 7); [apply code_analog; assumption|].
  destruct (k =? 8); [apply code_eth; assumption|].
  destruct (k =? 49); [apply code_cm; assumption|].
  destruct (k =? 50); [apply code_if; assumption|].
  discriminate.
Qed.

Definition validator_names : list string :=
  ["ASAM::CMP::Packet::isValidPacket"; "ASAM::CMP::CanPayloadBase::isValidPayload"; "ASAM::CMP::LinPayload::isValidPayload";
   "ASAM::CMP::EthernetPayload::isValidPayload"; "ASAM::CMP::AnalogPayload::isValidPayload";
   "ASAM::CMP::CaptureModulePayload::isValidPayload"; "ASAM::CMP::InterfacePayload::isValidPayload"]%string.
