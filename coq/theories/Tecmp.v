(* TECMP decoding and conversion to ASAM CMP packets: model of src/tecmp_decoder.cpp, src/tecmp_converter.cpp
   and the TECMP payload classes (after the repairs). Every read of the input goes through a checked read;
   Oob means the model read outside the buffer. *)
Require Import CMP.Bytes CMP.Packet.
Local Open Scope Z_scope.
Local Open Scope bool_scope.

Inductive res (A : Type) := Ok (a : A) | Oob | Fuel.
Arguments Ok {A} a. Arguments Oob {A}. Arguments Fuel {A}.
Definition rbind {A B} (r : res A) (f : A -> res B) : res B := match r with Ok a => f a | Oob => Oob | Fuel => Fuel end.
Definition of_opt {A} (o : option A) : res A := match o with Some a => Ok a | None => Oob end.
Notation "'dor' x <- r ; k" := (rbind r (fun x => k)) (at level 200, x name, r at level 100, k at level 200).

(* checked slice *)
Definition rds (l : list Z) (off n : Z) : option (list Z) :=
  if (0 <=? off) && (0 <=? n) && (off + n <=? zlen l) then Some (take n (drop off l)) else None.

(* decimal rendering of a non-negative number (std::to_string) as ASCII codes *)
Fixpoint dec_digits (fuel : nat) (n : Z) (acc : list Z) : list Z :=
  match fuel with
  | O => acc
  | S k => let acc' := (48 + n mod 10) :: acc in if n / 10 =? 0 then acc' else dec_digits k (n / 10) acc'
  end.
Definition dec_str (n : Z) : list Z := dec_digits 20 n [].

Definition encode_dlc (n : Z) : Z :=
  if n <=? 8 then n else
  if n =? 12 then 9 else if n =? 16 then 10 else if n =? 20 then 11 else if n =? 24 then 12
  else if n =? 32 then 13 else if n =? 48 then 14 else if n =? 64 then 15 else 0.

(* CaptureModulePayload::fillWithString *)
Definition cm_string (s : list Z) : list Z :=
  let l := zlen s + 1 in let l' := l + l mod 2 in
  be_enc 2 (l' mod 65536) ++ s ++ zeros (l' - zlen s).

Definition tecmp_packet (dev ts ifid : Z) (pl : payload) : packet :=
  {| p_pl := Some pl; p_ver := 1; p_dev := dev; p_stream := 0; p_seq := 0; p_ts := ts;
     p_ifid := ifid; p_vendor := 0; p_flags := 0; p_seg := 0 |}.

Definition V := 118. Definition DOT := 46.

(* bus status entries at 12, 24, ... while a whole 12-byte entry fits *)
Fixpoint bus_entries (fuel : nat) (pd : list Z) (psize off : Z) (dev ts : Z) : res (list packet) :=
  match fuel with
  | O => Fuel
  | S k =>
    if off + 12 <=? psize then
      dor e <- of_opt (rds pd off 12);
      let ifid := be_dec (take 4 e) in
      let body := be_enc 4 ifid ++ be_enc 4 (be_dec (take 4 (drop 4 e))) ++ zeros 12 ++ be_enc 4 (be_dec (take 4 (drop 8 e))) ++ zeros 16 in
      dor rest <- bus_entries k pd psize (off + 12) dev ts;
      Ok (tecmp_packet dev ts ifid {| pl_type := 770; pl_data := body |} :: rest)
    else Ok []
  end.

Definition tecmp_decode (buf : list Z) : res (list packet) :=
  let size := zlen buf in
  if size <? 28 then Ok [] else
  dor hd <- of_opt (rds buf 0 28);
  let plen := u16 hd 24 in
  if plen =? 0 then Ok [] else
  if size <? 28 + plen then Ok [] else
  let mt := u8 hd 5 in
  if (mt =? 255) || (u8 hd 6 + 256 * u8 hd 7 =? 255) then Ok [] else
  let dev := u8 hd 1 in let ts := u64 hd 16 in let ifid := u32 hd 12 in
  let dt := u16 hd 6 in
  let psize := size - 28 in
  let pd := drop 28 buf in
  if mt =? 1 then
    if psize <? 36 then Ok [] else
    dor h <- of_opt (rds pd 0 36);
    let serial := u32 h 8 in
    let sw := [V] ++ dec_str (u8 h 13) ++ [DOT] ++ dec_str (u8 h 14) ++ [DOT] ++ dec_str (u8 h 15) in
    let hw := [V] ++ dec_str (u8 h 16) ++ [DOT] ++ dec_str (u8 h 17) in
    let body := zeros 26 ++ cm_string [] ++ cm_string (dec_str serial) ++ cm_string hw ++ cm_string sw ++ [0; 0] in
    Ok [tecmp_packet dev ts ifid {| pl_type := 769; pl_data := body |}]
  else if mt =? 2 then
    if psize <? 12 then Ok [] else
    dor g <- of_opt (rds pd 0 12);
    bus_entries (S (Z.to_nat (psize / 12))) pd psize 12 dev ts
  else if mt =? 3 then
    if (dt =? 2) || (dt =? 3) then
      if psize <? 5 then Ok [] else
      dor h <- of_opt (rds pd 0 5);
      let dlc := u8 h 4 in let arb := u32 h 0 in
      if psize - 5 <? dlc then Ok [] else
      dor data <- of_opt (rds pd 5 dlc);
      dor crc <- (if psize <? 5 + dlc + 3 then Ok 0 else dor c <- of_opt (rds pd (5 + dlc) 3); Ok (le_dec c));
      if 8 <? dlc then
        let body := [0;0;0;0] ++ be_enc 4 arb ++ be_enc 4 crc ++ [0;0] ++ [encode_dlc dlc; dlc] ++ data in
        Ok [tecmp_packet dev ts ifid {| pl_type := 258; pl_data := body |}]
      else
        let body := [0;0;0;0] ++ be_enc 4 arb ++ be_enc 4 (crc mod 65536) ++ [0;0] ++ [encode_dlc dlc; dlc] ++ data in
        Ok [tecmp_packet dev ts ifid {| pl_type := 257; pl_data := body |}]
    else if dt =? 4 then
      if psize <? 2 then Ok [] else
      dor h <- of_opt (rds pd 0 2);
      let pid := u8 h 0 in let len := u8 h 1 in
      if psize - 2 <? len then Ok [] else
      dor data <- of_opt (rds pd 2 len);
      dor crc <- (if psize <=? 2 + len then Ok 0 else dor c <- of_opt (rds pd (2 + len) 1); Ok (u8 c 0));
      let body := [0;0;0;0] ++ [Z.land pid 63; 0; crc; len] ++ data in
      Ok [tecmp_packet dev ts ifid {| pl_type := 259; pl_data := body |}]
    else Ok []
  else Ok [].
