(* Tie T2, bridge lemmas and the generic proof tactic: the C++ bodies of the guard functions, as re-translated from /repo on this run (gen/GenCode.v), evaluated with the
   checked semantics of Cir.v, never read outside the buffer and return what the hand-written models of Packet.v / Decoder.v / Encoder.v
   return - for every buffer and size. Accessor calls inside those bodies are bridged reflectively: the bit-vector model of the accessor
   (tie T) applied to the memory image made of the buffer's bytes is compared by Bv.check_eq with a byte-level expression. *)
From Coq Require Import ZArith List String Bool Lia.
Require Import CMP.Bytes CMP.Bv CMP.Refine CMP.Packet CMP.Tecmp CMP.Cir CMPGen.GenAccessors CMPGen.GenCode.
Import ListNotations.
Local Open Scope Z_scope.
Local Open Scope bool_scope.

(* ---------- arithmetic facts ---------- *)
Lemma land_small_shifted b X k : 0 <= k -> 0 <= b < 2 ^ k -> Z.land b (X * 2 ^ k) = 0.
Proof.
  intros Hk Hb. apply Z.bits_inj'. intros i Hi. rewrite Z.land_spec, Z.bits_0.
  destruct (Z.ltb_spec i k) as [L|G].
  - rewrite Z.mul_pow2_bits_low by lia. apply andb_false_r.
  - destruct (Z.eq_dec b 0) as [->|Hn]; [now rewrite Z.bits_0|].
    rewrite (Z.bits_above_log2 b i); [reflexivity|lia|].
    apply Z.log2_lt_pow2; [lia|]. apply Z.lt_le_trans with (2 ^ k); [lia|]. apply Z.pow_le_mono_r; lia.
Qed.
Lemma lor_shiftl_add b X k : 0 <= k -> 0 <= b < 2 ^ k -> Z.lor b (Z.shiftl X k) = b + X * 2 ^ k.
Proof.
  intros Hk Hb. rewrite Z.shiftl_mul_pow2 by lia.
  pose proof (land_small_shifted b X k Hk Hb) as E.
  rewrite <- Z.lxor_lor by exact E. symmetry. apply Z.add_nocarry_lxor. exact E.
Qed.

Lemma eval_ext e : forall env1 env2, (forall x, env1 x = env2 x) -> eval env1 e = eval env2 e.
Proof.
  induction e; intros env1 env2 H; simpl; try reflexivity;
    try (rewrite (IHe1 env1 env2 H), (IHe2 env1 env2 H); reflexivity);
    try (rewrite (IHe env1 env2 H); reflexivity).
  - now rewrite H.
  - rewrite (IHe1 env1 env2 H), (IHe2 env1 env2 H), (IHe3 env1 env2 H). reflexivity.
Qed.

(* ---------- the memory image of n buffer bytes as a bit-vector term over byte variables 10+i ---------- *)
Fixpoint Mbv (i k : nat) : bv :=
  match k with O => Cst 0 | S k' => Or (Var (10 + i) 8) (Shl (Mbv (S i) k') 8) end.

Lemma le_dec_nonneg l : bytes_ok l -> 0 <= le_dec l.
Proof. induction 1 as [|b t Hb Ht IH]; cbn [le_dec]; [lia|]. unfold byte_ok in Hb. lia. Qed.

Lemma eval_Mbv env k : forall i, (forall j, byte_ok (env (10 + j)%nat)) ->
  eval env (Mbv i k) = le_dec (map (fun j => env (10 + i + j)%nat) (seq 0 k)).
Proof.
  induction k as [|k IH]; intros i Hb; [reflexivity|].
  cbn [Mbv eval seq map le_dec].
  rewrite (IH (S i) Hb).
  rewrite <- seq_shift, map_map.
  assert (E : map (fun x : nat => env (10 + S i + x)%nat) (seq 0 k) = map (fun x => env (10 + i + S x)%nat) (seq 0 k)).
  { apply map_ext. intros a. f_equal. lia. }
  rewrite E.
  pose proof (Hb i) as B. unfold byte_ok in B.
  rewrite Z.mod_small by (change (2 ^ 8) with 256; lia).
  rewrite lor_shiftl_add by (change (2 ^ 8) with 256; lia).
  change (2 ^ 8) with 256. replace (10 + i + 0)%nat with (10 + i)%nat by lia. lia.
Qed.

Lemma eval_Mbv_ext env1 env2 k : forall i, (forall j, env1 (10 + j)%nat = env2 (10 + j)%nat) ->
  eval env1 (Mbv i k) = eval env2 (Mbv i k).
Proof.
  induction k as [|k IH]; intros i H; [reflexivity|].
  cbn [Mbv eval]. rewrite (IH (S i) H), (H i). reflexivity.
Qed.

Lemma nth_byte_ok d i : bytes_ok d -> byte_ok (nth i d 0).
Proof.
  intros H. destruct (Nat.ltb_spec i (length d)) as [L|G].
  - unfold bytes_ok in H. rewrite Forall_forall in H. apply H. now apply nth_In.
  - rewrite nth_overflow by lia. unfold byte_ok. lia.
Qed.
Lemma benv_byte_ok d off j : bytes_ok d -> byte_ok (benv d off (10 + j)%nat).
Proof. intros H. unfold benv. simpl. apply nth_byte_ok. exact H. Qed.

Lemma firstn_skipn_nth (d : list Z) : forall (o k : nat), (o + k <= length d)%nat ->
  firstn k (skipn o d) = map (fun j => nth (o + j) d 0) (seq 0 k).
Proof.
  intros o k. revert o. induction k as [|k IH]; intros o H; [reflexivity|].
  cbn [seq map]. rewrite <- seq_shift, map_map.
  destruct (skipn o d) as [|x t] eqn:E.
  { assert (length (skipn o d) = 0%nat) by now rewrite E. rewrite skipn_length in H0. lia. }
  cbn [firstn]. f_equal.
  - replace (o + 0)%nat with o by lia.
    assert (G : nth o d 0 = nth 0 (skipn o d) 0).
    { rewrite <- (firstn_skipn o d) at 1. rewrite app_nth2; rewrite firstn_length; [|lia]. f_equal. lia. }
    rewrite G, E. reflexivity.
  - assert (T : t = skipn (S o) d).
    { replace (S o) with (o + 1)%nat by lia. rewrite <- skipn_skipn'. now rewrite E. }
    rewrite T, (IH (S o)) by lia. apply map_ext. intros a. f_equal. lia.
Qed.

Lemma image_as_bv d off n : bytes_ok d -> 0 <= off -> 0 <= n -> off + n <= zlen d ->
  le_dec (take n (drop off d)) = eval (benv d off) (Mbv 0 (Z.to_nat n)).
Proof.
  intros Hd Ho Hn Hl. rewrite eval_Mbv by (intros j; now apply benv_byte_ok).
  unfold take, drop. rewrite firstn_skipn_nth by (unfold zlen in Hl; lia).
  f_equal. apply map_ext. intros a. unfold benv. cbn [Nat.ltb Nat.leb Nat.add]. f_equal. lia.
Qed.

(* ---------- the reflective bridge for accessor calls ---------- *)
Definition ext_in_object (size : Z) (ext : list (Z * Z)) : bool :=
  forallb (fun os => (0 <=? fst os) && (0 <=? snd os) && (fst os + snd os <=? size)) ext.

Lemma acc_eval_checked rds d name mm ext w r off a1 a2 sb :
  kassoc name gen_methods = Some mm -> kassoc name rds = Some ext -> mm_ret mm = Some (w, r) -> mm_mem mm = None ->
  bytes_ok d -> 0 <= off -> 0 <= mm_size mm -> off + mm_size mm <= zlen d -> 0 <= w ->
  ext_in_object (mm_size mm) ext = true ->
  check_eq w (subst 2 a2 (subst 1 a1 (subst_e 0 (Mbv 0 (Z.to_nat (mm_size mm))) r))) sb = true ->
  acc_eval rds d name off a1 a2 = Ok (eval (benv d off) sb mod 2 ^ w).
Proof.
  intros Hm Hr Hret Hmem Hd Ho Hs Hl Hw Hext Hchk.
  unfold acc_eval. rewrite Hm, Hr, Hret, Hmem.
  assert (Hin : (0 <=? off) && forallb (fun os => (0 <=? fst os) && (0 <=? snd os) && (off + fst os + snd os <=? zlen d)) ext = true).
  { apply andb_true_iff. split; [apply Z.leb_le; exact Ho|].
    unfold ext_in_object in Hext. rewrite forallb_forall in *. intros os Hos. specialize (Hext os Hos).
    apply andb_true_iff in Hext as [Hx H3]. apply andb_true_iff in Hx as [H1 H2].
    apply Z.leb_le in H1, H2, H3. rewrite !andb_true_iff. repeat split; apply Z.leb_le; lia. }
  rewrite Hin. f_equal.
  pose proof (check_eq_sound w _ _ Hw Hchk (benv d off)) as E. rewrite <- E. f_equal.
  rewrite !subst_sound, subst_e_sound. apply eval_ext. intros x.
  unfold acc_env.
  destruct x as [|[|[|x]]]; cbn [Nat.eqb]; try reflexivity.
  rewrite (image_as_bv d off (mm_size mm)) by assumption.
  apply eval_Mbv_ext. intros j. reflexivity.
Qed.

(* ---------- values of the byte-level expressions ---------- *)
Definition B (i : nat) : bv := Var (10 + i) 8.
Definition BE2 (i : nat) : bv := Or (Shl (B i) 8) (B (S i)).
Definition LE2 (i : nat) : bv := Or (B i) (Shl (B (S i)) 8).

Lemma byte_mod b w : byte_ok b -> 8 <= w -> b mod 2 ^ w = b.
Proof. intros H Hw. unfold byte_ok in H. apply Z.mod_small. split; [lia|]. apply Z.lt_le_trans with (2 ^ 8); [change (2 ^ 8) with 256; lia|]. apply Z.pow_le_mono_r; lia. Qed.
Lemma be2_val a b : byte_ok a -> byte_ok b -> Z.lor (Z.shiftl a 8) b = a * 256 + b.
Proof. intros Ha Hb. unfold byte_ok in *. rewrite Z.lor_comm, lor_shiftl_add by (change (2 ^ 8) with 256; lia). change (2 ^ 8) with 256. lia. Qed.
Lemma le2_val a b : byte_ok a -> byte_ok b -> Z.lor a (Z.shiftl b 8) = a + b * 256.
Proof. intros Ha Hb. unfold byte_ok in *. rewrite lor_shiftl_add by (change (2 ^ 8) with 256; lia). change (2 ^ 8) with 256. lia. Qed.

Definition nb (d : list Z) (off : Z) (i : nat) : Z := nth (Z.to_nat off + i) d 0.
Lemma nb_ok d off i : bytes_ok d -> byte_ok (nb d off i).
Proof. intros. apply nth_byte_ok. assumption. Qed.
Lemma benv_at d off i : benv d off (10 + i)%nat = nb d off i.
Proof. unfold benv, nb. destruct (Nat.ltb_spec (10 + i) 10) as [L|G]; [lia|]. f_equal. lia. Qed.
Lemma eval_B d off i : bytes_ok d -> eval (benv d off) (B i) = nb d off i.
Proof. intros H. unfold B. cbn [eval]. rewrite benv_at. apply byte_mod; [apply nb_ok; assumption|lia]. Qed.
Lemma eval_BE2 d off i : bytes_ok d -> eval (benv d off) (BE2 i) = nb d off i * 256 + nb d off (S i).
Proof. intros H. unfold BE2. cbn [eval]. rewrite !eval_B by assumption. apply be2_val; apply nb_ok; assumption. Qed.
Lemma eval_LE2 d off i : bytes_ok d -> eval (benv d off) (LE2 i) = nb d off i + nb d off (S i) * 256.
Proof. intros H. unfold LE2. cbn [eval]. rewrite !eval_B by assumption. apply le2_val; apply nb_ok; assumption. Qed.

(* side conditions of acc_eval_checked that are closed computations *)
Ltac acc_side := first [ assumption | vm_compute; reflexivity | lia | (vm_compute; intro; discriminate) ].
Ltac acc_bridge sb :=
  erewrite (acc_eval_checked gen_reads _ _ _ _ _ _ _ _ _ sb);
  [ | vm_compute; reflexivity | vm_compute; reflexivity | reflexivity | reflexivity | assumption | lia | vm_compute; intro; discriminate
    | cbn [mm_size]; lia | vm_compute; intro; discriminate | vm_compute; reflexivity | vm_compute; reflexivity ].

Lemma acc_lin_dl d off : bytes_ok d -> 0 <= off -> off + 8 <= zlen d ->
  acc_eval gen_reads d "ASAM::CMP::LinPayload::Header::getDataLength" off 0 0 = Ok (nb d off 7).
Proof.
  intros Hd Ho Hl. acc_bridge (B 7). rewrite eval_B by assumption. f_equal. apply byte_mod; [apply nb_ok; assumption|lia].
Qed.

Ltac byte_small := match goal with |- ?x mod _ = ?x => apply Z.mod_small end.
Lemma two_bytes_range a b : byte_ok a -> byte_ok b -> 0 <= a * 256 + b < 65536.
Proof. unfold byte_ok. lia. Qed.

Lemma byte_sweep (P : Z -> bool) : forallb P (map Z.of_nat (seq 0 256)) = true -> forall b, byte_ok b -> P b = true.
Proof.
  intros G b Hb. rewrite forallb_forall in G. apply G. apply in_map_iff. exists (Z.to_nat b). unfold byte_ok in Hb.
  split; [lia|apply in_seq; lia].
Qed.

Lemma acc_mh_plen d off : bytes_ok d -> 0 <= off -> off + 16 <= zlen d ->
  acc_eval gen_reads d "ASAM::CMP::MessageHeader::getPayloadLength" off 0 0 = Ok (nb d off 14 * 256 + nb d off 15).
Proof.
  intros Hd Ho Hl. acc_bridge (BE2 14). rewrite eval_BE2 by assumption. f_equal.
  pose proof (two_bytes_range _ _ (nb_ok d off 14 Hd) (nb_ok d off 15 Hd)). apply Z.mod_small. change (2 ^ 16) with 65536. lia.
Qed.
Lemma acc_mh_ptype d off : bytes_ok d -> 0 <= off -> off + 16 <= zlen d ->
  acc_eval gen_reads d "ASAM::CMP::MessageHeader::getPayloadType" off 0 0 = Ok (nb d off 13).
Proof. intros Hd Ho Hl. acc_bridge (B 13). rewrite eval_B by assumption. f_equal. apply byte_mod; [apply nb_ok; assumption|lia]. Qed.
Lemma acc_mh_errflag d off : bytes_ok d -> 0 <= off -> off + 16 <= zlen d ->
  acc_eval gen_reads d "ASAM::CMP::MessageHeader::getCommonFlag" off 64 0 = Ok (b2z (negb (Z.land (nb d off 12) 64 =? 0))).
Proof.
  intros Hd Ho Hl. acc_bridge (Trunc 1 (Shr (B 12) 6)). cbn [eval]. rewrite eval_B by assumption. f_equal.
  apply Z.eqb_eq. apply (byte_sweep (fun b => (Z.shiftr b 6) mod 2 ^ 1 mod 2 ^ 1 =? b2z (negb (Z.land b 64 =? 0)))); [vm_compute; reflexivity|].
  apply nb_ok; assumption.
Qed.
Lemma acc_mh_seg d off : bytes_ok d -> 0 <= off -> off + 16 <= zlen d ->
  acc_eval gen_reads d "ASAM::CMP::MessageHeader::getSegmentType" off 0 0 = Ok (Z.land (nb d off 12) 12).
Proof.
  intros Hd Ho Hl. acc_bridge (And (B 12) (Cst 12)). cbn [eval]. rewrite eval_B by assumption. f_equal.
  apply Z.eqb_eq. apply (byte_sweep (fun b => Z.land b 12 mod 2 ^ 8 =? Z.land b 12)); [vm_compute; reflexivity|].
  apply nb_ok; assumption.
Qed.
Lemma acc_can_dl d off : bytes_ok d -> 0 <= off -> off + 16 <= zlen d ->
  acc_eval gen_reads d "ASAM::CMP::CanPayloadBase::Header::getDataLength" off 0 0 = Ok (nb d off 15).
Proof. intros Hd Ho Hl. acc_bridge (B 15). rewrite eval_B by assumption. f_equal. apply byte_mod; [apply nb_ok; assumption|lia]. Qed.
Lemma acc_if_status d off : bytes_ok d -> 0 <= off -> off + 36 <= zlen d ->
  acc_eval gen_reads d "ASAM::CMP::InterfacePayload::Header::getInterfaceStatus" off 0 0 = Ok (nb d off 29).
Proof. intros Hd Ho Hl. acc_bridge (B 29). rewrite eval_B by assumption. f_equal. apply byte_mod; [apply nb_ok; assumption|lia]. Qed.
Lemma acc_eth_flags d off : bytes_ok d -> 0 <= off -> off + 6 <= zlen d ->
  acc_eval gen_reads d "ASAM::CMP::EthernetPayload::Header::getFlags" off 0 0 = Ok (nb d off 0 * 256 + nb d off 1).
Proof.
  intros Hd Ho Hl. acc_bridge (BE2 0). rewrite eval_BE2 by assumption. f_equal.
  pose proof (two_bytes_range _ _ (nb_ok d off 0 Hd) (nb_ok d off 1 Hd)). apply Z.mod_small. change (2 ^ 16) with 65536. lia.
Qed.
Lemma acc_eth_dl d off : bytes_ok d -> 0 <= off -> off + 6 <= zlen d ->
  acc_eval gen_reads d "ASAM::CMP::EthernetPayload::Header::getDataLength" off 0 0 = Ok (nb d off 4 * 256 + nb d off 5).
Proof.
  intros Hd Ho Hl. acc_bridge (BE2 4). rewrite eval_BE2 by assumption. f_equal.
  pose proof (two_bytes_range _ _ (nb_ok d off 4 Hd) (nb_ok d off 5 Hd)). apply Z.mod_small. change (2 ^ 16) with 65536. lia.
Qed.

(* ---------- the hand model's reads, in the same vocabulary ---------- *)
Lemma u16_nb d k : 0 <= k -> k + 2 <= zlen d -> u16 d k = nb d 0 (Z.to_nat k) * 256 + nb d 0 (S (Z.to_nat k)).
Proof.
  intros Hk Hl. unfold u16, take, drop. rewrite firstn_skipn_nth by (unfold zlen in Hl; lia).
  change (Z.to_nat 2) with 2%nat. cbn [seq map]. unfold be_dec. cbn [be_dec_acc]. unfold nb. cbn [Z.to_nat Nat.add].
  replace (Z.to_nat k + 0)%nat with (Z.to_nat k) by lia. replace (Z.to_nat k + 1)%nat with (S (Z.to_nat k)) by lia. lia.
Qed.
Lemma u8_nb d k : u8 d k = nb d 0 (Z.to_nat k).
Proof. reflexivity. Qed.

(* parameters (data, size) of the validators: variable 1 is the size *)
Definition penv (d : list Z) : nat -> Z := env_of_list [0; zlen d].
Lemma sub_mod64 n k : 0 <= k <= n -> n < 2 ^ 64 -> (n - k) mod 2 ^ 64 = n - k.
Proof. intros. apply Z.mod_small. lia. Qed.

Lemma two_byte_sweep (P : Z -> Z -> bool) :
  forallb (fun a => forallb (fun b => P a b) (map Z.of_nat (seq 0 256))) (map Z.of_nat (seq 0 256)) = true ->
  forall a b, byte_ok a -> byte_ok b -> P a b = true.
Proof.
  intros G a b Ha Hb. apply (byte_sweep (fun b => P a b)); [|assumption].
  apply (byte_sweep (fun a => forallb (fun b => P a b) (map Z.of_nat (seq 0 256)))); assumption.
Qed.

Lemma eval_Or env a b : eval env (Or a b) = Z.lor (eval env a) (eval env b). Proof. reflexivity. Qed.
Lemma eval_And env a b : eval env (And a b) = Z.land (eval env a) (eval env b). Proof. reflexivity. Qed.
Lemma eval_Cst env c : eval env (Cst c) = c. Proof. reflexivity. Qed.
Lemma eval_NonZero env w a : eval env (NonZero w a) = if existsb (fun i => Z.testbit (eval env a) i) (range w) then 1 else 0.
Proof. reflexivity. Qed.

Lemma acc_can_err d off : bytes_ok d -> 0 <= off -> off + 16 <= zlen d ->
  acc_eval gen_reads d "ASAM::CMP::CanPayloadBase::Header::hasError" off 0 0 =
  Ok (b2z (negb ((Z.land (nb d off 0 * 256 + nb d off 1) 1023 =? 0) && (nb d off 12 * 256 + nb d off 13 =? 0)))).
Proof.
  intros Hd Ho Hl. acc_bridge (Or (NonZero 16 (And (LE2 0) (Cst 65283))) (NonZero 16 (LE2 12))).
  rewrite eval_Or, !eval_NonZero, eval_And, eval_Cst, !eval_LE2 by assumption. f_equal.
  pose proof (nb_ok d off 0 Hd) as H0. pose proof (nb_ok d off 1 Hd) as H1.
  pose proof (nb_ok d off 12 Hd) as H12. pose proof (nb_ok d off 13 Hd) as H13.
  assert (E1 : (if existsb (fun i => Z.testbit (Z.land (nb d off 0 + nb d off 1 * 256) 65283) i) (range 16) then 1 else 0)
               = b2z (negb (Z.land (nb d off 0 * 256 + nb d off 1) 1023 =? 0))).
  { apply Z.eqb_eq.
    apply (two_byte_sweep (fun a b => (if existsb (fun i => Z.testbit (Z.land (a + b * 256) 65283) i) (range 16) then 1 else 0)
                                      =? b2z (negb (Z.land (a * 256 + b) 1023 =? 0)))); [vm_compute; reflexivity|assumption|assumption]. }
  assert (E2 : (if existsb (fun i => Z.testbit (nb d off 12 + nb d off 13 * 256) i) (range 16) then 1 else 0)
               = b2z (negb (nb d off 12 * 256 + nb d off 13 =? 0))).
  { apply Z.eqb_eq.
    apply (two_byte_sweep (fun a b => (if existsb (fun i => Z.testbit (a + b * 256) i) (range 16) then 1 else 0)
                                      =? b2z (negb (a * 256 + b =? 0)))); [vm_compute; reflexivity|assumption|assumption]. }
  rewrite E1, E2.
  destruct (Z.land (nb d off 0 * 256 + nb d off 1) 1023 =? 0), (nb d off 12 * 256 + nb d off 13 =? 0); reflexivity.
Qed.

Lemma acc_an_dt d off : bytes_ok d -> 0 <= off -> off + 16 <= zlen d ->
  acc_eval gen_reads d "ASAM::CMP::AnalogPayload::Header::getSampleDt" off 0 0 = Ok (Z.land (nb d off 0 + nb d off 1 * 256) 768).
Proof.
  intros Hd Ho Hl. acc_bridge (And (LE2 0) (Cst 768)).
  rewrite eval_And, eval_Cst, eval_LE2 by assumption. f_equal.
  apply Z.eqb_eq. apply (two_byte_sweep (fun a b => Z.land (a + b * 256) 768 mod 2 ^ 16 =? Z.land (a + b * 256) 768));
    [vm_compute; reflexivity|apply nb_ok; assumption|apply nb_ok; assumption].
Qed.

Lemma nth_skipn_add (d : list Z) : forall k i, nth i (skipn k d) 0 = nth (k + i) d 0.
Proof.
  induction d as [|x t IH]; intros k i.
  - rewrite skipn_nil. destruct i, (k + 0)%nat, k; reflexivity.
  - destruct k as [|k]; [reflexivity|]. cbn [skipn Nat.add nth]. apply IH.
Qed.
Lemma mhdr_fields d : 16 <= zlen d ->
  h_flags (parse_mhdr d) = nb d 0 12 /\ h_ptype (parse_mhdr d) = nb d 0 13 /\ h_plen (parse_mhdr d) = nb d 0 14 * 256 + nb d 0 15.
Proof.
  intros H. unfold parse_mhdr. cbn [h_flags h_ptype h_plen]. rewrite !skipn_skipn'. cbn [Nat.add].
  rewrite !nth_skipn_add. rewrite firstn_skipn_nth by (unfold zlen in H; lia).
  cbn [seq map Nat.add]. unfold be_dec. cbn [be_dec_acc]. unfold nb. cbn [Z.to_nat Nat.add]. repeat split; lia.
Qed.

Lemma land_le_r x m : 0 <= m -> 0 <= Z.land x m <= m.
Proof.
  intros H. apply Z.ldiff_le; [assumption|]. apply Z.bits_inj'. intros i Hi.
  rewrite Z.ldiff_spec, Z.land_spec, Z.bits_0. destruct (Z.testbit x i), (Z.testbit m i); reflexivity.
Qed.

(* ---------- validators that walk length-prefixed blocks ---------- *)
(* the idiom (size_t(data[p]) << 8) | data[p + 1] *)
Definition rd16 (p : cexp) : cexp :=
  KBin OOr 64 false (KBin OShl 64 false (KCast 64 false (KByte p)) (KConst 8)) (KCast 64 false (KByte (KBin OAdd 64 false p (KConst 1)))).
Lemma ceval_rd16 d env pe p : bytes_ok d -> ceval gen_reads d env pe = Ok p -> 0 <= p -> p + 2 <= zlen d -> zlen d < 2 ^ 64 ->
  ceval gen_reads d env (rd16 pe) = Ok (u16 d p).
Proof.
  intros Hd He Hp Hl Hn. unfold rd16. cbn [ceval]. rewrite He. cbn [rbind binop_eval fit].
  rewrite (Z.mod_small (p + 1)) by lia.
  replace ((0 <=? p) && (p <? zlen d)) with true by (symmetry; apply andb_true_iff; split; [apply Z.leb_le|apply Z.ltb_lt]; lia).
  replace ((0 <=? p + 1) && (p + 1 <? zlen d)) with true by (symmetry; apply andb_true_iff; split; [apply Z.leb_le|apply Z.ltb_lt]; lia).
  cbn [rbind wrap].
  pose proof (nth_byte_ok d (Z.to_nat p) Hd) as B0. pose proof (nth_byte_ok d (Z.to_nat (p + 1)) Hd) as B1.
  rewrite !byte_mod by (assumption || lia).
  replace ((0 <=? 8) && (8 <? 64) && (0 <=? nth (Z.to_nat p) d 0)) with true
    by (symmetry; unfold byte_ok in B0; rewrite !andb_true_iff; repeat split; try reflexivity; apply Z.leb_le; lia).
  cbn [rbind].
  assert (S8 : Z.shiftl (nth (Z.to_nat p) d 0) 8 = nth (Z.to_nat p) d 0 * 256) by (rewrite Z.shiftl_mul_pow2 by lia; reflexivity).
  unfold byte_ok in *. rewrite (Z.mod_small (Z.shiftl _ 8)) by (rewrite S8; lia).
  rewrite be2_val by (unfold byte_ok; lia).
  rewrite ?(Z.mod_small _ (2 ^ 64)) by lia.
  rewrite u16_nb by lia. unfold nb. cbn [Z.to_nat Nat.add]. f_equal. f_equal. f_equal. lia.
Qed.
Ltac fold_rd16 := repeat match goal with
  |- context [KBin OOr 64 false (KBin OShl 64 false (KCast 64 false (KByte ?p)) (KConst 8)) (KCast 64 false (KByte (KBin OAdd 64 false ?p (KConst 1))))] =>
     change (KBin OOr 64 false (KBin OShl 64 false (KCast 64 false (KByte p)) (KConst 8)) (KCast 64 false (KByte (KBin OAdd 64 false p (KConst 1))))) with (rd16 p) end.

Lemma u16_range d k : bytes_ok d -> 0 <= u16 d k < 65536.
Proof.
  intros Hd. unfold u16. pose proof (be_dec_bound (take 2 (drop k d)) (bytes_ok_take _ _ (bytes_ok_drop _ _ Hd))) as B.
  assert (L : (length (take 2 (drop k d)) <= 2)%nat) by (unfold take; rewrite firstn_length; change (Z.to_nat 2) with 2%nat; lia).
  assert (256 ^ Z.of_nat (length (take 2 (drop k d))) <= 256 ^ 2) by (apply Z.pow_le_mono_r; lia).
  change (256 ^ 2) with 65536 in *. lia.
Qed.


(* the idiom: swapEndian of a uint16_t read through a reinterpret_cast of the byte pointer *)
Definition rd16le (p : cexp) : cexp := KRd 2 p.
Definition u16le (d : list Z) (p : Z) : Z := nth (Z.to_nat p) d 0 + 256 * nth (Z.to_nat p + 1) d 0.
Lemma zbswap2 a b : byte_ok a -> byte_ok b -> zbswap 2 (a + 256 * b) = a * 256 + b.
Proof.
  intros Ha Hb. unfold byte_ok in *. unfold zbswap. change (Z.to_nat 2) with 2%nat.
  change (be_enc 2 (a + 256 * b)) with [((a + 256 * b) / 256 ^ Z.of_nat 1) mod 256; ((a + 256 * b) / 256 ^ Z.of_nat 0) mod 256]. cbn [rev app].
  change (256 ^ Z.of_nat 1) with 256. change (256 ^ Z.of_nat 0) with 1. unfold be_dec. cbn [be_dec_acc].
  rewrite Z.div_1_r. lia.
Qed.
Lemma ceval_rd16le d env pe p : bytes_ok d -> ceval gen_reads d env pe = Ok p -> 0 <= p -> p + 2 <= zlen d ->
  ceval gen_reads d env (rd16le pe) = Ok (u16le d p).
Proof.
  intros Hd He Hp Hl. unfold rd16le. cbn [ceval]. rewrite He. cbn [rbind].
  replace ((0 <=? p) && (p + 2 <=? zlen d)) with true by (symmetry; apply andb_true_iff; split; apply Z.leb_le; lia).
  f_equal. unfold take, drop. rewrite firstn_skipn_nth by (unfold zlen in Hl; lia).
  change (Z.to_nat 2) with 2%nat. cbn [seq map le_dec]. unfold u16le.
  replace (Z.to_nat p + 0)%nat with (Z.to_nat p) by lia. lia.
Qed.
Lemma zbswap_u16le d p : bytes_ok d -> 0 <= p -> p + 2 <= zlen d -> zbswap 2 (u16le d p) = u16 d p.
Proof.
  intros Hd Hp Hl. unfold u16le. rewrite zbswap2 by (apply nth_byte_ok; assumption).
  rewrite u16_nb by lia. unfold nb. cbn [Z.to_nat Nat.add]. replace (S (Z.to_nat p)) with (Z.to_nat p + 1)%nat by lia. reflexivity.
Qed.

(* ---------- the model's validators in the vocabulary of the accessor lemmas ---------- *)
Lemma valid_lin_alt d : valid_lin d = (8 <=? zlen d) && (nb d 0 7 <=? zlen d - 8).
Proof. reflexivity. Qed.
Lemma valid_can_alt d : valid_can d =
  (16 <=? zlen d) && (Z.land (nb d 0 0 * 256 + nb d 0 1) 1023 =? 0) && (nb d 0 12 * 256 + nb d 0 13 =? 0) && (nb d 0 15 <=? zlen d - 16).
Proof.
  unfold valid_can. destruct (Z.leb_spec 16 (zlen d)) as [L|G]; [|reflexivity].
  rewrite !u16_nb by lia. reflexivity.
Qed.
Lemma valid_eth_alt d : valid_eth d =
  (6 <=? zlen d) && (Z.land (nb d 0 0 * 256 + nb d 0 1) 59 =? 0) && (nb d 0 4 * 256 + nb d 0 5 <=? zlen d - 6).
Proof.
  unfold valid_eth. destruct (Z.leb_spec 6 (zlen d)) as [L|G]; [|reflexivity].
  rewrite !u16_nb by lia. reflexivity.
Qed.
Lemma analog_dt_le a b : byte_ok a -> byte_ok b ->
  ((Z.land (a * 256 + b) 3 =? 0) || (Z.land (a * 256 + b) 3 =? 1)) = ((Z.land (a + b * 256) 768 =? 0) || (Z.land (a + b * 256) 768 =? 256)).
Proof.
  intros Ha Hb. apply eqb_prop.
  apply (two_byte_sweep (fun a b => eqb ((Z.land (a * 256 + b) 3 =? 0) || (Z.land (a * 256 + b) 3 =? 1))
                                        ((Z.land (a + b * 256) 768 =? 0) || (Z.land (a + b * 256) 768 =? 256)))); [vm_compute; reflexivity|assumption|assumption].
Qed.
Lemma valid_analog_alt d : bytes_ok d -> valid_analog d =
  (16 <=? zlen d) && ((Z.land (nb d 0 0 + nb d 0 1 * 256) 768 =? 0) || (Z.land (nb d 0 0 + nb d 0 1 * 256) 768 =? 256)).
Proof.
  intros Hd. unfold valid_analog. destruct (Z.leb_spec 16 (zlen d)) as [L|G]; [|reflexivity].
  rewrite !u16_nb by lia. cbn [andb]. change (Z.to_nat 0) with 0%nat. apply analog_dt_le; apply nb_ok; assumption.
Qed.
Lemma valid_packet_alt d : valid_packet d (zlen d) =
  (16 <=? zlen d) && ((nb d 0 14 * 256 + nb d 0 15 <=? zlen d - 16) && (Z.land (nb d 0 12) 64 =? 0) && negb (nb d 0 13 =? 0)).
Proof.
  unfold valid_packet. destruct (Z.leb_spec 16 (zlen d)) as [L|G]; [|reflexivity].
  destruct (mhdr_fields d L) as (Ef & Et & El). rewrite Ef, Et, El. reflexivity.
Qed.
Lemma valid_if_alt d : valid_if d =
  (36 <=? zlen d) && (nb d 0 29 <=? 2) &&
  (if zlen d - 36 <? 2 then false else
   if zlen d - 38 <? u16 d 36 + u16 d 36 mod 2 then false else
   if zlen d - (38 + (u16 d 36 + u16 d 36 mod 2)) <? 2 then false else
   u16 d (38 + (u16 d 36 + u16 d 36 mod 2)) <=? zlen d - (38 + (u16 d 36 + u16 d 36 mod 2) + 2)).
Proof. reflexivity. Qed.

(* ---------- the generic proof tactic: symbolic execution of a translated body against the model ---------- *)
Lemma b2z_eqb0 b : (b2z b =? 0) = negb b. Proof. destruct b; reflexivity. Qed.
Lemma b2z_01 b : 0 <= b2z b <= 1. Proof. destruct b; simpl; lia. Qed.

Ltac m64 := rewrite ?(Z.mod_small _ (2 ^ 64)) by lia.
Ltac rdc := cbn [ceval rbind env_of_list cmp_eval upd Nat.eqb binop_eval fit b2z Z.eqb negb andb orb wrap is_some].
Ltac settle := repeat match goal with
   | |- context [?x <? ?y] => first [replace (x <? y) with true by (symmetry; apply Z.ltb_lt; lia) | replace (x <? y) with false by (symmetry; apply Z.ltb_ge; lia)]
   | |- context [?x <=? ?y] => first [replace (x <=? y) with true by (symmetry; apply Z.leb_le; lia) | replace (x <=? y) with false by (symmetry; apply Z.leb_gt; lia)]
   | |- context [?x =? ?y] => first [replace (x =? y) with true by (symmetry; apply Z.eqb_eq; lia) | replace (x =? y) with false by (symmetry; apply Z.eqb_neq; lia)] end.
Ltac fold_rd16be := repeat match goal with |- context [KRd 2 ?p] => change (KRd 2 p) with (rd16le p) end.
Ltac read16be := match goal with |- context [ceval ?r ?d ?env (rd16le ?pe)] =>
   let v := eval cbn [ceval rbind upd Nat.eqb env_of_list] in (ceval r d env pe) in
   match v with Ok ?p => erewrite (ceval_rd16le d env pe p); [ | assumption | reflexivity | lia | lia ] end end.
Ltac read16 := match goal with |- context [ceval ?r ?d ?env (rd16 ?pe)] =>
   let v := eval cbn [ceval rbind upd Nat.eqb env_of_list] in (ceval r d env pe) in
   match v with Ok ?p => erewrite (ceval_rd16 d env pe p); [ | assumption | reflexivity | lia | lia | lia ];
        let c := fresh "c" in let R := fresh "R" in pose proof (u16_range d p ltac:(assumption)) as R; set (c := u16 d p) in * end end.

(* facts lia needs about the atoms of the goal: bytes are bytes, masked values are bounded by their mask *)
Ltac atom_facts Hd := repeat match goal with
  | |- context [nb ?d ?o ?i] => lazymatch goal with H : 0 <= nb d o i < 256 |- _ => fail | _ => pose proof (nb_ok d o i Hd : 0 <= nb d o i < 256) end
  | |- context [Z.land ?x ?m] => lazymatch goal with H : 0 <= Z.land x m <= m |- _ => fail | _ => pose proof (land_le_r x m ltac:(lia)) end
  | |- context [?x mod 2] => lazymatch goal with H : 0 <= x mod 2 < 2 |- _ => fail | _ => pose proof (Z.mod_pos_bound x 2 ltac:(lia)) end
  | |- context [?x mod 2 ^ 16] => lazymatch goal with H : 0 <= x mod 2 ^ 16 < 2 ^ 16 |- _ => fail | _ => pose proof (Z.mod_pos_bound x (2 ^ 16) ltac:(lia)) end
  end.
Ltac norm := rdc; repeat (rewrite b2z_eqb0 || rewrite negb_involutive); m64;
  repeat match goal with
  | |- context [(?x + 2 ^ (32 - 1)) mod 2 ^ 32 - 2 ^ (32 - 1)] =>
      replace ((x + 2 ^ (32 - 1)) mod 2 ^ 32 - 2 ^ (32 - 1)) with x
        by (rewrite Z.mod_small by (change (2 ^ (32 - 1)) with 2147483648; change (2 ^ 32) with 4294967296; lia); lia)
  | |- context [(- 2 ^ (32 - 1) <=? ?z) && (?z <? 2 ^ (32 - 1))] =>
      replace ((- 2 ^ (32 - 1) <=? z) && (z <? 2 ^ (32 - 1))) with true
        by (symmetry; apply andb_true_iff; split; [apply Z.leb_le|apply Z.ltb_lt]; change (2 ^ (32 - 1)) with 2147483648; lia)
  | |- context [Z.rem ?a 2] => rewrite (Z.rem_mod_nonneg a 2) by lia
  | |- context [Z.quot ?a 2] => rewrite (Z.quot_div_nonneg a 2) by lia
  | |- context [Z.quot ?a 4] => rewrite (Z.quot_div_nonneg a 4) by lia
  | |- context [4 =? 0] => change (4 =? 0) with false
  | |- context [(?x + 2 ^ (16 - 1)) mod 2 ^ 16 - 2 ^ (16 - 1)] => fail
  | |- context [zbswap 2 (u16le ?d ?p)] => rewrite (zbswap_u16le d p) by (assumption || lia);
      let c := fresh "c" in let R := fresh "R" in pose proof (u16_range d p ltac:(assumption)) as R; set (c := u16 d p) in *
  | |- context [2 =? 0] => change (2 =? 0) with false
  end; rdc; repeat (rewrite b2z_eqb0 || rewrite negb_involutive).
Ltac case_on c :=
  lazymatch c with
  | negb ?c' => case_on c'
  | andb ?a _ => case_on a
  | orb ?a _ => case_on a
  | ?a <? ?b => destruct (Z.ltb_spec a b)
  | ?a <=? ?b => destruct (Z.leb_spec a b)
  | ?a =? ?b => lazymatch a with context [b2z _] => destruct c eqn:? | _ => destruct (Z.eqb_spec a b) end
  | _ => destruct c eqn:?
  end.
(* one step: the translated body is stuck on an accessor call, a 16-bit read, or a condition *)
Ltac t2_step Hd :=
  first
  [ progress (rewrite ?acc_lin_dl, ?acc_mh_plen, ?acc_mh_ptype, ?acc_mh_errflag, ?acc_mh_seg, ?acc_can_dl, ?acc_can_err,
                      ?acc_if_status, ?acc_eth_flags, ?acc_eth_dl, ?acc_an_dt by (assumption || lia))
  | read16
  | read16be
  | match goal with
    | |- (if negb ?c then _ else _) = _ => case_on c
    | |- (if ?c then _ else _) = _ => case_on c
    | |- context [if negb ?c then _ else _] => case_on c
    | |- context [if ?c then _ else _] => case_on c
    end ];
  atom_facts Hd; settle; norm.
Ltac t2_finish Hd :=
  atom_facts Hd; settle; norm; try reflexivity;
  repeat (match goal with
          | |- context [?a <? ?b] => destruct (Z.ltb_spec a b)
          | |- context [?a <=? ?b] => destruct (Z.leb_spec a b)
          | |- context [?a =? ?b] => destruct (Z.eqb_spec a b)
          end; settle; rdc; try reflexivity);
  try reflexivity; try (exfalso; lia);
  try (repeat match goal with x := _ |- _ => subst x end;
       first [ reflexivity | exfalso; lia | exfalso; congruence | f_equal; lia | do 2 f_equal; lia | do 3 f_equal; lia | do 4 f_equal; lia ]).
(* obligations of the translator itself: which of the functions above exist but could not be translated on this run *)
Definition lost_among (names : list string) : list (string * string) :=
  filter (fun e => existsb (String.eqb (fst e)) names) gen_code_lost.

(* a translated body is `Some c`; `None` (the function no longer exists in the sources) leaves nothing to show *)
Ltac t2_open def := let E := fresh "E" in intros E; unfold def in E; first [discriminate E | inversion E; subst; clear E].
Ltac t2_solve Hd := fold_rd16; fold_rd16be; norm; atom_facts Hd; settle; norm; repeat (t2_step Hd); t2_finish Hd.
