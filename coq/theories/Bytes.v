(* Byte-level (de)serialisation: big-endian values, slices, basic list facts. *)
From Coq Require Export ZArith List Bool Lia.
Export ListNotations.
Local Open Scope Z_scope.
Ltac Zify.zify_post_hook ::= Z.div_mod_to_equations.

Definition byte_ok (b : Z) : Prop := 0 <= b < 256.
Definition bytes_ok (l : list Z) : Prop := Forall byte_ok l.

Definition take {A} (n : Z) (l : list A) : list A := firstn (Z.to_nat n) l.
Definition drop {A} (n : Z) (l : list A) : list A := skipn (Z.to_nat n) l.
Definition zlen {A} (l : list A) : Z := Z.of_nat (length l).
Definition zeros (n : Z) : list Z := repeat 0 (Z.to_nat n).

(* big-endian value of a byte list *)
Fixpoint be_dec_acc (l : list Z) (acc : Z) : Z :=
  match l with [] => acc | b :: t => be_dec_acc t (acc * 256 + b) end.
Definition be_dec (l : list Z) : Z := be_dec_acc l 0.

(* n big-endian bytes of v *)
Fixpoint be_enc (n : nat) (v : Z) : list Z :=
  match n with O => [] | S k => (v / 256 ^ Z.of_nat k) mod 256 :: be_enc k v end.

(* little-endian value (used where the library memcpy's wire bytes into a native integer) *)
Fixpoint le_dec (l : list Z) : Z := match l with [] => 0 | b :: t => b + 256 * le_dec t end.

Lemma be_enc_length n v : length (be_enc n v) = n.
Proof. induction n; simpl; auto. Qed.

Lemma be_enc_ok n v : bytes_ok (be_enc n v).
Proof.
  induction n; simpl; constructor; auto.
  unfold byte_ok. apply Z.mod_pos_bound. lia.
Qed.

Lemma be_dec_acc_app l1 l2 acc : be_dec_acc (l1 ++ l2) acc = be_dec_acc l2 (be_dec_acc l1 acc).
Proof. revert acc; induction l1; simpl; auto. Qed.

Lemma be_dec_acc_enc n : forall v acc, 0 <= v ->
  be_dec_acc (be_enc n v) acc = acc * 256 ^ Z.of_nat n + v mod 256 ^ Z.of_nat n.
Proof.
  induction n; intros v acc Hv.
  - simpl. rewrite Z.mod_1_r. lia.
  - cbn [be_enc be_dec_acc]. rewrite IHn by assumption.
    rewrite Nat2Z.inj_succ, Z.pow_succ_r by lia.
    set (P := 256 ^ Z.of_nat n) in *.
    assert (HP : 0 < P) by (subst P; apply Z.pow_pos_nonneg; lia).
    assert (E : v mod (256 * P) = ((v / P) mod 256) * P + v mod P).
    { rewrite (Z.mul_comm 256 P). rewrite Z.rem_mul_r by lia. lia. }
    rewrite E. lia.
Qed.

Lemma be_dec_enc n v : 0 <= v < 256 ^ Z.of_nat n -> be_dec (be_enc n v) = v.
Proof.
  intros H. unfold be_dec. rewrite be_dec_acc_enc by lia. rewrite Z.mod_small; lia.
Qed.

Lemma be_dec_enc_mod n v : 0 <= v -> be_dec (be_enc n v) = v mod 256 ^ Z.of_nat n.
Proof. intros H. unfold be_dec. rewrite be_dec_acc_enc by lia. lia. Qed.

Lemma be_dec_acc_bound l : bytes_ok l -> forall acc, 0 <= acc ->
  acc * 256 ^ Z.of_nat (length l) <= be_dec_acc l acc < (acc + 1) * 256 ^ Z.of_nat (length l).
Proof.
  induction 1 as [|b t Hb Ht IH]; intros acc Hacc.
  - simpl. lia.
  - cbn [be_dec_acc length]. rewrite Nat2Z.inj_succ, Z.pow_succ_r by lia.
    unfold byte_ok in Hb.
    specialize (IH (acc * 256 + b) ltac:(lia)).
    set (P := 256 ^ Z.of_nat (length t)) in *.
    assert (0 < P) by (subst P; apply Z.pow_pos_nonneg; lia).
    nia.
Qed.

Lemma be_dec_bound l : bytes_ok l -> 0 <= be_dec l < 256 ^ Z.of_nat (length l).
Proof. intros H. pose proof (be_dec_acc_bound l H 0 ltac:(lia)). unfold be_dec. lia. Qed.

Lemma be_enc_dec l : bytes_ok l -> be_enc (length l) (be_dec l) = l.
Proof.
  unfold be_dec.
  assert (G : forall l, bytes_ok l -> forall acc, 0 <= acc ->
             be_enc (length l) (be_dec_acc l acc) = l).
  { induction 1 as [|b t Hb Ht IH]; intros acc Hacc; [reflexivity|].
    cbn [length be_enc be_dec_acc]. unfold byte_ok in Hb.
    pose proof (be_dec_acc_bound t Ht (acc * 256 + b) ltac:(lia)) as B.
    set (P := 256 ^ Z.of_nat (length t)) in *.
    assert (0 < P) by (subst P; apply Z.pow_pos_nonneg; lia).
    f_equal.
    - set (X := be_dec_acc t (acc * 256 + b)) in *.
      assert (X / P = acc * 256 + b) by (symmetry; apply Z.div_unique with (r := X - (acc*256+b)*P); lia).
      rewrite H0. rewrite Z.add_comm, Z.mod_add by lia. apply Z.mod_small; lia.
    - apply IH. lia. }
  intros H. apply G; auto; lia.
Qed.

Lemma firstn_app_exact {A} (l1 l2 : list A) n : length l1 = n -> firstn n (l1 ++ l2) = l1.
Proof. intros <-. rewrite firstn_app, Nat.sub_diag, firstn_all. simpl. apply app_nil_r. Qed.
Lemma skipn_app_exact {A} (l1 l2 : list A) n : length l1 = n -> skipn n (l1 ++ l2) = l2.
Proof. intros <-. rewrite skipn_app, Nat.sub_diag, skipn_all. reflexivity. Qed.

Lemma take_app_exact {A} (l1 l2 : list A) n : zlen l1 = n -> take n (l1 ++ l2) = l1.
Proof. intros <-. unfold take, zlen. rewrite Nat2Z.id. now apply firstn_app_exact. Qed.
Lemma drop_app_exact {A} (l1 l2 : list A) n : zlen l1 = n -> drop n (l1 ++ l2) = l2.
Proof. intros <-. unfold drop, zlen. rewrite Nat2Z.id. now apply skipn_app_exact. Qed.

Lemma zlen_app {A} (a b : list A) : zlen (a ++ b) = zlen a + zlen b.
Proof. unfold zlen. rewrite app_length. lia. Qed.
Lemma zlen_nonneg {A} (l : list A) : 0 <= zlen l.
Proof. unfold zlen. lia. Qed.
Lemma zlen_take {A} (n : Z) (l : list A) : 0 <= n <= zlen l -> zlen (take n l) = n.
Proof. unfold zlen, take. intros H. rewrite firstn_length. lia. Qed.
Lemma zlen_drop {A} (n : Z) (l : list A) : 0 <= n <= zlen l -> zlen (drop n l) = zlen l - n.
Proof. unfold zlen, drop. intros H. rewrite skipn_length. lia. Qed.
Lemma zlen_be_enc n v : zlen (be_enc n v) = Z.of_nat n.
Proof. unfold zlen. now rewrite be_enc_length. Qed.
Lemma zlen_zeros n : 0 <= n -> zlen (zeros n) = n.
Proof. unfold zlen, zeros. rewrite repeat_length. lia. Qed.
Lemma bytes_ok_app a b : bytes_ok a -> bytes_ok b -> bytes_ok (a ++ b).
Proof. unfold bytes_ok. intros. apply Forall_app; auto. Qed.
Lemma bytes_ok_take n l : bytes_ok l -> bytes_ok (take n l).
Proof. unfold bytes_ok, take. intros H. rewrite Forall_forall in *. intros x Hx. apply H.
  rewrite <- (firstn_skipn (Z.to_nat n) l). apply in_or_app. now left. Qed.
Lemma bytes_ok_drop n l : bytes_ok l -> bytes_ok (drop n l).
Proof. unfold bytes_ok, drop. intros H. rewrite Forall_forall in *. intros x Hx. apply H.
  rewrite <- (firstn_skipn (Z.to_nat n) l). apply in_or_app. now right. Qed.
Lemma bytes_ok_zeros n : bytes_ok (zeros n).
Proof. unfold zeros, bytes_ok. apply Forall_forall. intros x Hx. apply repeat_spec in Hx. subst. unfold byte_ok. lia. Qed.

Lemma skipn_skipn' {A} (n m : nat) (l : list A) : skipn n (skipn m l) = skipn (m + n) l.
Proof.
  revert l. induction m as [|m IH]; intros l; [reflexivity|].
  destruct l as [|x t]; [now rewrite !skipn_nil|]. cbn [skipn Nat.add]. apply IH.
Qed.
Lemma drop_drop {A} (n m : Z) (l : list A) : 0 <= n -> 0 <= m -> drop n (drop m l) = drop (m + n) l.
Proof. intros. unfold drop. rewrite skipn_skipn', Z2Nat.inj_add by lia. reflexivity. Qed.
Lemma take_drop_split {A} (d : list A) (pos n : Z) : 0 <= pos -> 0 <= n ->
  take n (drop pos d) ++ drop (pos + n) d = drop pos d.
Proof. intros Hp Hn. rewrite <- drop_drop by lia. unfold take. apply firstn_skipn. Qed.

Lemma take_all {A} (l : list A) : take (zlen l) l = l.
Proof. unfold take, zlen. rewrite Nat2Z.id. apply firstn_all. Qed.
