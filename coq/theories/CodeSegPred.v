(* Tie T2: Decoder::isSegmentedPacket / isFirstSegment, as translated from /repo on this run, against the model's dispatch on bits 2-3 of
   the common flags (called on messages that the message-level check accepted: 16 <= size). *)
From Coq Require Import ZArith List String Bool Lia.
Require Import CMP.Bytes CMP.Bv CMP.Refine CMP.Packet CMP.Tecmp CMP.Cir CMPGen.GenAccessors CMPGen.GenCode CMP.CodeBridge.
Import ListNotations.
Local Open Scope Z_scope.
Local Open Scope bool_scope.

Theorem code_is_segmented d c : bytes_ok d -> 16 <= zlen d -> code_Decoder_isSegmentedPacket = Some c ->
  ceval gen_reads d (penv d) c = Ok (b2z (negb (Z.land (h_flags (parse_mhdr d)) 12 =? 0))).
Proof.
  intros Hd L. t2_open code_Decoder_isSegmentedPacket; (destruct (mhdr_fields d L) as (Ef & _ & _); rewrite Ef; unfold penv; t2_solve Hd).
Qed.
Theorem code_is_first d c : bytes_ok d -> 16 <= zlen d -> code_Decoder_isFirstSegment = Some c ->
  ceval gen_reads d (penv d) c = Ok (b2z (Z.land (h_flags (parse_mhdr d)) 12 =? 4)).
Proof.
  intros Hd L. t2_open code_Decoder_isFirstSegment; (destruct (mhdr_fields d L) as (Ef & _ & _); rewrite Ef; unfold penv; t2_solve Hd).
Qed.
