(* Obligations over the inventories regenerated from /repo's current sources (CMPGen.GenInventory / GenLayout):
   no mutable static-storage object (C19), no indeterminate allocation form and fully initialised header objects (C20). *)
From Coq Require Import ZArith List String Bool.
Require Import CMP.SpecLayout CMP.Refine CMPGen.GenLayout CMPGen.GenInventory.
Import ListNotations.
Local Open Scope string_scope.

(* C19: every object with static storage duration defined by the library is immutable *)
Definition static_immutable (s : string * string * string) : bool := let '(_, _, k) := s in String.eqb k "const".
Definition statics_ok : bool := forallb static_immutable gen_statics.
Definition mutable_statics : list (string * string * string) := filter (fun s => negb (static_immutable s)) gen_statics.

(* C19 / C14: no data member of any library class has shared-ownership, raw-pointer or reference type - so a copy of a codec or
   value object shares no state with its original, and two instances can only be connected through a static object (above) *)
Definition no_aliasing_members : bool := match gen_aliasing_members with [] => true | _ => false end.

(* C20 (i): scalar / pointer / array locals without initialiser and raw allocation forms. The one entry allowed is assigned
   through an out-parameter (GetHeader sets *payloadPtr first thing) before it is read. *)
Definition alloc_allowed (a : string * string * string * string) : bool :=
  let '(fn, kind, name, _) := a in
  (String.eqb fn "TECMP::Decoder::Decode" && String.eqb kind "UninitLocal" && String.eqb name "payloadPtr") ||
  (* a scalar local whose declaration is immediately followed by memcpy(&x, src, sizeof x): every byte assigned before any read *)
  String.eqb kind "MemcpyInitLocal".
Definition allocs_ok : bool := forallb alloc_allowed gen_allocs.
Definition bad_allocs : list (string * string * string * string) := filter (fun a => negb (alloc_allowed a)) gen_allocs.

(* C20 (ii): every wire header class of which the library creates local objects has a default member initialiser on every member
   and the members cover every byte: a freshly constructed header has no indeterminate byte, setters only overwrite *)
Definition wire_classes : list string := map cs_class (filter (fun c => negb (Z.eqb (cs_size c) 0)) spec_classes).
Definition is_wire (ty : string) : bool := existsb (String.eqb ty) wire_classes.
Definition local_headers : list string :=
  map (fun l => let '(_, _, ty, _) := l in ty) (filter (fun l => let '(_, _, ty, _) := l in is_wire ty) gen_local_objects).
Definition local_headers_ok : bool := forallb fully_initialised local_headers.
(* the three header objects the codecs build frames and messages from *)
Definition codec_headers_ok : bool :=
  fully_initialised "ASAM::CMP::CmpHeader" && fully_initialised "ASAM::CMP::MessageHeader" && fully_initialised "TECMP::CmpHeader".

(* C20 (iii): scalar / enumeration / pointer data members without a default member initialiser, over ALL library classes. Allowed:
   the members of the Vendor alternative of MessageHeader's anonymous union (the union is initialised through interfaceId{0}) and the
   two members of TECMP::LinPayload::Header (the library never creates an object of that class: it is only a view over zero-filled
   vector storage). Anything else would be indeterminate after value-initialisation by a container or default construction. *)
Definition uninit_allowed (m : string * string) : bool :=
  let '(cls, name) := m in
  (String.eqb cls "ASAM::CMP::MessageHeader" && (String.eqb name "vendor.reserved" || String.eqb name "vendor.vendorId")) ||
  (String.eqb cls "ASAM::CMP::MessageHeader::Vendor" && (String.eqb name "reserved" || String.eqb name "vendorId")) ||
  (String.eqb cls "TECMP::LinPayload::Header" && (String.eqb name "pid" || String.eqb name "dataLength")).
Definition members_ok : bool := forallb uninit_allowed gen_uninit_members.
Definition bad_members : list (string * string) := filter (fun m => negb (uninit_allowed m)) gen_uninit_members.
