(* C08 — segmentation and aggregation follow the protocol rules. *)
Require Import CMP.Bytes CMP.Packet CMP.Tecmp CMP.Decoder CMP.Encoder CMP.EncoderProofs CMP.Cir CMP.CodeBridge CMP.CodeSegFlag CMPGen.GenCode.
From Coq Require Import String List.
Import ListNotations.
Local Open Scope Z_scope.

(* The control flow of the encoder (putPacket / checkIfSegmented / addNewCMPFrame, bytesLeft arithmetic) produces exactly the
   frames of the greedy packing spec `pack` (DESIGN.md Appendix B), for every batch of packets with non-empty payloads and one
   protocol version, and every maximum frame size >= 25 (cap = max - 8 >= 17). The wire frames are the serialisation of these. *)
Theorem C08_encoder_refines_packing_rules : forall cap v,
  17 <= cap -> forall b, Forall (pkt_ok v) b -> enc_struct cap b = pack cap v b.
Proof. exact encode_refines_pack. Qed.
Print Assumptions C08_encoder_refines_packing_rules.

(* what the rules say, read off the spec: a packet that does not fit an empty frame becomes segments, one per frame and alone in it,
   every segment but the last carries exactly cap-16 bytes, flags are first / intermediary ... / last, positions are consecutive *)
Theorem C08_segments_shape : forall cap v, 17 <= cap -> forall fuel p L pos first g,
  In g (seg_frames cap v fuel p L pos first) ->
  fr_type g = p_mt p /\ fr_ver g = v /\
  exists i, fr_items g = [i] /\ it_pkt i = p /\ pos <= it_pos i /\ 1 <= it_len i <= cap - 16 /\ it_pos i + it_len i <= L /\
            (it_pos i + it_len i < L -> it_len i = cap - 16) /\
            (it_flag i = 4 \/ it_flag i = 8 \/ it_flag i = 12) /\
            (it_flag i = 12 <-> (it_pos i + it_len i = L /\ (it_pos i <> pos \/ first = false))) /\
            (it_flag i = 4 <-> (it_pos i = pos /\ first = true)).
Proof. exact seg_frames_shape. Qed.
Print Assumptions C08_segments_shape.

(* every frame of the spec: non-empty, all messages have the announced message type, either whole unsegmented messages (never split)
   or exactly one segment of a packet that cannot fit an empty frame; payload bytes appear once, in batch order *)
Theorem C08_frames_follow_rules : forall cap v, 17 <= cap -> forall b, Forall (fun p => 1 <= p_len p) b ->
  Forall (frame_ok cap v) (pack cap v b) /\
  frames_bytes (pack cap v b) = concat (map (fun p => take (p_len p) (pdata p)) b).
Proof. exact pack_ok. Qed.
Print Assumptions C08_frames_follow_rules.

(* a fitting packet joins the current frame iff that frame has the same message type and enough room; otherwise it opens a frame *)
Theorem C08_fit_rule : forall cap v q p, 16 + p_len p <= cap ->
  pput cap v q p =
  let s1 := match fst q with
            | f :: _ => if ((fr_type f =? p_mt p) && (16 + p_len p <=? snd q))%bool then q
                        else ({| fr_type := p_mt p; fr_ver := v; fr_items := [] |} :: fst q, cap)
            | [] => ({| fr_type := p_mt p; fr_ver := v; fr_items := [] |} :: fst q, cap)
            end in
  padd {| it_pkt := p; it_pos := 0; it_len := p_len p; it_flag := 0 |} s1 (snd s1 - 16 - p_len p).
Proof. intros cap v q p H. unfold pput. destruct (Z.leb_spec (16 + p_len p) cap); [reflexivity|lia]. Qed.
Print Assumptions C08_fit_rule.

Theorem C08_split_rule : forall cap v q p, cap < 16 + p_len p ->
  pput cap v q p = (rev (seg_frames cap v (S (Z.to_nat (p_len p))) p (p_len p) 0 true) ++ fst q, 0).
Proof. intros cap v q p H. unfold pput. destruct (Z.leb_spec (16 + p_len p) cap); [lia|reflexivity]. Qed.
Print Assumptions C08_split_rule.

(* non-vacuity: [8-byte, 100-byte, 8-byte] data packets at max 64: one frame, three segment frames, one frame *)
Definition ex_pkt (n : nat) : packet :=
  {| p_pl := Some {| pl_type := 511; pl_data := repeat 7 n |}; p_ver := 1; p_dev := 0; p_stream := 0; p_seq := 0;
     p_ts := 0; p_ifid := 0; p_vendor := 0; p_flags := 0; p_seg := 0 |}.
(* Tie T2: the flag rule itself, as it stands in /repo on this run. Encoder::buildSegmentationFlag, re-translated into the IR of Cir.v,
   returns - for every argument tuple the encoder can pass (bytesToAdd < 65536, positions below 2^64) - the flag the model's segment
   loop (Encoder.cloop) computes: unsegmented if the packet fits, else first for segment 0, last for the segment that ends at the
   payload's end, intermediary otherwise. *)
Theorem C08_translated_flag_rule_is_the_models : forall (seg : bool) k n L pos c,
  0 <= n < 65536 -> 0 <= L < 2 ^ 64 -> 0 <= pos -> pos + n < 2 ^ 64 ->
  code_Encoder_buildSegmentationFlag = Some c ->
  ceval gen_reads [] (env_of_list [b2z seg; k; n; L; pos]) c
  = Ok (if seg then (if k =? 0 then 4 else if pos + n =? L then 12 else 8) else 0).
Proof. exact code_seg_flag. Qed.
Print Assumptions C08_translated_flag_rule_is_the_models.
Theorem C08_flag_rule_translated : lost_among ["ASAM::CMP::Encoder::buildSegmentationFlag"]%string = nil.
Proof. vm_compute. reflexivity. Qed.

Example C08_example :
  map (fun f => map (fun i => (it_flag i, it_len i)) (fr_items f)) (enc_struct 56 [ex_pkt 8; ex_pkt 100; ex_pkt 8])
  = [[(0, 8)]; [(4, 40)]; [(8, 40)]; [(12, 20)]; [(0, 8)]].
Proof. vm_compute. reflexivity. Qed.
