(* C01: decoding the encoder's frames, in order, from any decoder state, yields the original packets.
   Composition of: encode = ser o pack (EncoderProofs), the decoder on a frame of unsegmented messages (C04 lemma),
   the decoder on a chain of segment frames (C05 step lemmas). *)
Require Import CMP.Bytes CMP.Packet CMP.Tecmp CMP.Decoder CMP.Encoder CMP.DecoderProofs CMP.EncoderProofs.
Local Open Scope Z_scope.
Local Open Scope bool_scope.

(* ---------- sequential decoding of a list of buffers ---------- *)
Fixpoint dec_frames (st : dstate) (bs : list (list Z)) : res (dstate * list packet) :=
  match bs with
  | [] => Ok (st, [])
  | b :: t => dor r1 <- decode st b; let '(st1, o1) := r1 in
              dor r2 <- dec_frames st1 t; let '(st2, o2) := r2 in Ok (st2, o1 ++ o2)
  end.

Lemma dec_frames_app a b st st1 o1 st2 o2 :
  dec_frames st a = Ok (st1, o1) -> dec_frames st1 b = Ok (st2, o2) -> dec_frames st (a ++ b) = Ok (st2, o1 ++ o2).
Proof.
  revert st st1 o1. induction a as [|x a IH]; intros st st1 o1 Ha Hb.
  - cbn in Ha. inversion Ha; subst. exact Hb.
  - cbn [app dec_frames] in *. destruct (decode st x) as [[s o]| |]; cbn [rbind] in *; try discriminate.
    destruct (dec_frames s a) as [[s' o']| |] eqn:E; cbn [rbind] in *; try discriminate.
    inversion Ha; subst. rewrite (IH _ _ _ E Hb). cbn [rbind]. now rewrite app_assoc.
Qed.

Lemma ser_frames_app minb dev stream seq a b :
  ser_frames minb dev stream seq (a ++ b) = ser_frames minb dev stream seq a ++ ser_frames minb dev stream ((seq + zlen a) mod 65536) b.
Proof.
  revert seq. induction a as [|f a IH]; intros seq.
  - cbn [app ser_frames]. unfold zlen; cbn [length Z.of_nat]. rewrite Z.add_0_r.
    destruct b as [|g b]; [reflexivity|]. cbn [ser_frames]. now rewrite Zplus_mod_idemp_l.
  - cbn [app ser_frames]. f_equal. rewrite IH. f_equal. f_equal.
    unfold zlen. cbn [length]. rewrite Nat2Z.inj_succ. rewrite Zplus_mod_idemp_l. f_equal. lia.
Qed.
Lemma ser_frames_seq_mod minb dev stream seq fs :
  ser_frames minb dev stream (seq mod 65536) fs = ser_frames minb dev stream seq fs.
Proof. destruct fs as [|f fs]; [reflexivity|]. cbn [ser_frames]. now rewrite Zplus_mod_idemp_l. Qed.

(* ---------- what the wire carries for one item, and the packet expected back ---------- *)
Definition item_hdr (i : item) : mhdr :=
  let h := raw_mhdr (it_pkt i) in
  {| h_ts := h_ts h; h_id := h_id h; h_flags := Z.lor (Z.land (h_flags h) 243) (it_flag i); h_ptype := h_ptype h; h_plen := it_len i |}.
Lemma ser_item_eq i : ser_item i = ser_mhdr (item_hdr i) ++ item_bytes i.
Proof. reflexivity. Qed.

Section RT.
  Variables (cap v minb dev stream : Z).
  Hypothesis cap_ok : 17 <= cap.
  Hypothesis v_ok : 1 <= v < 256.
  Hypothesis dev_ok : 0 <= dev < 65536.
  Hypothesis stream_ok : 0 <= stream < 256.
  Notation e := (dev, stream).

  (* the packets of the property's domain: non-empty payload shorter than 2^16, field values in their ranges, no error-in-payload
     flag, non-zero payload type byte *)
  Definition pkt_wf (p : packet) : Prop :=
    p_ver p = v /\ 1 <= zlen (pdata p) < 65536 /\ p_pl p <> None /\
    0 <= p_ts p < 256 ^ 8 /\ 0 <= p_ifid p < 256 ^ 4 /\ 0 <= p_vendor p < 65536 /\ 0 <= p_flags p < 256 /\
    Z.land (p_flags p) 64 = 0 /\ p_raw p <> 0.

  (* what the decoder must return for p; sbits = 4 when p was segmented (the first segment's flag survives), else 0 *)
  Definition expected (sbits : Z) (p : packet) : packet :=
    let mt := p_mt p in
    {| p_pl := Some (create (mk_type mt (p_raw p)) (pdata p)); p_ver := v; p_dev := dev; p_stream := stream; p_seq := 0;
       p_ts := p_ts p;
       p_ifid := if mt =? 1 then p_ifid p else 0;
       p_vendor := if (mt =? 3) || (mt =? 255) then p_vendor p else 0;
       p_flags := Z.lor (Z.land (p_flags p) 243) sbits; p_seg := 0 |}.
  Definition exp_of (p : packet) : packet := expected (if 16 + p_len p <=? cap then 0 else 4) p.

  Lemma p_len_wf p : pkt_wf p -> p_len p = zlen (pdata p).
  Proof.
    intros (_ & Hl & Hp & _). unfold p_len, pdata in *. destruct (p_pl p); [|congruence]. apply Z.mod_small. lia.
  Qed.

  Lemma flag_bits f k : 0 <= f < 256 -> (k = 0 \/ k = 4 \/ k = 8 \/ k = 12) -> Z.land f 64 = 0 ->
    0 <= Z.lor (Z.land f 243) k < 256 /\ Z.land (Z.lor (Z.land f 243) k) 12 = k /\ Z.land (Z.lor (Z.land f 243) k) 64 = 0.
  Proof.
    intros Hf Hk H64.
    assert (G : forallb (fun f => forallb (fun k =>
               (0 <=? Z.lor (Z.land f 243) k) && (Z.lor (Z.land f 243) k <? 256) && (Z.land (Z.lor (Z.land f 243) k) 12 =? k) &&
               (Z.land (Z.lor (Z.land f 243) k) 64 =? Z.land f 64)) [0; 4; 8; 12]) (map Z.of_nat (seq 0 256)) = true) by (vm_compute; reflexivity).
    rewrite forallb_forall in G. specialize (G f).
    assert (Hin : In f (map Z.of_nat (seq 0 256))) by (apply in_map_iff; exists (Z.to_nat f); split; [lia|apply in_seq; lia]).
    specialize (G Hin). rewrite forallb_forall in G.
    assert (Hk' : In k [0; 4; 8; 12]) by (cbn; intuition).
    specialize (G k Hk'). apply andb_true_iff in G as [G G4]. apply andb_true_iff in G as [G G3]. apply andb_true_iff in G as [G1 G2].
    apply Z.leb_le in G1. apply Z.ltb_lt in G2. apply Z.eqb_eq in G3, G4. rewrite G4, H64. auto.
  Qed.

  (* the header written for an item is a well-formed message header announcing exactly the item's bytes *)
  Lemma item_hdr_ok i t : pkt_wf (it_pkt i) -> item_ok t i -> (it_flag i = 0 \/ it_flag i = 4 \/ it_flag i = 8 \/ it_flag i = 12) ->
    seg_hdr_ok (item_hdr i) (it_flag i) (item_bytes i).
  Proof.
    intros Hw (Ht & Hpos & Hlen & Hend) Hfl. pose proof (p_len_wf _ Hw) as HL.
    destruct Hw as (Hv & Hl & Hp & Hts & Hif & Hvn & Hf & H64 & Hraw).
    destruct (flag_bits (p_flags (it_pkt i)) (it_flag i) Hf Hfl H64) as (F1 & F2 & F3).
    unfold seg_hdr_ok, item_hdr, mhdr_ok, raw_mhdr, byte_ok. cbn [h_ts h_id h_flags h_ptype h_plen].
    assert (Hr : 0 <= p_raw (it_pkt i) < 256).
    { unfold p_raw. destruct (p_pl (it_pkt i)); [unfold ty_raw; apply Z.mod_pos_bound; lia|lia]. }
    assert (Hid : 0 <= (if p_mt (it_pkt i) =? 1 then p_ifid (it_pkt i) else if (p_mt (it_pkt i) =? 3) || (p_mt (it_pkt i) =? 255) then p_vendor (it_pkt i) else 0) < 256 ^ 4).
    { destruct (p_mt (it_pkt i) =? 1); [exact Hif|]. destruct (_ || _); [cbn; lia|cbn; lia]. }
    repeat split; try lia; try assumption; try (cbn; lia).
    unfold item_bytes. fold (pdata (it_pkt i)). symmetry. apply zlen_take. rewrite zlen_drop by lia. lia.
  Qed.

  (* ---------- a frame whose items are whole messages ---------- *)
  Definition fh_of (f : frame) (c : Z) : fhdr := {| f_ver := fr_ver f; f_dev := dev; f_mt := fr_type f; f_stream := stream; f_seq := c |}.
  Definition umsg_of (i : item) : umsg := (item_hdr i, item_bytes i).

  Lemma ser_frame_split f c :
    ser_frame minb dev stream c f = ser_fhdr (fh_of f c) ++ area (map umsg_of (fr_items f)) ++ zeros (minb - zlen (ser_fhdr (fh_of f c) ++ concat (map ser_item (fr_items f)))).
  Proof.
    unfold ser_frame, pad_to, fh_of. rewrite <- app_assoc. f_equal. f_equal.
    unfold area. rewrite map_map. reflexivity.
  Qed.

  Lemma fh_of_ok f c : fr_ver f = v -> 0 <= fr_type f < 256 -> 0 <= c < 65536 -> fhdr_ok (fh_of f c).
  Proof. intros Hv Ht Hc. unfold fhdr_ok, fh_of. cbn [f_ver f_dev f_mt f_stream f_seq]. lia. Qed.

  Lemma frame_type_range f : frame_ok cap v f -> 0 <= fr_type f < 256.
  Proof.
    intros (_ & Hne & Hit & _). destruct (fr_items f) as [|i its]; [congruence|].
    inversion Hit as [|? ? Hi _]; subst. destruct Hi as (Ht & _). rewrite <- Ht. apply p_mt_range.
  Qed.

  (* the packet returned for a whole-message item *)
  Lemma spec_packet_expected f c i : pkt_wf (it_pkt i) -> item_ok (fr_type f) i -> fr_ver f = v ->
    it_flag i = 0 -> it_pos i = 0 -> it_len i = p_len (it_pkt i) ->
    spec_packet (fh_of f c) (umsg_of i) = expected 0 (it_pkt i).
  Proof.
    intros Hw (Ht & _) Hv Hfl Hpos Hlen. pose proof (p_len_wf _ Hw) as HL.
    destruct Hw as (_ & Hl & Hp & _ & _ & Hvn & _).
    unfold spec_packet, mkp, stamp, packet_of_msg, umsg_of, item_hdr, raw_mhdr, expected, fh_of.
    cbn [fst snd h_ts h_id h_flags h_ptype h_plen f_ver f_dev f_mt f_stream p_pl p_ver p_dev p_stream p_seq p_ts p_ifid p_vendor p_flags p_seg].
    rewrite Hfl, Ht, Hv.
    assert (item_bytes i = pdata (it_pkt i)) as ->.
    { unfold item_bytes. fold (pdata (it_pkt i)). rewrite Hpos, Hlen, HL. unfold drop. cbn [Z.to_nat skipn]. apply take_all. }
    f_equal.
    - destruct (fr_type f =? 1); reflexivity.
    - destruct (fr_type f =? 1) eqn:E1.
      + apply Z.eqb_eq in E1. rewrite E1. reflexivity.
      + destruct ((fr_type f =? 3) || (fr_type f =? 255)); [apply Z.mod_small; lia|reflexivity].
  Qed.

  Theorem decode_whole_frame f c st :
    frame_ok cap v f -> Forall (fun i => pkt_wf (it_pkt i)) (fr_items f) ->
    Forall (fun i => it_flag i = 0 /\ it_pos i = 0 /\ it_len i = p_len (it_pkt i)) (fr_items f) ->
    0 <= c < 65536 ->
    exists st', decode st (ser_frame minb dev stream c f) = Ok (st', map (fun i => expected 0 (it_pkt i)) (fr_items f)) /\ lookup e st' = None.
  Proof.
    intros Hf Hw Hu Hc. pose proof (frame_type_range f Hf) as Hty. destruct Hf as (Hv & Hne & Hit & _).
    rewrite ser_frame_split.
    set (pad := zeros (minb - zlen (ser_fhdr (fh_of f c) ++ concat (map ser_item (fr_items f))))).
    destruct (decode_unsegmented_frame (fh_of f c) (map umsg_of (fr_items f)) pad st (fh_of_ok f c Hv Hty Hc)) as (st' & E & L).
    - rewrite Forall_forall in *. intros m Hm. apply in_map_iff in Hm. destruct Hm as (i & <- & Hi).
      unfold umsg_ok, umsg_of. cbn [fst snd]. destruct (Hu i Hi) as (Hfl & _).
      pose proof (item_hdr_ok i (fr_type f) (Hw i Hi) (Hit i Hi) (or_introl Hfl)) as HH. rewrite Hfl in HH. exact HH.
    - apply zeros_stop.
    - left. destruct (fr_items f); [congruence|discriminate].
    - exists st'. split; [|exact L]. rewrite E. f_equal. f_equal. rewrite map_map.
      apply map_ext_in. intros i Hi. rewrite Forall_forall in *. destruct (Hu i Hi) as (H1 & H2 & H3).
      apply spec_packet_expected; auto.
  Qed.

  (* ---------- a packet that is segmented: its chain of frames ---------- *)
  Lemma take_take_drop' {A} (a b : Z) (l : list A) : 0 <= a -> 0 <= b -> take a l ++ take b (drop a l) = take (a + b) l.
  Proof.
    intros Ha Hb. unfold take, drop. rewrite Z2Nat.inj_add by lia.
    set (x := Z.to_nat a). set (y := Z.to_nat b). clearbody x y. revert l.
    induction x as [|x IH]; intros l; [reflexivity|].
    destruct l as [|z t]; [cbn; now rewrite firstn_nil|]. cbn [firstn skipn Nat.add app]. f_equal. apply IH.
  Qed.

  Section Chain.
    Variable p : packet.
    Hypothesis Hw : pkt_wf p.
    Let L := p_len p.
    Let data := pdata p.
    Let mt := p_mt p.
    (* the header of the first segment: what the reassembled packet inherits *)
    Let H0 : mhdr := item_hdr {| it_pkt := p; it_pos := 0; it_len := Z.min (cap - 16) L; it_flag := 4 |}.
    Notation fhc := (fh_at v dev mt stream).

    Lemma L_eq : L = zlen data.
    Proof. apply p_len_wf. exact Hw. Qed.

    (* the bytes of a segment frame are header ++ one segment message ++ padding *)
    Lemma seg_frame_bytes c i :
      ser_frame minb dev stream (c mod 65536) {| fr_type := mt; fr_ver := v; fr_items := [i] |} =
      ser_fhdr (fhc c) ++ seg_msg (item_hdr i) (item_bytes i)
        (zeros (minb - zlen (ser_fhdr (fhc c) ++ concat (map ser_item [i])))).
    Proof.
      unfold ser_frame, pad_to, seg_msg. cbn [fr_ver fr_type fr_items map concat]. rewrite app_nil_r, ser_item_eq.
      rewrite <- !app_assoc. reflexivity.
    Qed.

    Lemma decode_seg_frame c i st :
      decode st (ser_frame minb dev stream (c mod 65536) {| fr_type := mt; fr_ver := v; fr_items := [i] |}) =
      let pad := zeros (minb - zlen (ser_fhdr (fhc c) ++ concat (map ser_item [i]))) in
      dloop (fuel_of (msg_size (item_bytes i) pad)) (fhc c) (seg_msg (item_hdr i) (item_bytes i) pad) (msg_size (item_bytes i) pad) st [].
    Proof.
      rewrite seg_frame_bytes. cbn zeta.
      set (pad := zeros (minb - zlen (ser_fhdr (fhc c) ++ concat (map ser_item [i])))).
      assert (Hz : zlen (seg_msg (item_hdr i) (item_bytes i) pad) = msg_size (item_bytes i) pad)
        by (unfold seg_msg, msg_size; rewrite !zlen_app, ser_mhdr_zlen; lia).
      rewrite decode_frame.
      - rewrite Hz. reflexivity.
      - apply fh_ok. unfold mt. pose proof (p_mt_range p). lia.
      - rewrite Hz. unfold msg_size. pose proof (zlen_nonneg (item_bytes i)). pose proof (zlen_nonneg pad). lia.
    Qed.

    Definition seg_item (pos : Z) (flag : Z) : item :=
      {| it_pkt := p; it_pos := pos; it_len := Z.min (cap - 16) (L - pos); it_flag := flag |}.

    Lemma seg_item_ok pos flag : 0 <= pos < L -> (flag = 4 \/ flag = 8 \/ flag = 12) ->
      seg_hdr_ok (item_hdr (seg_item pos flag)) flag (item_bytes (seg_item pos flag)).
    Proof.
      intros Hp Hf. apply (item_hdr_ok (seg_item pos flag) mt Hw); [|cbn [it_flag seg_item]; tauto].
      unfold item_ok, seg_item. cbn [it_pkt it_pos it_len]. fold L. repeat split; try reflexivity; lia.
    Qed.

    Lemma seg_item_bytes pos flag : 0 <= pos -> item_bytes (seg_item pos flag) = take (Z.min (cap - 16) (L - pos)) (drop pos data).
    Proof. reflexivity. Qed.

    (* continuation: the decoder holds bytes [0, pos) of p for this endpoint; the remaining frames complete it *)
    Lemma seg_tail_decodes : forall fuel pos c st sg,
      0 < pos < L -> L - pos <= Z.of_nat fuel ->
      lookup e st = Some sg -> sg_ver sg = v -> sg_mt sg = mt -> sg_cur sg = c mod 65536 -> (sg_type sg = 4 \/ sg_type sg = 8) ->
      sg_hdr sg = H0 -> sg_pay sg = take pos data ->
      exists st' cl, dec_frames st (ser_frames minb dev stream c (seg_frames cap v fuel p L pos false)) =
        Ok (st', [chain_packet v dev mt stream cl H0 data]) /\ lookup e st' = None.
    Proof.
      induction fuel as [|fuel IH]; intros pos c st sg Hpos Hfuel Lk Hv Hm Hc Hty Hh Hpay; [cbn in Hfuel; lia|].
      cbn [seg_frames]. destruct (Z.ltb_spec pos L) as [_|]; [|lia].
      set (n := Z.min (cap - 16) (L - pos)). assert (Hn : 1 <= n /\ pos + n <= L) by (subst n; lia).
      cbn [ser_frames dec_frames].
      set (flag := if pos + n =? L then 12 else 8).
      change {| it_pkt := p; it_pos := pos; it_len := n; it_flag := flag |} with (seg_item pos flag).
      fold mt. rewrite decode_seg_frame. cbn zeta.
      assert (Hfl : flag = 8 \/ flag = 12) by (subst flag; destruct (pos + n =? L); auto).
      assert (Hok : seg_hdr_ok (item_hdr (seg_item pos flag)) flag (item_bytes (seg_item pos flag))) by (apply seg_item_ok; [lia|tauto]).
      unfold fuel_of.
      rewrite (step_next _ v dev mt stream c _ _ _ st [] sg flag Hfl Hok Lk Hv Hm Hc Hty).
      assert (Hcat : sg_pay sg ++ item_bytes (seg_item pos flag) = take (pos + n) data).
      { rewrite Hpay, seg_item_bytes by lia. fold n. apply take_take_drop'; lia. }
      destruct (Z.eqb_spec (pos + n) L) as [Hlast|Hmore]; subst flag; cbn [Z.eqb Pos.eqb rbind].
      - (* last segment *)
        assert (seg_frames cap v fuel p L (pos + n) false = []) as ->.
        { destruct fuel; [reflexivity|]. cbn [seg_frames]. destruct (Z.ltb_spec (pos + n) L); [lia|reflexivity]. }
        cbn [ser_frames dec_frames rbind app]. exists (erase e st), (c + 1). split; [|apply lookup_erase_same].
        unfold chain_packet. rewrite Hcat, Hh, Hlast, L_eq, take_all. reflexivity.
      - (* intermediary segment *)
        set (sg' := {| sg_hdr := sg_hdr sg; sg_pay := sg_pay sg ++ item_bytes (seg_item pos 8); sg_type := 8; sg_ver := v; sg_mt := mt; sg_cur := (c + 1) mod 65536 |}).
        assert (P1 : 0 < pos + n < L) by lia.
        assert (P2 : L - (pos + n) <= Z.of_nat fuel) by (rewrite Nat2Z.inj_succ in Hfuel; lia).
        assert (P3 : lookup e (insert e sg' st) = Some sg') by apply lookup_insert.
        assert (P4 : sg_pay sg' = take (pos + n) data) by exact Hcat.
        destruct (IH (pos + n) (c + 1) (insert e sg' st) sg' P1 P2 P3 eq_refl eq_refl eq_refl (or_intror eq_refl) Hh P4) as (st' & cl & E & Lf).
        rewrite ser_frames_seq_mod. rewrite E. cbn [rbind app]. eauto.
    Qed.

    (* the whole chain, from ANY decoder state *)
    Theorem chain_decodes c st : cap < 16 + L ->
      exists st', dec_frames st (ser_frames minb dev stream c (seg_frames cap v (S (Z.to_nat L)) p L 0 true)) = Ok (st', [expected 4 p]) /\ lookup e st' = None.
    Proof.
      intros Hbig. pose proof L_eq as HL. assert (HL1 : 1 <= L) by (destruct Hw as (_ & Hl & _); fold data in Hl; lia).
      cbn [seg_frames]. destruct (Z.ltb_spec 0 L) as [_|]; [|lia].
      assert (Hn : Z.min (cap - 16) (L - 0) = cap - 16) by lia. rewrite Hn.
      cbn [ser_frames dec_frames].
      change {| it_pkt := p; it_pos := 0; it_len := cap - 16; it_flag := 4 |} with {| it_pkt := p; it_pos := 0; it_len := cap - 16; it_flag := 4 |}.
      assert (Ei : {| it_pkt := p; it_pos := 0; it_len := cap - 16; it_flag := 4 |} = seg_item 0 4) by (unfold seg_item; f_equal; lia).
      rewrite Ei. fold mt. rewrite decode_seg_frame. cbn zeta. unfold fuel_of.
      rewrite step_first by (apply seg_item_ok; [lia|tauto]). cbn [rbind].
      set (sg := {| sg_hdr := item_hdr (seg_item 0 4); sg_pay := item_bytes (seg_item 0 4); sg_type := 4; sg_ver := v; sg_mt := mt; sg_cur := (c + 1) mod 65536 |}).
      assert (P1 : 0 < 0 + (cap - 16) < L) by lia.
      assert (P2 : L - (0 + (cap - 16)) <= Z.of_nat (Z.to_nat L)) by lia.
      assert (P3 : lookup e (insert e sg st) = Some sg) by apply lookup_insert.
      assert (P4 : sg_hdr sg = H0) by (subst sg; cbn [sg_hdr]; unfold H0, seg_item; f_equal; f_equal; lia).
      assert (P5 : sg_pay sg = take (0 + (cap - 16)) data).
      { subst sg. cbn [sg_pay]. rewrite seg_item_bytes by lia. unfold drop. cbn [Z.to_nat skipn]. f_equal. lia. }
      destruct (seg_tail_decodes (Z.to_nat L) (0 + (cap - 16)) (c + 1) (insert e sg st) sg P1 P2 P3 eq_refl eq_refl eq_refl (or_introl eq_refl) P4 P5) as (st' & cl & E & Lf).
      rewrite ser_frames_seq_mod. rewrite E. cbn [rbind app].
      exists st'. split; [|exact Lf]. f_equal. f_equal. f_equal.
        (* the delivered packet is the expected one *)
        destruct (chain_packet_fields v dev mt stream cl H0 data) as (F1 & F2 & F3 & F4 & F5 & F6); [rewrite <- HL; destruct Hw as (_ & Hl & _); fold data in Hl; lia|].
        unfold chain_packet, mkp_seg, mkp, stamp, packet_of_msg, expected, set_plen, H0, item_hdr, raw_mhdr.
        cbn [sg_hdr sg_pay sg_ver sg_mt h_ts h_id h_flags h_ptype h_plen it_pkt it_flag it_len f_dev f_stream fh_at p_pl p_ver p_dev p_stream p_seq p_ts p_ifid p_vendor p_flags p_seg].
        fold mt data. destruct Hw as (_ & Hl & _ & _ & _ & Hvn & _). fold data in Hl.
        rewrite (Z.mod_small (zlen data)) by lia. rewrite take_all.
        f_equal.
        + destruct (mt =? 1); reflexivity.
        + destruct (mt =? 1) eqn:E1; [apply Z.eqb_eq in E1; rewrite E1; reflexivity|].
          destruct ((mt =? 3) || (mt =? 255)); [apply Z.mod_small; lia|reflexivity].
    Qed.
  End Chain.

  (* ---------- the whole batch ---------- *)
  Definition head_whole (f : frame) : Prop :=
    Forall (fun i => it_flag i = 0 /\ it_pos i = 0 /\ it_len i = p_len (it_pkt i)) (fr_items f) /\
    Forall (fun i => pkt_wf (it_pkt i)) (fr_items f).

  Definition all_dec (fs : list frame) (out : list packet) : Prop :=
    forall st c, exists st', dec_frames st (ser_frames minb dev stream c (rev fs)) = Ok (st', out) /\ (fs <> [] -> lookup e st' = None).

  Inductive rt_inv (q : pst) (done : list packet) : Prop :=
  | RI_nil : fst q = [] -> done = [] -> rt_inv q done
  | RI_whole f fs' P1 : fst q = f :: fs' -> head_whole f -> all_dec fs' P1 ->
      map exp_of done = P1 ++ map (fun i => expected 0 (it_pkt i)) (fr_items f) -> rt_inv q done
  | RI_closed : fst q <> [] -> snd q = 0 -> all_dec (fst q) (map exp_of done) -> rt_inv q done.

  Lemma all_dec_nil : all_dec [] [].
  Proof. intros st c. exists st. split; [reflexivity|congruence]. Qed.

  Lemma mod_range c : 0 <= c mod 65536 < 65536.
  Proof. apply Z.mod_pos_bound. lia. Qed.

  Lemma all_dec_snoc_whole f fs' P1 : frame_ok cap v f -> head_whole f -> all_dec fs' P1 ->
    all_dec (f :: fs') (P1 ++ map (fun i => expected 0 (it_pkt i)) (fr_items f)).
  Proof.
    intros Hf [Hu Hw] Hd st c. cbn [rev]. rewrite ser_frames_app.
    destruct (Hd st c) as (st1 & E1 & _).
    cbn [ser_frames].
    destruct (decode_whole_frame f (((c + zlen (rev fs')) mod 65536 + 1) mod 65536) st1 Hf Hw Hu (mod_range _)) as (st2 & E2 & L2).
    exists st2. split; [|intros _; exact L2].
    eapply dec_frames_app; [exact E1|]. cbn [dec_frames]. rewrite E2. cbn [rbind]. rewrite app_nil_r. reflexivity.
  Qed.

  Lemma rt_inv_all q done : Forall (frame_ok cap v) (fst q) -> rt_inv q done -> all_dec (fst q) (map exp_of done).
  Proof.
    intros HF [Hn Hd | f fs' P1 Hq Hh Hd Hm | Hne Hz Hd].
    - rewrite Hn, Hd. apply all_dec_nil.
    - rewrite Hq, Hm. apply all_dec_snoc_whole; [rewrite Hq in HF; inversion HF; assumption|exact Hh|exact Hd].
    - exact Hd.
  Qed.

  Lemma exp_of_fit p : 16 + p_len p <= cap -> exp_of p = expected 0 p.
  Proof. intros H. unfold exp_of. destruct (Z.leb_spec (16 + p_len p) cap); [reflexivity|lia]. Qed.
  Lemma exp_of_big p : cap < 16 + p_len p -> exp_of p = expected 4 p.
  Proof. intros H. unfold exp_of. destruct (Z.leb_spec (16 + p_len p) cap); [lia|reflexivity]. Qed.

  Lemma pput_rt q done p : pst_ok cap v q done -> rt_inv q done -> pkt_wf p -> rt_inv (pput cap v q p) (done ++ [p]).
  Proof.
    intros Hok Hinv Hw. pose proof Hok as (HF & _ & HH).
    assert (HL1 : 1 <= p_len p) by (rewrite (p_len_wf p Hw); destruct Hw as (_ & Hl & _); lia).
    pose proof (rt_inv_all q done HF Hinv) as Hall.
    destruct q as [fs left]. cbn [fst snd] in *.
    unfold pput. cbn [fst snd]. set (L := p_len p) in *.
    set (it := {| it_pkt := p; it_pos := 0; it_len := L; it_flag := 0 |}).
    destruct (Z.leb_spec (16 + L) cap) as [Hfit|Hbig].
    - (* whole message *)
      assert (NEW : rt_inv (padd it ({| fr_type := p_mt p; fr_ver := v; fr_items := [] |} :: fs, cap) (cap - 16 - L)) (done ++ [p])).
      { unfold padd. cbn [fst snd fr_type fr_ver fr_items app].
        eapply (RI_whole _ _ _ fs (map exp_of done)); [reflexivity| | exact Hall |].
        - split; constructor; cbn [fr_items it_flag it_pos it_len it_pkt]; auto.
        - rewrite map_app. cbn [map fr_items it_pkt]. rewrite exp_of_fit by (fold L; lia). reflexivity. }
      destruct fs as [|f fs']; [exact NEW|].
      destruct ((fr_type f =? p_mt p) && (16 + L <=? left)) eqn:EJ; [|exact NEW].
      apply andb_true_iff in EJ as [_ EL]. apply Z.leb_le in EL.
      unfold padd. cbn [fst snd].
      destruct Hinv as [Hn _ | f0 fs0 P1 Hq [Hu Hwf] Hd Hm | _ Hz _]; cbn [fst snd] in *; [discriminate| |lia].
      inversion Hq; subst f0 fs0.
      eapply (RI_whole _ _ _ fs' P1); [reflexivity| | exact Hd |].
      + cbn [fr_items]. split; apply Forall_app; split; try assumption; constructor; cbn [it_flag it_pos it_len it_pkt]; auto.
      + rewrite map_app, Hm. cbn [map fr_items]. rewrite map_app. cbn [map it_pkt]. rewrite exp_of_fit by (fold L; lia). rewrite <- app_assoc. reflexivity.
    - (* segmented: a chain of frames of its own *)
      apply RI_closed; cbn [fst snd]; [|reflexivity|].
      + cbn [seg_frames]. destruct (Z.ltb_spec 0 L); [|lia]. cbn [rev].
        destruct (rev (seg_frames cap v (Z.to_nat L) p L (0 + Z.min (cap - 16) (L - 0)) false)); cbn; discriminate.
      + intros st c. rewrite rev_app_distr, rev_involutive, ser_frames_app.
        destruct (Hall st c) as (st1 & E1 & _).
        destruct (chain_decodes p Hw ((c + zlen (rev fs)) mod 65536) st1 ltac:(fold L; lia)) as (st2 & E2 & L2).
        exists st2. split; [|intros _; exact L2].
        rewrite map_app. cbn [map]. rewrite exp_of_big by (fold L; lia).
        eapply dec_frames_app; [exact E1|]. exact E2.
  Qed.

  Lemma fold_pput_rt : forall b q done, pst_ok cap v q done -> rt_inv q done -> Forall pkt_wf b ->
    pst_ok cap v (fold_left (pput cap v) b q) (done ++ b) /\ rt_inv (fold_left (pput cap v) b q) (done ++ b).
  Proof.
    induction b as [|p b IH]; intros q done Hok Hinv Hb; [rewrite app_nil_r; split; assumption|].
    inversion Hb as [|? ? Hp Hb']; subst. cbn [fold_left].
    replace (done ++ p :: b) with ((done ++ [p]) ++ b) by (rewrite <- app_assoc; reflexivity).
    assert (HL1 : 1 <= p_len p) by (rewrite (p_len_wf p Hp); destruct Hp as (_ & Hl & _); lia).
    apply IH; [apply pput_ok; assumption | apply pput_rt; assumption | assumption].
  Qed.

  (* C01 on the packing spec: the frames of ANY batch of the domain, decoded in order from ANY decoder state and with ANY start counter,
     give back the packets in order *)
  Theorem pack_round_trip b : Forall pkt_wf b ->
    forall st c, exists st', dec_frames st (ser_frames minb dev stream c (pack cap v b)) = Ok (st', map exp_of b) /\
                             (b <> [] -> lookup e st' = None).
  Proof.
    intros Hb st c.
    destruct (fold_pput_rt b ([], 0) [] ) as [Hok Hinv]; [unfold pst_ok; cbn; auto | apply RI_nil; reflexivity | exact Hb |].
    cbn [app] in *. pose proof Hok as (HF & _ & _).
    pose proof (rt_inv_all _ _ HF Hinv) as Hall. unfold pack.
    destruct (Hall st c) as (st' & E & Lk). exists st'. split; [exact E|].
    intros Hne. apply Lk. intros Hnil.
    (* a non-empty batch produces at least one frame *)
    destruct Hinv as [Hn Hd | f fs' P1 Hq _ _ _ | Hne' _ _]; [destruct b; [congruence|discriminate] | rewrite Hq in Hnil; discriminate | contradiction].
  Qed.
End RT.

(* C01 for the encoder / decoder models *)
Theorem encode_decode_round_trip : forall (e : enc) (b : list packet) (minb maxb v : Z) (st : dstate),
  25 <= maxb -> 1 <= v < 256 -> 0 <= e_dev e < 65536 -> 0 <= e_stream e < 256 ->
  Forall (pkt_wf v) b ->
  exists st', dec_frames st (snd (encode e b minb maxb)) = Ok (st', map (exp_of (maxb - 8) v (e_dev e) (e_stream e)) b) /\
              (b <> [] -> lookup (e_dev e, e_stream e) st' = None).
Proof.
  intros e b minb maxb v st Hm Hv Hd Hs Hb. unfold encode. cbn [snd].
  assert (Hok : Forall (pkt_ok v) b).
  { eapply Forall_impl; [|exact Hb]. intros p Hp. split;
      [rewrite (p_len_wf v p Hp); destruct Hp as (_ & Hl & _); lia | destruct Hp as (Hpv & _); exact Hpv]. }
  rewrite (encode_refines_pack (maxb - 8) v) by (try lia; exact Hok).
  apply pack_round_trip; try assumption; lia.
Qed.

(* the payload returned for a well-formed payload is that payload: same type, same bytes *)
Definition payload_wf (pl : payload) : Prop :=
  0 <= pl_type pl < 65536 /\ pl_type pl mod 256 <> 0 /\
  match kind_of_type (pl_type pl) with Some k => valid_kind k (pl_data pl) = true | None => True end.
Lemma expected_payload v dev stream sbits p pl : p_pl p = Some pl -> payload_wf pl -> p_pl (expected v dev stream sbits p) = Some pl.
Proof.
  intros Hp (Hr & Hnz & Hk). unfold expected. cbn [p_pl]. f_equal.
  unfold p_mt, p_raw, pdata. rewrite Hp. unfold mk_type, ty_mt, ty_raw.
  assert (E : pl_type pl / 256 mod 256 * 256 + pl_type pl mod 256 = pl_type pl) by lia. rewrite E.
  assert (Hne : pl_type pl =? 0 = false) by (apply Z.eqb_neq; intros H0; rewrite H0 in Hnz; apply Hnz; reflexivity).
  unfold create. destruct (kind_of_type (pl_type pl)); [rewrite Hk|]; unfold mk_payload; rewrite Hne; destruct pl; reflexivity.
Qed.

