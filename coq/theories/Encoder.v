(* Model of src/encoder.cpp (after the repairs): structural control flow (putPacket / checkIfSegmented /
   addNewCMPFrame with bytesLeft arithmetic) producing frames as lists of items, then serialisation. *)
Require Import CMP.Bytes CMP.Packet CMP.Decoder.
Local Open Scope Z_scope.
Local Open Scope bool_scope.

Record item := { it_pkt : packet; it_pos : Z; it_len : Z; it_flag : Z }.
Record frame := { fr_type : Z; fr_ver : Z; fr_items : list item }.

(* per-call scratch: frames newest first, bytes left in the newest frame, frame template (message type, version) *)
Record est := { es_frames : list frame; es_left : Z; es_type : Z; es_ver : Z }.
Definition est0 : est := {| es_frames := []; es_left := 0; es_type := 0; es_ver := 0 |}.

Section Struct.
  Variable cap : Z.  (* maxBytesPerMessage - 8 *)

  (* addNewCMPFrame *)
  Definition newf (s : est) : est :=
    {| es_frames := {| fr_type := es_type s; fr_ver := es_ver s; fr_items := [] |} :: es_frames s;
       es_left := cap; es_type := es_type s; es_ver := es_ver s |}.
  (* setMessageType: refresh the template from this packet, open a frame *)
  Definition set_type (s : est) (p : packet) : est :=
    newf {| es_frames := es_frames s; es_left := es_left s; es_type := p_mt p; es_ver := p_ver p |}.
  Definition add_item (i : item) (s : est) (left' : Z) : est :=
    match es_frames s with
    | [] => s
    | f :: fs => {| es_frames := {| fr_type := fr_type f; fr_ver := fr_ver f; fr_items := fr_items f ++ [i] |} :: fs;
                    es_left := left'; es_type := es_type s; es_ver := es_ver s |}
    end.
  Definition close (s : est) : est :=
    {| es_frames := es_frames s; es_left := 0; es_type := es_type s; es_ver := es_ver s |}.

  (* the while loop of putPacket *)
  Fixpoint cloop (fuel : nat) (p : packet) (L : Z) (seg : bool) (pos k : Z) (s : est) : est :=
    match fuel with
    | O => s
    | S f =>
      if pos <? L then
        let s1 := if es_left s <? 16 then newf s else s in
        let n := Z.min (es_left s1 - 16) (L - pos) in
        let flag := if seg then (if k =? 0 then 4 else if pos + n =? L then 12 else 8) else 0 in
        let s2 := add_item {| it_pkt := p; it_pos := pos; it_len := n; it_flag := flag |} s1 (es_left s1 - 16 - n) in
        let s3 := if flag =? 12 then close s2 else s2 in
        cloop f p L seg (pos + n) (k + 1) s3
      else s
    end.

  (* putPacket *)
  Definition cput (s : est) (p : packet) : est :=
    let s1 := match es_frames s with
              | [] => set_type s p
              | _ => if es_type s =? p_mt p then s else set_type s p
              end in
    (* checkIfSegmented: segmentation starts in a frame of its own, an empty frame is reused *)
    let L := p_len p in
    let s2 := if es_left s1 <? 16 + L
              then (if es_left s1 =? cap then s1 else newf s1)
              else s1 in
    let seg := es_left s2 <? 16 + L in
    cloop (S (Z.to_nat L)) p L seg 0 0 s2.

  Definition enc_struct (b : list packet) : list frame := rev (es_frames (fold_left cput b est0)).
End Struct.

(* ---------- serialisation ---------- *)
Definition ser_item (i : item) : list Z :=
  let p := it_pkt i in
  let h := raw_mhdr p in
  let h' := {| h_ts := h_ts h; h_id := h_id h; h_flags := Z.lor (Z.land (h_flags h) 243) (it_flag i);
               h_ptype := h_ptype h; h_plen := it_len i |} in
  ser_mhdr h' ++ take (it_len i) (drop (it_pos i) (match p_pl p with Some pl => pl_data pl | None => [] end)).

Definition pad_to (minb : Z) (l : list Z) : list Z := l ++ zeros (minb - zlen l).

Definition ser_frame (minb dev stream seq : Z) (f : frame) : list Z :=
  pad_to minb (ser_fhdr {| f_ver := fr_ver f; f_dev := dev; f_mt := fr_type f; f_stream := stream; f_seq := seq |}
               ++ concat (map ser_item (fr_items f))).

Fixpoint ser_frames (minb dev stream seq : Z) (fs : list frame) : list (list Z) :=
  match fs with
  | [] => []
  | f :: t => ser_frame minb dev stream ((seq + 1) mod 65536) f :: ser_frames minb dev stream ((seq + 1) mod 65536) t
  end.

(* ---------- the encoder object ---------- *)
Record enc := { e_dev : Z; e_stream : Z; e_seq : Z }.
Definition enc0 : enc := {| e_dev := 0; e_stream := 0; e_seq := 0 |}.
Definition enc_set_dev (e : enc) (d : Z) : enc := {| e_dev := d; e_stream := e_stream e; e_seq := 0 |}.
Definition enc_set_stream (e : enc) (s : Z) : enc := {| e_dev := e_dev e; e_stream := s; e_seq := 0 |}.
Definition enc_restart (e : enc) : enc := {| e_dev := e_dev e; e_stream := e_stream e; e_seq := 0 |}.

Definition encode (e : enc) (b : list packet) (minb maxb : Z) : enc * list (list Z) :=
  let fs := enc_struct (maxb - 8) b in
  ({| e_dev := e_dev e; e_stream := e_stream e; e_seq := (e_seq e + zlen fs) mod 65536 |},
   ser_frames minb (e_dev e) (e_stream e) (e_seq e) fs).
