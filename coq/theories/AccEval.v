(* Executable evaluation of the generated accessor models and of the spec accessors on concrete memory images:
   extracted to OCaml (ocaml/acc_driver.ml) and compared with the compiled accessors run by the harness (op ACC). *)
From Coq Require Import ZArith List String Bool.
Require Import CMP.Bv CMP.SpecLayout CMP.Refine CMPGen.GenAccessors CMPGen.GenLayout.
Import ListNotations.
Local Open Scope string_scope.
Local Open Scope Z_scope.

Definition env_of (mem a1 a2 : Z) : nat -> Z :=
  fun x => match x with 0%nat => mem | 1%nat => a1 | 2%nat => a2 | _ => 0 end.

(* generated model of a method: (memory image afterwards, return value) *)
Definition gen_run (name : string) (mem a1 a2 : Z) : option (Z * option Z) :=
  match assoc name gen_methods with
  | Some mm =>
    let env := env_of mem a1 a2 in
    Some (match mm_mem mm with Some e => eval env e mod 2 ^ (8 * mm_size mm) | None => mem end,
          match mm_ret mm with Some (w, r) => Some (eval env r mod 2 ^ w) | None => None end)
  | None => None
  end.

(* every accessor named by the layout tables: (qualified method name, is setter, class index, field index, mask enumerator) *)
Fixpoint enum_from {A} (i : nat) (l : list A) : list (nat * A) := match l with [] => [] | x :: t => (i, x) :: enum_from (S i) t end.
Definition spec_methods : list (string * bool * nat * nat * option Z) :=
  flat_map (fun ci_c => let '(ci, c) := ci_c in
    flat_map (fun fi_f => let '(fi, f) := fi_f in
      ((if has (fs_get f) then [((cs_class c ++ "::" ++ fs_get f)%string, false, ci, fi, fs_mask f)] else []) ++
       (if has (fs_set f) then [((cs_class c ++ "::" ++ fs_set f)%string, true, ci, fi, fs_mask f)] else []))%list)
      (enum_from 0 (cs_fields c)))
    (enum_from 0 spec_classes).

(* what the layout prescribes: getter result on mem; memory after setting API value v (None = v not in the field's range) *)
Definition spec_run (ci fi : nat) (setter : bool) (mem v : Z) : option (Z * option Z) :=
  match nth_error spec_classes ci with
  | Some c =>
    match nth_error (cs_fields c) fi, size_of c with
    | Some f, Some size =>
      match locate (cs_class c) f with
      | Some (off, bytes, be) =>
        let env := fun x : nat => match x with 0%nat => mem | 9%nat => Z.shiftr v (fs_shift f) | _ => 0 end in
        if setter then
          if (Z.shiftl (Z.shiftr v (fs_shift f)) (fs_shift f) =? v) && (0 <=? v) && (Z.shiftr v (fs_shift f) <? 2 ^ fs_w f)
          then Some (eval env (spec_set size off bytes be (fs_lo f) (fs_w f) (Var 0%nat (8 * size)) (Var 9%nat (fs_w f))) mod 2 ^ (8 * size), None)
          else None
        else Some (mem, Some (eval env (spec_get off bytes be (fs_lo f) (fs_w f) (fs_shift f) (Var 0%nat (8 * size)))))
      | None => None
      end
    | _, _ => None
    end
  | None => None
  end.
