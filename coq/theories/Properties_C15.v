(* C15 — TECMP messages convert to equivalent ASAM CMP packets. *)
Require Import CMP.Bytes CMP.Packet CMP.Tecmp CMP.Decoder CMP.DecoderProofs CMP.TecmpProofs.
Local Open Scope Z_scope.

(* t_hd buf = the 28 header bytes, t_pd buf = what follows; u8/u16/u32/u64 read big-endian at the given offset. Header fields used:
   device id @1, message type @5, data type @6, interface id @12, timestamp @16, payload length @24. *)

(* CAN (dlc <= 8) and CAN-FD (dlc > 8) data: arbitration id @0, length @4, data @5 of the payload *)
Theorem C15_can_data : forall buf, bytes_ok buf -> t_accepts buf ->
  u8 (t_hd buf) 5 = 3 -> (u16 (t_hd buf) 6 = 2 \/ u16 (t_hd buf) 6 = 3) ->
  let pd := t_pd buf in let psize := zlen buf - 28 in
  5 <= psize -> u8 (take 5 (drop 0 pd)) 4 <= psize - 5 ->
  let dlc := u8 (take 5 (drop 0 pd)) 4 in
  exists crc, tecmp_decode buf =
    Ok [tecmp_packet (u8 (t_hd buf) 1) (u64 (t_hd buf) 16) (u32 (t_hd buf) 12)
          {| pl_type := if 8 <? dlc then 258 else 257;
             pl_data := [0;0;0;0] ++ be_enc 4 (u32 (take 5 (drop 0 pd)) 0) ++ be_enc 4 crc ++ [0;0] ++ [encode_dlc dlc; dlc] ++ take dlc (drop 5 pd) |}].
Proof. exact tecmp_can. Qed.
Print Assumptions C15_can_data.

(* LIN data: pid @0 (id = pid & 0x3F), length @1, data @2, checksum after the data *)
Theorem C15_lin_data : forall buf, bytes_ok buf -> t_accepts buf ->
  u8 (t_hd buf) 5 = 3 -> u16 (t_hd buf) 6 = 4 ->
  let pd := t_pd buf in let psize := zlen buf - 28 in
  2 <= psize -> u8 (take 2 (drop 0 pd)) 1 <= psize - 2 ->
  let len := u8 (take 2 (drop 0 pd)) 1 in let pid := u8 (take 2 (drop 0 pd)) 0 in
  exists cs, tecmp_decode buf =
    Ok [tecmp_packet (u8 (t_hd buf) 1) (u64 (t_hd buf) 16) (u32 (t_hd buf) 12)
          {| pl_type := 259; pl_data := [0;0;0;0] ++ [Z.land pid 63; 0; cs; len] ++ take len (drop 2 pd) |}] /\
    (2 + len < psize -> cs = u8 (take 1 (drop (2 + len) pd)) 0).
Proof. exact tecmp_lin. Qed.
Print Assumptions C15_lin_data.

(* capture-module status: serial number @8 rendered in decimal, hardware version "v<@16>.<@17>", software version "v<@13>.<@14>.<@15>" *)
Theorem C15_capture_module_status : forall buf, bytes_ok buf -> t_accepts buf -> u8 (t_hd buf) 5 = 1 ->
  let pd := t_pd buf in 36 <= zlen buf - 28 ->
  let h := take 36 (drop 0 pd) in
  tecmp_decode buf =
    Ok [tecmp_packet (u8 (t_hd buf) 1) (u64 (t_hd buf) 16) (u32 (t_hd buf) 12)
          {| pl_type := 769;
             pl_data := zeros 26 ++ cm_string [] ++ cm_string (dec_str (u32 h 8)) ++
                        cm_string ([V] ++ dec_str (u8 h 16) ++ [DOT] ++ dec_str (u8 h 17)) ++
                        cm_string ([V] ++ dec_str (u8 h 13) ++ [DOT] ++ dec_str (u8 h 14) ++ [DOT] ++ dec_str (u8 h 15)) ++ [0; 0] |}].
Proof. exact tecmp_cm. Qed.
Print Assumptions C15_capture_module_status.

(* bus status: exactly one interface-status packet per complete 12-byte entry (after the 12 generic bytes), in order, each with the
   entry's interface id, message total (-> msgTotalRx @4) and error total (-> errorsTotalRx @20) *)
Theorem C15_bus_status : forall buf, bytes_ok buf -> t_accepts buf -> u8 (t_hd buf) 5 = 2 ->
  let pd := t_pd buf in let psize := zlen buf - 28 in 12 <= psize ->
  exists ps, tecmp_decode buf = Ok ps /\ zlen ps = (psize - 12) / 12 /\
    forall i, (i < length ps)%nat ->
      let e := take 12 (drop (12 + 12 * Z.of_nat i) pd) in
      nth i ps default_packet =
        tecmp_packet (u8 (t_hd buf) 1) (u64 (t_hd buf) 16) (be_dec (take 4 e))
          {| pl_type := 770; pl_data := be_enc 4 (be_dec (take 4 e)) ++ be_enc 4 (be_dec (take 4 (drop 4 e))) ++ zeros 12 ++
                                        be_enc 4 (be_dec (take 4 (drop 8 e))) ++ zeros 16 |}.
Proof. exact tecmp_bus. Qed.
Print Assumptions C15_bus_status.

(* everything else yields no packet: all message types other than 1, 2, 3 and, for data, all data types other than 2, 3, 4 — for all
   256 x 65536 combinations at once — and frames the header check rejects (too short, zero or oversized payload length, 0xFF markers) *)
Theorem C15_unsupported_kinds_yield_nothing : forall buf,
  let mt := u8 (t_hd buf) 5 in let dt := u16 (t_hd buf) 6 in
  (mt <> 1 /\ mt <> 2 /\ (mt <> 3 \/ (dt <> 2 /\ dt <> 3 /\ dt <> 4))) -> tecmp_decode buf = Ok [].
Proof. exact tecmp_unsupported. Qed.
Print Assumptions C15_unsupported_kinds_yield_nothing.
Theorem C15_rejected_headers_yield_nothing : forall buf, ~ t_accepts buf -> tecmp_decode buf = Ok [].
Proof. exact tecmp_rejected. Qed.
Print Assumptions C15_rejected_headers_yield_nothing.

(* inner lengths that do not fit the buffer are covered by totality: the result is Ok, and by the guards of the model it is the empty
   list (see C02_tecmp_total_in_bounds); example: dlc 64 with 2 bytes present *)
Example C15_example_inconsistent : tecmp_decode ([0;9;0;1;3;3;0;2;0;0;0;0;0;0;0;5;0;0;0;0;0;0;0;77;0;6;0;0] ++ [0;0;0;1;64;7]) = Ok [].
Proof. vm_compute. reflexivity. Qed.
Example C15_example_can : exists p, tecmp_decode ([0;9;0;1;3;3;0;2;0;0;0;0;0;0;0;5;0;0;0;0;0;0;0;77;0;9;0;0] ++ [0;0;1;35;4;1;2;3;4]) = Ok [p] /\
  p_dev p = 9 /\ p_ts p = 77 /\ p_ifid p = 5 /\ option_map pl_data (p_pl p) = Some [0;0;0;0;0;0;1;35;0;0;0;0;0;0;4;4;1;2;3;4].
Proof. eexists. vm_compute. repeat split. Qed.
