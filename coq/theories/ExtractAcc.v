(* Extraction of the accessor evaluators (depends on the generated files: re-extracted per source tree). *)
Require Extraction.
Require Import ExtrOcamlBasic.
Require Import CMP.AccEval.
Extraction Language OCaml.
Extraction "accmodel.ml" gen_run spec_run spec_methods.
