(* Model of src/status.cpp, src/device_status.cpp, src/interface_status.cpp: vectors as lists (order kept). *)
Require Import CMP.Bytes CMP.Packet.
Local Open Scope Z_scope.
Local Open Scope bool_scope.

Record ifstat := { is_id : Z; is_pkt : packet }.
Record devstat := { ds_pkt : packet; ds_ifs : list ifstat }.
Definition status := list devstat.

Fixpoint find_idx {A} (f : A -> bool) (l : list A) : nat :=
  match l with [] => O | x :: t => if f x then O else S (find_idx f t) end.
Fixpoint upd_nth {A} (n : nat) (f : A -> A) (l : list A) : list A :=
  match n, l with O, x :: t => f x :: t | S k, x :: t => x :: upd_nth k f t | _, [] => [] end.
(* std::swap(v[i], v.back()); v.pop_back() *)
Fixpoint swap_remove {A} (n : nat) (l : list A) : list A :=
  match n, l with
  | O, x :: t => match rev t with [] => [] | lst :: _ => lst :: removelast t end
  | S k, x :: t => x :: swap_remove k t
  | _, [] => []
  end.

Definition p_type (p : packet) : Z := match p_pl p with Some pl => pl_type pl | None => 0 end.
Definition p_if_id (p : packet) : Z := match p_pl p with Some pl => u32 (pl_data pl) 0 | None => 0 end.

Definition dev_index (st : status) (d : Z) : nat := find_idx (fun x => p_dev (ds_pkt x) =? d) st.
Definition if_index (ds : devstat) (i : Z) : nat := find_idx (fun x => is_id x =? i) (ds_ifs ds).

Definition dev_update (ds : devstat) (p : packet) : devstat :=
  let ds1 := if p_type p =? 770 then
               let id := p_if_id p in
               let idx := if_index ds id in
               if Nat.ltb idx (length (ds_ifs ds))
               then {| ds_pkt := ds_pkt ds; ds_ifs := upd_nth idx (fun _ => {| is_id := id; is_pkt := p |}) (ds_ifs ds) |}
               else {| ds_pkt := ds_pkt ds; ds_ifs := ds_ifs ds ++ [{| is_id := id; is_pkt := p |}] |}
             else ds in
  if p_type p =? 769 then {| ds_pkt := p; ds_ifs := ds_ifs ds1 |} else ds1.

Definition st_update (st : status) (p : packet) : status :=
  let idx := dev_index st (p_dev p) in
  if Nat.ltb idx (length st) then upd_nth idx (fun ds => dev_update ds p) st
  else if p_type p =? 769 then st ++ [dev_update {| ds_pkt := default_packet; ds_ifs := [] |} p]
  else st.

Definition st_remove_dev (st : status) (d : Z) : status :=
  let idx := dev_index st d in if Nat.ltb idx (length st) then swap_remove idx st else st.
Definition st_remove_if (st : status) (d i : Z) : status :=
  let idx := dev_index st d in
  if Nat.ltb idx (length st) then
    upd_nth idx (fun ds => let j := if_index ds i in
                           if Nat.ltb j (length (ds_ifs ds)) then {| ds_pkt := ds_pkt ds; ds_ifs := swap_remove j (ds_ifs ds) |} else ds) st
  else st.
