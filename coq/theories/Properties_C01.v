(* C01 — encode then decode returns the original packets. *)
Require Import CMP.Bytes CMP.Packet CMP.Tecmp CMP.Decoder CMP.Encoder CMP.DecoderProofs CMP.EncoderProofs CMP.RoundTrip.
Local Open Scope Z_scope.

(* For every encoder state e (device id, stream id, ANY sequence counter - any history), every batch b of packets of the domain
   (pkt_wf v: one version v >= 1 per batch, payload present with 1..65535 bytes and a non-zero payload type byte, field values within
   their wire widths, common flags without the error-in-payload bit 0x40), every frame-size configuration with 25 <= maxb (minb
   arbitrary) and every decoder state st (ANY history of the decoder, any pending reassemblies): feeding the frames returned by
   encode, one decode call per frame, in order, returns - over all calls together - exactly map exp_of b: one packet per packet
   of the batch, in batch order.  exp_of p is p with the device id and stream id of the encoder, the payload re-created from
   p's message type, payload type byte and bytes, timestamp, interface id (data messages) or vendor id (status / vendor messages),
   version, and the flag bits of p outside the segmentation field (bits 2-3); see C01_expected_fields.  This holds whether p was
   aggregated or segmented, because exp_of only distinguishes the two in the segmentation field.
   Afterwards the encoder's endpoint has no pending reassembly. *)
Theorem C01_encode_then_decode_returns_the_batch : forall (e : enc) (b : list packet) (minb maxb v : Z) (st : dstate),
  25 <= maxb -> 1 <= v < 256 -> 0 <= e_dev e < 65536 -> 0 <= e_stream e < 256 ->
  Forall (pkt_wf v) b ->
  exists st', dec_frames st (snd (encode e b minb maxb)) = Ok (st', map (exp_of (maxb - 8) v (e_dev e) (e_stream e)) b) /\
              (b <> [] -> lookup (e_dev e, e_stream e) st' = None).
Proof. exact encode_decode_round_trip. Qed.
Print Assumptions C01_encode_then_decode_returns_the_batch.

(* the same on the packing specification alone (C08's pack): any start counter c *)
Theorem C01_pack_round_trip : forall cap v minb dev stream, 17 <= cap -> 1 <= v < 256 -> 0 <= dev < 65536 -> 0 <= stream < 256 ->
  forall b, Forall (pkt_wf v) b ->
  forall st c, exists st', dec_frames st (ser_frames minb dev stream c (pack cap v b)) = Ok (st', map (exp_of cap v dev stream) b) /\
                           (b <> [] -> lookup (dev, stream) st' = None).
Proof. exact pack_round_trip. Qed.
Print Assumptions C01_pack_round_trip.

(* the fields of the packet returned for p *)
Theorem C01_expected_fields : forall cap v dev stream p,
  let q := exp_of cap v dev stream p in
  p_ver q = v /\ p_dev q = dev /\ p_stream q = stream /\ p_ts q = p_ts p /\
  p_ifid q = (if p_mt p =? 1 then p_ifid p else 0) /\
  p_vendor q = (if ((p_mt p =? 3) || (p_mt p =? 255))%bool then p_vendor p else 0) /\
  Z.land (p_flags q) 243 = Z.land (p_flags p) 243 /\
  p_pl q = Some (create (mk_type (p_mt p) (p_raw p)) (pdata p)).
Proof.
  intros. unfold q, exp_of, expected. cbn [p_ver p_dev p_stream p_ts p_ifid p_vendor p_flags p_pl]. repeat split.
  set (k := if 16 + p_len p <=? cap then 0 else 4).
  assert (Hk : Z.land k 243 = 0) by (unfold k; destruct (16 + p_len p <=? cap); reflexivity).
  rewrite Z.land_lor_distr_l, Hk, Z.lor_0_r, <- Z.land_assoc. reflexivity.
Qed.
Print Assumptions C01_expected_fields.

(* a well-formed payload (16-bit type with non-zero payload type byte; typed payloads structurally valid) comes back as it is:
   same payload type, same bytes *)
Theorem C01_payload_is_returned_unchanged : forall v dev stream sbits p pl,
  p_pl p = Some pl -> payload_wf pl -> p_pl (expected v dev stream sbits p) = Some pl.
Proof. exact expected_payload. Qed.
Print Assumptions C01_payload_is_returned_unchanged.

(* non-vacuity: three packets of two message types at 64-byte frames: the first fits and is aggregated alone, the second is cut into
   three segments, the third (a status message, vendor id 77) starts a new frame; decoded from a state with a stale pending chain *)
Definition ex_pkt (ty : Z) (n : nat) (ts : Z) : packet :=
  {| p_pl := Some {| pl_type := ty; pl_data := repeat 7 n |}; p_ver := 1; p_dev := 0; p_stream := 0; p_seq := 0;
     p_ts := ts; p_ifid := 5; p_vendor := 77; p_flags := 129; p_seg := 0 |}.
Definition ex_batch := [ex_pkt 511 8 1000; ex_pkt 511 100 1001; ex_pkt 1023 9 1002].
Definition ex_enc : enc := {| e_dev := 3; e_stream := 9; e_seq := 65535 |}.
Example C01_example_hyp : Forall (pkt_wf 1) ex_batch.
Proof.
  repeat (apply Forall_cons; [unfold pkt_wf; cbn; repeat split; try lia; discriminate|]). apply Forall_nil.
Qed.
Example C01_example :
  map zlen (snd (encode ex_enc ex_batch 0 64)) = [32; 64; 64; 44; 33] /\
  match dec_frames [] (snd (encode ex_enc ex_batch 0 64)) with
  | Ok (_, out) => out = map (exp_of 56 1 3 9) ex_batch /\ map (fun q => zlen (pdata q)) out = [8; 100; 9] /\
                   map p_vendor out = [0; 0; 77] /\ map p_ifid out = [5; 5; 0]
  | _ => False
  end.
Proof. vm_compute. repeat split; reflexivity. Qed.
