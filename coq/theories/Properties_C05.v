(* C05 — segmented messages reassemble correctly under any interleaving. *)
Require Import CMP.Bytes CMP.Packet CMP.Tecmp CMP.Decoder CMP.DecoderProofs CMP.Cir CMP.CodeBridge CMP.CodeSegPred CMPGen.GenCode.
From Coq Require Import String List.
Import ListNotations.
Local Open Scope Z_scope.

(* For every history h of arbitrary buffers (other endpoints' chains and unsegmented traffic, TECMP, garbage), every decoder
   state st, every endpoint (dev, stream), version, message type and start counter c (counters are taken modulo 2^16, so the
   65535 -> 0 wrap is inside the statement), every number of intermediary segments, every chunk size (0 included) and every
   trailing bytes after a segment's declared length: if the endpoint's own frames in h are exactly first, mids..., last with
   counters c, c+1, ..., then the decode calls carrying those frames return nothing, except the last one, which returns
   exactly one packet: chain_packet = header fields / version / message type of the first segment, payload = concatenation
   of the declared chunks. *)
Theorem C05_chain_delivered_under_any_interleaving :
  forall ver dev mt stream, 1 <= ver < 256 /\ 0 <= dev < 65536 /\ 0 <= mt < 256 /\ 0 <= stream < 256 ->
  forall (h : list (list Z)) (firstf : sframe) (mids : list sframe) (lastf : sframe) (c : Z) (st : dstate),
  seg_hdr_ok (s_h firstf) 4 (s_chunk firstf) ->
  Forall (fun f => seg_hdr_ok (s_h f) 8 (s_chunk f)) mids ->
  seg_hdr_ok (s_h lastf) 12 (s_chunk lastf) ->
  proj (dev, stream) h = cframes ver dev mt stream c (firstf :: mids ++ [lastf]) ->
  callproj (dev, stream) h (runc st h) =
    [] :: map (fun _ => []) mids ++
    [[chain_packet ver dev mt stream (c + 1 + zlen mids) (s_h firstf)
        (s_chunk firstf ++ concat (map s_chunk mids) ++ s_chunk lastf)]].
Proof. exact chain_delivers_interleaved. Qed.
Print Assumptions C05_chain_delivered_under_any_interleaving.

(* what is delivered: fields of the first segment; the payload is the concatenation of the declared chunks *)
Theorem C05_delivered_packet : forall ver dev mt stream c h0 pay,
  zlen pay < 65536 ->
  let p := chain_packet ver dev mt stream c h0 pay in
  p_ver p = ver /\ p_dev p = dev /\ p_stream p = stream /\ p_ts p = h_ts h0 /\ p_flags p = h_flags h0 /\
  p_pl p = Some (create (mk_type mt (h_ptype h0)) pay).
Proof. exact chain_packet_fields. Qed.
Print Assumptions C05_delivered_packet.

(* the endpoint's reassembly entry is released when the chain completes *)
Theorem C05_chain_releases_state :
  forall ver dev mt stream, 1 <= ver < 256 /\ 0 <= dev < 65536 /\ 0 <= mt < 256 /\ 0 <= stream < 256 ->
  forall firstf mids lastf c st,
  seg_hdr_ok (s_h firstf) 4 (s_chunk firstf) ->
  Forall (fun f => seg_hdr_ok (s_h f) 8 (s_chunk f)) mids ->
  seg_hdr_ok (s_h lastf) 12 (s_chunk lastf) ->
  lookup (dev, stream) (runh_st st (cframes ver dev mt stream c (firstf :: mids ++ [lastf]))) = None.
Proof. intros. eapply chain_delivers_decode; eauto. Qed.
Print Assumptions C05_chain_releases_state.

(* non-vacuity: counters 65535 -> 0, a 3-byte first chunk followed by 4 trailing bytes, then a 2-byte last chunk *)
Definition ex_h (fl len : Z) : mhdr := {| h_ts := 7; h_id := 9; h_flags := fl; h_ptype := 255; h_plen := len |}.
(* Tie T2: the two predicates that route a message into the reassembly path, as they stand in /repo on this run
   (Decoder::isSegmentedPacket / isFirstSegment re-translated into the IR of Cir.v): on every message the message-level check accepted
   (16 <= size) they read in bounds and return what the model's dispatch on bits 2-3 of the common flags computes. *)
Theorem C05_translated_segment_predicates_are_the_models : forall d, bytes_ok d -> 16 <= zlen d ->
  (forall c, code_Decoder_isSegmentedPacket = Some c ->
     ceval gen_reads d (penv d) c = Ok (b2z (negb (Z.land (h_flags (parse_mhdr d)) 12 =? 0)))) /\
  (forall c, code_Decoder_isFirstSegment = Some c ->
     ceval gen_reads d (penv d) c = Ok (b2z (Z.land (h_flags (parse_mhdr d)) 12 =? 4))).
Proof. intros d Hd L. split; intros c Hc; [apply code_is_segmented|apply code_is_first]; assumption. Qed.
Print Assumptions C05_translated_segment_predicates_are_the_models.
Theorem C05_segment_predicates_translated :
  lost_among ["ASAM::CMP::Decoder::isSegmentedPacket"; "ASAM::CMP::Decoder::isFirstSegment"]%string = nil.
Proof. vm_compute. reflexivity. Qed.

Example C05_example :
  runc [] (cframes 1 3 1 1 65535 [ {| s_h := ex_h 4 3; s_chunk := [1;2;3]; s_trail := [238;238;238;238] |};
                                    {| s_h := ex_h 12 2; s_chunk := [4;5]; s_trail := [] |} ])
  = [ []; [chain_packet 1 3 1 1 65536 (ex_h 4 3) [1;2;3;4;5]] ].
Proof. vm_compute. reflexivity. Qed.
Example C05_example_hyp : seg_hdr_ok (ex_h 4 3) 4 [1;2;3] /\ seg_hdr_ok (ex_h 12 2) 12 [4;5].
Proof. unfold seg_hdr_ok, mhdr_ok, byte_ok. cbn. repeat split; try lia; discriminate. Qed.
