(* C16 — the status tracker equals a per-device, per-interface latest-message map. *)
Require Import CMP.Bytes CMP.Packet CMP.Status CMP.StatusProofs.
Local Open Scope Z_scope.

(* Refinement, for every sequence of {update(packet), removeDeviceById, removeInterfaceById, clear} from the empty tracker:
   - the device ids held are pairwise distinct and so are the interface ids under each device (st_inv: exactly one entry per id);
   - the abstraction (A_dev: device id -> its stored packet, A_if: device id, interface id -> its stored packet) equals the abstract
     latest-message map computed by spec_step: a capture-module status packet (type 0x0301) of device d becomes d's packet (creating d
     if unknown), an interface status packet (0x0302) of a KNOWN device becomes the packet of its interface id, everything else
     (other kinds, interface status of unknown devices) changes nothing; removals delete exactly the named entry; clear empties. *)
Theorem C16_status_refines_latest_message_map : forall ops,
  st_inv (fold_left sstep ops []) /\ agrees (fold_left sstep ops []) (fold_left spec_step ops smap0).
Proof. intros ops. apply status_refines_map; [apply inv_nil|split; reflexivity]. Qed.
Print Assumptions C16_status_refines_latest_message_map.

(* lookups by id return the index of the matching entry, or the element count when there is none *)
Theorem C16_device_lookup : forall st d,
  match dev_get st d with
  | Some ds => (dev_index st d < length st)%nat /\ nth_error st (dev_index st d) = Some ds /\ dkey ds = d
  | None => dev_index st d = length st
  end.
Proof. exact dev_index_spec. Qed.
Print Assumptions C16_device_lookup.
Theorem C16_interface_lookup : forall ds i,
  match if_get ds i with
  | Some x => (if_index ds i < length (ds_ifs ds))%nat /\ nth_error (ds_ifs ds) (if_index ds i) = Some x /\ is_id x = i
  | None => if_index ds i = length (ds_ifs ds)
  end.
Proof. exact if_index_spec. Qed.
Print Assumptions C16_interface_lookup.

(* non-vacuity: two devices, an interface update, a removal that moves the last entry into the freed slot *)
Definition cmp (d : Z) (ts : Z) : packet := {| p_pl := Some {| pl_type := 769; pl_data := zeros 36 |}; p_ver := 1; p_dev := d; p_stream := 0; p_seq := 0;
                                             p_ts := ts; p_ifid := 0; p_vendor := 0; p_flags := 0; p_seg := 0 |}.
Definition ifp (d i : Z) : packet := {| p_pl := Some {| pl_type := 770; pl_data := be_enc 4 i ++ zeros 36 |}; p_ver := 1; p_dev := d; p_stream := 0; p_seq := 0;
                                        p_ts := 5; p_ifid := 0; p_vendor := 0; p_flags := 0; p_seg := 0 |}.
Example C16_example :
  let st := fold_left sstep [SUpd (cmp 1 10); SUpd (cmp 2 20); SUpd (cmp 3 30); SUpd (ifp 2 7); SUpd (ifp 9 7); SUpd (cmp 1 11); SRmDev 1] [] in
  map dkey st = [3; 2] /\ option_map p_ts (A_dev st 2) = Some 20 /\ A_dev st 1 = None /\ option_map p_ts (A_if st 2 7) = Some 5 /\ A_if st 9 7 = None /\
  dev_index st 2 = 1%nat /\ dev_index st 1 = 2%nat.
Proof. vm_compute. repeat split. Qed.
