(* C13: payload builders (setData): the result depends only on the preserved header part and the data supplied, getters return the
   data, length fields and the DLC code match, the class validator accepts the result. *)
Require Import CMP.Bytes CMP.Packet CMP.Tecmp CMP.Builders CMP.PacketProofs.
Local Open Scope Z_scope.
Local Open Scope bool_scope.

Lemma zlen_keep_hdr k old : 0 <= hdr_size k -> zlen (keep_hdr k old) = hdr_size k.
Proof.
  intros H. unfold keep_hdr. apply zlen_take. rewrite zlen_app, zlen_zeros by lia. pose proof (zlen_nonneg old). lia.
Qed.
Lemma hdr_size_nonneg k : 0 <= hdr_size k.
Proof. unfold hdr_size. repeat match goal with |- context [if ?b then _ else _] => destruct b end; lia. Qed.

Lemma take_take {A} (a b : Z) (l : list A) : 0 <= a <= b -> take a (take b l) = take a l.
Proof. intros H. unfold take. rewrite firstn_firstn. f_equal. lia. Qed.
Lemma take_app_le {A} (n : Z) (a b : list A) : 0 <= n <= zlen a -> take n (a ++ b) = take n a.
Proof.
  intros H. unfold take, zlen in *. rewrite firstn_app.
  replace (Z.to_nat n - length a)%nat with 0%nat by lia. cbn [firstn]. apply app_nil_r.
Qed.

(* the preserved part of an object that was itself produced by a builder is the preserved part of the original *)
Lemma keep_hdr_prefix k (old : list Z) p rest : zlen p = hdr_size k -> keep_hdr k (p ++ rest) = p.
Proof.
  intros H. unfold keep_hdr. rewrite <- app_assoc. rewrite take_app_le by (pose proof (hdr_size_nonneg k); lia).
  rewrite <- H. apply take_all.
Qed.

(* ---------- generic builders: CAN / CAN-FD / LIN / Ethernet / analog ---------- *)
Definition fixed_prefix (k : Z) : Z := if (k =? 1) || (k =? 2) then 14 else if k =? 3 then 7 else if k =? 8 then 4 else hdr_size k.
Definition len_field (k : Z) (n : Z) : list Z :=
  if (k =? 1) || (k =? 2) then [encode_dlc (n mod 256); n mod 256] else if k =? 3 then [n mod 256] else if k =? 8 then be_enc 2 (n mod 65536) else [].

Lemma set_data_shape k old data : (k = 1 \/ k = 2 \/ k = 3 \/ k = 7 \/ k = 8) ->
  set_data k old data = take (fixed_prefix k) (keep_hdr k old) ++ len_field k (zlen data) ++ data.
Proof.
  intros Hk. unfold set_data, fixed_prefix, len_field.
  assert (H7 : take (hdr_size 7) (keep_hdr 7 old) = keep_hdr 7 old).
  { rewrite <- (zlen_keep_hdr 7 old) at 1 by (cbn; lia). apply take_all. }
  destruct Hk as [-> | [-> | [-> | [-> | ->]]]]; cbn [Z.eqb Pos.eqb orb]; rewrite ?H7; cbn [app]; try reflexivity.
Qed.

Lemma zlen_len_field k n : (k = 1 \/ k = 2 \/ k = 3 \/ k = 7 \/ k = 8) -> fixed_prefix k + zlen (len_field k n) = hdr_size k.
Proof. intros [-> | [-> | [-> | [-> | ->]]]]; reflexivity. Qed.

Lemma fixed_prefix_nonneg k : (k = 1 \/ k = 2 \/ k = 3 \/ k = 7 \/ k = 8) -> 0 <= fixed_prefix k.
Proof. intros [-> | [-> | [-> | [-> | ->]]]]; cbn; lia. Qed.

(* C13: the raw bytes depend only on the final logical content: whatever data was set before, and however long, the result is the same *)
Theorem set_data_history_independent k old d1 d2 : (k = 1 \/ k = 2 \/ k = 3 \/ k = 7 \/ k = 8) ->
  set_data k (set_data k old d1) d2 = set_data k old d2.
Proof.
  intros Hk. rewrite (set_data_shape k (set_data k old d1) d2 Hk), (set_data_shape k old d2 Hk). f_equal.
  rewrite (set_data_shape k old d1 Hk).
  assert (Hp : zlen (take (fixed_prefix k) (keep_hdr k old)) = fixed_prefix k).
  { apply zlen_take. rewrite zlen_keep_hdr by apply hdr_size_nonneg.
    destruct Hk as [-> | [-> | [-> | [-> | ->]]]]; cbn; lia. }
  rewrite app_assoc. rewrite (keep_hdr_prefix k old (take (fixed_prefix k) (keep_hdr k old) ++ len_field k (zlen d1)) d1).
  - pose proof (fixed_prefix_nonneg k Hk). rewrite take_app_le by lia.
    rewrite <- Hp at 1. apply take_all.
  - rewrite zlen_app, Hp. apply zlen_len_field. exact Hk.
Qed.

(* header fields set earlier are preserved: the bytes before the length fields are those of the object before *)
Theorem set_data_keeps_header k old data : (k = 1 \/ k = 2 \/ k = 3 \/ k = 7 \/ k = 8) ->
  take (fixed_prefix k) (set_data k old data) = take (fixed_prefix k) (keep_hdr k old).
Proof.
  intros Hk. rewrite (set_data_shape k old data Hk).
  assert (Hp : zlen (take (fixed_prefix k) (keep_hdr k old)) = fixed_prefix k).
  { apply zlen_take. rewrite zlen_keep_hdr by apply hdr_size_nonneg.
    destruct Hk as [-> | [-> | [-> | [-> | ->]]]]; cbn; lia. }
  pose proof (fixed_prefix_nonneg k Hk).
  rewrite take_app_le by lia. rewrite <- Hp at 1. apply take_all.
Qed.

(* the data supplied is what sits behind the header *)
Theorem set_data_stores_data k old data : (k = 1 \/ k = 2 \/ k = 3 \/ k = 7 \/ k = 8) ->
  drop (hdr_size k) (set_data k old data) = data /\ zlen (set_data k old data) = hdr_size k + zlen data.
Proof.
  intros Hk. rewrite (set_data_shape k old data Hk).
  assert (Hp : zlen (take (fixed_prefix k) (keep_hdr k old)) = fixed_prefix k).
  { apply zlen_take. rewrite zlen_keep_hdr by apply hdr_size_nonneg.
    destruct Hk as [-> | [-> | [-> | [-> | ->]]]]; cbn; lia. }
  pose proof (zlen_len_field k (zlen data) Hk) as Hl.
  split.
  - rewrite app_assoc. apply drop_app_exact. rewrite zlen_app, Hp. exact Hl.
  - rewrite !zlen_app, Hp. lia.
Qed.

(* the CAN DLC code follows the table of the standard for every data length the API type admits *)
Definition dlc_table : list (Z * Z) := [(0,0);(1,1);(2,2);(3,3);(4,4);(5,5);(6,6);(7,7);(8,8);(12,9);(16,10);(20,11);(24,12);(32,13);(48,14);(64,15)].
Fixpoint table_lookup (n : Z) (t : list (Z * Z)) : Z := match t with [] => 0 | (a, b) :: r => if n =? a then b else table_lookup n r end.
Theorem encode_dlc_table : forall n, 0 <= n < 256 -> encode_dlc n = table_lookup n dlc_table.
Proof.
  assert (G : forallb (fun n => encode_dlc n =? table_lookup n dlc_table) (map Z.of_nat (seq 0 256)) = true) by (vm_compute; reflexivity).
  intros n Hn. rewrite forallb_forall in G. apply Z.eqb_eq. apply G.
  apply in_map_iff. exists (Z.to_nat n). split; [lia|]. apply in_seq. lia.
Qed.

(* length fields and getters of the built CAN payload *)
Lemma u8_app_at (a b : list Z) i : i = zlen a -> forall x r, b = x :: r -> u8 (a ++ b) i = x.
Proof.
  intros -> x r ->. unfold u8, zlen. rewrite Nat2Z.id. rewrite app_nth2 by lia. now rewrite Nat.sub_diag.
Qed.

Theorem can_builder_valid k old data : (k = 1 \/ k = 2) -> zlen data < 256 ->
  Z.land (u16 (keep_hdr k old) 0) 1023 = 0 -> u16 (keep_hdr k old) 12 = 0 ->
  let raw := set_data k old data in
  valid_can raw = true /\ u8 raw 15 = zlen data /\ u8 raw 14 = encode_dlc (zlen data) /\ take (zlen data) (drop 16 raw) = data.
Proof.
  intros Hk Hn Hf He raw.
  assert (Hk5 : k = 1 \/ k = 2 \/ k = 3 \/ k = 7 \/ k = 8) by tauto.
  pose proof (zlen_nonneg data) as Hd0.
  destruct (set_data_stores_data k old data Hk5) as [Hdrop Hlen]. fold raw in Hdrop, Hlen.
  assert (Hh : hdr_size k = 16) by (destruct Hk as [-> | ->]; reflexivity). rewrite Hh in *.
  assert (Hshape : raw = take 14 (keep_hdr k old) ++ [encode_dlc (zlen data); zlen data] ++ data).
  { unfold raw. rewrite (set_data_shape k old data Hk5). unfold fixed_prefix, len_field.
    destruct Hk as [-> | ->]; cbn [Z.eqb Pos.eqb orb]; rewrite Z.mod_small by lia; reflexivity. }
  assert (Hp : zlen (take 14 (keep_hdr k old)) = 14) by (apply zlen_take; rewrite zlen_keep_hdr by apply hdr_size_nonneg; lia).
  assert (U15 : u8 raw 15 = zlen data).
  { rewrite Hshape. replace (take 14 (keep_hdr k old) ++ [encode_dlc (zlen data); zlen data] ++ data)
      with ((take 14 (keep_hdr k old) ++ [encode_dlc (zlen data)]) ++ (zlen data :: data)) by (rewrite <- app_assoc; reflexivity).
    eapply u8_app_at; [rewrite zlen_app, Hp; reflexivity | reflexivity]. }
  assert (U14 : u8 raw 14 = encode_dlc (zlen data)).
  { rewrite Hshape. eapply u8_app_at; [now rewrite Hp | reflexivity]. }
  (* flags and error position live in the preserved 14 bytes *)
  assert (Hpre : forall off, 0 <= off -> off + 2 <= 14 -> u16 raw off = u16 (keep_hdr k old) off).
  { intros off H0 H2. unfold u16. f_equal. rewrite Hshape.
    rewrite <- (take_drop_split (keep_hdr k old) 0 14) at 2 by lia. unfold drop at 3. cbn [Z.to_nat skipn].
    set (P := take 14 (keep_hdr k old)) in *.
    assert (D : forall rest, take 2 (drop off (P ++ rest)) = take 2 (drop off P)).
    { intros rest. unfold drop. rewrite skipn_app. unfold take. rewrite firstn_app.
      replace (Z.to_nat 2 - length (skipn (Z.to_nat off) P))%nat with 0%nat; [cbn [firstn]; apply app_nil_r|].
      rewrite skipn_length. unfold zlen in Hp. lia. }
    rewrite !D. reflexivity. }
  split; [|split; [exact U15|split; [exact U14|]]].
  - unfold valid_can. rewrite Hlen, (Hpre 0), (Hpre 12), Hf, He, U15 by lia.
    repeat (apply andb_true_iff; split); try reflexivity; apply Z.leb_le; lia.
  - rewrite Hdrop. apply take_all.
Qed.

(* ---------- capture-module and interface builders ---------- *)
Theorem set_data_cm_history_independent old a1 a2 a3 a4 av s1 s2 s3 s4 v :
  set_data_cm (set_data_cm old a1 a2 a3 a4 av) s1 s2 s3 s4 v = set_data_cm old s1 s2 s3 s4 v.
Proof.
  unfold set_data_cm at 1 3. f_equal. unfold set_data_cm.
  apply (keep_hdr_prefix 49 old). apply zlen_keep_hdr. cbn; lia.
Qed.
Theorem set_data_if_history_independent old a av ids v :
  set_data_if (set_data_if old a av) ids v = set_data_if old ids v.
Proof.
  unfold set_data_if at 1 3. f_equal. unfold set_data_if.
  apply (keep_hdr_prefix 50 old). apply zlen_keep_hdr. cbn; lia.
Qed.

(* strings are NUL-terminated and zero-padded to even length; the block length is |s|+1 rounded up to even *)
Theorem cm_string_shape s : zlen s + 2 < 65536 ->
  let l' := zlen s + 1 + (zlen s + 1) mod 2 in
  cm_string s = be_enc 2 l' ++ s ++ zeros (l' - zlen s) /\ l' mod 2 = 0 /\ 1 <= l' - zlen s <= 2 /\ zlen (cm_string s) = 2 + l'.
Proof.
  intros H l'. pose proof (zlen_nonneg s). unfold cm_string. fold l'.
  assert (l' mod 65536 = l') as -> by (apply Z.mod_small; subst l'; pose proof (Z.mod_pos_bound (zlen s + 1) 2); lia).
  split; [reflexivity|].
  assert (Hm : 0 <= (zlen s + 1) mod 2 < 2) by (apply Z.mod_pos_bound; lia).
  split; [subst l'; rewrite Zplus_mod_idemp_r; replace (zlen s + 1 + (zlen s + 1)) with ((zlen s + 1) * 2) by lia; apply Z_mod_mult|].
  split; [subst l'; lia|].
  rewrite !zlen_app, zlen_be_enc, zlen_zeros by (subst l'; lia). lia.
Qed.

(* the stream-id list is zero-padded to even length *)
Theorem set_data_if_shape old ids v : zlen ids < 65536 -> zlen v < 65536 ->
  set_data_if old ids v = keep_hdr 50 old ++ be_enc 2 (zlen ids) ++ ids ++ zeros (zlen ids mod 2) ++ be_enc 2 (zlen v) ++ v.
Proof.
  intros H1 H2. pose proof (zlen_nonneg ids). pose proof (zlen_nonneg v). unfold set_data_if. rewrite (Z.mod_small (zlen ids) 65536), (Z.mod_small (zlen v) 65536) by lia. reflexivity.
Qed.

(* ---------- the other fixed-header builders: the class validator accepts what setData built ---------- *)
(* a 16-bit read inside the preserved prefix of the header sees the old header *)
Lemma u16_prefix (P rest : list Z) off : 0 <= off -> off + 2 <= zlen P -> u16 (P ++ rest) off = u16 P off.
Proof.
  intros H0 H2. unfold u16. f_equal. unfold drop. rewrite skipn_app. unfold take. rewrite firstn_app.
  replace (Z.to_nat 2 - length (skipn (Z.to_nat off) P))%nat with 0%nat; [cbn [firstn]; apply app_nil_r|].
  rewrite skipn_length. unfold zlen in H2. lia.
Qed.

Theorem lin_builder_valid old data : zlen data < 256 ->
  let raw := set_data 3 old data in
  valid_lin raw = true /\ u8 raw 7 = zlen data /\ drop 8 raw = data.
Proof.
  intros Hn raw. pose proof (zlen_nonneg data) as Hd0.
  assert (Hk5 : 3 = 1 \/ 3 = 2 \/ 3 = 3 \/ 3 = 7 \/ 3 = 8) by tauto.
  destruct (set_data_stores_data 3 old data Hk5) as [Hdrop Hlen]. fold raw in Hdrop, Hlen.
  change (hdr_size 3) with 8 in *.
  assert (Hshape : raw = take 7 (keep_hdr 3 old) ++ [zlen data] ++ data).
  { unfold raw. rewrite (set_data_shape 3 old data Hk5). unfold fixed_prefix, len_field. cbn [Z.eqb Pos.eqb orb].
    rewrite Z.mod_small by lia. reflexivity. }
  assert (Hp : zlen (take 7 (keep_hdr 3 old)) = 7) by (apply zlen_take; rewrite zlen_keep_hdr by apply hdr_size_nonneg; cbn; lia).
  assert (U7 : u8 raw 7 = zlen data) by (rewrite Hshape; eapply u8_app_at; [now rewrite Hp | reflexivity]).
  split; [|split; [exact U7|exact Hdrop]].
  unfold valid_lin. rewrite Hlen, U7. apply andb_true_iff; split; apply Z.leb_le; lia.
Qed.

Theorem eth_builder_valid old data : zlen data < 65536 ->
  Z.land (u16 (keep_hdr 8 old) 0) 59 = 0 ->
  let raw := set_data 8 old data in
  valid_eth raw = true /\ u16 raw 4 = zlen data /\ drop 6 raw = data.
Proof.
  intros Hn Hf raw. pose proof (zlen_nonneg data) as Hd0.
  assert (Hk5 : 8 = 1 \/ 8 = 2 \/ 8 = 3 \/ 8 = 7 \/ 8 = 8) by tauto.
  destruct (set_data_stores_data 8 old data Hk5) as [Hdrop Hlen]. fold raw in Hdrop, Hlen.
  change (hdr_size 8) with 6 in *.
  assert (Hshape : raw = take 4 (keep_hdr 8 old) ++ be_enc 2 (zlen data) ++ data).
  { unfold raw. rewrite (set_data_shape 8 old data Hk5). unfold fixed_prefix, len_field. cbn [Z.eqb Pos.eqb orb].
    rewrite Z.mod_small by lia. reflexivity. }
  assert (Hp : zlen (take 4 (keep_hdr 8 old)) = 4) by (apply zlen_take; rewrite zlen_keep_hdr by apply hdr_size_nonneg; cbn; lia).
  assert (U4 : u16 raw 4 = zlen data).
  { rewrite Hshape. unfold u16. rewrite drop_app_exact by exact Hp.
    rewrite (take_app_exact (be_enc 2 (zlen data))) by apply zlen_be_enc. apply be_dec_enc. cbn; lia. }
  assert (U0 : u16 raw 0 = u16 (keep_hdr 8 old) 0).
  { rewrite Hshape. rewrite u16_prefix by lia.
    rewrite <- (take_drop_split (keep_hdr 8 old) 0 4) at 2 by lia. unfold drop at 2. cbn [Z.to_nat skipn].
    symmetry. apply u16_prefix; lia. }
  split; [|split; [exact U4|exact Hdrop]].
  unfold valid_eth. rewrite Hlen, U0, Hf, U4.
  repeat (apply andb_true_iff; split); try reflexivity; apply Z.leb_le; lia.
Qed.

Theorem analog_builder_valid old data :
  (let dt := Z.land (u16 (keep_hdr 7 old) 0) 3 in dt = 0 \/ dt = 1) ->
  let raw := set_data 7 old data in
  valid_analog raw = true /\ drop 16 raw = data /\ take 16 raw = keep_hdr 7 old.
Proof.
  intros Hdt raw. pose proof (zlen_nonneg data) as Hd0.
  assert (Hk5 : 7 = 1 \/ 7 = 2 \/ 7 = 3 \/ 7 = 7 \/ 7 = 8) by tauto.
  destruct (set_data_stores_data 7 old data Hk5) as [Hdrop Hlen]. fold raw in Hdrop, Hlen.
  change (hdr_size 7) with 16 in *.
  assert (Hshape : raw = keep_hdr 7 old ++ data).
  { unfold raw. rewrite (set_data_shape 7 old data Hk5). unfold fixed_prefix, len_field. cbn [Z.eqb Pos.eqb orb app].
    change (hdr_size 7) with 16. rewrite <- (zlen_keep_hdr 7 old) at 1 by (cbn; lia). rewrite take_all. reflexivity. }
  assert (Hz : zlen (keep_hdr 7 old) = 16) by (apply zlen_keep_hdr; cbn; lia).
  split; [|split; [exact Hdrop|rewrite Hshape; apply take_app_exact; exact Hz]].
  unfold valid_analog. rewrite Hlen.
  assert (U0 : u16 raw 0 = u16 (keep_hdr 7 old) 0) by (rewrite Hshape; apply u16_prefix; lia).
  rewrite U0. apply andb_true_iff; split; [apply Z.leb_le; lia|].
  cbn zeta in Hdt. destruct Hdt as [-> | ->]; reflexivity.
Qed.

(* ---------- the variable-length builders: the class validator accepts what setData built ---------- *)
Lemma u16_app_at (A rest : list Z) x i : i = zlen A -> 0 <= x < 65536 -> u16 (A ++ be_enc 2 x ++ rest) i = x.
Proof.
  intros -> Hx. unfold u16. rewrite drop_app_exact by reflexivity.
  rewrite (take_app_exact (be_enc 2 x)) by apply zlen_be_enc. apply be_dec_enc. cbn; lia.
Qed.
Lemma u8_prefix (P rest : list Z) i : 0 <= i < zlen P -> u8 (P ++ rest) i = u8 P i.
Proof. intros H. unfold u8. apply app_nth1. unfold zlen in H. lia. Qed.

Theorem if_builder_valid old ids v : zlen ids < 65536 -> zlen v < 65536 -> u8 (keep_hdr 50 old) 29 <= 2 ->
  valid_if (set_data_if old ids v) = true.
Proof.
  intros H1 H2 Hst. pose proof (zlen_nonneg ids) as Hi0. pose proof (zlen_nonneg v) as Hv0.
  rewrite (set_data_if_shape old ids v H1 H2).
  set (H := keep_hdr 50 old). set (c := zlen ids).
  assert (Hz : zlen H = 36) by (apply zlen_keep_hdr; cbn; lia).
  assert (Hm : 0 <= c mod 2 < 2) by (apply Z.mod_pos_bound; lia).
  set (raw := H ++ be_enc 2 c ++ ids ++ zeros (c mod 2) ++ be_enc 2 (zlen v) ++ v).
  assert (Hn : zlen raw = 36 + 2 + c + c mod 2 + 2 + zlen v).
  { unfold raw. rewrite !zlen_app, !zlen_be_enc, zlen_zeros by lia. fold c. lia. }
  assert (U29 : u8 raw 29 = u8 H 29) by (unfold raw; apply u8_prefix; lia).
  assert (U36 : u16 raw 36 = c) by (unfold raw; apply u16_app_at; [lia | unfold c; lia]).
  assert (Upos : u16 raw (38 + (c + c mod 2)) = zlen v).
  { unfold raw.
    replace (H ++ be_enc 2 c ++ ids ++ zeros (c mod 2) ++ be_enc 2 (zlen v) ++ v)
      with ((H ++ be_enc 2 c ++ ids ++ zeros (c mod 2)) ++ be_enc 2 (zlen v) ++ v) by (rewrite <- !app_assoc; reflexivity).
    apply u16_app_at; [|lia]. rewrite !zlen_app, zlen_be_enc, zlen_zeros by lia. fold c. lia. }
  unfold valid_if. fold raw. rewrite Hn, U29, U36, Upos.
  destruct (Z.ltb_spec (36 + 2 + c + c mod 2 + 2 + zlen v - 36) 2); [lia|].
  destruct (Z.ltb_spec (36 + 2 + c + c mod 2 + 2 + zlen v - 38) (c + c mod 2)); [lia|].
  destruct (Z.ltb_spec (36 + 2 + c + c mod 2 + 2 + zlen v - (38 + (c + c mod 2))) 2); [lia|].
  cbv iota. fold H in Hst.
  repeat (apply andb_true_iff; split); apply Z.leb_le; lia.
Qed.

(* length-prefixed blocks *)
Definition lp_block (body : list Z) : list Z := be_enc 2 (zlen body) ++ body.
Lemma walk_blocks : forall (bs : list (list Z)) (pre rest : list Z) n,
  Forall (fun b => zlen b < 65536) bs ->
  n = zlen (pre ++ concat (map lp_block bs) ++ rest) ->
  walk (length bs) (pre ++ concat (map lp_block bs) ++ rest) n (zlen pre) = Some (zlen pre + zlen (concat (map lp_block bs))).
Proof.
  induction bs as [|b bs IH]; intros pre rest n HF Hn.
  - cbn [length walk map concat]. change (zlen (@nil Z)) with 0. f_equal. lia.
  - apply Forall_cons_iff in HF as [Hb Hbs].
    pose proof (zlen_nonneg b) as Hb0. pose proof (zlen_nonneg rest). pose proof (zlen_nonneg (concat (map lp_block bs))).
    set (tail := concat (map lp_block bs) ++ rest).
    assert (E : pre ++ concat (map lp_block (b :: bs)) ++ rest = pre ++ be_enc 2 (zlen b) ++ b ++ tail).
    { cbn [map concat]. unfold lp_block at 1. unfold tail. rewrite <- !app_assoc. reflexivity. }
    rewrite E in Hn. rewrite E.
    assert (Hlen : n = zlen pre + 2 + zlen b + zlen tail) by (rewrite Hn, !zlen_app, zlen_be_enc; lia).
    assert (Ht : zlen tail = zlen (concat (map lp_block bs)) + zlen rest) by (unfold tail; apply zlen_app).
    cbn [length walk].
    destruct (Z.ltb_spec (n - zlen pre) 2); [lia|].
    rewrite (u16_app_at pre (b ++ tail) (zlen b) (zlen pre) eq_refl) by lia.
    destruct (Z.ltb_spec (n - (zlen pre + 2)) (zlen b)); [lia|].
    replace (pre ++ be_enc 2 (zlen b) ++ b ++ tail) with ((pre ++ be_enc 2 (zlen b) ++ b) ++ concat (map lp_block bs) ++ rest)
      by (unfold tail; rewrite <- !app_assoc; reflexivity).
    replace (zlen pre + 2 + zlen b) with (zlen (pre ++ be_enc 2 (zlen b) ++ b)) by (rewrite !zlen_app, zlen_be_enc; lia).
    rewrite (IH (pre ++ be_enc 2 (zlen b) ++ b) rest n Hbs).
    + f_equal. cbn [map concat]. unfold lp_block at 2. rewrite !zlen_app, zlen_be_enc. lia.
    + rewrite Hn. unfold tail. rewrite <- !app_assoc. reflexivity.
Qed.

Lemma cm_string_block s : zlen s + 2 < 65536 -> exists body, cm_string s = lp_block body /\ zlen body < 65536.
Proof.
  intros H. destruct (cm_string_shape s H) as (E & _ & Hpad & Hz).
  set (l' := zlen s + 1 + (zlen s + 1) mod 2) in *.
  exists (s ++ zeros (l' - zlen s)). pose proof (zlen_nonneg s).
  assert (Hb : zlen (s ++ zeros (l' - zlen s)) = l') by (rewrite zlen_app, zlen_zeros by lia; lia).
  split; [unfold lp_block; rewrite Hb; exact E | rewrite Hb; lia].
Qed.

Theorem cm_builder_valid old s1 s2 s3 s4 v :
  zlen s1 + 2 < 65536 -> zlen s2 + 2 < 65536 -> zlen s3 + 2 < 65536 -> zlen s4 + 2 < 65536 -> zlen v < 65536 ->
  valid_cm (set_data_cm old s1 s2 s3 s4 v) = true.
Proof.
  intros H1 H2 H3 H4 Hv. pose proof (zlen_nonneg v) as Hv0.
  destruct (cm_string_block s1 H1) as (b1 & E1 & L1). destruct (cm_string_block s2 H2) as (b2 & E2 & L2).
  destruct (cm_string_block s3 H3) as (b3 & E3 & L3). destruct (cm_string_block s4 H4) as (b4 & E4 & L4).
  unfold set_data_cm. rewrite E1, E2, E3, E4, (Z.mod_small (zlen v)) by lia.
  set (H := keep_hdr 49 old).
  assert (Hz : zlen H = 26) by (apply zlen_keep_hdr; cbn; lia).
  change (be_enc 2 (zlen v) ++ v) with (lp_block v).
  assert (EQ : H ++ lp_block b1 ++ lp_block b2 ++ lp_block b3 ++ lp_block b4 ++ lp_block v
             = H ++ concat (map lp_block [b1; b2; b3; b4; v]) ++ []).
  { cbn [map concat]. rewrite !app_nil_r. rewrite <- ?app_assoc. reflexivity. }
  rewrite EQ.
  unfold valid_cm.
  assert (HF : Forall (fun b => zlen b < 65536) [b1; b2; b3; b4; v]) by (repeat constructor; assumption).
  pose proof (walk_blocks [b1; b2; b3; b4; v] H [] _ HF eq_refl) as W. rewrite Hz in W.
  cbn [length] in W. rewrite W. cbn [is_some].
  rewrite zlen_app, Hz. pose proof (zlen_nonneg (concat (map lp_block [b1; b2; b3; b4; v]) ++ [])).
  apply andb_true_iff; split; [apply Z.leb_le; lia|reflexivity].
Qed.
