(* C13: payload builders (setData): the result depends only on the preserved header part and the data supplied, getters return the
   data, length fields and the DLC code match, the class validator accepts the result. *)
Require Import CMP.Bytes CMP.Packet CMP.Tecmp CMP.Builders CMP.PacketProofs.
Local Open Scope Z_scope.
Local Open Scope bool_scope.

Lemma zlen_keep_hdr k old : 0 <= hdr_size k -> zlen (keep_hdr k old) = hdr_size k.
Proof.
  intros H. unfold keep_hdr. apply zlen_take. rewrite zlen_app, zlen_zeros by lia. pose proof (zlen_nonneg old). lia.
Qed.
Lemma hdr_size_nonneg k : 0 <= hdr_size k.
Proof. unfold hdr_size. repeat match goal with |- context [if ?b then _ else _] => destruct b end; lia. Qed.

Lemma take_take {A} (a b : Z) (l : list A) : 0 <= a <= b -> take a (take b l) = take a l.
Proof. intros H. unfold take. rewrite firstn_firstn. f_equal. lia. Qed.
Lemma take_app_le {A} (n : Z) (a b : list A) : 0 <= n <= zlen a -> take n (a ++ b) = take n a.
Proof.
  intros H. unfold take, zlen in *. rewrite firstn_app.
  replace (Z.to_nat n - length a)%nat with 0%nat by lia. cbn [firstn]. apply app_nil_r.
Qed.

(* the preserved part of an object that was itself produced by a builder is the preserved part of the original *)
Lemma keep_hdr_prefix k (old : list Z) p rest : zlen p = hdr_size k -> keep_hdr k (p ++ rest) = p.
Proof.
  intros H. unfold keep_hdr. rewrite <- app_assoc. rewrite take_app_le by (pose proof (hdr_size_nonneg k); lia).
  rewrite <- H. apply take_all.
Qed.

(* ---------- generic builders: CAN / CAN-FD / LIN / Ethernet / analog ---------- *)
Definition fixed_prefix (k : Z) : Z := if (k =? 1) || (k =? 2) then 14 else if k =? 3 then 7 else if k =? 8 then 4 else hdr_size k.
Definition len_field (k : Z) (n : Z) : list Z :=
  if (k =? 1) || (k =? 2) then [encode_dlc (n mod 256); n mod 256] else if k =? 3 then [n mod 256] else if k =? 8 then be_enc 2 (n mod 65536) else [].

Lemma set_data_shape k old data : (k = 1 \/ k = 2 \/ k = 3 \/ k = 7 \/ k = 8) ->
  set_data k old data = take (fixed_prefix k) (keep_hdr k old) ++ len_field k (zlen data) ++ data.
Proof.
  intros Hk. unfold set_data, fixed_prefix, len_field.
  assert (H7 : take (hdr_size 7) (keep_hdr 7 old) = keep_hdr 7 old).
  { rewrite <- (zlen_keep_hdr 7 old) at 1 by (cbn; lia). apply take_all. }
  destruct Hk as [-> | [-> | [-> | [-> | ->]]]]; cbn [Z.eqb Pos.eqb orb]; rewrite ?H7; cbn [app]; try reflexivity.
Qed.

Lemma zlen_len_field k n : (k = 1 \/ k = 2 \/ k = 3 \/ k = 7 \/ k = 8) -> fixed_prefix k + zlen (len_field k n) = hdr_size k.
Proof. intros [-> | [-> | [-> | [-> | ->]]]]; reflexivity. Qed.

Lemma fixed_prefix_nonneg k : (k = 1 \/ k = 2 \/ k = 3 \/ k = 7 \/ k = 8) -> 0 <= fixed_prefix k.
Proof. intros [-> | [-> | [-> | [-> | ->]]]]; cbn; lia. Qed.

(* C13: the raw bytes depend only on the final logical content: whatever data was set before, and however long, the result is the same *)
Theorem set_data_history_independent k old d1 d2 : (k = 1 \/ k = 2 \/ k = 3 \/ k = 7 \/ k = 8) ->
  set_data k (set_data k old d1) d2 = set_data k old d2.
Proof.
  intros Hk. rewrite (set_data_shape k (set_data k old d1) d2 Hk), (set_data_shape k old d2 Hk). f_equal.
  rewrite (set_data_shape k old d1 Hk).
  assert (Hp : zlen (take (fixed_prefix k) (keep_hdr k old)) = fixed_prefix k).
  { apply zlen_take. rewrite zlen_keep_hdr by apply hdr_size_nonneg.
    destruct Hk as [-> | [-> | [-> | [-> | ->]]]]; cbn; lia. }
  rewrite app_assoc. rewrite (keep_hdr_prefix k old (take (fixed_prefix k) (keep_hdr k old) ++ len_field k (zlen d1)) d1).
  - pose proof (fixed_prefix_nonneg k Hk). rewrite take_app_le by lia.
    rewrite <- Hp at 1. apply take_all.
  - rewrite zlen_app, Hp. apply zlen_len_field. exact Hk.
Qed.

(* header fields set earlier are preserved: the bytes before the length fields are those of the object before *)
Theorem set_data_keeps_header k old data : (k = 1 \/ k = 2 \/ k = 3 \/ k = 7 \/ k = 8) ->
  take (fixed_prefix k) (set_data k old data) = take (fixed_prefix k) (keep_hdr k old).
Proof.
  intros Hk. rewrite (set_data_shape k old data Hk).
  assert (Hp : zlen (take (fixed_prefix k) (keep_hdr k old)) = fixed_prefix k).
  { apply zlen_take. rewrite zlen_keep_hdr by apply hdr_size_nonneg.
    destruct Hk as [-> | [-> | [-> | [-> | ->]]]]; cbn; lia. }
  pose proof (fixed_prefix_nonneg k Hk).
  rewrite take_app_le by lia. rewrite <- Hp at 1. apply take_all.
Qed.

(* the data supplied is what sits behind the header *)
Theorem set_data_stores_data k old data : (k = 1 \/ k = 2 \/ k = 3 \/ k = 7 \/ k = 8) ->
  drop (hdr_size k) (set_data k old data) = data /\ zlen (set_data k old data) = hdr_size k + zlen data.
Proof.
  intros Hk. rewrite (set_data_shape k old data Hk).
  assert (Hp : zlen (take (fixed_prefix k) (keep_hdr k old)) = fixed_prefix k).
  { apply zlen_take. rewrite zlen_keep_hdr by apply hdr_size_nonneg.
    destruct Hk as [-> | [-> | [-> | [-> | ->]]]]; cbn; lia. }
  pose proof (zlen_len_field k (zlen data) Hk) as Hl.
  split.
  - rewrite app_assoc. apply drop_app_exact. rewrite zlen_app, Hp. exact Hl.
  - rewrite !zlen_app, Hp. lia.
Qed.

(* the CAN DLC code follows the table of the standard for every data length the API type admits *)
Definition dlc_table : list (Z * Z) := [(0,0);(1,1);(2,2);(3,3);(4,4);(5,5);(6,6);(7,7);(8,8);(12,9);(16,10);(20,11);(24,12);(32,13);(48,14);(64,15)].
Fixpoint table_lookup (n : Z) (t : list (Z * Z)) : Z := match t with [] => 0 | (a, b) :: r => if n =? a then b else table_lookup n r end.
Theorem encode_dlc_table : forall n, 0 <= n < 256 -> encode_dlc n = table_lookup n dlc_table.
Proof.
  assert (G : forallb (fun n => encode_dlc n =? table_lookup n dlc_table) (map Z.of_nat (seq 0 256)) = true) by (vm_compute; reflexivity).
  intros n Hn. rewrite forallb_forall in G. apply Z.eqb_eq. apply G.
  apply in_map_iff. exists (Z.to_nat n). split; [lia|]. apply in_seq. lia.
Qed.

(* length fields and getters of the built CAN payload *)
Lemma u8_app_at (a b : list Z) i : i = zlen a -> forall x r, b = x :: r -> u8 (a ++ b) i = x.
Proof.
  intros -> x r ->. unfold u8, zlen. rewrite Nat2Z.id. rewrite app_nth2 by lia. now rewrite Nat.sub_diag.
Qed.

Theorem can_builder_valid k old data : (k = 1 \/ k = 2) -> zlen data < 256 ->
  Z.land (u16 (keep_hdr k old) 0) 1023 = 0 -> u16 (keep_hdr k old) 12 = 0 ->
  let raw := set_data k old data in
  valid_can raw = true /\ u8 raw 15 = zlen data /\ u8 raw 14 = encode_dlc (zlen data) /\ take (zlen data) (drop 16 raw) = data.
Proof.
  intros Hk Hn Hf He raw.
  assert (Hk5 : k = 1 \/ k = 2 \/ k = 3 \/ k = 7 \/ k = 8) by tauto.
  pose proof (zlen_nonneg data) as Hd0.
  destruct (set_data_stores_data k old data Hk5) as [Hdrop Hlen]. fold raw in Hdrop, Hlen.
  assert (Hh : hdr_size k = 16) by (destruct Hk as [-> | ->]; reflexivity). rewrite Hh in *.
  assert (Hshape : raw = take 14 (keep_hdr k old) ++ [encode_dlc (zlen data); zlen data] ++ data).
  { unfold raw. rewrite (set_data_shape k old data Hk5). unfold fixed_prefix, len_field.
    destruct Hk as [-> | ->]; cbn [Z.eqb Pos.eqb orb]; rewrite Z.mod_small by lia; reflexivity. }
  assert (Hp : zlen (take 14 (keep_hdr k old)) = 14) by (apply zlen_take; rewrite zlen_keep_hdr by apply hdr_size_nonneg; lia).
  assert (U15 : u8 raw 15 = zlen data).
  { rewrite Hshape. replace (take 14 (keep_hdr k old) ++ [encode_dlc (zlen data); zlen data] ++ data)
      with ((take 14 (keep_hdr k old) ++ [encode_dlc (zlen data)]) ++ (zlen data :: data)) by (rewrite <- app_assoc; reflexivity).
    eapply u8_app_at; [rewrite zlen_app, Hp; reflexivity | reflexivity]. }
  assert (U14 : u8 raw 14 = encode_dlc (zlen data)).
  { rewrite Hshape. eapply u8_app_at; [now rewrite Hp | reflexivity]. }
  (* flags and error position live in the preserved 14 bytes *)
  assert (Hpre : forall off, 0 <= off -> off + 2 <= 14 -> u16 raw off = u16 (keep_hdr k old) off).
  { intros off H0 H2. unfold u16. f_equal. rewrite Hshape.
    rewrite <- (take_drop_split (keep_hdr k old) 0 14) at 2 by lia. unfold drop at 3. cbn [Z.to_nat skipn].
    set (P := take 14 (keep_hdr k old)) in *.
    assert (D : forall rest, take 2 (drop off (P ++ rest)) = take 2 (drop off P)).
    { intros rest. unfold drop. rewrite skipn_app. unfold take. rewrite firstn_app.
      replace (Z.to_nat 2 - length (skipn (Z.to_nat off) P))%nat with 0%nat; [cbn [firstn]; apply app_nil_r|].
      rewrite skipn_length. unfold zlen in Hp. lia. }
    rewrite !D. reflexivity. }
  split; [|split; [exact U15|split; [exact U14|]]].
  - unfold valid_can. rewrite Hlen, (Hpre 0), (Hpre 12), Hf, He, U15 by lia.
    repeat (apply andb_true_iff; split); try reflexivity; apply Z.leb_le; lia.
  - rewrite Hdrop. apply take_all.
Qed.

(* ---------- capture-module and interface builders ---------- *)
Theorem set_data_cm_history_independent old a1 a2 a3 a4 av s1 s2 s3 s4 v :
  set_data_cm (set_data_cm old a1 a2 a3 a4 av) s1 s2 s3 s4 v = set_data_cm old s1 s2 s3 s4 v.
Proof.
  unfold set_data_cm at 1 3. f_equal. unfold set_data_cm.
  apply (keep_hdr_prefix 49 old). apply zlen_keep_hdr. cbn; lia.
Qed.
Theorem set_data_if_history_independent old a av ids v :
  set_data_if (set_data_if old a av) ids v = set_data_if old ids v.
Proof.
  unfold set_data_if at 1 3. f_equal. unfold set_data_if.
  apply (keep_hdr_prefix 50 old). apply zlen_keep_hdr. cbn; lia.
Qed.

(* strings are NUL-terminated and zero-padded to even length; the block length is |s|+1 rounded up to even *)
Theorem cm_string_shape s : zlen s + 2 < 65536 ->
  let l' := zlen s + 1 + (zlen s + 1) mod 2 in
  cm_string s = be_enc 2 l' ++ s ++ zeros (l' - zlen s) /\ l' mod 2 = 0 /\ 1 <= l' - zlen s <= 2 /\ zlen (cm_string s) = 2 + l'.
Proof.
  intros H l'. pose proof (zlen_nonneg s). unfold cm_string. fold l'.
  assert (l' mod 65536 = l') as -> by (apply Z.mod_small; subst l'; pose proof (Z.mod_pos_bound (zlen s + 1) 2); lia).
  split; [reflexivity|].
  assert (Hm : 0 <= (zlen s + 1) mod 2 < 2) by (apply Z.mod_pos_bound; lia).
  split; [subst l'; rewrite Zplus_mod_idemp_r; replace (zlen s + 1 + (zlen s + 1)) with ((zlen s + 1) * 2) by lia; apply Z_mod_mult|].
  split; [subst l'; lia|].
  rewrite !zlen_app, zlen_be_enc, zlen_zeros by (subst l'; lia). lia.
Qed.

(* the stream-id list is zero-padded to even length *)
Theorem set_data_if_shape old ids v : zlen ids < 65536 -> zlen v < 65536 ->
  set_data_if old ids v = keep_hdr 50 old ++ be_enc 2 (zlen ids) ++ ids ++ zeros (zlen ids mod 2) ++ be_enc 2 (zlen v) ++ v.
Proof.
  intros H1 H2. pose proof (zlen_nonneg ids). pose proof (zlen_nonneg v). unfold set_data_if. rewrite (Z.mod_small (zlen ids) 65536), (Z.mod_small (zlen v) 65536) by lia. reflexivity.
Qed.
