(* C18 — endpoints are isolated from each other. *)
Require Import CMP.Bytes CMP.Packet CMP.Tecmp CMP.Decoder CMP.DecoderProofs.
Local Open Scope Z_scope.

(* For every history h of arbitrary buffers (well-formed or not, capture-module, TECMP, shorter than 8 bytes), every endpoint e
   and all decoder states that agree on e's entry: the packets delivered for e are those delivered when only e's frames are fed. *)
Theorem C18_isolation : forall (e : ep) (h : list (list Z)) (st1 st2 : dstate),
  lookup e st1 = lookup e st2 ->
  projp e (runh st1 h) = runh st2 (proj e h).
Proof. exact isolation. Qed.
Print Assumptions C18_isolation.

(* the same per decode call *)
Theorem C18_isolation_per_call : forall (e : ep) (h : list (list Z)) (st1 st2 : dstate),
  lookup e st1 = lookup e st2 ->
  callproj e h (runc st1 h) = runc st2 (proj e h).
Proof. exact isolation_per_call. Qed.
Print Assumptions C18_isolation_per_call.

(* TECMP frames and buffers too short to be a frame never change the reassembly state, so they never change what is delivered
   for capture-module endpoints *)
Theorem C18_noncmp_transparent : forall st b, buf_ep b = None -> fst (dec1 st b) = st /\ cmp_out st b = [].
Proof. exact noncmp_transparent. Qed.
Print Assumptions C18_noncmp_transparent.

(* every packet a capture-module frame yields is tagged with that frame's endpoint *)
Theorem C18_outputs_tagged : forall st b e, buf_ep b = Some e -> Forall (fun p => pep p = e) (snd (dec1 st b)).
Proof. intros. apply dec1_outputs. assumption. Qed.
Print Assumptions C18_outputs_tagged.

(* non-vacuity: two endpoints interleaved; (3,1) opens a chain, (4,1) sends an unsegmented message in between *)
Definition fA1 := cframes 1 3 1 1 10 [ {| s_h := {| h_ts := 7; h_id := 9; h_flags := 4; h_ptype := 255; h_plen := 2 |}; s_chunk := [1;2]; s_trail := [] |} ].
Definition fA2 := cframes 1 3 1 1 11 [ {| s_h := {| h_ts := 0; h_id := 0; h_flags := 12; h_ptype := 255; h_plen := 1 |}; s_chunk := [3]; s_trail := [] |} ].
Definition fB := cframes 1 4 1 1 77 [ {| s_h := {| h_ts := 5; h_id := 6; h_flags := 0; h_ptype := 254; h_plen := 1 |}; s_chunk := [9]; s_trail := [] |} ].
Example C18_example :
  length (projp (3, 1) (runh [] (fA1 ++ fB ++ fA2))) = 1%nat /\ length (projp (4, 1) (runh [] (fA1 ++ fB ++ fA2))) = 1%nat /\
  proj (3, 1) (fA1 ++ fB ++ fA2) = fA1 ++ fA2.
Proof. vm_compute. repeat split. Qed.
