(* C09 — frame headers carry consecutive sequence counters and the encoder's identity. *)
Require Import CMP.Bytes CMP.Packet CMP.Decoder CMP.Encoder CMP.EncoderProofs.
Local Open Scope Z_scope.

(* Over ANY history of {set device id, set stream id, restart, encode(batch, context)} (domain: ids in range, 25 <= max, min <= max,
   one version 1..255 and non-empty payloads per batch), with `since` = the frames emitted since the counter was last reset:
   the i-th of them (from 0) carries counter (i+1) mod 2^16 — so counters are consecutive across calls, start at 1 after a reset and wrap
   after 65535 — every one carries the currently configured device and stream id, and the counter the encoder reports is that of the
   last emitted frame (0 if none). The wrap is inside the statement: histories may be arbitrarily long. *)
Theorem C09_counters_and_identity_over_any_history : forall ops e since,
  enc_ok e -> since_ok e since -> Forall op_ok ops ->
  let r := fold_left estep ops (e, since) in enc_ok (fst r) /\ since_ok (fst r) (snd r).
Proof. exact history_counters. Qed.
Print Assumptions C09_counters_and_identity_over_any_history.

(* the same on the WHOLE input domain of encode(): any frame sizes, packets with empty or absent payload included (they open frames
   and consume counters without adding a message) - only "one version 1..255 per batch" is required *)
Theorem C09_counters_and_identity_any_batches : forall ops e since,
  enc_ok e -> since_ok e since -> Forall op_ok_any ops ->
  let r := fold_left estep ops (e, since) in enc_ok (fst r) /\ since_ok (fst r) (snd r).
Proof. exact history_counters_any. Qed.
Print Assumptions C09_counters_and_identity_any_batches.

(* every frame of a batch carries the batch's protocol version and a message type in range (which C09_wire_header puts on the wire) *)
Theorem C09_frames_carry_batch_version : forall cap v b, 1 <= v < 256 -> Forall (fun p => p_ver p = v) b ->
  Forall (fun f => fr_ver f = v /\ 0 <= fr_type f < 256) (enc_struct cap b).
Proof. exact enc_struct_tagged. Qed.
Print Assumptions C09_frames_carry_batch_version.

Theorem C09_initial_state : enc_ok enc0 /\ since_ok enc0 [].
Proof. split; [unfold enc_ok; cbn; lia|]. split; [reflexivity|]. intros i Hi. cbn in Hi. lia. Qed.
Print Assumptions C09_initial_state.

(* the wire header of each frame: version of the batch, device id, message type of its messages, stream id, counter *)
Theorem C09_wire_header : forall minb dev stream seq f,
  1 <= fr_ver f < 256 -> 0 <= dev < 65536 -> 0 <= fr_type f < 256 -> 0 <= stream < 256 -> 0 <= seq < 65536 ->
  parse_fhdr (ser_frame minb dev stream seq f) =
  {| f_ver := fr_ver f; f_dev := dev; f_mt := fr_type f; f_stream := stream; f_seq := seq |}.
Proof. exact ser_frame_header. Qed.
Print Assumptions C09_wire_header.

Definition ex9 (n : nat) : packet :=
  {| p_pl := Some {| pl_type := 511; pl_data := repeat 7 n |}; p_ver := 2; p_dev := 0; p_stream := 0; p_seq := 0;
     p_ts := 0; p_ifid := 0; p_vendor := 0; p_flags := 0; p_seg := 0 |}.
Example C09_example :
  let r := fold_left estep [OSetDev 3; OEncode [ex9 100] 0 64; OEncode [ex9 1; ex9 1] 0 64; OSetStream 5; OEncode [ex9 1] 0 25] (enc0, []) in
  map (fun x => f_seq (parse_fhdr x)) (snd r) = [1] /\ e_seq (fst r) = 1 /\ e_dev (fst r) = 3 /\ e_stream (fst r) = 5.
Proof. vm_compute. repeat split. Qed.
Example C09_example_domain : Forall op_ok [OSetDev 3; OEncode [ex9 100] 0 64; OEncode [ex9 1; ex9 1] 0 64; OSetStream 5; OEncode [ex9 1] 0 25].
Proof.
  repeat constructor; cbn; try lia; exists 2; (split; [lia|]); repeat constructor; cbn; lia.
Qed.
