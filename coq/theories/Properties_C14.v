(* C14 — packets and payloads behave as values (partial: "a copy shares no state with its original" is aliasing, invisible in a
   value model; the harness exercises it by mutating the copy and re-reading the original under ASan). *)
Require Import CMP.Bytes CMP.Packet CMP.Interp CMP.ValueProofs.
Local Open Scope Z_scope.

Theorem C14_equality_reflexive : forall a, packet_eqb a a = true.
Proof. exact packet_eqb_refl. Qed.
Print Assumptions C14_equality_reflexive.
Theorem C14_equality_symmetric : forall a b, packet_eqb a b = packet_eqb b a.
Proof. exact packet_eqb_sym. Qed.
Print Assumptions C14_equality_symmetric.
(* for packets with non-empty payloads equality is exactly field-by-field comparison (all header fields, payload type and bytes) *)
Theorem C14_equality_is_fieldwise : forall a b, 0 < p_len a -> 0 < p_len b -> (packet_eqb a b = true <-> fields_equal a b).
Proof. exact packet_eqb_fields. Qed.
Print Assumptions C14_equality_is_fieldwise.
Theorem C14_payload_equality : forall a b, (payload_eqb a a = true) /\ (payload_eqb a b = payload_eqb b a) /\ (payload_eqb a b = true <-> a = b).
Proof. intros. split; [apply payload_eqb_refl|]. split; [apply payload_eqb_sym|apply payload_eqb_eq]. Qed.
Print Assumptions C14_payload_equality.

(* copy construction (25) and copy assignment (27): the target becomes the source value whatever it held before — empty packet,
   zero-length payload, equal-looking packet, itself — and no other object changes; operator!= is the negation by definition *)
Theorem C14_copy_and_assign : forall w dst src c, c = 25 \/ c = 27 ->
  getpk (fst (step w (mkop c dst src))) dst = getpk w src /\
  forall j, j <> dst -> getpk (fst (step w (mkop c dst src))) j = getpk w j.
Proof. exact copy_yields_source. Qed.
Print Assumptions C14_copy_and_assign.
Theorem C14_move : forall w dst src, getpk (fst (step w (mkop 26 dst src))) dst = getpk w src.
Proof. exact move_yields_former_source. Qed.
Print Assumptions C14_move.
Theorem C14_move_assign : forall w dst src, dst <> src ->
  getpk (fst (step w (mkop 28 dst src))) dst = getpk w src /\ getpk (fst (step w (mkop 28 dst src))) src = getpk w dst.
Proof. exact move_assign_swaps. Qed.
Print Assumptions C14_move_assign.

(* non-vacuity: an empty packet and a default-looking packet with a zero-length payload compare equal, yet assignment takes the payload over *)
Definition zp : packet := {| p_pl := Some {| pl_type := 511; pl_data := [] |}; p_ver := 1; p_dev := 0; p_stream := 0; p_seq := 0;
                             p_ts := 0; p_ifid := 0; p_vendor := 0; p_flags := 0; p_seg := 0 |}.
Example C14_example : packet_eqb default_packet zp = true /\
  p_pl (getpk (fst (step (setpk (setpk world0 0 default_packet) 1 zp) (mkop 27 0 1))) 0) = p_pl zp.
Proof. vm_compute. split; reflexivity. Qed.
