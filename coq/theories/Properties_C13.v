(* C13 — payload builders store data faithfully and produce self-valid payloads. *)
Require Import CMP.Bytes CMP.Packet CMP.Tecmp CMP.Builders CMP.BuilderProofs.
Local Open Scope Z_scope.

(* kinds: 1 CAN, 2 CAN-FD, 3 LIN, 7 analog, 8 Ethernet. For EVERY prior content of the object (longer, shorter, different data set
   before) and every data: *)

(* the raw bytes depend only on the final logical content, not on what the object held before *)
Theorem C13_history_independent : forall k old d1 d2, (k = 1 \/ k = 2 \/ k = 3 \/ k = 7 \/ k = 8) ->
  set_data k (set_data k old d1) d2 = set_data k old d2.
Proof. exact set_data_history_independent. Qed.
Print Assumptions C13_history_independent.
Theorem C13_history_independent_capture_module : forall old a1 a2 a3 a4 av s1 s2 s3 s4 v,
  set_data_cm (set_data_cm old a1 a2 a3 a4 av) s1 s2 s3 s4 v = set_data_cm old s1 s2 s3 s4 v.
Proof. exact set_data_cm_history_independent. Qed.
Print Assumptions C13_history_independent_capture_module.
Theorem C13_history_independent_interface : forall old a av ids v,
  set_data_if (set_data_if old a av) ids v = set_data_if old ids v.
Proof. exact set_data_if_history_independent. Qed.
Print Assumptions C13_history_independent_interface.

(* header fields set earlier are preserved, the data is stored behind the header, the total length is header + data *)
Theorem C13_header_preserved : forall k old data, (k = 1 \/ k = 2 \/ k = 3 \/ k = 7 \/ k = 8) ->
  take (fixed_prefix k) (set_data k old data) = take (fixed_prefix k) (keep_hdr k old).
Proof. exact set_data_keeps_header. Qed.
Print Assumptions C13_header_preserved.
Theorem C13_data_stored : forall k old data, (k = 1 \/ k = 2 \/ k = 3 \/ k = 7 \/ k = 8) ->
  drop (hdr_size k) (set_data k old data) = data /\ zlen (set_data k old data) = hdr_size k + zlen data.
Proof. exact set_data_stores_data. Qed.
Print Assumptions C13_data_stored.

(* CAN / CAN-FD: for every data length 0..255 and every header without bus-error flags: the class validator accepts the result, the
   data-length field equals the length, the DLC field is the code of the standard's table, getData returns the data *)
Theorem C13_can_builder : forall k old data, (k = 1 \/ k = 2) -> zlen data < 256 ->
  Z.land (u16 (keep_hdr k old) 0) 1023 = 0 -> u16 (keep_hdr k old) 12 = 0 ->
  let raw := set_data k old data in
  valid_can raw = true /\ u8 raw 15 = zlen data /\ u8 raw 14 = encode_dlc (zlen data) /\ take (zlen data) (drop 16 raw) = data.
Proof. exact can_builder_valid. Qed.
Print Assumptions C13_can_builder.
Theorem C13_dlc_table : forall n, 0 <= n < 256 -> encode_dlc n = table_lookup n dlc_table.
Proof. exact encode_dlc_table. Qed.
Print Assumptions C13_dlc_table.

(* strings: 16-bit length = |s|+1 rounded up to even, the string, then 1 or 2 NUL bytes; stream ids zero-padded to even length *)
Theorem C13_string_encoding : forall s, zlen s + 2 < 65536 ->
  let l' := zlen s + 1 + (zlen s + 1) mod 2 in
  cm_string s = be_enc 2 l' ++ s ++ zeros (l' - zlen s) /\ l' mod 2 = 0 /\ 1 <= l' - zlen s <= 2 /\ zlen (cm_string s) = 2 + l'.
Proof. exact cm_string_shape. Qed.
Print Assumptions C13_string_encoding.
Theorem C13_stream_id_encoding : forall old ids v, zlen ids < 65536 -> zlen v < 65536 ->
  set_data_if old ids v = keep_hdr 50 old ++ be_enc 2 (zlen ids) ++ ids ++ zeros (zlen ids mod 2) ++ be_enc 2 (zlen v) ++ v.
Proof. exact set_data_if_shape. Qed.
Print Assumptions C13_stream_id_encoding.

(* the other builders: the class validator accepts what setData built (hence, by C04_consistent_payload_kept, the decoder keeps type and
   bytes), the length fields carry the lengths, the data sits behind the header *)
Theorem C13_lin_builder : forall old data, zlen data < 256 ->
  let raw := set_data 3 old data in valid_lin raw = true /\ u8 raw 7 = zlen data /\ drop 8 raw = data.
Proof. exact lin_builder_valid. Qed.
Print Assumptions C13_lin_builder.
Theorem C13_ethernet_builder : forall old data, zlen data < 65536 -> Z.land (u16 (keep_hdr 8 old) 0) 59 = 0 ->
  let raw := set_data 8 old data in valid_eth raw = true /\ u16 raw 4 = zlen data /\ drop 6 raw = data.
Proof. exact eth_builder_valid. Qed.
Print Assumptions C13_ethernet_builder.
Theorem C13_analog_builder : forall old data, (let dt := Z.land (u16 (keep_hdr 7 old) 0) 3 in dt = 0 \/ dt = 1) ->
  let raw := set_data 7 old data in valid_analog raw = true /\ drop 16 raw = data /\ take 16 raw = keep_hdr 7 old.
Proof. exact analog_builder_valid. Qed.
Print Assumptions C13_analog_builder.
Theorem C13_interface_builder_valid : forall old ids v, zlen ids < 65536 -> zlen v < 65536 -> u8 (keep_hdr 50 old) 29 <= 2 ->
  valid_if (set_data_if old ids v) = true.
Proof. exact if_builder_valid. Qed.
Print Assumptions C13_interface_builder_valid.
Theorem C13_capture_module_builder_valid : forall old s1 s2 s3 s4 v,
  zlen s1 + 2 < 65536 -> zlen s2 + 2 < 65536 -> zlen s3 + 2 < 65536 -> zlen s4 + 2 < 65536 -> zlen v < 65536 ->
  valid_cm (set_data_cm old s1 s2 s3 s4 v) = true.
Proof. exact cm_builder_valid. Qed.
Print Assumptions C13_capture_module_builder_valid.

(* non-vacuity: the pad byte after an odd stream-id list is zero whatever was set before *)
Example C13_example :
  set_data_if (set_data_if (zeros 40) [1;2;3;4] []) [9] [] = zeros 36 ++ [0;1;9;0;0;0] /\
  valid_if (set_data_if (set_data_if (zeros 40) [1;2;3;4] []) [9] []) = true /\
  valid_cm (set_data_cm (zeros 36) [65] [] [66;67] [68] [1;2;3]) = true.
Proof. vm_compute. repeat split. Qed.
