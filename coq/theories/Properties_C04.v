(* C04 — decoded packets report exactly what is on the wire. *)
Require Import CMP.Bytes CMP.Packet CMP.Tecmp CMP.Decoder CMP.DecoderProofs.
Local Open Scope Z_scope.

(* Frames are written by the table-driven serialisers ser_fhdr (version @0, device id @2, message type @4, stream id @5, counter @6)
   and ser_mhdr (timestamp @0, interface/vendor id @8, flags @12, payload type @13, payload length @14), all big-endian.
   For every frame header fh (version != 0), every list ms of unsegmented messages with arbitrary field values, every decoder state st
   (any history) and every tail that is no complete valid message: decoding returns one packet per message, in wire order, each
   spec_packet fh m = the serialised fields; afterwards the endpoint has no pending reassembly. *)
Theorem C04_frame_decodes_to_wire_fields : forall fh ms tail st,
  fhdr_ok fh -> Forall umsg_ok ms -> tail_stops tail -> (ms <> [] \/ tail <> []) ->
  exists st', decode st (ser_fhdr fh ++ area ms ++ tail) = Ok (st', map (spec_packet fh) ms) /\ lookup (fep fh) st' = None.
Proof. exact decode_unsegmented_frame. Qed.
Print Assumptions C04_frame_decodes_to_wire_fields.

(* zero padding of any length is such a tail ... *)
Theorem C04_zero_padding_ignored : forall k, tail_stops (zeros k).
Proof. exact zeros_stop. Qed.
Print Assumptions C04_zero_padding_ignored.
(* ... and so is every message cut short at any offset: a truncated frame yields exactly the messages it still contains completely *)
Theorem C04_truncated_message_ignored : forall m n, umsg_ok m -> 0 <= n < zlen (ser_umsg m) -> tail_stops (take n (ser_umsg m)).
Proof. exact cut_stops. Qed.
Print Assumptions C04_truncated_message_ignored.

(* the fields of the returned packet *)
Theorem C04_packet_fields : forall fh m,
  let p := spec_packet fh m in
  p_ver p = f_ver fh /\ p_dev p = f_dev fh /\ p_stream p = f_stream fh /\ p_ts p = h_ts (fst m) /\ p_flags p = h_flags (fst m) /\
  p_ifid p = (if f_mt fh =? 1 then h_id (fst m) else 0) /\
  p_vendor p = (if ((f_mt fh =? 3) || (f_mt fh =? 255))%bool then h_id (fst m) mod 65536 else 0) /\
  p_pl p = Some (create (mk_type (f_mt fh) (h_ptype (fst m))) (snd m)).
Proof. intros. unfold p, spec_packet, mkp, stamp, packet_of_msg. cbn. repeat split. Qed.
Print Assumptions C04_packet_fields.

(* a typed payload whose inner structure is inconsistent with its length (or, CAN / CAN-FD / Ethernet, that carries bus-error flags) is
   returned marked invalid, with the same length; a consistent one keeps its type and bytes *)
Theorem C04_inconsistent_payload_marked_invalid : forall ty k d,
  kind_of_type ty = Some k -> valid_kind k d = false -> create ty d = {| pl_type := 0; pl_data := zeros (zlen d) |}.
Proof. intros ty k d K V. unfold create. rewrite K, V. reflexivity. Qed.
Print Assumptions C04_inconsistent_payload_marked_invalid.
Theorem C04_consistent_payload_kept : forall ty k d,
  kind_of_type ty = Some k -> valid_kind k d = true -> create ty d = {| pl_type := ty; pl_data := d |}.
Proof.
  intros ty k d K V. unfold create. rewrite K, V. unfold mk_payload.
  assert (ty =? 0 = false) as -> by (unfold kind_of_type in K; destruct (ty =? 0) eqn:E0; [apply Z.eqb_eq in E0; subst; discriminate|reflexivity]).
  reflexivity.
Qed.
Print Assumptions C04_consistent_payload_kept.

(* non-vacuity: two messages (one LIN with a data length that does not fit -> invalid), then 5 padding bytes *)
Definition m1 : umsg := ({| h_ts := 258; h_id := 9; h_flags := 1; h_ptype := 254; h_plen := 2 |}, [7; 8]).
Definition m2 : umsg := ({| h_ts := 3; h_id := 4; h_flags := 0; h_ptype := 3; h_plen := 8 |}, [0;0;0;0;5;0;7;200]).
Example C04_example :
  exists st', decode [] (ser_fhdr {| f_ver := 1; f_dev := 515; f_mt := 1; f_stream := 4; f_seq := 9 |} ++ area [m1; m2] ++ zeros 5)
    = Ok (st', map (spec_packet {| f_ver := 1; f_dev := 515; f_mt := 1; f_stream := 4; f_seq := 9 |}) [m1; m2]) /\
  map p_valid (map (spec_packet {| f_ver := 1; f_dev := 515; f_mt := 1; f_stream := 4; f_seq := 9 |}) [m1; m2]) = [true; false].
Proof. eexists. vm_compute. split; reflexivity. Qed.
Example C04_example_hyp : umsg_ok m1 /\ umsg_ok m2.
Proof. unfold umsg_ok, seg_hdr_ok, mhdr_ok, byte_ok. cbn. repeat split; try lia; discriminate. Qed.
