(* Script interpreter over the models: the same operation scripts are executed by harness/cmp_harness.cpp against the
   library; ocaml/driver.ml only parses lines into [op] and prints [obs]. Opcode numbers are listed in ocaml/driver.ml. *)
Require Import CMP.Bytes CMP.Packet CMP.Tecmp CMP.Decoder CMP.Encoder CMP.Builders CMP.Status.
Local Open Scope Z_scope.
Local Open Scope bool_scope.

Record op := { o_code : Z; o_nums : list Z; o_blobs : list (list Z) }.
Record obs := { b_tag : Z; b_nums : list Z; b_blobs : list (list Z) }.

(* observation tags *)
Definition T_F := 1. Definition T_Q := 2. Definition T_N := 3. Definition T_K := 4. Definition T_V := 5.
Definition T_W := 6. Definition T_R := 7. Definition T_B := 8. Definition T_G := 9. Definition T_S := 10.
Definition T_SD := 11. Definition T_SI := 12. Definition T_SY := 13. Definition T_SX := 14.
Definition T_OOB := 15. Definition T_RNONE := 16. Definition T_UNKNOWN := 17. Definition T_X := 18.

Definition ob (t : Z) (n : list Z) (b : list (list Z)) : obs := {| b_tag := t; b_nums := n; b_blobs := b |}.

Record world := { w_enc : enc; w_dec : list (Z * dstate); w_pk : list (Z * packet);
                  w_ob : list (Z * (Z * payload)); w_frames : list (list Z); w_st : status; w_st2 : status }.
Definition world0 : world := {| w_enc := enc0; w_dec := []; w_pk := []; w_ob := []; w_frames := []; w_st := []; w_st2 := [] |}.

Fixpoint aget {A} (k : Z) (l : list (Z * A)) : option A :=
  match l with [] => None | (k', v) :: t => if k =? k' then Some v else aget k t end.
Fixpoint adel {A} (k : Z) (l : list (Z * A)) : list (Z * A) :=
  match l with [] => [] | (k', v) :: t => if k =? k' then adel k t else (k', v) :: adel k t end.
Definition aset {A} (k : Z) (v : A) (l : list (Z * A)) : list (Z * A) := (k, v) :: adel k l.

Definition nn (l : list Z) (i : nat) : Z := nth i l 0.
Definition bb (l : list (list Z)) (i : nat) : list Z := nth i l [].
Definition b2z (b : bool) : Z := if b then 1 else 0.

Definition getpk (w : world) (i : Z) : packet := match aget i (w_pk w) with Some p => p | None => default_packet end.
Definition setpk (w : world) (i : Z) (p : packet) : world :=
  {| w_enc := w_enc w; w_dec := w_dec w; w_pk := aset i p (w_pk w); w_ob := w_ob w; w_frames := w_frames w; w_st := w_st w; w_st2 := w_st2 w |}.
Definition setob (w : world) (i : Z) (k : Z) (p : payload) : world :=
  {| w_enc := w_enc w; w_dec := w_dec w; w_pk := w_pk w; w_ob := aset i (k, p) (w_ob w); w_frames := w_frames w; w_st := w_st w; w_st2 := w_st2 w |}.
Definition setenc (w : world) (e : enc) : world :=
  {| w_enc := e; w_dec := w_dec w; w_pk := w_pk w; w_ob := w_ob w; w_frames := w_frames w; w_st := w_st w; w_st2 := w_st2 w |}.
Definition setst (w : world) (s : status) : world :=
  {| w_enc := w_enc w; w_dec := w_dec w; w_pk := w_pk w; w_ob := w_ob w; w_frames := w_frames w; w_st := s; w_st2 := w_st2 w |}.
Definition setdec (w : world) (k : Z) (d : dstate) : world :=
  {| w_enc := w_enc w; w_dec := aset k d (w_dec w); w_pk := w_pk w; w_ob := w_ob w; w_frames := w_frames w; w_st := w_st w; w_st2 := w_st2 w |}.

Definition k_obs (p : packet) : obs := let '(n, b) := obs_packet p in ob T_K n [b].

Definition feed (w : world) (k : Z) (buf : list Z) : world * list obs :=
  let st := match aget k (w_dec w) with Some s => s | None => [] end in
  match decode st buf with
  | Ok (st', ps) => (setdec w k st', ob T_N [zlen ps; pending_count st'; pending_bytes st'] [] :: map k_obs ps)
  | _ => (setdec w k st, [ob T_OOB [] []])
  end.

Fixpoint feed_all (w : world) (k : Z) (fs : list (list Z)) : world * list obs :=
  match fs with
  | [] => (w, [])
  | f :: t => let '(w1, o1) := feed w k f in let '(w2, o2) := feed_all w1 k t in (w2, o1 ++ o2)
  end.

Definition view_obs (k : Z) (d : list Z) : list obs :=
  match view_kind k d with Some v => [ob T_W v []] | None => [ob T_OOB [] []] end.

Definition show_obj (w : world) (slot : Z) : list obs :=
  match aget slot (w_ob w) with
  | None => [ob T_RNONE [] []]
  | Some (k, p) =>
    let v := valid_kind k (pl_data p) in
    ob T_R [pl_type p] [pl_data p] :: ob T_V [b2z v] [] :: (if v then view_obs k (pl_data p) else [])
  end.

Definition mut_packet (p : packet) : packet :=
  {| p_pl := match p_pl p with
             | Some pl => Some {| pl_type := pl_type pl;
                                  pl_data := match pl_data pl with [] => [] | b :: t => Z.lxor b 255 :: t end |}
             | None => None end;
     p_ver := p_ver p; p_dev := p_dev p; p_stream := p_stream p; p_seq := p_seq p;
     p_ts := (p_ts p + 1) mod 2^64; p_ifid := p_ifid p; p_vendor := p_vendor p;
     p_flags := Z.lxor (p_flags p) 1; p_seg := p_seg p |}.

Definition tecmp_payload_bytes (ty : Z) (d : list Z) : list Z := if ty =? 65535 then zeros (zlen d) else d.

Definition set_payload (p : packet) (pl : payload) : packet :=
  {| p_pl := Some pl; p_ver := p_ver p; p_dev := p_dev p; p_stream := p_stream p; p_seq := p_seq p;
     p_ts := p_ts p; p_ifid := p_ifid p; p_vendor := p_vendor p; p_flags := p_flags p; p_seg := p_seg p |}.

Definition dev_obs (probes : list Z) (ds : devstat) : list obs :=
  let '(n, b) := obs_packet (ds_pkt ds) in
  ob T_SD (zlen (ds_ifs ds) :: n) [b]
  :: map (fun i => let '(n', b') := obs_packet (is_pkt i) in ob T_SI (is_id i :: n') [b']) (ds_ifs ds)
  ++ [ob T_SY (map (fun q => Z.of_nat (if_index ds (q mod 2^32))) probes) []].

Definition step (w : world) (o : op) : world * list obs :=
  let c := o_code o in let n := nn (o_nums o) in let b := bb (o_blobs o) in
  if c =? 1 then (setenc w enc0, [])
  else if c =? 2 then (setenc w (enc_set_dev (w_enc w) (n 0%nat mod 65536)), [])
  else if c =? 3 then (setenc w (enc_set_stream (w_enc w) (n 0%nat mod 256)), [])
  else if c =? 4 then (setenc w (enc_restart (w_enc w)), [])
  else if c =? 5 then (w, [ob T_G [e_dev (w_enc w); e_stream (w_enc w); e_seq (w_enc w)] []])
  else if c =? 6 then
    (setpk w (n 0%nat)
       {| p_pl := Some (mk_payload (mk_type (n 2%nat mod 256) (n 3%nat mod 256)) (b 0%nat));
          p_ver := n 1%nat mod 256; p_dev := n 8%nat mod 65536; p_stream := n 9%nat mod 256; p_seq := n 10%nat mod 65536;
          p_ts := n 4%nat; p_ifid := n 5%nat mod 2^32; p_vendor := n 6%nat mod 65536; p_flags := n 7%nat mod 256;
          p_seg := n 11%nat mod 256 |}, [])
  else if c =? 7 then (setpk w (n 0%nat) default_packet, [])
  else if (c =? 8) || (c =? 9) || (c =? 10) || (c =? 42) then
    let idxs := skipn 2 (o_nums o) in
    let batch := map (getpk w) idxs in
    (* operator[] on the packet map creates missing slots *)
    let w0 := fold_left (fun w i => match aget i (w_pk w) with Some _ => w | None => setpk w i default_packet end) idxs w in
    let '(e', fs) := encode (w_enc w0) batch (n 0%nat) (n 1%nat) in
    ({| w_enc := e'; w_dec := w_dec w0; w_pk := w_pk w0; w_ob := w_ob w0; w_frames := fs; w_st := w_st w0; w_st2 := w_st2 w0 |},
     (if c =? 42 then [] else map (fun f => ob T_F [] [f]) fs) ++ [ob T_Q [zlen fs; e_seq e'] []])
  else if c =? 11 then (setdec w (n 0%nat) [], [])
  else if c =? 54 then (w, [])   (* SLEEP: wall-clock time passes; nothing may depend on it *)
  else if c =? 55 then
    (* getRawCmpHeader + getRawMessageHeader: all 8 + 16 bytes are written, whatever the destination held *)
    let p := getpk w (n 0%nat) in
    match p_pl p with None => (w, [ob T_RNONE [] []]) | Some _ =>
    (w, [ob T_R [0] [ser_fhdr {| f_ver := p_ver p; f_dev := p_dev p; f_mt := p_mt p; f_stream := p_stream p; f_seq := p_seq p |}
                     ++ ser_mhdr (raw_mhdr p)]])
    end
  else if c =? 51 then
    (* setData called with the object's OWN data pointer and a length not above the current data length (in-place truncation) *)
    match aget (n 0%nat) (w_ob w) with
    | Some (k, p) =>
      if (k =? 49) || (k =? 50) then (w, []) else
      let avail := zlen (pl_data p) - hdr_size k in
      if avail <? 0 then (w, []) else
      let m := Z.min (n 1%nat) avail in
      (setob w (n 0%nat) k {| pl_type := pl_type p; pl_data := set_data k (pl_data p) (take m (drop (hdr_size k) (pl_data p))) |}, [])
    | None => (w, [])
    end
  else if c =? 52 then
    (* a typed payload object constructed over ANY raw bytes (no validity check): it may hold fewer bytes than its header *)
    (setob w (n 0%nat) (n 1%nat) (mk_payload (type_of_kind (n 1%nat)) (b 0%nat)), [])
  else if c =? 53 then
    (* the tracker is fed its own stored packet of (device, interface) again: nothing changes *)
    (w, [])
  else if c =? 49 then
    (* Status copy: the other tracker object becomes a copy of the selected one *)
    ({| w_enc := w_enc w; w_dec := w_dec w; w_pk := w_pk w; w_ob := w_ob w; w_frames := w_frames w; w_st := w_st w; w_st2 := w_st w |}, [])
  else if c =? 50 then
    (* select the other tracker object for the following status operations *)
    ({| w_enc := w_enc w; w_dec := w_dec w; w_pk := w_pk w; w_ob := w_ob w; w_frames := w_frames w; w_st := w_st2 w; w_st2 := w_st w |}, [])
  else if c =? 48 then
    (* what the static TECMP decoder returned for three canned frames when it was called DURING STATIC INITIALISATION of the process
       (before main, before the library's own translation units were initialised): the same as at any other time *)
    (w, flat_map (fun f => snd (feed w 999 f)) [[0; 7; 0; 0; 3; 1; 0; 0; 0; 0; 0; 0; 17; 34; 51; 68; 1; 2; 3; 4; 5; 6; 7; 8; 0; 20; 0; 0; 1; 2; 3; 4; 5; 6; 7; 8; 9; 10; 11; 12; 13; 14; 15; 16; 17; 18; 19; 20];
                                                 [0; 9; 0; 0; 3; 3; 0; 2; 0; 0; 0; 0; 0; 0; 0; 5; 0; 0; 0; 0; 0; 0; 0; 77; 0; 12; 0; 0; 0; 0; 1; 35; 4; 9; 8; 7; 6; 0; 0; 0];
                                                 [0; 7; 0; 0; 3; 1; 0; 0; 0; 0; 0; 0; 0; 0; 0; 1; 0; 0; 0; 0; 0; 0; 0; 2; 0; 10; 0; 0; 0; 0; 0; 0; 0; 0; 0; 0; 0; 0]])
  else if c =? 47 then
    (* an encode() call that leaves by exception: minimum frame size SIZE_MAX makes the first resize-to-minimum throw
       std::length_error. That happens when the FIRST frame is closed (by the next frame being opened, or at the end), i.e. after
       exactly one sequence number was consumed; nothing is returned. An empty batch builds no frame and returns normally. *)
    let idxs := skipn 1 (o_nums o) in
    let w0 := fold_left (fun w i => match aget i (w_pk w) with Some _ => w | None => setpk w i default_packet end) idxs w in
    match idxs with
    | [] => (w0, [ob T_Q [0; e_seq (w_enc w0)] []])
    | _ => let e := w_enc w0 in
           let e' := {| e_dev := e_dev e; e_stream := e_stream e; e_seq := (e_seq e + 1) mod 65536 |} in
           (setenc w0 e', [ob T_X [e_seq e'] []])
    end
  else if c =? 46 then
    (* decode(nullptr, n): returns nothing, changes nothing *)
    let st := match aget (n 0%nat) (w_dec w) with Some s => s | None => [] end in
    (setdec w (n 0%nat) st, [ob T_N [0; pending_count st; pending_bytes st] []])
  else if c =? 44 then
    (* Decoder copy construction: the copy gets the source's reassembly table as a value *)
    match aget (n 1%nat) (w_dec w) with Some s => (setdec w (n 0%nat) s, []) | None => (w, []) end
  else if c =? 12 then feed w (n 0%nat) (b 0%nat)
  else if c =? 13 then feed_all w (n 0%nat) (w_frames w)
  else if c =? 14 then ({| w_enc := w_enc w; w_dec := adel (n 0%nat) (w_dec w); w_pk := w_pk w; w_ob := w_ob w;
                           w_frames := w_frames w; w_st := w_st w; w_st2 := w_st2 w |}, [])
  else if c =? 15 then
    (w, [ob T_V [b2z (if n 0%nat =? 0 then valid_packet (b 0%nat) (zlen (b 0%nat)) else valid_kind (n 0%nat) (b 0%nat))] []])
  else if c =? 16 then
    let v := valid_kind (n 0%nat) (b 0%nat) in
    (w, ob T_V [b2z v] [] :: (if v then view_obs (n 0%nat) (b 0%nat) else []))
  else if c =? 17 then
    let buf := b 0%nat in
    let v := valid_packet buf (zlen buf) in
    (w, ob T_V [b2z v] [] ::
        (if v then
           let h := parse_mhdr buf in
           let p := packet_of_msg (n 0%nat mod 256) h (take (h_plen h) (drop 16 buf)) in
           k_obs p :: match p_pl p with
                      | Some pl => match kind_of_type (pl_type pl) with Some k => view_obs k (pl_data pl) | None => [] end
                      | None => [] end
         else []))
  else if c =? 18 then (setob w (n 0%nat) (n 1%nat) (default_obj (n 1%nat)), [])
  else if c =? 19 then
    let v := valid_kind (n 1%nat) (b 0%nat) in
    ((if v then setob w (n 0%nat) (n 1%nat) (mk_payload (type_of_kind (n 1%nat)) (b 0%nat)) else w), [ob T_V [b2z v] []])
  else if c =? 20 then
    match aget (n 0%nat) (w_ob w) with
    | Some (k, p) => (setob w (n 0%nat) k {| pl_type := pl_type p; pl_data := set_field k (n 1%nat) (n 2%nat) (pl_data p) |}, [])
    | None => (w, [])
    end
  else if c =? 21 then
    match aget (n 0%nat) (w_ob w) with
    | Some (k, p) =>
      let d := if k =? 49 then set_data_cm (pl_data p) (b 0%nat) (b 1%nat) (b 2%nat) (b 3%nat) (b 4%nat)
               else if k =? 50 then set_data_if (pl_data p) (b 0%nat) (b 1%nat)
               else set_data k (pl_data p) (b 0%nat) in
      (setob w (n 0%nat) k {| pl_type := pl_type p; pl_data := d |}, [])
    | None => (w, [])
    end
  else if c =? 22 then (w, show_obj w (n 0%nat))
  else if c =? 23 then
    match aget (n 0%nat) (w_ob w) with
    | Some (k, p) => (setpk w (n 1%nat) (set_payload (getpk w (n 1%nat)) p), [])
    | None => (w, [])
    end
  else if c =? 24 then
    match aget (n 0%nat) (w_ob w) with
    | Some (k, p) =>
      let len := zlen (pl_data p) in
      let f := [1; 0; 0; 1; (pl_type p / 256) mod 256; 1; 0; 0] ++ zeros 12 ++ [0; pl_type p mod 256; (len / 256) mod 256; len mod 256] ++ pl_data p in
      feed w (n 1%nat) f
    | None => (w, [])
    end
  else if c =? 25 then (setpk w (n 0%nat) (getpk w (n 1%nat)), [])
  else if c =? 26 then let v := getpk w (n 1%nat) in (setpk (setpk w (n 1%nat) default_packet) (n 0%nat) v, [])
  else if c =? 27 then
    let v := getpk w (n 1%nat) in
    let w1 := match aget (n 1%nat) (w_pk w) with Some _ => w | None => setpk w (n 1%nat) default_packet end in
    (setpk w1 (n 0%nat) v, [])
  else if c =? 28 then
    let a := getpk w (n 0%nat) in let v := getpk w (n 1%nat) in
    (setpk (setpk w (n 1%nat) a) (n 0%nat) v, [])
  else if c =? 29 then
    let e := packet_eqb (getpk w (n 0%nat)) (getpk w (n 1%nat)) in (w, [ob T_B [b2z e; b2z (negb e)] []])
  else if c =? 30 then (w, [k_obs (getpk w (n 0%nat))])
  else if c =? 31 then (setpk w (n 0%nat) (mut_packet (getpk w (n 0%nat))), [])
  else if c =? 45 then
    (* in-place edit of the packet's payload through the non-const getPayload(): EthernetPayload::setData on it - the payload
       size changes under the packet *)
    let p := getpk w (n 0%nat) in
    match p_pl p with
    | Some pl => (setpk w (n 0%nat) (set_payload p {| pl_type := pl_type pl; pl_data := set_data 8 (pl_data pl) (b 0%nat) |}), [])
    | None => (w, [])
    end
  else if c =? 56 then
    (* in-place edit of one header FIELD of the packet's payload through the typed setter (EthernetPayload::setFlags on the payload the
       packet owns): bytes 0-1 change, nothing else; payloads shorter than the 6-byte header are left alone *)
    let p := getpk w (n 0%nat) in
    match p_pl p with
    | Some pl => if 6 <=? zlen (pl_data pl)
                 then (setpk w (n 0%nat) (set_payload p {| pl_type := pl_type pl; pl_data := put_be 0 2 (n 1%nat mod 65536) (pl_data pl) |}), [])
                 else (w, [])
    | None => (w, [])
    end
  else if c =? 43 then
    (* Payload::setMessageType + setRawPayloadType on the packet's payload: the type changes, the bytes stay *)
    let p := getpk w (n 0%nat) in
    match p_pl p with
    | Some pl => (setpk w (n 0%nat) (set_payload p {| pl_type := mk_type (n 1%nat mod 256) (n 2%nat mod 256); pl_data := pl_data pl |}), [])
    | None => (w, [])
    end
  else if c =? 32 then
    match aget (n 1%nat) (w_ob w) with Some (k, p) => (setob w (n 0%nat) k p, []) | None => (w, []) end
  else if c =? 33 then
    match aget (n 1%nat) (w_ob w), aget (n 0%nat) (w_ob w) with
    | Some (k, p), Some _ => (setob w (n 0%nat) k p, [])
    | _, _ => (w, [])
    end
  else if c =? 34 then
    match aget (n 1%nat) (w_ob w), aget (n 0%nat) (w_ob w) with
    | Some (_, q), Some (_, p) => (w, [ob T_B [b2z (payload_eqb p q); 0] []])
    | _, _ => (w, [])
    end
  else if c =? 35 then
    match aget (n 0%nat) (w_ob w) with
    | Some (k, p) => (setob w (n 0%nat) k {| pl_type := pl_type p;
                        pl_data := match pl_data p with [] => [] | x :: t => Z.lxor x 255 :: t end |}, [])
    | None => (w, [])
    end
  else if c =? 36 then
    let ta := n 0%nat mod 2^32 in let tb := n 1%nat mod 2^32 in
    let da := tecmp_payload_bytes ta (b 0%nat) in let db := tecmp_payload_bytes tb (b 1%nat) in
    (w, [ob T_B [b2z ((ta =? tb) && list_eqb da db); 1] []])
  else if c =? 37 then (setst w (st_update (w_st w) (getpk w (n 0%nat))), [])
  else if c =? 38 then (setst w (st_remove_dev (w_st w) (n 0%nat mod 65536)), [])
  else if c =? 39 then (setst w (st_remove_if (w_st w) (n 0%nat mod 65536) (n 1%nat mod 2^32)), [])
  else if c =? 40 then (setst w [], [])
  else if c =? 41 then
    (w, ob T_S [zlen (w_st w)] [] :: concat (map (dev_obs (o_nums o)) (w_st w))
        ++ [ob T_SX (map (fun q => Z.of_nat (dev_index (w_st w) (q mod 65536))) (o_nums o)) []])
  else (w, [ob T_UNKNOWN [c] []]).

Fixpoint run_ops (w : world) (ops : list op) : list obs :=
  match ops with
  | [] => []
  | o :: t => let '(w', os) := step w o in os ++ run_ops w' t
  end.
Definition run_case (ops : list op) : list obs := run_ops world0 ops.
