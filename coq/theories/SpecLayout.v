(* The independent layout tables (DESIGN.md Appendix A): byte offset, width of the enclosing big-endian word, bit range inside it,
   API scaling, and the names of the library's accessors for each field. Written from the ASAM CMP / TECMP layouts, not from the
   library's headers. `native` fields (Packet, PayloadType: not wire structures) are host integers located by member name. *)
From Coq Require Import ZArith List String.
Import ListNotations.
Local Open Scope Z_scope.
Local Open Scope string_scope.

Inductive floc := Wire (off : Z) (bytes : nat) | Member (path : string).

Record fspec := {
  fs_name : string;
  fs_loc : floc;
  fs_lo : Z;            (* lowest bit of the field inside the (big-endian / native) word *)
  fs_w : Z;             (* width in bits *)
  fs_shift : Z;         (* API value = field value << shift (enumerations whose constants are written in place) *)
  fs_get : string;      (* getter name ("" = none) *)
  fs_set : string;      (* setter name ("" = none) *)
  fs_mask : option Z;   (* Some m: accessors are get(mask) / set(mask, value) called with enumerator m *)
}.

Record cspec := {
  cs_class : string;
  cs_size : Z;                         (* sizeof prescribed by the layout (0 = not a wire structure) *)
  cs_fields : list fspec;
  cs_reserved : list (Z * nat);        (* reserved words: (offset, bytes) — zero in default objects, untouched by in-range writes *)
  cs_defaults : list (Z * nat * Z);    (* documented non-zero defaults: (offset, bytes, big-endian value) *)
}.

Definition fld name off bytes lo w g s := {| fs_name := name; fs_loc := Wire off bytes; fs_lo := lo; fs_w := w; fs_shift := 0; fs_get := g; fs_set := s; fs_mask := None |}.
Definition whole name off bytes g s := fld name off bytes 0 (8 * Z.of_nat bytes) g s.
Definition flag name off bytes bit m := {| fs_name := name; fs_loc := Wire off bytes; fs_lo := bit; fs_w := 1; fs_shift := 0; fs_get := "getFlag"; fs_set := "setFlag"; fs_mask := Some m |}.
Definition nat_fld name path lo w g s := {| fs_name := name; fs_loc := Member path; fs_lo := lo; fs_w := w; fs_shift := 0; fs_get := g; fs_set := s; fs_mask := None |}.

Fixpoint flags16 (off : Z) (names : list string) (bit : Z) : list fspec :=
  match names with [] => [] | n :: t => flag n off 2 bit (2 ^ bit) :: flags16 off t (bit + 1) end.

Definition spec_cmp_header := {|
  cs_class := "ASAM::CMP::CmpHeader"; cs_size := 8;
  cs_fields := [ whole "version" 0 1 "getVersion" "setVersion"; whole "device_id" 2 2 "getDeviceId" "setDeviceId";
                 whole "message_type" 4 1 "getMessageType" "setMessageType"; whole "stream_id" 5 1 "getStreamId" "setStreamId";
                 whole "sequence_counter" 6 2 "getSequenceCounter" "setSequenceCounter" ];
  cs_reserved := [(1, 1%nat)]; cs_defaults := [(0, 1%nat, 1)] |}.

Definition cflag name bit := {| fs_name := name; fs_loc := Wire 12 1; fs_lo := bit; fs_w := 1; fs_shift := 0; fs_get := "getCommonFlag"; fs_set := "setCommonFlag"; fs_mask := Some (2 ^ bit) |}.
Definition spec_message_header := {|
  cs_class := "ASAM::CMP::MessageHeader"; cs_size := 16;
  cs_fields := [ whole "timestamp" 0 8 "getTimestamp" "setTimestamp"; whole "interface_id" 8 4 "getInterfaceId" "setInterfaceId";
                 whole "vendor_id" 10 2 "getVendorId" "setVendorId"; whole "common_flags" 12 1 "getCommonFlags" "setCommonFlags";
                 cflag "recalc" 0; cflag "insync" 1; cflag "dir_on_if" 4; cflag "overflow" 5; cflag "err_in_payload" 6;
                 {| fs_name := "seg"; fs_loc := Wire 12 1; fs_lo := 2; fs_w := 2; fs_shift := 2; fs_get := "getSegmentType"; fs_set := "setSegmentType"; fs_mask := None |};
                 whole "payload_type" 13 1 "getPayloadType" "setPayloadType"; whole "payload_length" 14 2 "getPayloadLength" "setPayloadLength" ];
  cs_reserved := []; cs_defaults := [] |}.

Definition can_flag_names := ["crc_err"; "ack_err"; "passive_ack_err"; "active_ack_err"; "ack_del_err"; "form_err"; "stuff_err"; "crc_del_err";
                              "eof_err"; "bit_err"; "r0"; "srr_dom"; "brs"; "esi"].
Definition spec_can_header := {|
  cs_class := "ASAM::CMP::CanPayloadBase::Header"; cs_size := 16;
  cs_fields := [ whole "flags" 0 2 "getFlags" "setFlags" ] ++ flags16 0 can_flag_names 0 ++
               [ fld "id" 4 4 0 29 "getId" "setId"; fld "rsvd" 4 4 29 1 "getRsvd" "setRsvd"; fld "rtr_rrs" 4 4 30 1 "getRtrRrs" "setRtrRrs";
                 fld "ide" 4 4 31 1 "getIde" "setIde";
                 fld "crc" 8 4 0 15 "getCrc" "setCrc"; fld "crc_support" 8 4 31 1 "getCrcSupport" "setCrcSupport";
                 fld "crc_sbc" 8 4 0 21 "getCrcSbc" "setCrcSbc"; fld "sbc" 8 4 21 3 "getSbc" "setSbc";
                 fld "sbc_parity" 8 4 24 1 "getSbcParity" "setSbcParity"; fld "sbc_support" 8 4 30 1 "getSbcSupport" "setSbcSupport";
                 whole "err_pos" 12 2 "getErrorPosition" "setErrorPosition"; whole "dlc" 14 1 "getDlc" "setDlc";
                 whole "data_length" 15 1 "getDataLength" "setDataLength" ];
  cs_reserved := [(2, 2%nat)]; cs_defaults := [] |}.

Definition lin_flag_names := ["checksum_err"; "collision_err"; "parity_err"; "no_slave_resp_err"; "sync_err"; "framing_err"; "short_dom_err"; "long_dom_err"; "wup"].
Definition spec_lin_header := {|
  cs_class := "ASAM::CMP::LinPayload::Header"; cs_size := 8;
  cs_fields := [ whole "flags" 0 2 "getFlags" "setFlags" ] ++ flags16 0 lin_flag_names 0 ++
               [ fld "lin_id" 4 1 0 6 "getLinId" "setLinId"; fld "parity" 4 1 6 2 "getParityBits" "setParityBits";
                 whole "checksum" 6 1 "getChecksum" "setChecksum"; whole "data_length" 7 1 "getDataLength" "setDataLength" ];
  cs_reserved := [(2, 2%nat); (5, 1%nat)]; cs_defaults := [] |}.

Definition eth_flag_names := ["fcs_err"; "frame_shorter_64"; "tx_port_down"; "collision"; "frame_too_long"; "phy_err"; "frame_truncated"; "fcs_support"].
Definition spec_eth_header := {|
  cs_class := "ASAM::CMP::EthernetPayload::Header"; cs_size := 6;
  cs_fields := [ whole "flags" 0 2 "getFlags" "setFlags" ] ++ flags16 0 eth_flag_names 0 ++ [ whole "data_length" 4 2 "getDataLength" "setDataLength" ];
  cs_reserved := [(2, 2%nat)]; cs_defaults := [] |}.

Definition spec_analog_header := {|
  cs_class := "ASAM::CMP::AnalogPayload::Header"; cs_size := 16;
  cs_fields := [ whole "flags" 0 2 "getFlags" "setFlags";
                 {| fs_name := "sample_dt"; fs_loc := Wire 0 2; fs_lo := 0; fs_w := 2; fs_shift := 8; fs_get := "getSampleDt"; fs_set := "setSampleDt"; fs_mask := None |};
                 whole "unit" 3 1 "getUnit" "setUnit"; whole "sample_interval" 4 4 "getSampleInterval" "setSampleInterval";
                 whole "sample_offset" 8 4 "getSampleOffset" "setSampleOffset"; whole "sample_scalar" 12 4 "getSampleScalar" "setSampleScalar" ];
  cs_reserved := [(2, 1%nat)]; cs_defaults := [] |}.

Definition spec_cm_header := {|
  cs_class := "ASAM::CMP::CaptureModulePayload::Header"; cs_size := 26;
  cs_fields := [ whole "uptime" 0 8 "getUptime" "setUptime"; whole "gm_identity" 8 8 "getGmIdentity" "setGmIdentity";
                 whole "gm_clock_quality" 16 4 "getGmClockQuality" "setGmClockQuality"; whole "current_utc_offset" 20 2 "getCurrentUtcOffset" "setCurrentUtcOffset";
                 whole "time_source" 22 1 "getTimeSource" "setTimeSource"; whole "domain_number" 23 1 "getDomainNumber" "setDomainNumber";
                 whole "gptp_flags" 25 1 "getGptpFlags" "setGptpFlags" ];
  cs_reserved := [(24, 1%nat)]; cs_defaults := [] |}.

Definition spec_if_header := {|
  cs_class := "ASAM::CMP::InterfacePayload::Header"; cs_size := 36;
  cs_fields := [ whole "interface_id" 0 4 "getInterfaceId" "setInterfaceId"; whole "msg_total_rx" 4 4 "getMsgTotalRx" "setMsgTotalRx";
                 whole "msg_total_tx" 8 4 "getMsgTotalTx" "setMsgTotalTx"; whole "msg_dropped_rx" 12 4 "getMsgDroppedRx" "setMsgDroppedRx";
                 whole "msg_dropped_tx" 16 4 "getMsgDroppedTx" "setMsgDroppedTx"; whole "errors_total_rx" 20 4 "getErrorsTotalRx" "setErrorsTotalRx";
                 whole "errors_total_tx" 24 4 "getErrorsTotalTx" "setErrorsTotalTx"; whole "interface_type" 28 1 "getInterfaceType" "setInterfaceType";
                 whole "interface_status" 29 1 "getInterfaceStatus" "setInterfaceStatus"; whole "feature_support_bitmask" 32 4 "getFeatureSupportBitmask" "setFeatureSupportBitmask" ];
  cs_reserved := [(30, 2%nat)]; cs_defaults := [] |}.

Definition spec_tecmp_header := {|
  cs_class := "TECMP::CmpHeader"; cs_size := 28;
  cs_fields := [ whole "device_id" 1 1 "getDeviceId" "setDeviceId"; whole "counter" 2 2 "getSequenceCounter" "setSequenceCounter";
                 whole "version" 4 1 "getVersion" "setVersion"; whole "message_type" 5 1 "getMessageType" "setMessageType";
                 whole "data_type" 6 2 "getDataType" "setDataType"; whole "device_flags" 10 2 "getDeviceFlags" "setDeviceFlags";
                 whole "interface_id" 12 4 "getInterfaceId" "setInterfaceId"; whole "timestamp" 16 8 "getTimestamp" "setTimestamp";
                 whole "payload_length" 24 2 "getPayloadLength" "setPayloadLength" ];
  cs_reserved := [(8, 2%nat)]; cs_defaults := [] |}.

Definition spec_tecmp_can := {|
  cs_class := "TECMP::CanPayload::Header"; cs_size := 5;
  cs_fields := [ whole "arb_id" 0 4 "getArbId" "setArbId"; whole "length" 4 1 "getDlc" "setDlc" ]; cs_reserved := []; cs_defaults := [] |}.
Definition spec_tecmp_lin := {|
  cs_class := "TECMP::LinPayload::Header"; cs_size := 2;
  cs_fields := [ whole "pid" 0 1 "getPid" "setPid"; whole "length" 1 1 "getDataLength" "setDataLength" ]; cs_reserved := []; cs_defaults := [] |}.
Definition spec_tecmp_cm := {|
  cs_class := "TECMP::CaptureModulePayload::Header"; cs_size := 36;
  cs_fields := [ whole "vendor_id" 0 1 "getVendorId" "setVendorId"; whole "device_version" 1 1 "getDeviceVersion" "setDeviceVersion";
                 whole "device_type" 2 1 "getDeviceType" "setDeviceType"; whole "vendor_data_length" 4 2 "getVendorDataLength" "setVendorDataLength";
                 whole "device_id" 6 2 "getDeviceId" "setDeviceId"; whole "serial_number" 8 4 "getSerialNumber" "setSerialNumber";
                 whole "sw_major" 13 1 "getSwVersionMajor" "setSwVersionMajor"; whole "sw_minor" 14 1 "getSwVersionMinor" "setSwVersionMinor";
                 whole "sw_patch" 15 1 "getSwVersionPatch" "setSwVersionPatch"; whole "hw_major" 16 1 "getHwVersionMajor" "setHwVersionMajor";
                 whole "hw_minor" 17 1 "getHwVersionMinor" "setHwVersionMinor"; whole "buffer_fill" 18 1 "getBufferFill" "setBufferFill";
                 whole "buffer_overflow" 19 1 "getIsBufferOverflow" "setIsBufferOverflow"; whole "buffer_size" 20 4 "getBufferSize" "setBufferSize";
                 whole "lifecycle" 24 8 "getLifecycle" "setLifecycle"; whole "voltage_whole" 32 1 "getVoltageWhole" "setVoltageWhole";
                 whole "voltage_frac" 33 1 "getVoltageFraction" "setVoltageFraction"; whole "temp_chassis" 34 1 "getChassisTemp" "setChassisTemp";
                 whole "temp_silicon" 35 1 "getSilliconTemp" "setSilliconTemp" ];
  cs_reserved := [(3, 1%nat); (12, 1%nat)]; cs_defaults := [] |}.
Definition spec_tecmp_if := {|
  cs_class := "TECMP::InterfacePayload::Header"; cs_size := 28;
  cs_fields := [ whole "vendor_id" 0 1 "getVendorId" "setVendorId"; whole "cm_version" 1 1 "getCmVersion" "setCmVersion"; whole "cm_type" 2 1 "getCmType" "setCmType";
                 whole "vendor_data_length" 4 2 "getVendorDataLength" "setVendorDataLength"; whole "device_id" 6 2 "getDeviceId" "setDeviceId";
                 whole "serial_number" 8 4 "getSerialNumber" "setSerialNumber"; whole "interface_id" 12 4 "getInterfaceId" "setInterfaceId";
                 whole "messages_total" 16 4 "getMessagesTotal" "setMessagesTotal"; whole "errors_total" 20 4 "getErrorsTotal" "setErrorsTotal";
                 whole "link_status" 24 1 "getVendorDataLinkStatus" "setVendorDataLinkStatus"; whole "link_quality" 25 1 "getVendorDataLinkQuality" "setVendorDataLinkQuality";
                 whole "linkup_time" 26 2 "getVendorDataLinkupTime" "setVendorDataLinkupTime" ];
  cs_reserved := [(3, 1%nat)]; cs_defaults := [] |}.

(* host-integer classes (not wire structures) *)
Definition spec_payload_type := {|
  cs_class := "ASAM::CMP::PayloadType"; cs_size := 0;
  cs_fields := [ nat_fld "type" "type" 0 32 "getType" "setType"; nat_fld "message_type" "type" 8 8 "getMessageType" "setMessageType";
                 nat_fld "raw_payload_type" "type" 0 8 "getRawPayloadType" "setRawPayloadType" ];
  cs_reserved := []; cs_defaults := [] |}.
Definition pflag name bit := {| fs_name := name; fs_loc := Member "commonFlags"; fs_lo := bit; fs_w := 1; fs_shift := 0; fs_get := "getCommonFlag"; fs_set := "setCommonFlag"; fs_mask := Some (2 ^ bit) |}.
Definition spec_packet := {|
  cs_class := "ASAM::CMP::Packet"; cs_size := 0;
  cs_fields := [ nat_fld "version" "version" 0 8 "getVersion" "setVersion"; nat_fld "device_id" "deviceId" 0 16 "getDeviceId" "setDeviceId";
                 nat_fld "stream_id" "streamId" 0 8 "getStreamId" "setStreamId"; nat_fld "sequence_counter" "sequenceCounter" 0 16 "getSequenceCounter" "setSequenceCounter";
                 nat_fld "timestamp" "timestamp" 0 64 "getTimestamp" "setTimestamp"; nat_fld "interface_id" "interfaceId" 0 32 "getInterfaceId" "setInterfaceId";
                 nat_fld "vendor_id" "vendorId" 0 16 "getVendorId" "setVendorId"; nat_fld "common_flags" "commonFlags" 0 8 "getCommonFlags" "setCommonFlags";
                 pflag "recalc" 0; pflag "insync" 1; pflag "dir_on_if" 4; pflag "overflow" 5; pflag "err_in_payload" 6;
                 nat_fld "segment_type" "segmentType" 0 8 "getSegmentType" "setSegmentType" ];
  cs_reserved := []; cs_defaults := [] |}.

Definition spec_classes : list cspec :=
  [ spec_cmp_header; spec_message_header; spec_can_header; spec_lin_header; spec_eth_header; spec_analog_header; spec_cm_header; spec_if_header;
    spec_tecmp_header; spec_tecmp_can; spec_tecmp_lin; spec_tecmp_cm; spec_tecmp_if; spec_payload_type; spec_packet ].
