(* C16: the status tracker refines a per-device, per-interface latest-message map. *)
Require Import CMP.Bytes CMP.Packet CMP.Status.
Local Open Scope Z_scope.
Local Open Scope bool_scope.

Lemma NoDup_app_one {A} (l : list A) x : NoDup l -> ~ In x l -> NoDup (l ++ [x]).
Proof.
  intros Hn Hx. induction Hn as [|y t Hy Ht IH]; cbn [app]; [constructor; [intros []|constructor]|].
  constructor.
  - intros Hin. apply in_app_or in Hin. destruct Hin as [Hin|[->|[]]]; [contradiction|]. apply Hx. left. reflexivity.
  - apply IH. intros Hin. apply Hx. right. exact Hin.
Qed.

(* ---------- generic facts: first-match index, update in place, swap-with-last removal ---------- *)
Section Keyed.
  Variable A : Type.
  Variable key : A -> Z.
  Definition has_key (k : Z) (x : A) : bool := key x =? k.

  Lemma find_idx_le f (l : list A) : (find_idx f l <= length l)%nat.
  Proof. induction l as [|x t IH]; cbn [find_idx length]; [lia|]. destruct (f x); lia. Qed.

  Lemma find_idx_find f (l : list A) :
    match find f l with
    | Some x => (find_idx f l < length l)%nat /\ nth_error l (find_idx f l) = Some x /\ f x = true
    | None => find_idx f l = length l
    end.
  Proof.
    induction l as [|x t IH]; cbn [find find_idx length]; [reflexivity|].
    destruct (f x) eqn:E.
    - split; [lia|]. split; [reflexivity|exact E].
    - destruct (find f t) as [y|].
      + destruct IH as (H1 & H2 & H3). split; [lia|]. split; [exact H2|exact H3].
      + lia.
  Qed.

  Lemma find_idx_lt_find f (l : list A) : (find_idx f l < length l)%nat -> exists x, find f l = Some x.
  Proof. intros H. pose proof (find_idx_find f l) as F. destruct (find f l) as [x|]; [eauto|lia]. Qed.
  Lemma find_idx_ge_none f (l : list A) : ~ (find_idx f l < length l)%nat -> find f l = None.
  Proof. intros H. pose proof (find_idx_find f l) as F. destruct (find f l) as [x|]; [destruct F; lia|reflexivity]. Qed.

  (* updating the first element with key k by a key-preserving function *)
  Lemma find_upd_first (g : A -> A) k k' (l : list A) :
    (forall x, key (g x) = key x) ->
    find (has_key k') (upd_nth (find_idx (has_key k) l) g l) =
    if k' =? k then option_map g (find (has_key k) l) else find (has_key k') l.
  Proof.
    intros Hg. unfold has_key. induction l as [|x t IH]; cbn [find find_idx upd_nth].
    - destruct (k' =? k); reflexivity.
    - destruct (Z.eqb_spec (key x) k) as [Ek|Ek]; cbn [upd_nth find].
      + rewrite Hg. destruct (Z.eqb_spec (key x) k') as [Ek'|Ek'].
        * destruct (Z.eqb_spec k' k) as [E|E]; [reflexivity|congruence].
        * destruct (Z.eqb_spec k' k) as [E|E]; [congruence|reflexivity].
      + destruct (Z.eqb_spec (key x) k') as [Ek'|Ek'].
        * destruct (Z.eqb_spec k' k) as [E|E]; [congruence|reflexivity].
        * exact IH.
  Qed.

  Lemma find_app_one f (l : list A) x : find f (l ++ [x]) = match find f l with Some y => Some y | None => if f x then Some x else None end.
  Proof. induction l as [|y t IH]; cbn [app find]; [reflexivity|]. destruct (f y); [reflexivity|exact IH]. Qed.

  Lemma map_upd_nth (g : A -> A) n (l : list A) : (forall x, key (g x) = key x) -> map key (upd_nth n g l) = map key l.
  Proof. intros Hg. revert n. induction l as [|x t IH]; intros [|n]; cbn [upd_nth map]; try reflexivity; [now rewrite Hg|now rewrite IH]. Qed.

  (* under distinct keys `find` returns THE element with that key, wherever it is *)
  Lemma find_unique (l : list A) x : NoDup (map key l) -> In x l -> find (has_key (key x)) l = Some x.
  Proof.
    induction l as [|y t IH]; cbn [map find]; [contradiction|].
    intros Hn Hin. inversion Hn as [|? ? Hnot Hn']; subst. unfold has_key at 1.
    destruct Hin as [->|Hin]; [now rewrite Z.eqb_refl|].
    destruct (Z.eqb_spec (key y) (key x)) as [E|E]; [|apply IH; assumption].
    exfalso. apply Hnot. rewrite E. apply in_map. exact Hin.
  Qed.
  Lemma find_none_iff k (l : list A) : find (has_key k) l = None <-> ~ In k (map key l).
  Proof.
    induction l as [|y t IH]; cbn [map find In]; [tauto|]. unfold has_key at 1.
    destruct (Z.eqb_spec (key y) k); [split; [discriminate|intros H; exfalso; apply H; left; assumption]|].
    rewrite IH. tauto.
  Qed.
  Lemma find_some_in f (l : list A) x : find f l = Some x -> In x l /\ f x = true.
  Proof. apply find_some. Qed.

  (* swap-with-last removal: the elements are those of l except position n *)
  Lemma removelast_last (t : list A) : t <> [] -> exists lst, rev t = lst :: rev (removelast t) /\ t = removelast t ++ [lst].
  Proof.
    intros H. destruct (exists_last H) as (t' & lst & ->). exists lst.
    rewrite rev_app_distr, removelast_last. split; reflexivity.
  Qed.
  Lemma swap_remove_in n (l : list A) y : (n < length l)%nat ->
    (In y (swap_remove n l) <-> exists i, i <> n /\ nth_error l i = Some y).
  Proof.
    revert n. induction l as [|x t IH]; intros n Hn; [cbn in Hn; lia|].
    destruct n as [|n]; cbn [swap_remove].
    - destruct t as [|z t'].
      + cbn. split; [contradiction|]. intros (i & Hi & E). destruct i; [congruence|]. destruct i; discriminate.
      + destruct (removelast_last (z :: t') ltac:(discriminate)) as (lst & R & E).
        rewrite R. set (rl := removelast (z :: t')) in *. clearbody rl. rewrite E. split.
        * intros [<-|Hin].
          -- exists (S (length rl)). split; [discriminate|]. cbn [nth_error]. rewrite nth_error_app2 by lia. now rewrite Nat.sub_diag.
          -- apply In_nth_error in Hin. destruct Hin as (i & Hi). exists (S i). split; [discriminate|]. cbn [nth_error].
             rewrite nth_error_app1; [exact Hi|]. apply nth_error_Some. congruence.
        * intros (i & Hi & Hy). destruct i as [|i]; [congruence|]. cbn [nth_error] in Hy.
          apply nth_error_In in Hy. apply in_app_or in Hy. destruct Hy as [Hy|[<-|[]]]; [right; exact Hy|left; reflexivity].
    - cbn [length] in Hn. split.
      + intros [<-|Hin]; [exists 0%nat; split; [discriminate|reflexivity]|].
        apply IH in Hin; [|lia]. destruct Hin as (i & Hi & E). exists (S i). split; [congruence|exact E].
      + intros (i & Hi & E). destruct i as [|i]; [left; cbn in E; congruence|]. right. apply IH; [lia|]. exists i. split; [congruence|exact E].
  Qed.

  Lemma nth_error_key_nodup (l : list A) i j x y : NoDup (map key l) -> nth_error l i = Some x -> nth_error l j = Some y -> key x = key y -> i = j.
  Proof.
    intros Hn Hi Hj Hk. rewrite NoDup_nth_error in Hn. apply Hn.
    - rewrite map_length. apply nth_error_Some. congruence.
    - rewrite !nth_error_map, Hi, Hj. cbn. congruence.
  Qed.

  Lemma swap_remove_nodup n (l : list A) : (n < length l)%nat -> NoDup (map key l) -> NoDup (map key (swap_remove n l)).
  Proof.
    revert n. induction l as [|x t IH]; intros n Hn Hd; [cbn in Hn; lia|].
    cbn [map] in Hd. inversion Hd as [|? ? Hnot Hd']; subst.
    destruct n as [|n]; cbn [swap_remove].
    - destruct t as [|z t']; [constructor|].
      destruct (removelast_last (z :: t') ltac:(discriminate)) as (lst & R & E). rewrite R. cbn [map].
      rewrite E, map_app in Hd'. cbn [map] in Hd'. apply NoDup_remove in Hd'. rewrite app_nil_r in Hd'. destruct Hd' as [H1 H2].
      constructor; assumption.
    - cbn [map]. constructor; [|apply IH; [cbn in Hn; lia|exact Hd']].
      intros Hin. apply in_map_iff in Hin. destruct Hin as (y & Hk & Hy).
      apply swap_remove_in in Hy; [|cbn in Hn; lia]. destruct Hy as (i & _ & Hi). apply nth_error_In in Hi.
      apply Hnot. rewrite <- Hk. apply in_map. exact Hi.
  Qed.

  (* removing the first element with key k, under distinct keys *)
  Lemma find_swap_remove k k' (l : list A) : NoDup (map key l) -> (find_idx (has_key k) l < length l)%nat ->
    find (has_key k') (swap_remove (find_idx (has_key k) l) l) = if k' =? k then None else find (has_key k') l.
  Proof.
    intros Hd Hlt. set (n := find_idx (has_key k) l) in *.
    pose proof (find_idx_find (has_key k) l) as F. destruct (find (has_key k) l) as [x|] eqn:Fx; [|fold n in F; lia].
    fold n in F. destruct F as (_ & Hn & Hkx). unfold has_key in Hkx. apply Z.eqb_eq in Hkx.
    pose proof (swap_remove_nodup n l Hlt Hd) as Hd2.
    destruct (Z.eqb_spec k' k) as [->|Hne].
    - apply find_none_iff. intros Hin. apply in_map_iff in Hin. destruct Hin as (y & Hky & Hy).
      apply swap_remove_in in Hy; [|exact Hlt]. destruct Hy as (i & Hi & E).
      apply Hi. apply (nth_error_key_nodup l i n y x Hd E Hn). congruence.
    - destruct (find (has_key k') l) as [y|] eqn:Fy.
      + apply find_some_in in Fy. destruct Fy as [Hy Hky]. unfold has_key in Hky. apply Z.eqb_eq in Hky.
        rewrite <- Hky. apply find_unique; [exact Hd2|].
        apply swap_remove_in; [exact Hlt|]. apply In_nth_error in Hy. destruct Hy as (i & Hi). exists i. split; [|exact Hi].
        intros ->. rewrite Hn in Hi. inversion Hi; subst. congruence.
      + apply find_none_iff. apply find_none_iff in Fy. intros Hin. apply Fy.
        apply in_map_iff in Hin. destruct Hin as (y & Hky & Hy). apply swap_remove_in in Hy; [|exact Hlt].
        destruct Hy as (i & _ & E). apply nth_error_In in E. rewrite <- Hky. apply in_map. exact E.
  Qed.
End Keyed.

(* ---------- the abstract view: latest capture-module packet per device, latest interface packet per (device, interface) ---------- *)
Definition dkey (ds : devstat) : Z := p_dev (ds_pkt ds).
Definition dev_get (st : status) (d : Z) : option devstat := find (has_key devstat dkey d) st.
Definition if_get (ds : devstat) (i : Z) : option ifstat := find (has_key ifstat is_id i) (ds_ifs ds).
Definition A_dev (st : status) (d : Z) : option packet := option_map ds_pkt (dev_get st d).
Definition A_if (st : status) (d i : Z) : option packet :=
  match dev_get st d with Some ds => option_map is_pkt (if_get ds i) | None => None end.

Definition st_inv (st : status) : Prop :=
  NoDup (map dkey st) /\ Forall (fun ds => NoDup (map is_id (ds_ifs ds))) st.

Lemma dev_index_eq st d : dev_index st d = find_idx (has_key devstat dkey d) st.
Proof. reflexivity. Qed.
Lemma if_index_eq ds i : if_index ds i = find_idx (has_key ifstat is_id i) (ds_ifs ds).
Proof. reflexivity. Qed.

Lemma ltb_lt_iff n m : Nat.ltb n m = true <-> (n < m)%nat.
Proof. apply Nat.ltb_lt. Qed.

Lemma upd_first_const_eq (l : list ifstat) id p x :
  find (fun y => is_id y =? id) l = Some x ->
  upd_nth (find_idx (fun y => is_id y =? id) l) (fun _ => {| is_id := id; is_pkt := p |}) l =
  upd_nth (find_idx (fun y => is_id y =? id) l) (fun y => {| is_id := is_id y; is_pkt := p |}) l.
Proof.
  induction l as [|y t IH]; cbn [find find_idx upd_nth]; [discriminate|].
  destruct (Z.eqb_spec (is_id y) id) as [Ey|Ey]; cbn [upd_nth].
  - intros _. now rewrite Ey.
  - intros Ft. f_equal. apply IH. exact Ft.
Qed.
Lemma upd_first_const_keys (l : list ifstat) id p x :
  find (fun y => is_id y =? id) l = Some x ->
  map is_id (upd_nth (find_idx (fun y => is_id y =? id) l) (fun _ => {| is_id := id; is_pkt := p |}) l) = map is_id l.
Proof.
  induction l as [|y t IH]; cbn [find find_idx upd_nth map]; [discriminate|].
  destruct (Z.eqb_spec (is_id y) id) as [Ey|Ey]; cbn [upd_nth map is_id]; [now rewrite Ey|].
  intros Ft. f_equal. apply IH. exact Ft.
Qed.

(* what one device entry looks like after DeviceStatus::update *)
Lemma dev_update_key ds p : p_dev p = dkey ds -> dkey (dev_update ds p) = dkey ds.
Proof.
  intros H. unfold dev_update, dkey. destruct (p_type p =? 769); cbn [ds_pkt]; [exact H|].
  destruct (p_type p =? 770); [destruct (Nat.ltb _ _)|]; reflexivity.
Qed.
Lemma dev_update_pkt ds p : ds_pkt (dev_update ds p) = if p_type p =? 769 then p else ds_pkt ds.
Proof.
  unfold dev_update. destruct (p_type p =? 769); cbn [ds_pkt]; [reflexivity|].
  destruct (p_type p =? 770); [destruct (Nat.ltb _ _)|]; reflexivity.
Qed.
Lemma dev_update_if ds p i :
  if_get (dev_update ds p) i =
  if (p_type p =? 770) && (i =? p_if_id p) then Some {| is_id := p_if_id p; is_pkt := p |} else if_get ds i.
Proof.
  unfold dev_update, if_get.
  assert (E : forall ifs, ds_ifs (if p_type p =? 769 then {| ds_pkt := p; ds_ifs := ifs |} else {| ds_pkt := ds_pkt ds; ds_ifs := ifs |}) = ifs)
    by (intros; destruct (p_type p =? 769); reflexivity).
  destruct (Z.eqb_spec (p_type p) 770) as [E7|E7]; cbn [andb].
  - set (id := p_if_id p).
    destruct (Nat.ltb (if_index ds id) (length (ds_ifs ds))) eqn:L.
    + replace (ds_ifs (if p_type p =? 769 then _ else _)) with (upd_nth (if_index ds id) (fun _ => {| is_id := id; is_pkt := p |}) (ds_ifs ds))
        by (destruct (p_type p =? 769); reflexivity).
      apply ltb_lt_iff in L. rewrite if_index_eq in *.
      destruct (find_idx_lt_find _ is_id _ _ L) as (x & Fx).
      pose proof (find_idx_find ifstat is_id (has_key ifstat is_id id) (ds_ifs ds)) as F. rewrite Fx in F. destruct F as (_ & _ & Hk).
      unfold has_key in Hk. apply Z.eqb_eq in Hk.
      pose proof (upd_first_const_eq (ds_ifs ds) id p x Fx) as G. fold (has_key ifstat is_id id) in G.
      rewrite G. rewrite (find_upd_first ifstat is_id (fun y => {| is_id := is_id y; is_pkt := p |}) id i) by reflexivity.
      destruct (Z.eqb_spec i id) as [->|Hne]; [|reflexivity]. rewrite Fx. cbn [option_map]. now rewrite Hk.
    + replace (ds_ifs (if p_type p =? 769 then _ else _)) with (ds_ifs ds ++ [{| is_id := id; is_pkt := p |}])
        by (destruct (p_type p =? 769); reflexivity).
      rewrite find_app_one. unfold has_key at 2. cbn [is_id].
      assert (N : find (has_key ifstat is_id id) (ds_ifs ds) = None).
      { apply (find_idx_ge_none _ is_id). intros H. apply ltb_lt_iff in H. rewrite if_index_eq in L. congruence. }
      destruct (Z.eqb_spec i id) as [->|Hne].
      * rewrite N, Z.eqb_refl. reflexivity.
      * destruct (find (has_key ifstat is_id i) (ds_ifs ds)); [reflexivity|]. destruct (Z.eqb_spec id i); [congruence|reflexivity].
  - destruct (p_type p =? 769); reflexivity.
Qed.

Lemma dev_update_inv ds p : NoDup (map is_id (ds_ifs ds)) -> NoDup (map is_id (ds_ifs (dev_update ds p))).
Proof.
  intros Hn. unfold dev_update.
  assert (E : forall ifs, ds_ifs (if p_type p =? 769 then {| ds_pkt := p; ds_ifs := ifs |} else {| ds_pkt := ds_pkt ds; ds_ifs := ifs |}) = ifs)
    by (intros; destruct (p_type p =? 769); reflexivity).
  destruct (p_type p =? 770).
  - set (id := p_if_id p). destruct (Nat.ltb (if_index ds id) (length (ds_ifs ds))) eqn:L.
    + replace (ds_ifs (if p_type p =? 769 then _ else _)) with (upd_nth (if_index ds id) (fun _ => {| is_id := id; is_pkt := p |}) (ds_ifs ds))
        by (destruct (p_type p =? 769); reflexivity).
      apply ltb_lt_iff in L. rewrite if_index_eq in *.
      destruct (find_idx_lt_find _ is_id _ _ L) as (x & Fx).
      pose proof (upd_first_const_keys (ds_ifs ds) id p x Fx) as M. fold (has_key ifstat is_id id) in M.
      rewrite M. exact Hn.
    + replace (ds_ifs (if p_type p =? 769 then _ else _)) with (ds_ifs ds ++ [{| is_id := id; is_pkt := p |}])
        by (destruct (p_type p =? 769); reflexivity).
      rewrite map_app. cbn [map is_id].
      assert (N : find (has_key ifstat is_id id) (ds_ifs ds) = None).
      { apply (find_idx_ge_none _ is_id). intros H. apply ltb_lt_iff in H. rewrite if_index_eq in L. congruence. }
      apply find_none_iff in N.
      apply NoDup_app_one; assumption.
  - destruct (p_type p =? 769); exact Hn.
Qed.

(* ---------- the operations ---------- *)
Lemma upd_first_ext {A} (key : A -> Z) (g g' : A -> A) k (l : list A) :
  (forall x, key x = k -> g x = g' x) ->
  upd_nth (find_idx (has_key A key k) l) g l = upd_nth (find_idx (has_key A key k) l) g' l.
Proof.
  intros H. unfold has_key. induction l as [|x t IH]; cbn [find_idx upd_nth]; [reflexivity|].
  destruct (Z.eqb_spec (key x) k) as [E|E]; cbn [upd_nth]; [now rewrite H|now rewrite IH].
Qed.

Lemma Forall_upd_nth {A} (P : A -> Prop) n (g : A -> A) (l : list A) : Forall P l -> (forall x, P x -> P (g x)) -> Forall P (upd_nth n g l).
Proof.
  intros Hl Hg. revert n. induction Hl as [|x t Hx Ht IH]; intros [|n]; cbn [upd_nth]; constructor; auto.
Qed.
Lemma Forall_swap_remove {A} (P : A -> Prop) n (l : list A) : (n < length l)%nat -> Forall P l -> Forall P (swap_remove n l).
Proof.
  intros Hn Hl. apply Forall_forall. intros y Hy. apply (swap_remove_in A (fun _ => 0) n l y Hn) in Hy. destruct Hy as (i & _ & E).
  rewrite Forall_forall in Hl. apply Hl. eapply nth_error_In; eauto.
Qed.

Definition upd_known (p : packet) (ds : devstat) : devstat := if dkey ds =? p_dev p then dev_update ds p else ds.
Lemma upd_known_key p ds : dkey (upd_known p ds) = dkey ds.
Proof. unfold upd_known. destruct (Z.eqb_spec (dkey ds) (p_dev p)); [|reflexivity]. apply dev_update_key. congruence. Qed.

Lemma st_update_known st p ds0 : dev_get st (p_dev p) = Some ds0 ->
  st_update st p = upd_nth (find_idx (has_key devstat dkey (p_dev p)) st) (upd_known p) st.
Proof.
  intros F. unfold st_update. rewrite dev_index_eq.
  pose proof (find_idx_find devstat dkey (has_key devstat dkey (p_dev p)) st) as FF. unfold dev_get in F. rewrite F in FF.
  destruct FF as (Hlt & _ & _). apply Nat.ltb_lt in Hlt. rewrite Hlt.
  apply upd_first_ext. intros x Hx. unfold upd_known. rewrite Hx, Z.eqb_refl. reflexivity.
Qed.
Lemma st_update_unknown st p : dev_get st (p_dev p) = None ->
  st_update st p = if p_type p =? 769 then st ++ [dev_update {| ds_pkt := default_packet; ds_ifs := [] |} p] else st.
Proof.
  intros F. unfold st_update. rewrite dev_index_eq.
  pose proof (find_idx_find devstat dkey (has_key devstat dkey (p_dev p)) st) as FF. unfold dev_get in F. rewrite F in FF.
  assert (Nat.ltb (find_idx (has_key devstat dkey (p_dev p)) st) (length st) = false) as -> by (apply Nat.ltb_ge; lia).
  reflexivity.
Qed.

Theorem st_update_inv st p : st_inv st -> st_inv (st_update st p).
Proof.
  intros [Hd Hi]. destruct (dev_get st (p_dev p)) as [ds0|] eqn:F.
  - rewrite (st_update_known st p ds0 F). split.
    + rewrite (map_upd_nth devstat dkey); [exact Hd | apply upd_known_key].
    + apply Forall_upd_nth; [exact Hi|]. intros x Hx. unfold upd_known. destruct (dkey x =? p_dev p); [apply dev_update_inv|]; exact Hx.
  - rewrite (st_update_unknown st p F). destruct (p_type p =? 769) eqn:T; [|split; assumption].
    split.
    + rewrite map_app. cbn [map]. apply NoDup_app_one; [exact Hd|].
      replace (dkey (dev_update {| ds_pkt := default_packet; ds_ifs := [] |} p)) with (p_dev p) by (unfold dkey; rewrite dev_update_pkt, T; reflexivity).
      apply (find_none_iff devstat dkey). exact F.
    + apply Forall_app. split; [exact Hi|]. constructor; [|constructor]. apply dev_update_inv. constructor.
Qed.

Definition is_some' {A} (o : option A) : bool := match o with Some _ => true | None => false end.

Theorem st_update_dev st p d :
  A_dev (st_update st p) d = if (d =? p_dev p) && (p_type p =? 769) then Some p else A_dev st d.
Proof.
  unfold A_dev. destruct (dev_get st (p_dev p)) as [ds0|] eqn:F.
  - rewrite (st_update_known st p ds0 F). unfold dev_get.
    rewrite (find_upd_first devstat dkey (upd_known p) (p_dev p) d) by apply upd_known_key.
    destruct (Z.eqb_spec d (p_dev p)) as [->|Hne]; cbn [andb]; [|reflexivity].
    unfold dev_get in F. rewrite F. cbn [option_map]. unfold upd_known.
    apply find_some_in in F. destruct F as [_ Hk]. unfold has_key in Hk. rewrite Hk.
    rewrite dev_update_pkt. destruct (p_type p =? 769); reflexivity.
  - rewrite (st_update_unknown st p F). destruct (p_type p =? 769) eqn:T; [|rewrite andb_false_r; reflexivity].
    rewrite andb_true_r. unfold dev_get. rewrite find_app_one.
    replace (has_key devstat dkey d (dev_update {| ds_pkt := default_packet; ds_ifs := [] |} p)) with (p_dev p =? d)
      by (unfold has_key, dkey; rewrite dev_update_pkt, T; reflexivity).
    destruct (Z.eqb_spec d (p_dev p)) as [->|Hne].
    + unfold dev_get in F. rewrite F, Z.eqb_refl. cbn [option_map]. rewrite dev_update_pkt, T. reflexivity.
    + destruct (find (has_key devstat dkey d) st); [reflexivity|]. destruct (Z.eqb_spec (p_dev p) d); [congruence|reflexivity].
Qed.

Theorem st_update_if st p d i :
  A_if (st_update st p) d i =
  if (d =? p_dev p) && is_some' (A_dev st d) && (p_type p =? 770) && (i =? p_if_id p) then Some p else A_if st d i.
Proof.
  unfold A_if, A_dev. destruct (dev_get st (p_dev p)) as [ds0|] eqn:F.
  - rewrite (st_update_known st p ds0 F). unfold dev_get.
    rewrite (find_upd_first devstat dkey (upd_known p) (p_dev p) d) by apply upd_known_key.
    destruct (Z.eqb_spec d (p_dev p)) as [->|Hne]; cbn [andb]; [|reflexivity].
    unfold dev_get in F. rewrite F. cbn [option_map is_some' andb]. unfold upd_known.
    pose proof F as F'. apply find_some_in in F'. destruct F' as [_ Hk]. unfold has_key in Hk. rewrite Hk.
    rewrite dev_update_if. destruct ((p_type p =? 770) && (i =? p_if_id p)); reflexivity.
  - rewrite (st_update_unknown st p F).
    assert (G : forall X, (if (d =? p_dev p) && is_some' (option_map ds_pkt (dev_get st d)) && (p_type p =? 770) && (i =? p_if_id p) then Some p else X) = X).
    { intros X. destruct (Z.eqb_spec d (p_dev p)) as [->|Hne]; [rewrite F|]; reflexivity. }
    rewrite G. destruct (p_type p =? 769) eqn:T; [|reflexivity].
    unfold dev_get. rewrite find_app_one.
    replace (has_key devstat dkey d (dev_update {| ds_pkt := default_packet; ds_ifs := [] |} p)) with (p_dev p =? d)
      by (unfold has_key, dkey; rewrite dev_update_pkt, T; reflexivity).
    destruct (find (has_key devstat dkey d) st) as [y|] eqn:Fd; [reflexivity|].
    destruct (Z.eqb_spec (p_dev p) d); [|reflexivity].
    (* a device created by a capture-module status message has no interfaces yet *)
    rewrite dev_update_if. apply Z.eqb_eq in T. rewrite T. reflexivity.
Qed.

Theorem st_remove_dev_inv st d : st_inv st -> st_inv (st_remove_dev st d).
Proof.
  intros [Hd Hi]. unfold st_remove_dev. rewrite dev_index_eq.
  destruct (Nat.ltb _ _) eqn:L; [|split; assumption]. apply Nat.ltb_lt in L.
  split; [apply swap_remove_nodup; assumption | apply Forall_swap_remove; assumption].
Qed.
Theorem st_remove_dev_get st d0 d : st_inv st -> dev_get (st_remove_dev st d0) d = if d =? d0 then None else dev_get st d.
Proof.
  intros [Hd _]. unfold st_remove_dev, dev_get. rewrite dev_index_eq.
  destruct (Nat.ltb _ _) eqn:L.
  - apply Nat.ltb_lt in L. apply find_swap_remove; assumption.
  - destruct (Z.eqb_spec d d0) as [->|]; [|reflexivity]. apply (find_idx_ge_none _ dkey). intros H. apply Nat.ltb_lt in H. congruence.
Qed.

Definition rm_if (i : Z) (ds : devstat) : devstat :=
  let j := if_index ds i in if Nat.ltb j (length (ds_ifs ds)) then {| ds_pkt := ds_pkt ds; ds_ifs := swap_remove j (ds_ifs ds) |} else ds.
Lemma st_remove_if_eq st d i : st_remove_if st d i =
  if Nat.ltb (dev_index st d) (length st) then upd_nth (dev_index st d) (rm_if i) st else st.
Proof. reflexivity. Qed.
Lemma rm_if_key i ds : dkey (rm_if i ds) = dkey ds.
Proof. unfold rm_if. destruct (Nat.ltb _ _); reflexivity. Qed.
Lemma rm_if_inv i ds : NoDup (map is_id (ds_ifs ds)) -> NoDup (map is_id (ds_ifs (rm_if i ds))).
Proof. intros H. unfold rm_if. destruct (Nat.ltb _ _) eqn:L; [|exact H]. apply Nat.ltb_lt in L. cbn [ds_ifs]. apply swap_remove_nodup; assumption. Qed.
Lemma rm_if_get i0 ds i : NoDup (map is_id (ds_ifs ds)) -> if_get (rm_if i0 ds) i = if i =? i0 then None else if_get ds i.
Proof.
  intros H. unfold rm_if, if_get. rewrite if_index_eq. destruct (Nat.ltb _ _) eqn:L.
  - apply Nat.ltb_lt in L. cbn [ds_ifs]. apply find_swap_remove; assumption.
  - destruct (Z.eqb_spec i i0) as [->|]; [|reflexivity]. apply (find_idx_ge_none _ is_id). intros Hl. apply Nat.ltb_lt in Hl. congruence.
Qed.

Theorem st_remove_if_inv st d i : st_inv st -> st_inv (st_remove_if st d i).
Proof.
  intros [Hd Hi]. rewrite st_remove_if_eq. destruct (Nat.ltb _ _); [|split; assumption]. split.
  - rewrite (map_upd_nth devstat dkey); [exact Hd|apply rm_if_key].
  - apply Forall_upd_nth; [exact Hi|]. intros x Hx. apply rm_if_inv. exact Hx.
Qed.
Theorem st_remove_if_get st d0 i0 d : dev_get (st_remove_if st d0 i0) d = if d =? d0 then option_map (rm_if i0) (dev_get st d0) else dev_get st d.
Proof.
  rewrite st_remove_if_eq, dev_index_eq. unfold dev_get. destruct (Nat.ltb _ _) eqn:L.
  - apply (find_upd_first devstat dkey). apply rm_if_key.
  - destruct (Z.eqb_spec d d0) as [->|]; [|reflexivity].
    rewrite (find_idx_ge_none _ dkey (has_key devstat dkey d0) st); [reflexivity|]. intros H. apply Nat.ltb_lt in H. congruence.
Qed.

(* lookups by id return the index of the matching entry, or the element count when there is none *)
Theorem dev_index_spec st d :
  match dev_get st d with
  | Some ds => (dev_index st d < length st)%nat /\ nth_error st (dev_index st d) = Some ds /\ dkey ds = d
  | None => dev_index st d = length st
  end.
Proof.
  pose proof (find_idx_find devstat dkey (has_key devstat dkey d) st) as F. unfold dev_get. rewrite dev_index_eq.
  destruct (find (has_key devstat dkey d) st) as [ds|]; [|exact F].
  destruct F as (H1 & H2 & H3). unfold has_key in H3. apply Z.eqb_eq in H3. auto.
Qed.
Theorem if_index_spec ds i :
  match if_get ds i with
  | Some x => (if_index ds i < length (ds_ifs ds))%nat /\ nth_error (ds_ifs ds) (if_index ds i) = Some x /\ is_id x = i
  | None => if_index ds i = length (ds_ifs ds)
  end.
Proof.
  pose proof (find_idx_find ifstat is_id (has_key ifstat is_id i) (ds_ifs ds)) as F. unfold if_get. rewrite if_index_eq.
  destruct (find (has_key ifstat is_id i) (ds_ifs ds)) as [x|]; [|exact F].
  destruct F as (H1 & H2 & H3). unfold has_key in H3. apply Z.eqb_eq in H3. auto.
Qed.

(* ---------- refinement over operation sequences ---------- *)
Inductive sop := SUpd (p : packet) | SRmDev (d : Z) | SRmIf (d i : Z) | SClr.
Definition sstep (st : status) (o : sop) : status :=
  match o with SUpd p => st_update st p | SRmDev d => st_remove_dev st d | SRmIf d i => st_remove_if st d i | SClr => [] end.

(* the abstract map: latest capture-module packet per device id, latest interface packet per (device id, interface id) *)
Definition smap := ((Z -> option packet) * (Z -> Z -> option packet))%type.
Definition smap0 : smap := (fun _ => None, fun _ _ => None).
Definition spec_step (m : smap) (o : sop) : smap :=
  let '(sd, si) := m in
  match o with
  | SUpd p => (fun d => if (d =? p_dev p) && (p_type p =? 769) then Some p else sd d,
               fun d i => if (d =? p_dev p) && is_some' (sd d) && (p_type p =? 770) && (i =? p_if_id p) then Some p else si d i)
  | SRmDev d0 => (fun d => if d =? d0 then None else sd d, fun d i => if d =? d0 then None else si d i)
  | SRmIf d0 i0 => (sd, fun d i => if (d =? d0) && (i =? i0) then None else si d i)
  | SClr => smap0
  end.

Definition agrees (st : status) (m : smap) : Prop := (forall d, A_dev st d = fst m d) /\ (forall d i, A_if st d i = snd m d i).

Lemma inv_nil : st_inv [].
Proof. split; constructor. Qed.

Lemma sstep_inv st o : st_inv st -> st_inv (sstep st o).
Proof.
  destruct o; cbn [sstep]; intros H; [apply st_update_inv|apply st_remove_dev_inv|apply st_remove_if_inv|apply inv_nil]; exact H.
Qed.

Lemma sstep_agrees st m o : st_inv st -> agrees st m -> agrees (sstep st o) (spec_step m o).
Proof.
  intros Hinv [Hd Hi]. destruct m as [sd si]. cbn [fst snd] in *. destruct o as [p|d0|d0 i0|]; cbn [sstep spec_step]; split; cbn [fst snd].
  - intros d. rewrite st_update_dev, Hd. reflexivity.
  - intros d i. rewrite st_update_if, Hd, Hi. reflexivity.
  - intros d. unfold A_dev. rewrite st_remove_dev_get by exact Hinv. destruct (d =? d0); [reflexivity|apply Hd].
  - intros d i. unfold A_if. rewrite st_remove_dev_get by exact Hinv. destruct (d =? d0); [reflexivity|apply Hi].
  - intros d. unfold A_dev. rewrite st_remove_if_get. destruct (Z.eqb_spec d d0) as [->|]; [|apply Hd].
    rewrite <- Hd. unfold A_dev. destruct (dev_get st d0); [cbn [option_map]; unfold rm_if; destruct (Nat.ltb _ _)|]; reflexivity.
  - intros d i. unfold A_if. rewrite st_remove_if_get. destruct (Z.eqb_spec d d0) as [->|]; cbn [andb]; [|apply Hi].
    rewrite <- Hi. unfold A_if. destruct (dev_get st d0) as [ds|] eqn:F; cbn [option_map]; [|destruct (i =? i0); reflexivity].
    destruct Hinv as [_ Hall]. rewrite Forall_forall in Hall. apply find_some_in in F. destruct F as [Hin _].
    rewrite rm_if_get by (apply Hall; exact Hin). destruct (i =? i0); reflexivity.
  - reflexivity.
  - reflexivity.
Qed.

Theorem status_refines_map : forall ops st m,
  st_inv st -> agrees st m -> st_inv (fold_left sstep ops st) /\ agrees (fold_left sstep ops st) (fold_left spec_step ops m).
Proof.
  induction ops as [|o ops IH]; intros st m Hi Ha; [split; assumption|].
  cbn [fold_left]. apply IH; [apply sstep_inv; exact Hi | apply sstep_agrees; assumption].
Qed.
