(* C20 — outputs never contain or depend on uninitialised memory (partial: what an indeterminate byte would hold cannot be
   exhibited by the model; exercised with two allocation fill patterns and the byte-exact correspondence). *)
From Coq Require Import List String ZArith.
Require Import CMP.Bytes CMP.Packet CMP.Decoder CMP.Encoder CMP.EncoderProofs CMP.Inventory CMP.Refine CMPGen.GenInventory CMPGen.GenLayout.
Local Open Scope Z_scope.

(* inventories regenerated from the current sources *)
Theorem C20_no_indeterminate_allocation_form : allocs_ok = true.
Proof. vm_compute. reflexivity. Qed.
Print Assumptions C20_no_indeterminate_allocation_form.

Theorem C20_header_objects_fully_initialised : local_headers_ok = true /\ codec_headers_ok = true.
Proof. vm_compute. split; reflexivity. Qed.
Print Assumptions C20_header_objects_fully_initialised.

(* every scalar data member of every library class has a default member initialiser (allowed exceptions are listed with their reason in
   Inventory.uninit_allowed): objects value-initialised by containers (the reassembly table) or default-constructed hold no indeterminate value *)
Theorem C20_all_scalar_members_initialised : members_ok = true.
Proof. vm_compute. reflexivity. Qed.
Print Assumptions C20_all_scalar_members_initialised.

(* every byte of every frame of the encoder model is a byte value determined by the inputs: the models have no heap; the frame is
   header ++ per-item (message header ++ payload slice) ++ zeros. Stated as: frame bytes are bytes_ok whenever the inputs are. *)
Definition item_in (i : item) : Prop :=
  mhdr_ok (raw_mhdr (it_pkt i)) /\ 0 <= it_len i < 65536 /\ (it_flag i = 0 \/ it_flag i = 4 \/ it_flag i = 8 \/ it_flag i = 12) /\
  bytes_ok (match p_pl (it_pkt i) with Some pl => pl_data pl | None => [] end).

Lemma land_lor_flag_ok f k : 0 <= f < 256 -> (k = 0 \/ k = 4 \/ k = 8 \/ k = 12) -> 0 <= Z.lor (Z.land f 243) k < 256.
Proof.
  intros Hf Hk.
  assert (G : forallb (fun f => forallb (fun k => (0 <=? Z.lor (Z.land f 243) k) && (Z.lor (Z.land f 243) k <? 256)) [0; 4; 8; 12])
                      (map Z.of_nat (seq 0 256)) = true) by (vm_compute; reflexivity).
  rewrite forallb_forall in G. specialize (G f).
  assert (Hin : In f (map Z.of_nat (seq 0 256))).
  { apply in_map_iff. exists (Z.to_nat f). split; [lia|]. apply in_seq. lia. }
  specialize (G Hin). rewrite forallb_forall in G.
  assert (Hk' : In k [0; 4; 8; 12]) by (cbn; intuition).
  specialize (G k Hk'). apply andb_true_iff in G as [G1 G2]. apply Z.leb_le in G1. apply Z.ltb_lt in G2. lia.
Qed.

Theorem C20_item_bytes_defined : forall i, item_in i -> bytes_ok (ser_item i).
Proof.
  intros i (Hh & Hl & Hf & Hd). unfold ser_item. apply bytes_ok_app.
  - unfold ser_mhdr. cbn [h_ts h_id h_flags h_ptype h_plen].
    destruct Hh as (_ & _ & Hfl & Hpt & _).
    repeat apply bytes_ok_app; try apply be_enc_ok.
    constructor; [|constructor; [exact Hpt|constructor]].
    unfold byte_ok in *. apply land_lor_flag_ok; assumption.
  - apply bytes_ok_take, bytes_ok_drop. exact Hd.
Qed.
Print Assumptions C20_item_bytes_defined.

Theorem C20_padding_is_zero : forall minb l, bytes_ok l -> bytes_ok (pad_to minb l).
Proof. intros. unfold pad_to. apply bytes_ok_app; [assumption|apply bytes_ok_zeros]. Qed.
Print Assumptions C20_padding_is_zero.

(* every payload the decoder model hands out consists of bytes of the input (or zeros for payloads marked invalid) *)
Theorem C20_created_payload_defined : forall ty d, bytes_ok d -> bytes_ok (pl_data (create ty d)).
Proof.
  intros ty d Hd. unfold create, mk_payload.
  destruct (kind_of_type ty) as [k|]; [destruct (valid_kind k d)|]; cbn [pl_data];
    repeat match goal with |- context [if ?b then _ else _] => destruct b end; try exact Hd; apply bytes_ok_zeros.
Qed.
Print Assumptions C20_created_payload_defined.

Example C20_inventory_example : List.length gen_local_objects <> 0%nat /\ fully_initialised "ASAM::CMP::CmpHeader" = true.
Proof. vm_compute. split; [discriminate|reflexivity]. Qed.
