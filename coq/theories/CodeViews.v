(* Tie T2: the variable-length view accessors of the typed payload classes (data pointer of CAN / LIN / Ethernet / analog, analog sample
   count, stream-id list and vendor data of the interface status), as translated from /repo on this run - member functions whose buffer
   is the payload's own byte vector -, against the model's views (view_lin, view_if ... of Packet.v): on every payload its validator accepts they read in
   bounds and return the offset / length the model reports (-1 = nullptr). Proved by the generic tactic of CodeBridge. *)
From Coq Require Import ZArith List String Bool Lia.
Require Import CMP.Bytes CMP.Bv CMP.Refine CMP.Packet CMP.Tecmp CMP.Cir CMPGen.GenAccessors CMPGen.GenCode CMP.CodeBridge.
Import ListNotations.
Local Open Scope Z_scope.
Local Open Scope bool_scope.

Ltac use_valid H alt := rewrite alt in H; repeat (apply andb_true_iff in H; destruct H as [H ?]);
  repeat match goal with X : (_ <=? _) = true |- _ => apply Z.leb_le in X | X : (_ =? _) = true |- _ => apply Z.eqb_eq in X end.

Theorem view_lin_data d c : bytes_ok d -> zlen d < 2 ^ 64 -> valid_lin d = true -> code_LinPayload_getData = Some c ->
  ceval gen_reads d (penv d) c = Ok (if nb d 0 7 =? 0 then -1 else 8) /\ 8 + nb d 0 7 <= zlen d.
Proof.
  intros Hd Hn Hv. use_valid Hv valid_lin_alt.
  t2_open code_LinPayload_getData; (split; [unfold penv; t2_solve Hd | lia]).
Qed.

Theorem view_can_data d c : bytes_ok d -> zlen d < 2 ^ 64 -> valid_can d = true -> code_CanPayloadBase_getData = Some c ->
  ceval gen_reads d (penv d) c = Ok (if nb d 0 15 =? 0 then -1 else 16) /\ 16 + nb d 0 15 <= zlen d.
Proof.
  intros Hd Hn Hv. use_valid Hv valid_can_alt.
  t2_open code_CanPayloadBase_getData; (split; [unfold penv; t2_solve Hd | lia]).
Qed.

Theorem view_eth_data d c : bytes_ok d -> zlen d < 2 ^ 64 -> valid_eth d = true -> code_EthernetPayload_getData = Some c ->
  ceval gen_reads d (penv d) c = Ok (if nb d 0 4 * 256 + nb d 0 5 =? 0 then -1 else 6) /\ 6 + (nb d 0 4 * 256 + nb d 0 5) <= zlen d.
Proof.
  intros Hd Hn Hv. use_valid Hv valid_eth_alt.
  t2_open code_EthernetPayload_getData; (split; [unfold penv; t2_solve Hd | lia]).
Qed.

(* analog: sample count = (size - 16) / sample size, sample size from the data-type bits (as the validator reads them) *)
Definition an_dt_le (d : list Z) : Z := Z.land (nb d 0 0 + nb d 0 1 * 256) 768.
Theorem view_analog_count d c : bytes_ok d -> zlen d < 2 ^ 64 -> valid_analog d = true -> code_AnalogPayload_getSamplesCount = Some c ->
  ceval gen_reads d (penv d) c = Ok ((zlen d - 16) / (if an_dt_le d =? 0 then 2 else 4)).
Proof.
  intros Hd Hn Hv. rewrite valid_analog_alt in Hv by assumption. apply andb_true_iff in Hv as [Hs _]. apply Z.leb_le in Hs.
  unfold an_dt_le. t2_open code_AnalogPayload_getSamplesCount; (unfold penv; t2_solve Hd).
Qed.
Theorem view_analog_data d c : bytes_ok d -> zlen d < 2 ^ 64 -> valid_analog d = true -> code_AnalogPayload_getData = Some c ->
  ceval gen_reads d (penv d) c = Ok (if (zlen d - 16) / (if an_dt_le d =? 0 then 2 else 4) =? 0 then -1 else 16).
Proof.
  intros Hd Hn Hv. rewrite valid_analog_alt in Hv by assumption. apply andb_true_iff in Hv as [Hs _]. apply Z.leb_le in Hs.
  unfold an_dt_le. t2_open code_AnalogPayload_getData; (unfold penv; t2_solve Hd).
Qed.
(* the model's view of the same payload: count and data offset agree (the data-type bits read big-endian, as view_analog does) *)
Lemma view_analog_model d w : bytes_ok d -> valid_analog d = true -> view_analog d = Some w ->
  nth 6 w 0 = (zlen d - 16) / (if an_dt_le d =? 0 then 2 else 4).
Proof.
  intros Hd Hv. rewrite valid_analog_alt in Hv by assumption. apply andb_true_iff in Hv as [Hs Hdt]. apply Z.leb_le in Hs.
  unfold view_analog, rdv, obind.
  repeat match goal with |- context [(0 <=? ?a) && (?a + ?n <=? zlen d)] =>
    replace ((0 <=? a) && (a + n <=? zlen d)) with true by (symmetry; apply andb_true_iff; split; apply Z.leb_le; lia) end.
  intros E. inversion E; subst w; clear E. cbn [nth].
  change (be_dec (take 2 (drop 0 d))) with (u16 d 0). rewrite u16_nb by lia. change (Z.to_nat 0) with 0%nat.
  unfold an_dt_le.
  assert (G : forall a b, byte_ok a -> byte_ok b -> ((Z.land (a + b * 256) 768 =? 0) || (Z.land (a + b * 256) 768 =? 256)) = true ->
              (Z.land (a * 256 + b) 3 =? 0) = (Z.land (a + b * 256) 768 =? 0)).
  { intros a b Ha Hb. intros Hx.
    assert (S : (negb ((Z.land (a + b * 256) 768 =? 0) || (Z.land (a + b * 256) 768 =? 256)) || eqb (Z.land (a * 256 + b) 3 =? 0) (Z.land (a + b * 256) 768 =? 0)) = true).
    { apply (two_byte_sweep (fun a b => negb ((Z.land (a + b * 256) 768 =? 0) || (Z.land (a + b * 256) 768 =? 256)) || eqb (Z.land (a * 256 + b) 3 =? 0) (Z.land (a + b * 256) 768 =? 0)));
        [vm_compute; reflexivity|assumption|assumption]. }
    rewrite Hx in S. cbn [negb orb] in S. apply eqb_prop in S. exact S. }
  rewrite (G _ _ (nb_ok d 0 0 Hd) (nb_ok d 0 1 Hd) Hdt). reflexivity.
Qed.

(* interface status: stream-id list and vendor data. The accessor pads the id count in uint16_t arithmetic (65535 wraps to 0), as the
   model's view_if does. *)
Definition if_cnt (d : list Z) : Z := u16 d 36.
Definition if_cntv (d : list Z) : Z := (if_cnt d + if_cnt d mod 2) mod 65536.
Lemma valid_if_facts d : bytes_ok d -> valid_if d = true ->
  36 <= zlen d /\ 2 <= zlen d - 36 /\ if_cnt d + if_cnt d mod 2 <= zlen d - 38 /\ 2 <= zlen d - (38 + (if_cnt d + if_cnt d mod 2)) /\
  u16 d (38 + (if_cnt d + if_cnt d mod 2)) <= zlen d - (38 + (if_cnt d + if_cnt d mod 2) + 2).
Proof.
  intros Hd Hv. rewrite valid_if_alt in Hv. unfold if_cnt.
  apply andb_true_iff in Hv as [Hv H3]. apply andb_true_iff in Hv as [H1 H2]. apply Z.leb_le in H1.
  destruct (Z.ltb_spec (zlen d - 36) 2); [discriminate|].
  destruct (Z.ltb_spec (zlen d - 38) (u16 d 36 + u16 d 36 mod 2)); [discriminate|].
  destruct (Z.ltb_spec (zlen d - (38 + (u16 d 36 + u16 d 36 mod 2))) 2); [discriminate|].
  apply Z.leb_le in H3. repeat split; lia.
Qed.

Theorem view_if_count d c : bytes_ok d -> zlen d < 2 ^ 64 -> valid_if d = true -> code_InterfacePayload_getStreamIdsCount = Some c ->
  ceval gen_reads d (penv d) c = Ok (if_cnt d).
Proof.
  intros Hd Hn Hv. destruct (valid_if_facts d Hd Hv) as (F1 & F2 & F3 & F4 & F5). unfold if_cnt in *.
  t2_open code_InterfacePayload_getStreamIdsCount; (unfold penv; t2_solve Hd).
Qed.
Theorem view_if_ids d c : bytes_ok d -> zlen d < 2 ^ 64 -> valid_if d = true -> code_InterfacePayload_getStreamIds = Some c ->
  ceval gen_reads d (penv d) c = Ok (if if_cnt d =? 0 then -1 else 38) /\ 38 + if_cnt d <= zlen d.
Proof.
  intros Hd Hn Hv. destruct (valid_if_facts d Hd Hv) as (F1 & F2 & F3 & F4 & F5). unfold if_cnt in *.
  pose proof (u16_range d 36 Hd). pose proof (Z.mod_pos_bound (u16 d 36) 2 ltac:(lia)).
  t2_open code_InterfacePayload_getStreamIds; (split; [unfold penv; t2_solve Hd | lia]).
Qed.

Theorem view_if_vendor_len d c : bytes_ok d -> zlen d < 2 ^ 64 -> valid_if d = true -> code_InterfacePayload_getVendorDataLength = Some c ->
  ceval gen_reads d (penv d) c = Ok (u16 d (38 + if_cntv d)).
Proof.
  intros Hd Hn Hv. destruct (valid_if_facts d Hd Hv) as (F1 & F2 & F3 & F4 & F5). unfold if_cntv, if_cnt in *.
  pose proof (u16_range d 36 Hd).
  t2_open code_InterfacePayload_getVendorDataLength; (unfold penv; t2_solve Hd).
Qed.

(* two reads of the same 16-bit word at offsets that are written differently (38 + c and 38 + (c + c mod 2) mod 65536 when c is even ...) *)
Ltac same_word :=
  repeat match goal with x := _ |- _ => subst x end;
  match goal with
  | e : u16 ?d ?A = 0, n : u16 ?d ?B <> 0 |- _ => exfalso; apply n; rewrite <- e; f_equal; lia
  | e : u16 ?d ?A = 0 |- context [u16 ?d ?B] => replace B with A by lia; rewrite e
  | _ => idtac
  end.

Theorem view_if_vendor_data d c : bytes_ok d -> zlen d < 2 ^ 64 -> valid_if d = true -> code_InterfacePayload_getVendorData = Some c ->
  ceval gen_reads d (penv d) c = Ok (if u16 d (38 + if_cntv d) =? 0 then -1 else 38 + if_cntv d + 2).
Proof.
  intros Hd Hn Hv. destruct (valid_if_facts d Hd Hv) as (F1 & F2 & F3 & F4 & F5). unfold if_cntv, if_cnt in *.
  pose proof (u16_range d 36 Hd).
  t2_open code_InterfacePayload_getVendorData; (unfold penv; t2_solve Hd; try (timeout 120 same_word)).
Qed.

(* what the four accessors return is what the model's view reports (elements 10-13 of view_if), hence - by C03's view theorem - in bounds *)
Lemma view_if_model d w : bytes_ok d -> valid_if d = true -> view_if d = Some w ->
  nth 10 w 0 = if_cnt d /\ nth 11 w 0 = (if if_cnt d =? 0 then -1 else 38) /\
  nth 12 w 0 = u16 d (38 + if_cntv d) /\ nth 13 w 0 = (if u16 d (38 + if_cntv d) =? 0 then -1 else 38 + if_cntv d + 2).
Proof.
  intros Hd Hv. destruct (valid_if_facts d Hd Hv) as (F1 & F2 & F3 & F4 & F5). unfold if_cntv, if_cnt in *.
  pose proof (u16_range d 36 Hd) as R.
  unfold view_if, rdv, obind.
  repeat match goal with |- context [(0 <=? ?a) && (?a + ?n <=? zlen d)] =>
    first [ replace ((0 <=? a) && (a + n <=? zlen d)) with true by (symmetry; apply andb_true_iff; split; apply Z.leb_le; lia) | fail 1 ] end.
  change (be_dec (take 2 (drop 36 d))) with (u16 d 36).
  replace (38 + u16 d 36 <=? zlen d) with true by (symmetry; apply Z.leb_le; pose proof (Z.mod_pos_bound (u16 d 36) 2 ltac:(lia)); lia).
  set (cv := (u16 d 36 + u16 d 36 mod 2) mod 65536).
  assert (Hcv : 0 <= cv <= u16 d 36 + u16 d 36 mod 2) by (subst cv; pose proof (Z.mod_pos_bound (u16 d 36) 2 ltac:(lia)); lia).
  replace ((0 <=? 38 + cv) && (38 + cv + 2 <=? zlen d)) with true by (symmetry; apply andb_true_iff; split; apply Z.leb_le; lia).
  change (be_dec (take 2 (drop (38 + cv) d))) with (u16 d (38 + cv)).
  destruct (38 + cv + 2 + u16 d (38 + cv) <=? zlen d); [|discriminate].
  intros E. inversion E; subst w; clear E. cbn [nth]. repeat split; reflexivity.
Qed.
