(* Independent instances under arbitrary schedules: a global state is a family of instance states; an event steps exactly one
   instance. Whatever the interleaving, each instance produces what it produces alone on its own operation list. *)
From Coq Require Import List Arith Bool.
Import ListNotations.

Section Product.
  Variables (St Op Out : Type).
  Variable step : St -> Op -> St * Out.

  Definition gstate := nat -> St.
  Definition upd (g : gstate) (i : nat) (s : St) : gstate := fun j => if Nat.eqb i j then s else g j.

  (* a schedule: which instance performs which operation, in global order (any number of threads, any interleaving) *)
  Fixpoint run_sched (g : gstate) (sched : list (nat * Op)) : gstate * list (nat * Out) :=
    match sched with
    | [] => (g, [])
    | (i, o) :: t => let '(s', out) := step (g i) o in
                     let '(g', outs) := run_sched (upd g i s') t in (g', (i, out) :: outs)
    end.

  (* one instance alone *)
  Fixpoint run_alone (s : St) (ops : list Op) : St * list Out :=
    match ops with
    | [] => (s, [])
    | o :: t => let '(s', out) := step s o in let '(s'', outs) := run_alone s' t in (s'', out :: outs)
    end.

  Definition ops_of (i : nat) (sched : list (nat * Op)) : list Op :=
    map snd (filter (fun e => Nat.eqb i (fst e)) sched).
  Definition outs_of (i : nat) (outs : list (nat * Out)) : list Out :=
    map snd (filter (fun e => Nat.eqb i (fst e)) outs).

  Lemma upd_same g i s : upd g i s i = s.
  Proof. unfold upd. now rewrite Nat.eqb_refl. Qed.
  Lemma upd_other g i j s : i <> j -> upd g i s j = g j.
  Proof. unfold upd. intros H. apply Nat.eqb_neq in H. now rewrite H. Qed.

  Theorem schedule_independence : forall sched g i,
    fst (run_sched g sched) i = fst (run_alone (g i) (ops_of i sched)) /\
    outs_of i (snd (run_sched g sched)) = snd (run_alone (g i) (ops_of i sched)).
  Proof.
    induction sched as [|[j o] t IH]; intros g i; [split; reflexivity|].
    cbn [run_sched]. destruct (step (g j) o) as [s' out] eqn:E.
    destruct (run_sched (upd g j s') t) as [g' outs] eqn:R.
    unfold ops_of, outs_of. cbn [filter fst snd map].
    destruct (Nat.eqb i j) eqn:Eij.
    - apply Nat.eqb_eq in Eij. subst j. cbn [map snd run_alone]. rewrite E.
      specialize (IH (upd g i s') i). rewrite R in IH. cbn [fst snd] in IH. rewrite upd_same in IH.
      unfold ops_of, outs_of in IH.
      destruct (run_alone s' (map snd (filter (fun e => Nat.eqb i (fst e)) t))) as [s'' outs'] eqn:A.
      cbn [fst snd] in *. destruct IH as [I1 I2]. split; [exact I1|]. f_equal. exact I2.
    - specialize (IH (upd g j s') i). rewrite R in IH. cbn [fst snd] in IH.
      rewrite upd_other in IH by (apply Nat.eqb_neq in Eij; congruence).
      exact IH.
  Qed.
End Product.
