(* C10 — encoder output does not depend on earlier encode calls. *)
Require Import CMP.Bytes CMP.Packet CMP.Decoder CMP.Encoder CMP.EncoderProofs.
Local Open Scope Z_scope.

(* The frames of a call are a function of the batch, the context, the device id, the stream id and the counter only: two encoders with
   the same ids — one fresh, one with an arbitrary history (any reachable state e') — emit, frame by frame, the serialisation of the SAME
   structural frame; only the counter differs, by the constant (e_seq e' - e_seq e) mod 2^16. In particular segmentation is decided by
   enc_struct, which does not see the encoder state at all: it is redone on every call. *)
Theorem C10_same_frames_up_to_counter_offset : forall e e' b minb maxb,
  e_dev e = e_dev e' -> e_stream e = e_stream e' ->
  let fs := enc_struct (maxb - 8) b in
  length (snd (encode e b minb maxb)) = length fs /\ length (snd (encode e' b minb maxb)) = length fs /\
  forall i d, (i < length fs)%nat ->
    nth i (snd (encode e b minb maxb)) [] = ser_frame minb (e_dev e) (e_stream e) ((e_seq e + 1 + Z.of_nat i) mod 65536) (nth i fs d) /\
    nth i (snd (encode e' b minb maxb)) [] = ser_frame minb (e_dev e) (e_stream e) ((e_seq e' + 1 + Z.of_nat i) mod 65536) (nth i fs d).
Proof.
  intros e e' b minb maxb Hd Hs fs. unfold encode. cbn [snd]. fold fs. rewrite !length_ser_frames.
  split; [reflexivity|]. split; [reflexivity|]. intros i d Hi. rewrite <- Hd, <- Hs.
  split; apply nth_ser_frames; exact Hi.
Qed.
Print Assumptions C10_same_frames_up_to_counter_offset.

(* no state other than device id, stream id and counter survives a call: encode returns an encoder that differs in the counter only *)
Theorem C10_state_after_call : forall e b minb maxb,
  let e' := fst (encode e b minb maxb) in
  e_dev e' = e_dev e /\ e_stream e' = e_stream e /\ e_seq e' = (e_seq e + zlen (snd (encode e b minb maxb))) mod 65536.
Proof.
  intros. unfold e', encode. cbn [fst snd e_dev e_stream e_seq]. repeat split.
  unfold zlen. rewrite length_ser_frames. reflexivity.
Qed.
Print Assumptions C10_state_after_call.

Definition ex10 (n : nat) : packet :=
  {| p_pl := Some {| pl_type := 511; pl_data := repeat 7 n |}; p_ver := 1; p_dev := 0; p_stream := 0; p_seq := 0;
     p_ts := 0; p_ifid := 0; p_vendor := 0; p_flags := 0; p_seg := 0 |}.
Example C10_example :
  let e1 := fst (encode enc0 [ex10 60] 0 40) in
  map (fun x => (Z.land (nth 20 x 0) 12, f_seq (parse_fhdr x))) (snd (encode e1 [ex10 60] 0 40)) = [(4, 5); (8, 6); (8, 7); (12, 8)].
Proof. vm_compute. reflexivity. Qed.
