(* Model of src/decoder.cpp (after the repairs): message loop over a frame, reassembly table keyed by endpoint. *)
Require Import CMP.Bytes CMP.Packet CMP.Tecmp.
Local Open Scope Z_scope.
Local Open Scope bool_scope.

(* capture-module frame header (8 bytes) *)
Record fhdr := { f_ver : Z; f_dev : Z; f_mt : Z; f_stream : Z; f_seq : Z }.
Definition parse_fhdr (b : list Z) : fhdr :=
  {| f_ver := u8 b 0; f_dev := u16 b 2; f_mt := u8 b 4; f_stream := u8 b 5; f_seq := u16 b 6 |}.
Definition ser_fhdr (f : fhdr) : list Z :=
  [f_ver f; 0] ++ be_enc 2 (f_dev f) ++ [f_mt f; f_stream f] ++ be_enc 2 (f_seq f).

(* a pending reassembly: first segment's header, bytes so far, last segment type, version / message type / counter *)
Record seg := { sg_hdr : mhdr; sg_pay : list Z; sg_type : Z; sg_ver : Z; sg_mt : Z; sg_cur : Z }.
Definition ep := (Z * Z)%type.
Definition ep_eqb (a b : ep) := (fst a =? fst b) && (snd a =? snd b).
Definition dstate := list (ep * seg).
Fixpoint lookup (e : ep) (st : dstate) : option seg :=
  match st with [] => None | (k, v) :: t => if ep_eqb e k then Some v else lookup e t end.
Fixpoint erase (e : ep) (st : dstate) : dstate :=
  match st with [] => [] | (k, v) :: t => if ep_eqb e k then erase e t else (k, v) :: erase e t end.
Definition insert (e : ep) (s : seg) (st : dstate) : dstate := (e, s) :: erase e st.

Definition seg_valid_next (cur_t t : Z) : bool :=
  if (cur_t =? 0) || (cur_t =? 12) then (t =? 0) || (t =? 4) else (t =? 8) || (t =? 12).

(* SegmentedPacket::addSegment *)
Definition add_segment (sg : seg) (h : mhdr) (chunk : list Z) (fh : fhdr) : option seg :=
  if (sg_ver sg =? f_ver fh) && (sg_mt sg =? f_mt fh) && (f_seq fh =? (sg_cur sg + 1) mod 65536)
     && seg_valid_next (sg_type sg) (Z.land (h_flags h) 12)
  then Some {| sg_hdr := sg_hdr sg; sg_pay := sg_pay sg ++ chunk; sg_type := Z.land (h_flags h) 12;
               sg_ver := sg_ver sg; sg_mt := sg_mt sg; sg_cur := (sg_cur sg + 1) mod 65536 |}
  else None.

Definition set_plen (h : mhdr) (n : Z) : mhdr :=
  {| h_ts := h_ts h; h_id := h_id h; h_flags := h_flags h; h_ptype := h_ptype h; h_plen := n mod 65536 |}.

Definition stamp (fh : fhdr) (ver : Z) (p : packet) : packet :=
  {| p_pl := p_pl p; p_ver := ver; p_dev := f_dev fh; p_stream := f_stream fh; p_seq := p_seq p;
     p_ts := p_ts p; p_ifid := p_ifid p; p_vendor := p_vendor p; p_flags := p_flags p; p_seg := p_seg p |}.
(* packet delivered for a message of the frame fh *)
Definition mkp (fh : fhdr) (mt ver : Z) (h : mhdr) (pay : list Z) : packet := stamp fh ver (packet_of_msg mt h pay).
(* SegmentedPacket::getPacket: the stored header with the length rewritten modulo 2^16 *)
Definition mkp_seg (fh : fhdr) (sg : seg) : packet :=
  let h := set_plen (sg_hdr sg) (zlen (sg_pay sg)) in
  mkp fh (sg_mt sg) (sg_ver sg) h (take (h_plen h) (sg_pay sg)).

Fixpoint dloop (fuel : nat) (fh : fhdr) (buf : list Z) (size : Z) (st : dstate) (acc : list packet)
  : res (dstate * list packet) :=
  match fuel with
  | O => Fuel
  | S k =>
    if size <=? 0 then Ok (st, acc) else
    let e := (f_dev fh, f_stream fh) in
    if negb (valid_packet buf size) then Ok (erase e st, acc) else
    let h := parse_mhdr buf in
    (* extent of the reads of this iteration: header and declared payload *)
    if size <? 16 + h_plen h then Oob else
    let body := take (h_plen h) (drop 16 buf) in
    let t := Z.land (h_flags h) 12 in
    if t =? 0 then
      dloop k fh (drop (h_plen h) (drop 16 buf)) (size - 16 - h_plen h) (erase e st)
            (acc ++ [mkp fh (f_mt fh) (f_ver fh) h body])
    else if t =? 4 then
      Ok (insert e {| sg_hdr := h; sg_pay := body; sg_type := 4; sg_ver := f_ver fh; sg_mt := f_mt fh; sg_cur := f_seq fh |} st, acc)
    else match lookup e st with
         | None => Ok (st, acc)
         | Some sg =>
           match add_segment sg h body fh with
           | None => Ok (erase e st, acc)
           | Some sg' =>
             if sg_type sg' =? 12
             then Ok (erase e st, acc ++ [mkp_seg fh sg'])
             else Ok (insert e sg' st, acc)
           end
         end
  end.

Definition fuel_of (size : Z) : nat := S (Z.to_nat (size / 16)).

Definition decode (st : dstate) (buf : list Z) : res (dstate * list packet) :=
  let size := zlen buf in
  if size <? 8 then Ok (st, []) else
  if u8 buf 0 =? 0 then dor ps <- tecmp_decode buf; Ok (st, ps) else
  let fh := parse_fhdr buf in
  let size' := size - 8 in
  if size' =? 0 then Ok (erase (f_dev fh, f_stream fh) st, [])
  else dloop (fuel_of size') fh (drop 8 buf) size' st [].

(* hook observations *)
Definition pending_count (st : dstate) : Z := zlen st.
Definition pending_bytes (st : dstate) : Z := fold_right (fun kv a => 16 + zlen (sg_pay (snd kv)) + a) 0 st.
