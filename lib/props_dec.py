"""Checks for the decoder family: C02, C04, C05, C06, C17, C18."""
from common import *
from runner import *
import gen_dec as D

def sample_case(c, n=4):
    return dict(case=c.cid, script=[l[:200] for l in c.lines[:n]], frames=len(c.meta.get('frames', [])))

def proj_all(c, lines):
    return [l for l in lines if l.startswith(('N ', 'K '))] + anomalies(lines)
def proj_nk(c, lines):
    """delivered packets only (no hook numbers)"""
    return [l if l.startswith('K ') else 'N ' + l.split()[1] for l in lines if l.startswith(('N ', 'K '))] + anomalies(lines)
def proj_pending(c, lines):
    return [' '.join(l.split()[:3]) for l in lines if l.startswith('N ')] + anomalies(lines)

def frame_stats(cases):
    sizes = {'<8': 0, '8': 0, '9-23': 0, '24-99': 0, '100-999': 0, '>=1000': 0}
    kinds = {'cmp': 0, 'tecmp': 0, 'short': 0}
    nfr = 0
    for c in cases:
        for f in c.meta.get('frames', []):
            nfr += 1
            n = len(f)
            sizes['<8' if n < 8 else '8' if n == 8 else '9-23' if n < 24 else '24-99' if n < 100 else '100-999' if n < 1000 else '>=1000'] += 1
            kinds['short' if n < 8 else 'tecmp' if f[0] == 0 else 'cmp'] += 1
    return dict(frames=nfr, frame_sizes=sizes, frame_kinds=kinds)

def nontrivial_frames(cases):
    """distinct frames that carry at least one complete message header"""
    s = set()
    for c in cases:
        for f in c.meta.get('frames', []):
            if len(f) >= 24:
                s.add(bytes(f))
    return len(s)

def run_c02(res, rng):
    n = 700 if res.tier == 'quick' else 40000
    cases = corpus_cases('C02') + [D.gen_c02(rng.fork('b%d' % i), 'b%d' % i) for i in range(n)]
    cases += [D.truncation_cases(rng.fork('t%d' % i), 't%d' % i) for i in range(30 if res.tier == 'quick' else 600)]
    cases += [D.gen_c02(rng.fork('big%d' % i), 'big%d' % i, big=True) for i in range(2 if res.tier == 'quick' else 20)]
    # reassembly buffers growing past 64 KiB (accepted chains of few large / many MTU-sized segments)
    cases += D.big_chain_cases(rng.fork('chain'), 'chain', res.tier == 'thorough')
    # event counts around 2^16 / 2^15 between the abort of a reassembly and a stray continuation of the same endpoint
    cases += D.wrap_count_cases(rng.fork('wrap'), 'wc', res.tier == 'thorough')
    # every truncation of the TECMP samples
    tr = rng.fork('tecmp')
    for j, f in enumerate(D.tecmp_samples(tr)):
        fr = [f[:k] for k in range(len(f) + 1)]
        cases.append(Case('tt%d' % j, [D.feed_line(1, x) for x in fr], dict(frames=fr)))
    ct = D.tecmp_consistent_truncations(rng.fork('ctrunc'))
    for j in range(0, len(ct), 80):
        cases.append(Case('ct%d' % j, [D.feed_line(1, x) for x in ct[j:j + 80]], dict(frames=ct[j:j + 80])))
    # memory safety is observed on the implementation (ASan/UBSan, lifetime and const-ness probes); the model must say Ok on the same input
    def proj(c, lines):
        return ['N ' + l.split()[1] for l in lines if l.startswith('N ')] + anomalies(lines)
    correspondence(res, cases, proj, D.judge_c02, 'memory safety / termination of decode')
    res.cov['rule'] = ('sequences of 1-20 buffers on one decoder: random bytes, 0x00-led buffers, TECMP samples of every kind and CMP frames (valid, inconsistent inner lengths, segment chains), each mutated by truncation, byte corruption, length/type/flag field +-1/0/0xFF, appended bytes; every truncation of sample frames; TECMP status messages cut at every length with their inner length word made consistent with the cut; 64 KiB buffers; accepted segment chains whose total payload is 65519..131070 bytes; histories in which 32767 / 65534..65536 (thorough: also 32768 and 131071) reassemblies of another endpoint are opened and released between the abort of an endpoint\'s reassembly and a stray continuation segment of it. '
                       'Each input is copied to an exact-size heap block that is poisoned and freed before results are read; results are re-read after all decoders are destroyed (ASan+UBSan build). non-trivial = distinct buffers of >= 24 bytes')
    res.cov['distinct_nontrivial'] = nontrivial_frames(cases)
    res.cov['input_distribution'] = frame_stats(cases)
    res.cov['samples'] = [sample_case(c) for c in cases[:2]]

def run_c04(res, rng):
    n = 1500 if res.tier == 'quick' else 60000
    cases = corpus_cases('C04') + [D.gen_c04(rng.fork('w%d' % i), 'w%d' % i) for i in range(n)]
    cases += [D.truncation_cases(rng.fork('t%d' % i), 't%d' % i) for i in range(60 if res.tier == 'quick' else 2000)]
    for r in range(1 if res.tier == 'quick' else 12):
        cases += D.polyglot_cases(rng.fork('pg%d' % r), 'pg%d_' % r)
    correspondence(res, cases, proj_nk, D.judge_ref, 'decoded fields vs wire')
    res.cov['rule'] = ('frames = header (version != 0, random ids/type) + 0-8 unsegmented messages of all payload kinds with random 64/32/16-bit field values, 3/4 consistent and 1/4 with one inner length / flag made inconsistent; fed plain, zero-padded, truncated at a random offset, and (separately) truncated at every offset; optional prior open chain on the decoder; plus polyglot frames: capture-module frames whose header fields take the TECMP layout\'s legal values at the TECMP offsets (type byte 2/3, stream id = a TECMP message type, sequence counter = a TECMP data type, first payload word = the TECMP entry length that would tile the frame). '
                       'Frames come from lib/common.py serialisers written from the layout table; judge = lib/gen_dec.py RefDecoder/spec_packet. non-trivial = distinct frames >= 24 bytes')
    res.cov['distinct_nontrivial'] = nontrivial_frames(cases)
    res.cov['input_distribution'] = frame_stats(cases)
    res.cov['samples'] = [sample_case(c) for c in cases[:2]]

def run_c05(res, rng):
    n = 1200 if res.tier == 'quick' else 60000
    cases = corpus_cases('C05')
    for i in range(n):
        r = rng.fork('s%d' % i)
        cases.append(D.gen_history(r, 's%d' % i, neps=r.range(1, 4 if res.tier == 'quick' else 8), nitems=r.range(2, 6), kinds=('chain', 'chain', 'unseg', 'mixed', 'pierced')))
    # long chains and counter wrap
    for i in range(20):
        r = rng.fork('l%d' % i)
        e = (r.below(65536), r.below(256))
        fr = D.chain_frames(r, e, r.choice([65534, 65535, 65530, 0]), r.range(6, 40))
        cases.append(Case('l%d' % i, [D.feed_line(1, f) for f in fr], dict(frames=fr, eps=[e])))
    cases += D.big_chain_cases(rng.fork('big'), 'big', res.tier == 'thorough')
    cases += D.alias_cases(rng.fork('alias'), 'alias', 150 if res.tier == 'quick' else 6000)
    cases += D.many_endpoint_cases(rng.fork('many'), 'many', res.tier == 'thorough')
    cases += D.slow_and_busy_cases(rng.fork('slow'), 'sb', res.tier == 'thorough')
    cases += D.pigeonhole_cases(rng.fork('ph'), 'ph', res.tier == 'thorough')
    correspondence(res, cases, proj_nk, D.judge_ref, 'reassembly under interleaving')
    res.cov['rule'] = 'histories = random merges of 1-4 (quick) / 1-8 (thorough) endpoint streams (some sharing a device id), each a sequence of well-formed chains (2-6 segments, sizes 0..77, start counters incl. 65534/65535/0, 1/3 of the segments followed by trailing bytes, later segments with different header fields) and unsegmented frames; plus 20 chains of 6-40 segments across the wrap; chains whose total payload is 65519/65520/65535/65536/70000/72000/131070 bytes (few large or 47 MTU-sized segments); pairs of endpoints that collide under xor/or/add/truncation foldings of (device, stream) with chains in flight at the same time; 255..513 (thorough: 4097) endpoints with a reassembly pending simultaneously; pigeonhole histories: 800-1024 (thorough: up to 6000) endpoints pending at once (birthday-sized for side structures of up to 2^16 slots) (dense device x stream block, random, one stream x consecutive devices), half completed or aborted, every survivor then aborted + stray continuation or completed. non-trivial = distinct frames >= 24 bytes'
    res.cov['distinct_nontrivial'] = nontrivial_frames(cases)
    res.cov['input_distribution'] = frame_stats(cases)
    res.cov['samples'] = [sample_case(c) for c in cases[:2]]

def run_c06(res, rng):
    n = 1000 if res.tier == 'quick' else 60000
    cases = corpus_cases('C06') + [D.gen_c06(rng.fork('f%d' % i), 'f%d' % i) for i in range(n)]
    # every single fault position of short streams
    for i in range(40 if res.tier == 'quick' else 400):
        for pos in range(12):
            cases.append(D.gen_c06(rng.fork('x%d' % i), 'x%d_%d' % (i, pos), exhaustive_pos=pos))
    # the same with an unfaulted stream of a second (colliding-looking) endpoint interleaved through faults and recovery
    cases += [D.gen_c06(rng.fork('m%d' % i), 'm%d' % i, second_endpoint=True) for i in range(300 if res.tier == 'quick' else 20000)]
    # recovery must not depend on how much other traffic or wall-clock time lies between the segments of a message
    busy = D.slow_and_busy_cases(rng.fork('slow'), 'sb', res.tier == 'thorough') + D.pigeonhole_cases(rng.fork('ph'), 'ph', res.tier == 'thorough', sizes=None if res.tier == 'thorough' else [('dense', 1024)])
    for c in busy:
        c.meta.update(sent=[], faulty=[], rec=[], nrec=0)
    busy_ids = set(c.cid for c in busy)
    cases += busy
    correspondence(res, cases, proj_nk, lambda c, lines: D.judge_ref(c, lines) if c.cid in busy_ids else D.judge_c06(c, lines), 'faults never corrupt')
    res.cov['rule'] = 'spec-built streams of 2-8 messages (half segmented into 2-5 frames) with consecutive counters; 1-3 random faults from {drop, duplicate, swap, corrupt version, corrupt message type}, plus one fault at each of 12 positions of 40 (quick) / 400 (thorough) streams; then two fresh complete messages for the recovery clause; 300 (quick) / 20000 (thorough) histories additionally interleave an unfaulted stream of a second endpoint chosen to collide with the first under xor/or/add/truncation foldings of (device, stream); a dense block of 1024 endpoints (4 consecutive device ids x all stream ids) pending at once, half aborted / completed, the rest completed or aborted + stray continuation (reference decoder as judge). non-trivial = distinct fault histories'
    res.cov['distinct_nontrivial'] = len(set(tuple(c.lines) for c in cases))
    res.cov['input_distribution'] = frame_stats(cases)
    res.cov['samples'] = [sample_case(c) for c in cases[:2]]

def run_c17(res, rng):
    n = 1500 if res.tier == 'quick' else 80000
    cases = corpus_cases('C17') + corpus_cases('C05')
    for i in range(n):
        r = rng.fork('p%d' % i)
        cases.append(D.gen_history(r, 'p%d' % i, neps=r.range(1, 4), nitems=r.range(2, 7)))
    cases += D.big_chain_cases(rng.fork('big'), 'big', res.tier == 'thorough')
    cases += D.alias_cases(rng.fork('alias'), 'alias', 100 if res.tier == 'quick' else 4000)
    cases += D.many_endpoint_cases(rng.fork('many'), 'many', res.tier == 'thorough')
    cases += D.pigeonhole_cases(rng.fork('ph'), 'ph', res.tier == 'thorough', sizes=None if res.tier == 'thorough' else [('dense', 1024), ('random', 1000)])
    if res.tier == 'thorough':
        cases += D.wrap_count_cases(rng.fork('wrap'), 'wc', False)
    def judge(c, lines):
        return D.judge_ref(c, lines, check_pending=True)
    correspondence(res, cases, proj_pending, judge, 'pending reassembly state')
    res.cov['rule'] = 'histories over 1-4 endpoints mixing complete chains, unsegmented frames, orphan segments, aborted chains, undecodable messages, header-only frames, TECMP frames and buffers shorter than 8 bytes; after every decode call the hook reports (pending count, buffered bytes); chains with totals around the 16-bit limits and colliding-looking endpoint pairs as in C05; judge: count == open chains of the reference decoder, bytes <= 16 + received segment bytes per open chain. non-trivial = distinct frames >= 24 bytes'
    res.cov['distinct_nontrivial'] = nontrivial_frames(cases)
    res.cov['input_distribution'] = frame_stats(cases)
    res.cov['samples'] = [sample_case(c) for c in cases[:2]]

def run_c18(res, rng):
    n = 1000 if res.tier == 'quick' else 50000
    cases = corpus_cases('C18') + [D.gen_c18(rng.fork('i%d' % i), 'i%d' % i) for i in range(n)]
    cases += [D.with_projections(c) for c in D.alias_cases(rng.fork('alias'), 'alias', 150 if res.tier == 'quick' else 6000)]
    cases += [D.with_projections(c) for c in D.many_endpoint_cases(rng.fork('many'), 'many', False)[:3]]
    cases += [D.with_projections(c) for c in D.pigeonhole_cases(rng.fork('ph'), 'ph', False, sizes=[('dense', 1024), ('random', 1000)] + ([('devs', 800), ('dense', 2048)] if res.tier == 'thorough' else []))]
    correspondence(res, cases, proj_nk, D.judge_c18, 'endpoint isolation')
    res.cov['rule'] = 'histories as in C17 over 2-4 endpoints (incl. same device/other stream) plus endpoint pairs that collide under xor/or/add/truncation foldings of (device, stream); the same decoder run is repeated per endpoint on the projection of the history to that endpoint\'s frames (fresh decoder each); pigeonhole histories (1000-1024 endpoints pending at once, half released, survivors aborted + stray continuation or completed); judge: packets delivered for e in the interleaved run == packets of the projected run, on the implementation. non-trivial = distinct frames >= 24 bytes'
    res.cov['distinct_nontrivial'] = nontrivial_frames(cases)
    res.cov['input_distribution'] = frame_stats(cases)
    res.cov['samples'] = [sample_case(c) for c in cases[:2]]
