"""Per-property check driver: Coq obligations, correspondence run, judges, evidence, VIOLATION / KNOWN-FINDING lines."""
import json, os, re, sys, time
from common import *

EVID = os.path.join(VERIF, 'evidence')
REPLAYS = os.path.join(EVID, 'replays')

TRUSTED = [
    "Coq 8.16.1 kernel incl. its bytecode VM (vm_compute); native_compute is not used",
    "axioms: none declared by the development; per-theorem Print Assumptions output is recorded under coverage.assumptions_printed",
    "translator/cxx2coq.py + clang 14 AST/record-layout dumps (tie T): that the emitted bit-vector terms mean what the C++ accessor bodies mean; cross-checked by running every translated accessor against the compiled code",
    "translator/code2coq.py (tie T2): that the emitted terms of the arithmetic IR (coq/theories/Cir.v: typed wrap-around, failing signed overflow / wide shifts / division by zero, short-circuit && ||, bounds-checked byte reads, accessor calls through their tie-T bit-vector models and recorded read extents) mean what the C++ bodies of the ten guard functions mean",
    "coq/theories/SpecLayout.v: field tables transcribed from the ASAM CMP / TECMP layouts (DESIGN.md Appendix A), not from the library headers",
    "extraction: Require Extraction + ExtrOcamlBasic only (bool, option, list, prod, unit, sumbool mapped to OCaml's; no Extract Constant; Z, positive, nat stay inductive); ocaml/driver.ml (parsing, printing); OCaml 4.13.1",
    "harness/cmp_harness.cpp, lib/*.py generators / independent serialisers / judges / diff; g++ 12.2 with ASan+UBSan (-fno-sanitize=vptr,alignment,nonnull-attribute)",
    "hand-written models of layer B (encoder, decoder, packet, validators, builders, TECMP, status) are tied to the code by differential testing only; std::vector / unordered_map / shared_ptr are modelled as lists / association lists / values",
]

def coq_check(pid, extra_targets=()):
    """full .vo build of Properties_<pid>.v and everything it depends on; returns obligations / discharged / assumptions"""
    cq = os.path.join(VERIF, 'coq')
    gen_sync()
    if not os.path.exists(os.path.join(cq, 'Makefile')) or os.path.getmtime(os.path.join(cq, '_CoqProject')) > os.path.getmtime(os.path.join(cq, 'Makefile')):
        sh('coq_makefile -f _CoqProject -o Makefile', cwd=cq, timeout=120)
    pf = os.path.join(cq, 'theories', 'Properties_%s.v' % pid)
    res = dict(obligations=0, discharged=0, assumptions=[], failed=[], log_tail='', theorems=[])
    if not os.path.exists(pf):
        res['failed'].append('Properties_%s.v missing' % pid)
        return res
    src = open(pf).read()
    thms = re.findall(r'^\s*(?:Theorem|Corollary)\s+(\w+)', src, re.M)
    res['theorems'] = thms
    # lint: no admits / axioms / disabled checks anywhere in the development
    bad = sh("grep -rnE '\\b(Admitted|admit|Axiom|Parameter|Conjecture|Abort All)\\b|Unset Guard|bypass_check|type-in-type|impredicative-set|Admit Obligations' theories gen --include=*.v", cwd=cq)
    lint = [l for l in bad.stdout.split('\n') if l.strip() and '(*lint-ok*)' not in l]
    if lint:
        res['failed'].append('lint: ' + '; '.join(lint[:5]))
    vo = pf[:-2] + '.vo'
    if os.path.exists(vo):
        os.unlink(vo)
    targets = ['theories/Properties_%s.vo' % pid] + list(extra_targets)
    r = sh('timeout 2400 make -k -j16 ' + ' '.join(targets), cwd=cq, timeout=2500)
    out = r.stdout + r.stderr
    res['log_tail'] = out[-3000:]
    nclosed = out.count('Closed under the global context')
    ax = re.findall(r'Axioms:\n((?:.+\n)+?)(?=\n|COQ|$)', out)
    res['assumptions'] = ['Closed under the global context'] * nclosed + ['Axioms: ' + a.strip().replace('\n', ' | ') for a in ax]
    gen_obl = count_generated_obligations(pid)
    ok = r.returncode == 0 and os.path.exists(vo)
    res['obligations'] = len(thms) + gen_obl
    if ok:
        res['discharged'] = len(thms) + gen_obl
    else:
        m = re.findall(r'File "([^"]+)", line (\d+)[^\n]*\n(?:.*\n){0,6}?Error:[^\n]*(?:\n[^\n]+){0,3}', out)
        res['failed'].append('coq build failed: ' + (re.search(r'File "[^"]+", line \d+[\s\S]{0,600}', out).group(0) if re.search(r'File "[^"]+", line \d+', out) else out[-600:]))
        res['discharged'] = 0
        labels = failing_generated_labels(pid)
        if labels:
            res['failed'].append('generated obligations that fail (%d): ' % len(labels) + ' || '.join(labels[:12]))
    if ax:
        res['failed'].append('unexpected axioms: ' + '; '.join(res['assumptions']))
    return res

def coqchk_recheck(pid, cq):
    """thorough tier: the independent checker re-checks the compiled property file and everything it depends on and prints the
    axioms they rely on (expected: none)"""
    d = os.path.join(VERIF, 'coq')
    r = sh('timeout 3000 coqchk -o -silent -Q theories CMP -Q gen CMPGen CMP.Properties_%s' % pid, cwd=d, timeout=3100)
    out = r.stdout + r.stderr
    m = re.search(r'\* Axioms:\s*(.*?)\n\s*\n', out, re.S)
    ax = ' '.join(m.group(1).split()) if m else 'coqchk output not understood'
    cq['coqchk'] = 'coqchk -o CMP.Properties_%s: rc=%d, Axioms: %s' % (pid, r.returncode, ax)
    cq['assumptions'] = list(cq['assumptions']) + [cq['coqchk']]
    if r.returncode != 0 or ax != '<none>':
        cq['failed'].append('coqchk re-check: ' + cq['coqchk'] + ' ' + out[-600:])

def failing_generated_labels(pid):
    """names of the generated obligations (tie T) that no longer check; evaluated in Coq from the definitions the theorems use"""
    q = {'C11': 'Refine.failing_labels', 'C12': 'Refine.failing_labels'}.get(pid)
    if not q:
        if pid in T2_PROPS:
            return t2_failing(pid)
        return []
    cq = os.path.join(VERIF, 'coq')
    tmp = os.path.join(workdir(), 'labels_query.v')
    open(tmp, 'w').write('Require Import CMP.Refine. Require Import String List.\nEval vm_compute in %s.\nEval vm_compute in map (fun w => (append \"wrapper no longer forwards to the header accessor: \" (fst (fst w)))) Refine.bad_wrappers.\n' % q)
    r = sh('timeout 600 coqc -Q theories CMP -Q gen CMPGen %s' % tmp, cwd=cq, timeout=700)
    return re.findall(r'"((?:[^"]|"")*)"%string', r.stdout)

# tie T2 (translator/code2coq.py -> gen/GenCode.v -> CodeRefine.v): which property files use which translated guard functions
T2_PROPS = {'C02': ['code_valid_packet', 'code_validator_refines', 'code_is_segmented', 'code_is_first'],
            'C03': ['code_valid_packet', 'code_validator_refines', 'code_can', 'code_lin', 'code_eth', 'code_analog', 'code_cm', 'code_if'],
            'C05': ['code_is_segmented', 'code_is_first'], 'C08': ['code_seg_flag']}

def t2_failing(pid):
    """tie T2: guard functions the translator could not translate on this run, and the theorem of CodeRefine.v that no longer compiles"""
    out = []
    try:
        idx = json.load(open(os.path.join(workdir(), 'code_index.json')))
        for q, why in idx.get('lost', []):
            if why.startswith('absent:'):
                continue
            out.append('tie T2: %s is no longer translatable (%s), its refinement theorem cannot be re-checked' % (q, why))
    except Exception:
        pass
    cq = os.path.join(VERIF, 'coq')
    files = {'C02': ['CodeValidators', 'CodeSegPred'], 'C03': ['CodeValidators', 'CodeViews'], 'C05': ['CodeSegPred'], 'C08': ['CodeSegFlag']}[pid]
    r = sh('timeout 1800 make -k -j4 ' + ' '.join('theories/%s.vo' % f for f in files), cwd=cq, timeout=1900)
    o = r.stdout + r.stderr
    m = re.search(r'File "\./theories/(Code\w+)\.v", line (\d+)', o)
    if m:
        ln = int(m.group(2))
        src = open(os.path.join(cq, 'theories', m.group(1) + '.v')).read().split('\n')
        name = None
        for i in range(min(ln, len(src)) - 1, -1, -1):
            mm = re.match(r'\s*(?:Theorem|Lemma)\s+(\w+)', src[i])
            if mm:
                name = mm.group(1); break
        out.append('tie T2: %s.%s (the translated C++ body evaluates in bounds to the model\'s result) no longer checks: %s' % (m.group(1), name, ' '.join(o[o.find('Error'):][:300].split())))
    return out

def gen_sync():
    """copy the translator's outputs for the current tree into coq/gen (only when content changed, so make stays incremental)"""
    d = ensure_translation()
    g = os.path.join(VERIF, 'coq', 'gen')
    os.makedirs(g, exist_ok=True)
    for f in ('GenLayout.v', 'GenAccessors.v', 'GenInventory.v', 'GenCode.v'):
        s = os.path.join(d, f)
        if os.path.exists(s):
            new = open(s).read()
            t = os.path.join(g, f)
            if not os.path.exists(t) or open(t).read() != new:
                open(t, 'w').write(new)

def count_generated_obligations(pid):
    d = workdir()
    p = os.path.join(d, 'obligations.json')
    if os.path.exists(p):
        try:
            return int(json.load(open(p)).get(pid, 0))
        except Exception:
            return 0
    return 0

def load_known():
    p = os.path.join(VERIF, 'known_findings.json')
    try:
        return [f for f in json.load(open(p))['findings'] if f.get('kind') == 'known']
    except Exception:
        return []

class Result:
    def __init__(self, pid, tier, seed):
        self.pid, self.tier, self.seed = pid, tier, seed
        self.t0 = time.time()
        self.violations = []     # (message, replay path, found_input)
        self.known = []
        self.cov = dict(evaluations=0, distinct_nontrivial=0, rule='', samples=[], trusted_base=TRUSTED)
        self.assumptions = []
        self.level = 'proof'
    def violation(self, what, script_text, found_input=True, name=None):
        for k in load_known():
            if k['property'] == self.pid and k.get('match') and k['match'] in what:
                line = 'KNOWN-FINDING: property=%s %s' % (self.pid, k['what'])
                if line not in self.known:
                    self.known.append(line)
                return
        os.makedirs(REPLAYS, exist_ok=True)
        n = len(self.violations)
        path = os.path.join(REPLAYS, '%s_%s_%d.txt' % (self.pid, name or 'violation', n))
        with open(path, 'w') as f:
            f.write('# property %s tier=%s seed=%d\n# %s\n' % (self.pid, self.tier, self.seed, what.replace('\n', '\n# ')))
            f.write(script_text)
        self.violations.append((what, path, found_input))
    def finish(self):
        os.makedirs(EVID, exist_ok=True)
        ev = dict(property_id=self.pid, tier=self.tier, seed=self.seed, level=self.level, coverage=self.cov,
                  assumptions=self.assumptions, wall_s=round(time.time() - self.t0, 2), violations=len(self.violations))
        with open(os.path.join(EVID, self.pid + '.json'), 'w') as f:
            json.dump(ev, f, indent=1, default=str)
        for k in self.known:
            print(k)
        found_paths = [path for _, path, found in self.violations if found]
        shown = sorted(self.violations, key=lambda v: not v[2])[:5]
        for what, path, found in shown:
            if found:
                print('VIOLATION property=%s replay=%s' % (self.pid, path))
            elif found_paths:
                # a proof obligation / the correspondence broke AND the search found a concrete failing input: that input is the replay
                with open(found_paths[0], 'a') as f:
                    f.write('# also: ' + what.replace('\n', '\n# ')[:3000] + '\n# (details: %s)\n' % path)
                print('VIOLATION property=%s replay=%s' % (self.pid, found_paths[0]))
            else:
                print('VIOLATION property=%s replay=%s no-failing-input-found' % (self.pid, path))
            print('  ' + what.split('\n')[0][:300])
        sys.stdout.flush()
        return 1 if self.violations else 0

def corpus_cases(pid):
    """minimised earlier failures run first: the replay scripts of the repaired defects that belong to this property
    (known_findings.json: `property` or `also`), plus anything under corpus/<pid>/"""
    out = []
    d = os.path.join(VERIF, 'corpus', pid)
    if os.path.isdir(d):
        for f in sorted(os.listdir(d)):
            t, _ = parse_script(open(os.path.join(d, f)).read())
            out += t
    try:
        findings = json.load(open(os.path.join(VERIF, 'known_findings.json')))['findings']
    except Exception:
        findings = []
    cache = {}
    for f in findings:
        if f.get('property') != pid and pid not in f.get('also', []):
            continue
        ref = f.get('replay', '')
        if '#' not in ref:
            continue
        path, frag = ref.split('#', 1)
        path = os.path.join(VERIF, path)
        if path not in cache:
            try:
                cache[path] = parse_script(open(path).read())[0]
            except Exception:
                cache[path] = []
        for c in cache[path]:
            name = c.cid[len('corpus-'):]
            if name == frag or (name.startswith(frag) and name[len(frag):].isalpha() and name[len(frag):].islower()):
                if all(c.cid != o.cid for o in out):
                    out.append(c)
    return out

def parse_script(text):
    cases = []
    cur = None
    for ln in text.split('\n'):
        if ln.startswith('#') or not ln.strip():
            continue
        if ln.startswith('CASE '):
            cur = Case('corpus-' + ln[5:].strip(), [])
            cases.append(cur)
        elif cur is not None:
            cur.lines.append(ln)
    return cases, None

def shrink_case(c, project, variant='asan', env=None, budget=120, seconds=40):
    """delta-debugging on the script lines: the smallest prefix-closed subsequence on which implementation and model still disagree
    (or the implementation still reports an anomaly). Used only to make a replay short; never decides anything."""
    def signature(lines):
        """None when implementation and model agree; else (anomaly class or '', tag of the first differing observation)"""
        if not lines:
            return None
        cc = Case('shrink', lines, c.meta)
        try:
            il = run_harness([cc], variant=variant, env=env, tag='shr').get('shrink', ['MISSING'])
            ml = run_model([cc], tag='shr').get('shrink', ['MISSING'])
        except Exception:
            return None
        an = [l for l in il if l.startswith(ANOMALY)]
        if an:
            m = re.search(r'(heap-buffer-overflow|use-after-free|SEGV|stack-buffer-overflow|runtime error|TIMEOUT|leak)', an[0])
            return (m.group(1) if m else an[0].split()[0], '')
        try:
            a, b = project(cc, il), project(cc, ml)
        except Exception:
            a, b = il, ml
        if a == b:
            return None
        k = next((i for i, (x, y) in enumerate(zip(a, b)) if x != y), min(len(a), len(b)))
        x = a[k] if k < len(a) else (b[k] if k < len(b) else '')
        return ('', str(x).split()[0] if str(x).split() else '')
    t_end = time.time() + seconds
    orig = signature(list(c.lines))
    def differs(lines):
        # the SAME kind of failure must remain: same anomaly class, or (no anomaly and) the same kind of observation differs
        return orig is not None and signature(lines) == orig
    lines = list(c.lines)
    if not differs(lines):
        return None
    n = 2
    while len(lines) >= 2 and budget > 0 and time.time() < t_end:
        chunk = max(1, len(lines) // n)
        removed = False
        for i in range(0, len(lines), chunk):
            cand = lines[:i] + lines[i + chunk:]
            budget -= 1
            if time.time() >= t_end:
                break
            if cand and differs(cand):
                lines = cand; n = max(n - 1, 2); removed = True
                break
            if budget <= 0:
                break
        if not removed:
            if chunk == 1:
                break
            n = min(len(lines), n * 2)
    return lines

def correspondence(res, cases, project, judge, what, stats=None, variant='asan', env=None, model=None, impl=None):
    """runs cases on implementation and model; projected transcripts must agree; judge decides whether the property fails"""
    if impl is None:
        impl = run_harness(cases, variant=variant, env=env)
    if model is None:
        model = run_model(cases)
    ndiff = 0
    njudge = 0
    first_diff = None
    for c in cases:
        il = impl.get(c.cid, ['MISSING'])
        ml = model.get(c.cid, ['MISSING'])
        if c.cid.startswith('corpus-'):
            # replay scripts of repaired defects carry no generator meta: the judge is "no anomaly (sanitizer report, crash, timeout)",
            # everything else is decided by the comparison with the model
            an = [l for l in il if l.startswith(ANOMALY)]
            j = ('the repaired defect is back: ' + an[0]) if an else None
        else:
            j = judge(c, il) if judge else None
        if j:
            njudge += 1
            if njudge <= 3:
                small = shrink_case(c, project, variant, env) if njudge == 1 else None
                extra = ('# minimised script on which implementation and model still disagree (%d of %d lines):\nCASE minimised\n%s\n' % (len(small), len(c.lines), '\n'.join(small))) if small and len(small) < len(c.lines) else ''
                res.violation('%s: %s (case %s)' % (what, j, c.cid), c.text() + extra + '# implementation transcript:\n' + '\n'.join('# ' + l[:400] for l in il[:40]) + '\n', True, 'judge')
            continue
        a, b = project(c, il), project(c, ml)
        if a != b:
            ndiff += 1
            if first_diff is None:
                first_diff = (c, a, b)
    if first_diff and njudge == 0:
        c, a, b = first_diff
        k = next((i for i, (x, y) in enumerate(zip(a, b)) if x != y), min(len(a), len(b)))
        small = shrink_case(c, project, variant, env)
        extra = ('# minimised script on which implementation and model still disagree (%d of %d lines):\nCASE minimised\n%s\n' % (len(small), len(c.lines), '\n'.join(small))) if small and len(small) < len(c.lines) else ''
        res.violation('%s: correspondence model/implementation broken on %d case(s); first at case %s, observation %d:\n impl : %r\n model: %r\nthe property judge did not fail on any generated input' % (
            what, ndiff, c.cid, k, a[k] if k < len(a) else None, b[k] if k < len(b) else None), c.text() + extra, False, 'correspondence')
    res.cov['evaluations'] += len(cases)
    res.cov.setdefault('correspondence_diffs', 0)
    res.cov['correspondence_diffs'] += ndiff
    res.cov.setdefault('judge_failures', 0)
    res.cov['judge_failures'] += njudge
    res.cov.setdefault('traces_validated_against_impl', 0)
    res.cov['traces_validated_against_impl'] += len(cases) - ndiff - njudge
    return impl, model

def add_coq(res, cq):
    res.cov['obligations'] = cq['obligations']
    res.cov['discharged'] = cq['discharged']
    res.cov['checker_cmd'] = 'cd /verif/coq && make -k -j16 theories/Properties_%s.vo  (coqc 8.16.1, full .vo; Print Assumptions under every property theorem)' % res.pid
    res.cov['theorems'] = cq['theorems']
    res.cov['assumptions_printed'] = cq['assumptions']
    if cq['failed']:
        res.violation('proof obligation of %s no longer checks: %s' % (res.pid, ' | '.join(cq['failed'])[:1500]),
                      '# theorem / obligation that no longer checks:\n# ' + '\n# '.join(cq['failed'])[:3000] + '\n# log tail:\n# ' + cq['log_tail'][-1500:].replace('\n', '\n# ') + '\n', False, 'proof')
