"""Shared machinery of the checks: PRNG, independent wire serialisers (written from DESIGN.md Appendix A, not from the
library's headers), build cache, harness / model runners with crash attribution, transcript parsing."""
import hashlib, json, os, subprocess, sys, time, shutil

VERIF = os.path.dirname(os.path.dirname(os.path.abspath(__file__)))
REPO = os.environ.get('VERIF_REPO', '/repo')
WORK = os.path.join(VERIF, '.work')

# ------------------------------------------------------------------ PRNG
class Rng:
    """splitmix64; every random choice of a run derives from VERIF_SEED through one of these."""
    def __init__(self, seed):
        self.s = seed & 0xFFFFFFFFFFFFFFFF
    def next(self):
        self.s = (self.s + 0x9E3779B97F4A7C15) & 0xFFFFFFFFFFFFFFFF
        z = self.s
        z = ((z ^ (z >> 30)) * 0xBF58476D1CE4E5B9) & 0xFFFFFFFFFFFFFFFF
        z = ((z ^ (z >> 27)) * 0x94D049BB133111EB) & 0xFFFFFFFFFFFFFFFF
        return z ^ (z >> 31)
    def below(self, n):
        return self.next() % n if n > 0 else 0
    def range(self, a, b):
        return a + self.below(b - a + 1)
    def choice(self, l):
        return l[self.below(len(l))]
    def chance(self, num, den):
        return self.below(den) < num
    def bytes(self, n):
        out = bytearray()
        while len(out) < n:
            out += self.next().to_bytes(8, 'little')
        return bytes(out[:n])
    def fork(self, tag):
        h = hashlib.sha256(('%d/%s' % (self.s, tag)).encode()).digest()
        return Rng(int.from_bytes(h[:8], 'little'))
    def shuffle(self, l):
        for i in range(len(l) - 1, 0, -1):
            j = self.below(i + 1)
            l[i], l[j] = l[j], l[i]

def hx(b):
    return 'x' + bytes(b).hex()

# ------------------------------------------------------------------ independent serialisers (Appendix A)
def be(v, n):
    return int(v).to_bytes(n, 'big')

def cmp_hdr(ver, dev, mt, stream, seq, rsvd=0):
    return bytes([ver & 255, rsvd & 255]) + be(dev, 2) + bytes([mt & 255, stream & 255]) + be(seq, 2)

def msg_hdr(ts, ident, flags, pt, plen):
    return be(ts, 8) + be(ident, 4) + bytes([flags & 255, pt & 255]) + be(plen, 2)

def msg(ts, ident, flags, pt, payload, plen=None, trail=b''):
    return msg_hdr(ts, ident, flags, pt, len(payload) if plen is None else plen) + bytes(payload) + bytes(trail)

def cmp_frame(ver, dev, mt, stream, seq, msgs, pad=0):
    return cmp_hdr(ver, dev, mt, stream, seq) + b''.join(msgs) + bytes(pad)

def can_payload(flags=0, idword=0, crcword=0, errpos=0, dlc=0, dlen=None, data=b'', rsvd=0):
    dl = len(data) if dlen is None else dlen
    return be(flags, 2) + be(rsvd, 2) + be(idword, 4) + be(crcword, 4) + be(errpos, 2) + bytes([dlc & 255, dl & 255]) + bytes(data)

def lin_payload(flags=0, pid=0, checksum=0, dlen=None, data=b'', r1=0, r2=0):
    dl = len(data) if dlen is None else dlen
    return be(flags, 2) + be(r1, 2) + bytes([pid & 255, r2 & 255, checksum & 255, dl & 255]) + bytes(data)

def eth_payload(flags=0, dlen=None, data=b'', rsvd=0):
    dl = len(data) if dlen is None else dlen
    return be(flags, 2) + be(rsvd, 2) + be(dl, 2) + bytes(data)

def analog_payload(flags=0, unit=0, interval=0, offset=0, scalar=0, data=b'', rsvd=0):
    return be(flags, 2) + bytes([rsvd & 255, unit & 255]) + be(interval, 4) + be(offset, 4) + be(scalar, 4) + bytes(data)

def lp(b, length=None):
    return be(len(b) if length is None else length, 2) + bytes(b)

def cm_string(s):
    l = len(s) + 1
    l += l % 2
    return be(l, 2) + bytes(s) + bytes(l - len(s))

def cm_payload(uptime=0, gm=0, quality=0, utc=0, tsrc=0, dom=0, gptp=0, strings=(b'', b'', b'', b''), vendor=b'', rsvd=0, raw_blocks=None):
    h = be(uptime, 8) + be(gm, 8) + be(quality, 4) + be(utc, 2) + bytes([tsrc & 255, dom & 255, rsvd & 255, gptp & 255])
    if raw_blocks is not None:
        return h + b''.join(raw_blocks)
    return h + b''.join(cm_string(s) for s in strings) + lp(vendor)

def if_payload(ifid=0, c=(0, 0, 0, 0, 0, 0), iftype=0, status=0, feat=0, ids=b'', vendor=b'', rsvd=0, cnt=None, vlen=None, pad=None):
    h = be(ifid, 4) + b''.join(be(x, 4) for x in c) + bytes([iftype & 255, status & 255]) + be(rsvd, 2) + be(feat, 4)
    p = (len(ids) % 2) if pad is None else pad
    return h + be(len(ids) if cnt is None else cnt, 2) + bytes(ids) + bytes(p) + be(len(vendor) if vlen is None else vlen, 2) + bytes(vendor)

def tecmp_hdr(dev, mt, dt, plen, ifid=0, ts=0, seq=0, ver=3, devflags=0, dataflags=0, b0=0, rsvd=0):
    return bytes([b0 & 255, dev & 255]) + be(seq, 2) + bytes([ver & 255, mt & 255]) + be(dt, 2) + be(rsvd, 2) + be(devflags, 2) + be(ifid, 4) + be(ts, 8) + be(plen, 2) + be(dataflags, 2)

# payload type table (message type, payload type) per kind code used in scripts
KIND_TYPE = {1: (1, 1), 2: (1, 2), 3: (1, 3), 7: (1, 7), 8: (1, 8), 49: (3, 1), 50: (3, 2)}
HDR_SIZE = {1: 16, 2: 16, 3: 8, 7: 16, 8: 6, 49: 26, 50: 36}

def parse_frame(f):
    """independent frame walker: header fields + messages until the bytes run out / a header does not fit.
    Returns (hdr dict, [msg dicts], rest bytes)"""
    f = bytes(f)
    if len(f) < 8:
        return None, [], f
    h = dict(ver=f[0], rsvd=f[1], dev=int.from_bytes(f[2:4], 'big'), mt=f[4], stream=f[5], seq=int.from_bytes(f[6:8], 'big'))
    pos = 8
    msgs = []
    while len(f) - pos >= 16:
        plen = int.from_bytes(f[pos + 14:pos + 16], 'big')
        pt = f[pos + 13]
        if pt == 0 or len(f) - pos - 16 < plen:
            break
        msgs.append(dict(ts=int.from_bytes(f[pos:pos + 8], 'big'), ident=int.from_bytes(f[pos + 8:pos + 12], 'big'),
                         flags=f[pos + 12], pt=pt, plen=plen, payload=f[pos + 16:pos + 16 + plen], at=pos))
        pos += 16 + plen
    return h, msgs, f[pos:]

# ------------------------------------------------------------------ build cache
def tree_hash():
    h = hashlib.sha256()
    for root in (os.path.join(REPO, 'src'), os.path.join(REPO, 'include'), os.path.join(VERIF, 'harness'), os.path.join(VERIF, 'translator')):
        for dp, dn, fn in sorted(os.walk(root)):
            dn[:] = sorted(x for x in dn if x != '__pycache__')
            for f in sorted(fn):
                if f.endswith('.pyc'):
                    continue
                p = os.path.join(dp, f)
                h.update(p.encode())
                with open(p, 'rb') as fh:
                    h.update(fh.read())
    with open(os.path.join(VERIF, 'bin', 'build_harness.sh'), 'rb') as fh:
        h.update(fh.read())
    return h.hexdigest()[:16]

def sh(cmd, timeout=None, cwd=None, env=None):
    e = dict(os.environ)
    if env:
        e.update(env)
    return subprocess.run(cmd, shell=isinstance(cmd, str), cwd=cwd, env=e, timeout=timeout, stdout=subprocess.PIPE, stderr=subprocess.PIPE, text=True, errors='replace')

def workdir():
    """per-tree build directory; old ones are removed to bound disk use"""
    th = tree_hash()
    d = os.path.join(WORK, 't_' + th)
    os.makedirs(WORK, exist_ok=True)
    for name in os.listdir(WORK):
        if name.startswith('t_') and name != 't_' + th:
            p = os.path.join(WORK, name)
            try:
                if time.time() - os.path.getmtime(p) > 600:
                    shutil.rmtree(p, ignore_errors=True)
            except OSError:
                pass
    os.makedirs(d, exist_ok=True)
    return d

class BuildError(Exception):
    pass

def ensure_harness(variant='asan'):
    d = workdir()
    exe = os.path.join(d, 'harness_' + variant)
    if os.path.exists(exe):
        return exe
    lock = os.path.join(d, '.lock_' + variant)
    import fcntl
    with open(lock, 'w') as lf:
        fcntl.flock(lf, fcntl.LOCK_EX)
        if os.path.exists(exe):
            return exe
        ensure_translation()
        r = sh([os.path.join(VERIF, 'bin', 'build_harness.sh'), d, variant], timeout=900)
        if r.returncode != 0 or not os.path.exists(exe):
            raise BuildError('harness build failed (%s):\n%s' % (variant, (r.stdout + r.stderr)[-4000:]))
    return exe

def ensure_translation():
    """tie T: run translator/cxx2coq.py on the current sources (cached per tree)"""
    d = workdir()
    stamp = os.path.join(d, 'translation.ok')
    if os.path.exists(stamp):
        return d
    tr = os.path.join(VERIF, 'translator', 'cxx2coq.py')
    if os.path.exists(tr):
        r = sh([sys.executable, '-B', tr, '--out', d], timeout=600)
        if r.returncode != 0:
            raise BuildError('translator failed:\n' + (r.stdout + r.stderr)[-4000:])
    open(stamp, 'w').write('ok')
    return d

def ensure_model():
    """the extracted model driver (hand models do not depend on /repo); rebuilt when a model source is newer"""
    ml = os.path.join(WORK, 'ml')
    exe = os.path.join(ml, 'model_driver')
    srcs = [os.path.join(VERIF, 'coq', 'theories', f) for f in os.listdir(os.path.join(VERIF, 'coq', 'theories')) if f.endswith('.v')]
    srcs.append(os.path.join(VERIF, 'ocaml', 'driver.ml'))
    if os.path.exists(exe) and all(os.path.getmtime(s) <= os.path.getmtime(exe) for s in srcs):
        return exe
    r = sh([os.path.join(VERIF, 'bin', 'setup.sh'), 'model'], timeout=1800)
    if r.returncode != 0 or not os.path.exists(exe):
        raise BuildError('model build failed:\n' + (r.stdout + r.stderr)[-4000:])
    return exe

# ------------------------------------------------------------------ scripts and transcripts
class Case:
    __slots__ = ('cid', 'lines', 'meta')
    def __init__(self, cid, lines, meta=None):
        self.cid = str(cid)
        self.lines = lines
        self.meta = meta or {}
    def text(self):
        return 'CASE %s\n%s\n' % (self.cid, '\n'.join(self.lines))

def write_script(path, cases):
    with open(path, 'w') as f:
        for c in cases:
            f.write(c.text())

def parse_transcript(text):
    """-> (dict cid -> lines, cid of an unfinished case or None)"""
    out = {}
    cur = None
    lines = None
    for ln in text.split('\n'):
        if ln.startswith('CASE '):
            cur = ln[5:].strip()
            lines = []
            out[cur] = lines
        elif ln == 'END':
            cur = None
        elif cur is not None and ln != '':
            lines.append(ln)
    return out, cur

def run_model(cases, tag='m'):
    exe = ensure_model()
    d = workdir()
    res = {}
    CH = 4000
    for i in range(0, len(cases), CH):
        p = os.path.join(d, 'script_%s_%d_%d.txt' % (tag, os.getpid(), i))
        write_script(p, cases[i:i + CH])
        r = sh([exe, p], timeout=3600)
        os.unlink(p)
        if r.returncode != 0:
            raise BuildError('model driver failed: ' + r.stderr[-2000:])
        t, _ = parse_transcript(r.stdout)
        res.update(t)
    return res

def run_harness(cases, variant='asan', env=None, threads=1, tag='h', case_timeout=20, max_restarts=30):
    """Runs the cases through the harness. A crash / sanitizer report / timeout is attributed to the case being executed:
    its transcript gets a final line 'CRASH <summary>' or 'TIMEOUT', and the run resumes after it."""
    exe = ensure_harness(variant)
    d = workdir()
    res = {}
    todo = list(cases)
    restarts = 0
    e = {'ASAN_OPTIONS': 'detect_leaks=1:abort_on_error=0:halt_on_error=1:allocator_may_return_null=1', 'UBSAN_OPTIONS': 'print_stacktrace=1:halt_on_error=1'}
    if env:
        e.update(env)
    idx = 0
    while todo:
        p = os.path.join(d, 'script_%s_%d_%d.txt' % (tag, os.getpid(), idx))
        idx += 1
        write_script(p, todo)
        keep = os.environ.get('VERIF_KEEP_SCRIPTS')
        if keep and restarts == 0:
            # diagnostics (bin/coverage.sh): keep a copy of every script the check runs
            os.makedirs(keep, exist_ok=True)
            shutil.copy(p, os.path.join(keep, os.path.basename(p)))
        cmd = [exe]
        if threads > 1:
            cmd += ['--threads', str(threads)]
        cmd.append(p)
        to = max(60, case_timeout * 3 + len(todo) // 50)
        status = None
        try:
            r = sh(cmd, timeout=to, env=e)
            stdout, stderr, rc = r.stdout, r.stderr, r.returncode
        except subprocess.TimeoutExpired as ex:
            stdout = ex.stdout.decode(errors='replace') if isinstance(ex.stdout, bytes) else (ex.stdout or '')
            stderr = ''
            rc = -999
        os.unlink(p)
        t, unfinished = parse_transcript(stdout)
        if rc == 0 and unfinished is None:
            res.update(t)
            break
        # find the case that was running
        if threads > 1:
            # threaded runs print nothing before the end: attribute to the whole batch
            for c in todo:
                res[c.cid] = ['CRASH threaded run failed rc=%d %s' % (rc, summarize(stderr))]
            break
        if unfinished is None:
            # crashed between cases (e.g. leak report at exit): attribute to the last case
            done = [c for c in todo if c.cid in t]
            if rc != 0 and done:
                t[done[-1].cid].append('CRASH at-exit rc=%d %s' % (rc, summarize(stderr)))
            res.update(t)
            if len(done) == len(todo):
                break
            todo = todo[len(done):]
        else:
            t[unfinished].append(('TIMEOUT' if rc == -999 else 'CRASH rc=%d ' % rc + summarize(stderr)))
            res.update(t)
            k = [c.cid for c in todo].index(unfinished)
            todo = todo[k + 1:]
        restarts += 1
        if restarts > max_restarts:
            for c in todo:
                res[c.cid] = ['SKIPPED too many crashes']
            break
    return res

def summarize(stderr):
    for ln in stderr.split('\n'):
        if 'SUMMARY:' in ln or 'runtime error:' in ln:
            return ln.strip()[:300]
    s = stderr.strip().split('\n')
    return (s[0] if s and s[0] else 'no diagnostic')[:300]

ANOMALY = ('CRASH', 'TIMEOUT', 'NOPAYLOAD', 'LATE-MISMATCH', 'INPUT-MODIFIED', 'NULLPACKET', 'UNKNOWN-OP', 'SKIPPED', 'OOB')

def anomalies(lines):
    return [l for l in lines if l.startswith(ANOMALY)]
