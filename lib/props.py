import props_enc, props_dec
RUN = {}
EXTRA_TARGETS = {}
RUN.update(C01=props_enc.run_c01, C07=props_enc.run_c07, C08=props_enc.run_c08, C09=props_enc.run_c09, C10=props_enc.run_c10)
RUN.update(C02=props_dec.run_c02, C04=props_dec.run_c04, C05=props_dec.run_c05, C06=props_dec.run_c06, C17=props_dec.run_c17, C18=props_dec.run_c18)
import props_misc
RUN.update(C03=props_misc.run_c03, C13=props_misc.run_c13, C14=props_misc.run_c14, C15=props_misc.run_c15, C16=props_misc.run_c16)
import props_acc
RUN.update(C11=props_acc.run_c11, C12=props_acc.run_c12)
import props_conc
RUN.update(C19=props_conc.run_c19, C20=props_conc.run_c20)
