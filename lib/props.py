import props_enc
RUN = {}
EXTRA_TARGETS = {}
RUN.update(C01=props_enc.run_c01, C07=props_enc.run_c07, C08=props_enc.run_c08, C09=props_enc.run_c09, C10=props_enc.run_c10)
