"""Generators, projections and judges for the encoder family: C01, C07, C08, C09, C10."""
from common import *

MTS = [1, 1, 1, 3, 3, 255, 2, 7]
ALLOW_MT0 = False   # message type byte 0 ("undefined"): legal for the encoder (C07-C10 range over all batches), excluded by C01's domain

def valid_typed_payload(rng, kind, n):
    """a well-formed payload of the given typed kind with total length as close to n as the kind allows"""
    if kind in (1, 2):
        dl = max(0, min(255, n - 16))
        return can_payload(flags=rng.choice([0, 0x0400, 0x0800, 0x3000 if kind == 2 else 0x0800]), idword=rng.next() & 0xFFFFFFFF,
                           crcword=rng.next() & 0xFFFFFFFF, dlc=rng.below(16), data=rng.bytes(dl)) + rng.bytes(max(0, n - 16 - dl))
    if kind == 3:
        dl = max(0, min(255, n - 8))
        return lin_payload(flags=rng.below(512), pid=rng.below(256), checksum=rng.below(256), data=rng.bytes(dl)) + rng.bytes(max(0, n - 8 - dl))
    if kind == 8:
        dl = max(0, n - 6)
        return eth_payload(flags=rng.choice([0, 0x40, 0x80, 0x04]), data=rng.bytes(dl))
    if kind == 7:
        return analog_payload(flags=rng.choice([0, 1]), unit=rng.below(85), interval=rng.next() & 0xFFFFFFFF, offset=rng.next() & 0xFFFFFFFF,
                              scalar=rng.next() & 0xFFFFFFFF, data=rng.bytes(max(0, n - 16)))
    if kind == 49:
        room = max(0, n - 36)
        s = [rng.bytes(min(room // 5, 40)).replace(b'\0', b'a') for _ in range(4)]
        base = cm_payload(uptime=rng.next(), gm=rng.next(), quality=rng.next() & 0xFFFFFFFF, utc=rng.below(65536), tsrc=rng.below(256),
                          dom=rng.below(256), gptp=rng.below(256), strings=s, vendor=b'')
        extra = max(0, n - len(base))
        return base[:-2] + lp(rng.bytes(extra))
    if kind == 50:
        room = max(0, n - 40)
        ids = rng.bytes(min(room // 2, 30))
        base = if_payload(ifid=rng.next() & 0xFFFFFFFF, c=[rng.next() & 0xFFFFFFFF for _ in range(6)], iftype=rng.below(256), status=rng.below(3),
                          feat=rng.next() & 0xFFFFFFFF, ids=ids, vendor=b'')
        extra = max(0, n - len(base))
        return base[:-2] + lp(rng.bytes(extra))
    return rng.bytes(n)

def gen_packet(rng, ver, n, mt=None, allow_seg_bits=True):
    mt = rng.choice(MTS + ([0, 0] if ALLOW_MT0 else [])) if mt is None else mt
    kind = None
    if mt == 1 and rng.chance(1, 2):
        kind = rng.choice([1, 2, 3, 7, 8])
    elif mt == 3 and rng.chance(1, 2):
        kind = rng.choice([49, 50])
    if kind is not None and n >= default_min(kind):
        pt = KIND_TYPE[kind][1]
        payload = valid_typed_payload(rng, kind, n)
    else:
        kind = None
        pt = rng.choice([0x0F, 0xFF, 0x20, 0x7F, rng.range(9, 254)])
        if (mt, pt) in KIND_TYPE.values():
            pt = 0xFE
        payload = rng.bytes(n)
    flags = rng.below(256) & 0xBF
    if not allow_seg_bits or rng.chance(2, 3):
        flags &= 0xF3
    return dict(ver=ver, mt=mt, pt=pt, ts=rng.next() if rng.chance(3, 4) else rng.choice([0, 1, 2 ** 64 - 1]),
                ifid=rng.next() & 0xFFFFFFFF, vendor=rng.below(65536), flags=flags, payload=payload, kind=kind,
                dev=rng.below(65536), stream=rng.below(256), seq=rng.below(65536), segtype=rng.choice([0, 0, 4, 8, 12]))

def default_min(kind):
    return {1: 16, 2: 16, 3: 8, 7: 16, 8: 6, 49: 36, 50: 40}[kind]

def pkt_line(idx, p):
    return 'PKT %d %d %d %d %d %d %d %d %d %d %d %d %s' % (idx, p['ver'], p['mt'], p['pt'], p['ts'], p['ifid'], p['vendor'], p['flags'],
                                                          p['dev'], p['stream'], p['seq'], p['segtype'], hx(p['payload']))

MAXES = [25, 26, 33, 40, 41, 64, 100, 256, 1500]

def boundary_len(rng, maxb, huge_ok):
    cap = maxb - 8
    chunk = cap - 16
    if huge_ok:
        return max(1, min(65535, rng.choice([65535, 65534, 65520, 65519, 60000, chunk - 1, chunk, chunk + 1, 2 * chunk + 1])))
    opts = [1, 2, 3, chunk - 2, chunk - 1, chunk, chunk + 1, chunk + 2, 2 * chunk - 1, 2 * chunk, 2 * chunk + 1, 3 * chunk, 3 * chunk + 1,
            rng.range(1, max(2, chunk)), rng.range(1, 4 * chunk + 3), rng.range(1, 300)]
    n = rng.choice(opts)
    return max(1, min(4000, n))

def gen_batch(rng, maxb, npk, huge_ok=True, mix=True, ver=None):
    ver = rng.range(1, 255) if ver is None else ver
    base_mt = rng.choice(MTS + ([0, 0] if ALLOW_MT0 else []))
    out = []
    for i in range(npk):
        mt = rng.choice(MTS + ([0] if ALLOW_MT0 else [])) if (mix and rng.chance(1, 3)) else base_mt
        out.append(gen_packet(rng, ver, boundary_len(rng, maxb, huge_ok), mt))
    return out

def gen_ctx(rng, batch, thorough=False):
    return rng.choice(MAXES + [rng.range(25, 120), rng.range(25, 400)])

def pick_min(rng, maxb, batch):
    used = 8 + sum(16 + len(p['payload']) for p in batch)
    return max(0, min(maxb, rng.choice([0, 0, 8, 24, used - 1, used, used + 1, maxb, maxb - 1, rng.range(0, maxb), 64])))

def enc_case(cid, dev, stream, batch, minb, maxb, api='ENC', pre=None, decode=True, edits=None):
    # dev / stream None: the encoder's id is never set (it stays at its default 0 - and the packets' own ids must not leak)
    lines = ['ENEW'] + (['EDEV %d' % dev] if dev is not None else []) + (['ESTR %d' % stream] if stream is not None else [])
    dev = 0 if dev is None else dev
    stream = 0 if stream is None else stream
    if pre:
        lines += pre
    for i, p in enumerate(batch):
        lines.append(pkt_line(i, p))
    if edits:
        lines += edits
    lines.append('%s %d %d %s' % (api, minb, maxb, ' '.join(str(i) for i in range(len(batch)))))
    if decode:
        lines.append('DFRAMES 1')
    return Case(cid, lines, dict(dev=dev, stream=stream, batch=batch, min=minb, max=maxb))

def gen_encode_cases(rng, count, thorough, tag):
    cases = []
    nhuge = 40 if thorough else 6
    for i in range(count):
        r = rng.fork('%s%d' % (tag, i))
        huge = i < nhuge
        if huge:
            # payloads up to 65535 bytes and the largest context; kept few: the list-based model is quadratic in the segment count
            maxb = [65559, 1500, 65559, 4000, 65558, 256][i % 6] if not thorough else r.choice([65559, 65558, 1500, 4000, 256, 64])
            batch = gen_batch(r, maxb, 1, huge_ok=True)
            if r.chance(1, 2):
                batch = gen_batch(r, maxb, 1, huge_ok=False, ver=batch[0]['ver']) + batch
        else:
            maxb = gen_ctx(r, None, thorough)
            npk = r.range(1, 12 if thorough else 6)
            batch = gen_batch(r, maxb, npk, huge_ok=False)
        minb = pick_min(r, maxb, batch)
        # the batch may be handed over as any forward range: vector, vector of shared_ptr, list, deque, reverse iterators
        api = r.choice(['ENC', 'ENC', 'ENCP', 'ENCL', 'ENCD', 'ENCR']) if len(batch) != 1 else r.choice(['ENC', 'ENC1', 'ENCP', 'ENCL'])
        dv, st_ = r.below(65536), r.below(256)
        k = r.below(12)
        if k == 0: dv = None
        elif k == 1: st_ = None
        elif k == 2: dv = st_ = None
        cases.append(enc_case('%s%d' % (tag, i), dv, st_, batch, minb, maxb, api))
    return cases

BIG_MAXES = [65535, 65536, 65542, 65543, 65544, 65545, 65550, 65557, 65558, 65559, 65560, 65561, 65600, 80000, 131072, 200000]

def plain_packet(rng, ver, n, mt):
    p = gen_packet(rng, ver, 1, mt, allow_seg_bits=False)
    p['payload'] = rng.bytes(n); p['pt'] = 0xFE; p['kind'] = None
    return p

def big_ctx_cases(rng, tag, thorough):
    """frame sizes at and above the 16-bit limits (DataContext holds size_t): a packet that (nearly) fills such a frame first in the
    batch, after a small packet of the same / another type, followed by a small one; several large packets aggregated into one frame
    longer than 65535 bytes"""
    cases = []
    maxes = BIG_MAXES if thorough else [65536, 65544, 65550, 65558, 65559, 65561, 80000]
    k = 0
    for maxb in maxes:
        r = rng.fork('%s%d' % (tag, maxb))
        ver = r.range(1, 255)
        Ls = [min(65535, x) for x in (maxb - 24, maxb - 23, maxb - 25, 65535, 65520)]
        for L in (sorted(set(Ls)) if thorough else [r.choice(Ls), min(65535, maxb - 23)]):
            mt = r.choice([1, 3])
            big = plain_packet(r, ver, L, mt)
            shape = r.below(4) if not thorough else k % 4
            if shape == 0:
                batch = [big]
            elif shape == 1:
                batch = [plain_packet(r, ver, r.choice([1, 8, 30]), mt), big]
            elif shape == 2:
                batch = [plain_packet(r, ver, 8, 4 - mt), big]
            else:
                batch = [big, plain_packet(r, ver, r.choice([1, 8]), mt)]
            cases.append(enc_case('%s%d' % (tag, k), r.below(65536), r.below(256), batch, r.choice([0, 0, 64, maxb]), maxb)); k += 1
    for maxb, lens in ([(80000, [40000, 30000, 100, 8]), (131072, [65535, 65500, 10]), (80000, [65512, 30, 8]), (70000, [65500, 20, 8, 8])] +
                       ([(200000, [65535, 65535, 65535, 1]), (65600, [65535, 1, 1]), (80000, [30000, 30000, 5600, 1, 1]), (65553, [65512, 1])] if thorough else [])):
        r = rng.fork('%sagg%d' % (tag, k))
        ver, mt = r.range(1, 255), r.choice([1, 3])
        batch = [plain_packet(r, ver, n, mt) for n in lens]
        cases.append(enc_case('%s%d' % (tag, k), r.below(65536), r.below(256), batch, 0, maxb)); k += 1
    return cases

def many_msg_cases(rng, tag, thorough):
    """COUNTS at the 8-bit (thorough: 16-bit) limits: one frame that aggregates exactly 255 / 256 / 257 (...) small messages of one type
    (jumbo frame sizes), followed by a packet that does not fit what is left of that frame - one that fits an empty frame (goes whole
    into the next frame) or one that does not (segmented, starting in a frame of its own); and batches of that many one-frame packets"""
    cases = []
    counts = [255, 256, 257] + ([258, 511, 512, 513, 1024, 4096] if thorough else [])
    k = 0
    for n in counts:
        for variant in range(3 if n < 2000 else 1):
            r = rng.fork('%s%d_%d' % (tag, n, variant))
            ver, mt = r.range(1, 255), r.choice([1, 3])
            L = r.choice([1, 2, 3])
            slack = r.choice([0, 5, 17, 20])
            maxb = 8 + n * (16 + L) + slack
            cap = maxb - 8
            small = [plain_packet(r, ver, L, mt) for _ in range(n)]
            if variant == 0:
                tail = [plain_packet(r, ver, max(1, slack - 16 + 1 + r.below(8)), mt)]          # fits an empty frame, not the rest
            elif variant == 1:
                tail = [plain_packet(r, ver, min(65535, cap - 16 + 1 + r.below(50)), mt)]       # must be segmented
            else:
                tail = [plain_packet(r, ver, L, mt), plain_packet(r, ver, 8, 4 - mt)]           # one more small one, then a type change
            cases.append(enc_case('%s%d' % (tag, k), r.below(65536), r.below(256), small + tail, r.choice([0, 0, 64]), maxb)); k += 1
    # that many packets, each alone in its frame
    for n in ([257] if not thorough else [255, 256, 257, 513]):
        r = rng.fork('%salone%d' % (tag, n))
        ver, mt = r.range(1, 255), r.choice([1, 3])
        cases.append(enc_case('%s%d' % (tag, k), r.below(65536), r.below(256), [plain_packet(r, ver, 9, mt) for _ in range(n)] + [plain_packet(r, ver, 40, mt)], 0, 33)); k += 1
    return cases

def wrap_cases(rng, tag, thorough):
    """one encoder that has already produced 65530..65535 frames (quiet ENCQ calls), then a batch whose segments / aggregated frames
    straddle the 65535 -> 0 wrap of the sequence counter"""
    cases = []
    for i, n0 in enumerate([65533, 65534, 65535, 65531] if thorough else [65534, 65533]):
        r = rng.fork('%s%d' % (tag, i))
        ver = r.range(1, 255)
        tiny = plain_packet(r, ver, 1, 1)
        pre = [pkt_line(1000, tiny)] + ['ENCQ 0 25 ' + ' '.join(['1000'] * 2000)] * (n0 // 2000) + ['ENCQ 0 25 ' + ' '.join(['1000'] * (n0 % 2000))]
        maxb = r.choice([64, 100])
        batch = [plain_packet(r, ver, r.choice([200, 3 * (maxb - 24), 150]), 1), plain_packet(r, ver, 8, 1), plain_packet(r, ver, 9, 3)]
        cases.append(enc_case('%s%d' % (tag, i), r.below(65536), r.below(256), batch, 0, maxb, pre=pre))
    return cases

def inplace_edit_cases(rng, tag, n):
    """packets whose payload is edited IN PLACE after the packet took it over (non-const getPayload() + EthernetPayload::setData, the
    idiom of example/main.cpp): the payload grows past the frame, shrinks, or keeps its size; then the batch is encoded and decoded"""
    cases = []
    for i in range(n):
        r = rng.fork('%s%d' % (tag, i))
        maxb = r.choice([64, 100, 256, 1500])
        ver = r.range(1, 255)
        batch = []
        edits = []
        for j in range(r.range(1, 4)):
            old = r.bytes(r.choice([0, 1, 8, 30, maxb - 40, 200]) if maxb > 60 else 4)
            p = plain_packet(r, ver, 1, 1)
            p['pt'] = 8; p['kind'] = 8
            p['payload'] = eth_payload(flags=0, data=old)
            if r.chance(3, 4):
                new = r.bytes(r.choice([0, 1, len(old) + 1, max(0, len(old) - 1), len(old), 3 * maxb, maxb - 30, 300]))
                edits.append('XETH %d %s' % (j, hx(new)))
                q = dict(p); q['payload'] = p['payload'][:4] + be(len(new), 2) + new
                batch.append((p, q))
            else:
                batch.append((p, p))
        c = enc_case('%s%d' % (tag, i), r.below(65536), r.below(256), [a for a, _ in batch], r.choice([0, 0, 64]), maxb, edits=edits)
        c.meta['batch'] = [b for _, b in batch]      # what the judges expect on the wire: the edited packets
        cases.append(c)
    return cases

def container_cases(rng, tag, n):
    """many small packets handed over as a deque (crossing its internal blocks), a list, reverse iterators"""
    cases = []
    for i in range(n):
        r = rng.fork('%s%d' % (tag, i))
        maxb = r.choice([64, 100, 256])
        ver = r.range(1, 255)
        npk = r.choice([17, 20, 33, 40])
        batch = [plain_packet(r, ver, r.choice([1, 4, 8, 3 * maxb]) if j % 7 == 3 else r.choice([1, 4, 8]), r.choice([1, 1, 3])) for j in range(npk)]
        cases.append(enc_case('%s%d' % (tag, i), r.below(65536), r.below(256), batch, 0, maxb, r.choice(['ENCD', 'ENCD', 'ENCL', 'ENCR'])))
    return cases

def small_scope_cases(tag, nmax=3):
    """all batches of <= nmax packets over boundary lengths x message types x frame sizes (thorough tier)"""
    cases = []
    k = 0
    for maxb in (25, 40, 41, 64):
        chunk = maxb - 24
        lens = sorted(set(x for x in (1, chunk - 1, chunk, chunk + 1, 2 * chunk, 2 * chunk + 1) if x >= 1))
        kinds = [(L, mt) for L in lens for mt in (1, 3)]
        def rec(prefix, depth):
            nonlocal k
            if prefix:
                batch = [dict(ver=1, mt=mt, pt=0xFE, ts=7 + j, ifid=9 + j, vendor=5 + j, flags=0, payload=bytes((j * 37 + b) & 255 for b in range(L)),
                              kind=None, dev=0, stream=0, seq=0, segtype=0) for j, (L, mt) in enumerate(prefix)]
                for minb in (0, maxb):
                    cases.append(enc_case('%s%d' % (tag, k), 3, 1, batch, minb, maxb))
                    k += 1
            if depth < nmax:
                for kd in kinds:
                    rec(prefix + [kd], depth + 1)
        rec([], 0)
    return cases

# ------------------------------------------------------------------ reading transcripts
def frames_of(lines):
    return [bytes.fromhex(l.split()[1][1:]) for l in lines if l.startswith('F ')]

def klines(lines):
    out = []
    for l in lines:
        if l.startswith('K '):
            t = l.split()
            nums = [int(x) for x in t[1:15]]
            out.append((nums, bytes.fromhex(t[15][1:])))
    return out

# ------------------------------------------------------------------ judges (spec applied to the implementation's own output)
def expected_packets(meta):
    exp = []
    for p in meta['batch']:
        mt = p['mt']
        exp.append(dict(ver=p['ver'], dev=meta['dev'], stream=meta['stream'], mt=mt, pt=p['pt'], ts=p['ts'],
                        ifid=p['ifid'] if mt == 1 else 0, vendor=p['vendor'] if mt in (3, 255) else 0, flags=p['flags'] & 0xF3,
                        payload=bytes(p['payload'])))
    return exp

def judge_c01(case, lines):
    """decoding the implementation's frames with the implementation's decoder yields the original packets"""
    an = anomalies(lines)
    if an:
        return 'anomaly: ' + an[0]
    got = klines(lines)
    exp = expected_packets(case.meta)
    if len(got) != len(exp):
        return 'decoded %d packets, expected %d' % (len(got), len(exp))
    for i, ((n, pay), e) in enumerate(zip(got, exp)):
        g = dict(ver=n[0], dev=n[1], stream=n[2], mt=n[4], pt=n[5], ts=n[6], ifid=n[7], vendor=n[8], flags=n[9] & 0xF3, payload=pay)
        for k in e:
            if g[k] != e[k]:
                return 'packet %d: %s = %r, expected %r' % (i, k, g[k] if k != 'payload' else g[k][:24].hex() + '..', e[k] if k != 'payload' else e[k][:24].hex() + '..')
        if n[11] != 1 or n[12] != e['mt'] * 256 + e['pt']:
            return 'packet %d: returned invalid / with payload type %d' % (i, n[12])
    return None

def judge_c07(case, lines):
    """every frame: min <= size <= max, 8-byte header, >= 1 complete message, messages tile the frame, zero padding only
    up to min; all payload bytes once and in order; empty batch -> no frames"""
    an = [a for a in anomalies(lines)]
    if an:
        return 'anomaly: ' + an[0]
    m = case.meta
    frames = frames_of(lines)
    if not m['batch']:
        return None if not frames else 'empty batch produced %d frames' % len(frames)
    stream = b''
    lens = []
    for fi, f in enumerate(frames):
        if len(f) < m['min'] or len(f) > m['max']:
            return 'frame %d has %d bytes, bounds [%d,%d]' % (fi, len(f), m['min'], m['max'])
        h, msgs, rest = parse_frame(f)
        if h is None or not msgs:
            return 'frame %d (%d bytes) carries no complete message' % (fi, len(f))
        used = len(f) - len(rest)
        if any(rest):
            return 'frame %d: non-zero bytes after the last message' % fi
        if rest and len(f) > max(m['min'], used):
            return 'frame %d: %d padding bytes beyond the minimum size' % (fi, len(rest))
        if rest and len(f) != m['min']:
            return 'frame %d: padded to %d, minimum is %d' % (fi, len(f), m['min'])
        for mm in msgs:
            stream += mm['payload']
            lens.append(mm['plen'])
    want = b''.join(bytes(p['payload']) for p in m['batch'])
    if stream != want:
        return 'payload bytes on the wire differ from the packets\' payloads (got %d bytes, want %d)' % (len(stream), len(want))
    return None

def structure(lines):
    """C08 projection: per frame (announced message type, [(segment bits, payload length, payload type)])"""
    out = []
    for f in frames_of(lines):
        h, msgs, rest = parse_frame(f)
        out.append((h['mt'] if h else None, tuple((mm['flags'] & 12, mm['plen'], mm['pt']) for mm in msgs)))
    return out

def pack_spec(meta):
    """Appendix B greedy packing: expected frame structure"""
    cap = meta['max'] - 8
    frames = []
    cur = None
    for p in meta['batch']:
        L = len(p['payload']); t = p['mt']
        if 16 + L <= cap:
            if cur is None or cur['closed'] or cur['mt'] != t or cur['left'] < 16 + L:
                cur = dict(mt=t, left=cap, closed=False, items=[])
                frames.append(cur)
            cur['items'].append((0, L, p['pt']))
            cur['left'] -= 16 + L
        else:
            chunk = cap - 16
            pos = 0
            while pos < L:
                n = min(chunk, L - pos)
                fl = 4 if pos == 0 else (12 if pos + n == L else 8)
                cur = dict(mt=t, left=0, closed=True, items=[(fl, n, p['pt'])])
                frames.append(cur)
                pos += n
    return [(f['mt'], tuple(f['items'])) for f in frames]

def judge_c08(case, lines):
    an = anomalies(lines)
    if an:
        return 'anomaly: ' + an[0]
    got = structure(lines)
    want = pack_spec(case.meta)
    if got != want:
        for i, (g, w) in enumerate(zip(got, want)):
            if g != w:
                return 'frame %d: structure %r, protocol rules give %r' % (i, g, w)
        return '%d frames, protocol rules give %d' % (len(got), len(want))
    return None

def headers(lines):
    out = []
    for f in frames_of(lines):
        h, msgs, rest = parse_frame(f)
        out.append((h['ver'], h['dev'], h['mt'], h['stream'], h['seq'], tuple(1 for _ in msgs)) if h else None)
    return out
