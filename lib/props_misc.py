"""Checks for C03 (validated payloads expose in-bounds data), C13 (builders), C14 (values), C15 (TECMP), C16 (status)."""
from common import *
from runner import *
import gen_dec as D

KINDS = [1, 2, 3, 7, 8, 49, 50]
# positions of (offset, length) view pairs inside the W line of each kind
VIEWS = {1: [(10, 11)], 2: [(13, 14)], 3: [(5, 6)], 8: [(2, 3)], 7: [(7, 8)], 49: [(7, 8), (9, 10), (11, 12), (13, 14), (16, 15), (17, 18)], 50: [(11, 10), (13, 12)]}

def sample_case(c, n=5):
    return dict(case=c.cid, script=[l[:200] for l in c.lines[:n]])

# ------------------------------------------------------------------ C03
def c03_buffers(rng, kind, thorough):
    hs = HDR_SIZE[kind]
    out = []
    for n in range(0, hs + 9):
        out.append(bytes(n)); out.append(b'\xff' * n); out.append(rng.bytes(n))
    base = D.rand_payload(rng, kind, True)
    for _ in range(40 if thorough else 12):
        p = bytearray(D.rand_payload(rng, kind, rng.chance(1, 2)))
        out.append(bytes(p))
    # each inner length field at 0, fits-1, fits, fits+1, max
    def with_len(p, off, w, v):
        p = bytearray(p)
        if off + w <= len(p):
            p[off:off + w] = be(v % (256 ** w), w)
        return bytes(p)
    for _ in range(6 if thorough else 2):
        p = D.rand_payload(rng, kind, True)
        n = len(p)
        if kind in (1, 2):
            for v in (0, n - 17, n - 16, n - 15, 255): out.append(with_len(p, 15, 1, max(0, v)))
        elif kind == 3:
            for v in (0, n - 9, n - 8, n - 7, 255): out.append(with_len(p, 7, 1, max(0, v)))
        elif kind == 8:
            for v in (0, n - 7, n - 6, n - 5, 0xFFFF): out.append(with_len(p, 4, 2, max(0, v)))
        elif kind == 7:
            for v in (0, 1, 2, 3): out.append(with_len(p, 0, 2, v)); out.append(with_len(p, 0, 2, v)[:rng.range(16, max(16, n))])
        elif kind == 49:
            pos = 26
            for b in range(5):
                if pos + 2 > n: break
                l = int.from_bytes(p[pos:pos + 2], 'big')
                rem = n - pos - 2
                for v in (0, rem - 1, rem, rem + 1, 0xFFFF, l + 1, l - 1): out.append(with_len(p, pos, 2, max(0, v)))
                pos += 2 + l
        elif kind == 50:
            for v in (0, 1, 2, n - 39, n - 38, n - 37, 0xFFFF, 0xFFFE): out.append(with_len(p, 36, 2, max(0, v)))
            c = int.from_bytes(p[36:38], 'big') if n >= 38 else 0
            pos = 38 + c + c % 2
            rem = n - pos - 2
            for v in (0, rem - 1, rem, rem + 1, 0xFFFF): out.append(with_len(p, pos, 2, max(0, v)))
            for v in (0, 1, 2, 3, 255): out.append(with_len(p, 29, 1, v))
    return out

def c03_big_buffers(rng, thorough):
    """capture-module / interface status payloads LONGER than 65535 bytes whose chain of inner length fields crosses offset 65536 at a
    field step (16-bit offset arithmetic would wrap there), with the final length field consistent / one too large / 0xFFFF"""
    out = []
    def cm(l1, l2, l3, l4, vlen_field, vbytes):
        b = bytearray(26)
        for L in (l1, l2, l3, l4):
            b += be(L, 2) + bytes(L)
        b += be(vlen_field, 2) + bytes(vbytes)
        return bytes(b)
    combos = [(65500, 100), (65534, 2), (40000, 30000), (65508, 0), (65506, 2), (32768, 32768)] if thorough else [(65500, 100), (65534, 2), (40000, 30000)]
    for (l1, l2) in combos:
        for (vf, vb) in ((4364, 4364), (0xFFFF, 4364), (4365, 4364), (0, 0), (1, 0)):
            out.append((49, cm(l1, l2, 0, 0, vf, vb)))
        out.append((49, cm(l1, l2, 0xFFFF, 0, 0, 0)))
        out.append((49, cm(l1, l2, 10, 0xFFF0, 0, 100)))
    def iface(c, vlen_field, vbytes):
        b = bytearray(36) + be(c, 2) + bytes(c + c % 2) + be(vlen_field, 2) + bytes(vbytes)
        return bytes(b)
    for c in ([65498, 65499, 65500, 65534, 65535] if thorough else [65499, 65535]):
        for (vf, vb) in ((100, 100), (101, 100), (0xFFFF, 100), (0, 0)):
            out.append((50, iface(c, vf, vb)))
    return out

def judge_c03(case, lines):
    an = anomalies(lines)
    if an:
        return an[0]
    k = case.meta['kind']; n = case.meta['size']
    v = [l for l in lines if l.startswith('V ')]
    w = [l for l in lines if l.startswith('W')]
    if not v:
        return 'no verdict line'
    if v[0] == 'V 1':
        if not w and k == 0:
            return None
        if not w:
            return 'validator accepted but accessors produced no view'
        nums = [int(x) for x in w[0].split()[1:]]
        size = case.meta.get('psize', n)
        for (o, l) in VIEWS.get(case.meta.get('vkind', k), []):
            if o >= len(nums) or l >= len(nums):
                return 'view line too short'
            off, ln = nums[o], nums[l]
            if off == -1:
                continue
            if off < 0 or ln < 0 or off + ln > size:
                return 'accepted %d-byte payload reports a view at offset %d length %d' % (size, off, ln)
    return None

def count_accepted(res, impl, cases):
    res.cov['distinct_nontrivial'] = len(set(tuple(c.lines) for c in cases if any(l == 'V 1' for l in impl.get(c.cid, []))))

def run_c03(res, rng):
    thorough = res.tier == 'thorough'
    cases = corpus_cases('C03')
    i = 0
    for kind in KINDS:
        for b in c03_buffers(rng.fork('k%d' % kind), kind, thorough):
            cases.append(Case('v%d' % i, ['VIEW %d %s' % (kind, hx(b))], dict(kind=kind, size=len(b)))); i += 1
    for kind, b in c03_big_buffers(rng.fork('big'), thorough):
        cases.append(Case('v%d' % i, ['VIEW %d %s' % (kind, hx(b))], dict(kind=kind, size=len(b)))); i += 1
    for j in range(60000 if thorough else 1500):
        r = rng.fork('r%d' % j)
        kind = r.choice(KINDS)
        b = D.rand_payload(r, kind, r.chance(1, 2)) if r.chance(2, 3) else r.bytes(r.range(0, 300))
        cases.append(Case('r%d' % j, ['VIEW %d %s' % (kind, hx(b))], dict(kind=kind, size=len(b))))
    for j in range(1500 if not thorough else 40000):
        r = rng.fork('m%d' % j)
        mt = r.choice([1, 1, 3, 3, 255])
        m = D.rand_msg(r, mt, consistent=r.chance(1, 2), flags=r.below(256) & (0xFF if r.chance(1, 8) else 0xBF))
        k = r.below(4)
        if k == 0: m = m[:r.below(len(m) + 1)]
        elif k == 1 and len(m) >= 16: m = m[:14] + be(r.choice([0, len(m) - 17, len(m) - 16, len(m) - 15, 0xFFFF]) % 65536, 2) + m[16:]
        elif k == 2: m = m + r.bytes(r.range(1, 9))
        kind = D.TYPE_KIND.get((mt, m[13])) if len(m) >= 16 else None
        plen = int.from_bytes(m[14:16], 'big') if len(m) >= 16 else 0
        cases.append(Case('m%d' % j, ['PKTNEW %d %s' % (mt, hx(m))], dict(kind=0, vkind=kind if kind else 0, size=len(m), psize=plen)))
    def proj(c, lines):
        return [l for l in lines if l.startswith(('V ', 'W', 'K '))] + anomalies(lines)
    impl, model = correspondence(res, cases, proj, judge_c03, 'validated payloads in bounds')
    res.cov['rule'] = ('per typed class: every length 0..header+8 as zeros / 0xFF / random, random consistent and inconsistent payloads, each inner length field set to 0, fits-1, fits, fits+1, max; capture-module / interface status payloads of 65.6-131 KB whose length-field chain crosses offset 65536; message-level buffers through isValidPacket + Packet(); '
                       'exact-size heap copies under ASan; judge: accepted => every (offset,length) view inside the payload. non-trivial = distinct buffers accepted by their validator (counted from the implementation transcript)')
    res.cov['samples'] = [sample_case(c) for c in cases[:3]]
    count_accepted(res, impl, cases)
    acc = {}
    for c in cases:
        k = c.meta.get('kind', 'corpus')
        a = any(l == 'V 1' for l in impl.get(c.cid, []))
        acc.setdefault(k, [0, 0])[0 if a else 1] += 1
    res.cov['input_distribution'] = {('kind %s' % k): dict(accepted=v[0], rejected=v[1]) for k, v in sorted(acc.items(), key=lambda kv: str(kv[0]))}

# ------------------------------------------------------------------ C13 builders
FIELDS = {1: [(0, 16), (1, 29), (2, 1), (3, 1), (4, 1), (5, 15), (6, 1), (7, 16)], 2: [(0, 16), (1, 29), (2, 1), (3, 1), (4, 1), (5, 21), (6, 1), (7, 16), (8, 3), (9, 1), (10, 1)],
          3: [(0, 16), (1, 6), (2, 2), (3, 8)], 8: [(0, 16)], 7: [(0, 16), (2, 8), (3, 32), (4, 32), (5, 32)],
          49: [(0, 64), (1, 64), (2, 32), (3, 16), (4, 8), (5, 8), (6, 8)], 50: [(0, 32), (1, 32), (2, 32), (3, 32), (4, 32), (5, 32), (6, 32), (7, 8), (8, 8), (9, 32)]}

def py_put(h, off, nbytes, lo, w, v):
    word = int.from_bytes(h[off:off + nbytes], 'big')
    mask = ((1 << w) - 1) << lo
    word = (word & ~mask) | ((v & ((1 << w) - 1)) << lo)
    h[off:off + nbytes] = word.to_bytes(nbytes, 'big')

# (kind, field) -> (offset, bytes, low bit, width) from DESIGN Appendix A
POS = {(1, 0): (0, 2, 0, 16), (1, 1): (4, 4, 0, 29), (1, 2): (4, 4, 29, 1), (1, 3): (4, 4, 31, 1), (1, 4): (4, 4, 30, 1), (1, 5): (8, 4, 0, 15), (1, 6): (8, 4, 31, 1), (1, 7): (12, 2, 0, 16),
       (3, 0): (0, 2, 0, 16), (3, 1): (4, 1, 0, 6), (3, 2): (4, 1, 6, 2), (3, 3): (6, 1, 0, 8), (8, 0): (0, 2, 0, 16),
       (7, 0): (0, 2, 0, 16), (7, 2): (3, 1, 0, 8), (7, 3): (4, 4, 0, 32), (7, 4): (8, 4, 0, 32), (7, 5): (12, 4, 0, 32),
       (49, 0): (0, 8, 0, 64), (49, 1): (8, 8, 0, 64), (49, 2): (16, 4, 0, 32), (49, 3): (20, 2, 0, 16), (49, 4): (22, 1, 0, 8), (49, 5): (23, 1, 0, 8), (49, 6): (25, 1, 0, 8),
       (50, 7): (28, 1, 0, 8), (50, 8): (29, 1, 0, 8), (50, 9): (32, 4, 0, 32)}
for f in range(7): POS[(50, f)] = (4 * f, 4, 0, 32)
for f, p in list(POS.items()):
    if f[0] == 1: POS[(2, f[1])] = p
POS[(2, 5)] = (8, 4, 0, 21); POS[(2, 8)] = (8, 4, 21, 3); POS[(2, 9)] = (8, 4, 24, 1); POS[(2, 10)] = (8, 4, 30, 1)

def dlc_code(n):
    return n if n <= 8 else {12: 9, 16: 10, 20: 11, 24: 12, 32: 13, 48: 14, 64: 15}.get(n, 0)

def canon(kind, hdr, data):
    """raw bytes determined by the final logical content"""
    h = bytearray(hdr)
    if kind in (1, 2):
        h[14] = dlc_code(len(data)); h[15] = len(data)
        return bytes(h) + data
    if kind == 3:
        h[7] = len(data); return bytes(h) + data
    if kind == 8:
        h[4:6] = be(len(data), 2); return bytes(h) + data
    if kind == 7:
        return bytes(h) + data
    if kind == 49:
        return bytes(h) + b''.join(cm_string(s) for s in data[:4]) + lp(data[4])
    if kind == 50:
        ids, vd = data
        return bytes(h) + be(len(ids), 2) + ids + bytes(len(ids) % 2) + be(len(vd), 2) + vd

def rand_data(rng, kind, thorough=False):
    if kind in (1, 2, 3):
        return rng.bytes(rng.choice([0, 1, 2, 7, 8, 9, 12, 16, 20, 24, 32, 48, 63, 64, 65, 128, 254, 255, rng.below(256)]))
    if kind in (7, 8):
        return rng.bytes(rng.choice([0, 1, 2, 3, 4, 5, 64, 1500, rng.below(300)] + ([65529, 65528] if thorough and rng.chance(1, 20) else [])))
    if kind == 49:
        def s(): return rng.bytes(rng.choice([0, 1, 2, 3, 10, 11, rng.below(60)] + ([1000] if rng.chance(1, 30) else []))).replace(b'\0', b'q')
        return [s(), s(), s(), s(), rng.bytes(rng.choice([0, 0, 1, 2, 5, 30]))]
    if kind == 50:
        return [rng.bytes(rng.choice([0, 1, 2, 3, 4, 9, 30])), rng.bytes(rng.choice([0, 0, 1, 2, 7]))]

def related(rng, kind, final):
    """prior content that differs from the final one by a single small edit: one element one byte longer / shorter, last byte
    changed, or identical"""
    def edit(b):
        k = rng.below(5)
        if k == 0: return b + bytes([rng.choice([0x41, 0x30, 1, 0xFF])])
        if k == 1 and b: return b[:-1]
        if k == 2 and b: return b[:-1] + bytes([(b[-1] ^ 1) or 1])
        if k == 3: return b + bytes([0x31, 0x32])
        return b
    if isinstance(final, list):
        out = list(final)
        j = rng.below(len(out))
        out[j] = edit(out[j])
        if kind == 49 and j < 4:
            out[j] = out[j].replace(b'\0', b'q')
        return out
    return edit(final)[:255] if kind in (1, 2, 3) else edit(final)

def odata(slot, kind, data):
    if kind == 49:
        return 'ODATA %d %s' % (slot, ' '.join(hx(x) for x in data))
    if kind == 50:
        return 'ODATA %d %s %s' % (slot, hx(data[0]), hx(data[1]))
    return 'ODATA %d %s' % (slot, hx(data))

def gen_c13(rng, cid, kind, data=None, thorough=False):
    final = rand_data(rng, kind, thorough) if data is None else data
    sets = []
    hdr = bytearray(HDR_SIZE[kind])
    for (f, w) in FIELDS[kind]:
        if rng.chance(1, 2):
            v = rng.next() & ((1 << w) - 1)
            if kind in (1, 2) and f == 0: v &= 0x3C00       # no bus-error flags: the validator would (rightly) reject
            if kind in (1, 2) and f == 7: v = 0
            if kind == 8 and f == 0: v &= 0xC4
            if kind == 7 and f == 0: v = v & 0xFFFC | rng.below(2)
            if kind == 50 and f == 8: v %= 3
            sets.append((f, v))
            py_put(hdr, *POS[(kind, f)], v)
    lines = []
    # object 1: earlier content (longer / shorter / different), then header fields, then the final data
    if rng.chance(1, 6):
        # ... or an object that holds FEWER bytes than its header (built over a short zero buffer; a moved-from object looks the same)
        lines.append('OSHORT 1 %d %s' % (kind, hx(bytes(rng.below(HDR_SIZE[kind])))))
    else:
        lines.append('ONEW 1 %d' % kind)
    for _ in range(rng.range(1, 2)):
        lines.append(odata(1, kind, rand_data(rng, kind)))
    for f, v in sets:
        lines.append('OSET 1 %d %d' % (f, v))
    if rng.chance(1, 2):
        lines.append(odata(1, kind, rand_data(rng, kind)))
    if rng.chance(1, 2):
        lines.append(odata(1, kind, related(rng, kind, final)))
    lines.append(odata(1, kind, final))
    cut = None
    if kind in (1, 2, 3, 7, 8) and len(final) and rng.chance(1, 5):
        # in-place truncation: setData called with the object's own data pointer
        cut = rng.choice([len(final), len(final) - 1, 1, max(1, len(final) // 2)])
        lines.append('ODATASELF 1 %d' % cut)
        final = final[:cut]
    lines += ['OSHOW 1', 'OFRAME 1 1']
    # object 2: fresh object, same header fields, same final data
    lines.append('ONEW 2 %d' % kind)
    for f, v in sets:
        lines.append('OSET 2 %d %d' % (f, v))
    lines.append(odata(2, kind, final))
    lines += ['OSHOW 2']
    return Case(cid, lines, dict(kind=kind, final=final, hdr=bytes(hdr)))

def judge_c13(case, lines):
    an = anomalies(lines)
    if an:
        return an[0]
    kind = case.meta['kind']; final = case.meta['final']
    want = canon(kind, case.meta['hdr'], final)
    rs = [l for l in lines if l.startswith('R ')]
    if len(rs) != 2:
        return 'expected two objects in the transcript'
    raws = [bytes.fromhex(r.split()[2][1:]) for r in rs]
    if raws[0] != raws[1]:
        return 'raw bytes depend on what the object held before (object with history %s.., fresh object %s..)' % (raws[0][-12:].hex(), raws[1][-12:].hex())
    if raws[0] != want:
        k = next((i for i in range(min(len(want), len(raws[0]))) if want[i] != raws[0][i]), min(len(want), len(raws[0])))
        return 'raw bytes differ from the layout at offset %d (got %d bytes, layout gives %d)' % (k, len(raws[0]), len(want))
    vs = [l for l in lines if l.startswith('V ')]
    if vs[0] != 'V 1':
        return 'the class validator rejects the built payload'
    w = [int(x) for x in [l for l in lines if l.startswith('W')][0].split()[1:]]
    n = len(raws[0])
    for (o, l) in VIEWS[kind]:
        if w[o] != -1 and (w[o] < 0 or w[o] + w[l] > n):
            return 'getter view out of bounds'
    if kind in (1, 2, 3, 8):
        o, l = VIEWS[kind][0]
        if w[l] != len(final) or (len(final) and raws[0][w[o]:w[o] + w[l]] != final):
            return 'getData/getDataLength do not return the data supplied'
    if kind == 7 and w[6] > 0:
        o, l = VIEWS[7][0]
        if w[o] != 16 or w[l] > len(final):
            return 'analog getData does not point at the samples'
    if kind == 49:
        for i in range(4):
            o, l = VIEWS[49][i]
            if raws[0][w[o]:w[o] + w[l]] != final[i]:
                return 'string %d read back as %r, supplied %r' % (i, raws[0][w[o]:w[o] + w[l]], final[i])
        if w[15] != len(final[4]) or raws[0][w[16]:w[16] + w[15]] != final[4]:
            return 'vendor data read back differs'
    if kind == 50:
        ids, vd = final
        if w[10] != len(ids) or (len(ids) and raws[0][w[11]:w[11] + len(ids)] != ids):
            return 'stream ids read back differ'
        if w[12] != len(vd) or (len(vd) and raws[0][w[13]:w[13] + len(vd)] != vd):
            return 'vendor data read back differs'
    # decoder accepts the result - a message carries at most 65535 payload bytes (16-bit length field): an analog payload of
    # 65520..65529 data bytes (16-byte header) is a legal object but cannot travel in one message, whatever the implementation
    if len(raws[0]) > 65535:
        return None
    ns = [l for l in lines if l.startswith('N ')]
    ks = [D.kparse(l) for l in lines if l.startswith('K ')]
    if not ns or ns[0].split()[1] != '1' or not ks:
        return 'the decoder does not return the built payload as one packet'
    ty = KIND_TYPE[kind][0] * 256 + KIND_TYPE[kind][1]
    if ks[0][0][11] != 1 or ks[0][0][12] != ty or ks[0][1] != raws[0]:
        return 'the decoder marks the built payload invalid or alters it'
    return None

def run_c13(res, rng):
    thorough = res.tier == 'thorough'
    cases = corpus_cases('C13')
    i = 0
    for kind in (1, 2, 3):
        for n in range(256):
            r = rng.fork('L%d_%d' % (kind, n))
            cases.append(gen_c13(r, 'L%d_%d' % (kind, n), kind, data=r.bytes(n))); i += 1
    for j in range(1200 if not thorough else 50000):
        r = rng.fork('b%d' % j)
        kind = r.choice(KINDS)
        cases.append(gen_c13(r, 'b%d' % j, kind, thorough=thorough))
    for n in ([65529] if not thorough else [65529, 65528, 65500, 40000]):
        for kind in (7, 8):
            r = rng.fork('big%d_%d' % (kind, n))
            cases.append(gen_c13(r, 'big%d_%d' % (kind, n), kind, data=r.bytes(n if kind == 8 else n - 10)))
    def proj(c, lines):
        return [l for l in lines if l.startswith(('R ', 'V ', 'W', 'K '))] + anomalies(lines)
    correspondence(res, cases, proj, judge_c13, 'payload builders')
    res.cov['rule'] = ('every data length 0..255 for CAN / CAN-FD / LIN; random and boundary lengths for Ethernet / analog (incl. 65529); strings of both parities (0..60, some 1000), stream-id lists and vendor data of both parities; '
                       'each case builds one object with earlier longer/shorter contents and one fresh object, sets random header fields (no bus-error flags), then the same final data; judge: raw bytes equal and equal to the Python layout canon, getters return the data, validator and decoder accept. non-trivial = distinct cases with non-empty final data')
    res.cov['distinct_nontrivial'] = len(set(tuple(c.lines) for c in cases if c.meta.get('final')))
    kinds = {}
    for c in cases:
        kinds[c.meta.get('kind')] = kinds.get(c.meta.get('kind'), 0) + 1
    res.cov['input_distribution'] = dict(cases_per_kind=kinds)
    res.cov['samples'] = [sample_case(c, 8) for c in cases[300:302]]

# ------------------------------------------------------------------ C14 values
def pool_packets(rng, n):
    pool = []
    base = None
    for i in range(n):
        k = rng.below(10)
        if k >= 8 and base is not None:
            # differs from the base packet in exactly ONE header field (each comparison of operator== on its own)
            q = dict(base)
            f = rng.choice(['ver', 'dev', 'stream', 'seq', 'ts', 'ifid', 'vendor', 'flags', 'segtype'])
            if f == 'segtype': q['segtype'] = rng.choice([x for x in (0, 4, 8, 12) if x != base['segtype']])
            elif f == 'ts': q['ts'] = base['ts'] ^ (1 << rng.below(64))
            elif f == 'ifid': q['ifid'] = base['ifid'] ^ (1 << rng.below(32))
            elif f in ('dev', 'seq', 'vendor'): q[f] = base[f] ^ (1 << rng.below(16))
            else: q[f] = base[f] ^ (1 << rng.below(8))
            pool.append(q)
        elif k == 0:
            pool.append(None)                      # empty packet (no payload)
        elif k == 1:
            p = D_packet(rng, 0)                   # zero-length payload
            if rng.chance(1, 2):                   # ... that looks like a default-constructed packet apart from carrying a payload
                p.update(ver=1, ts=0, ifid=0, vendor=0, flags=0, dev=0, stream=0, seq=0, segtype=0)
            if rng.chance(1, 2):
                base = p
            pool.append(p)
        elif k == 2 and base is not None:
            q = dict(base)                          # equal-looking
            pool.append(q)
        elif k == 3 and base is not None:
            q = dict(base); q['payload'] = bytes([base['payload'][0] ^ 1]) + base['payload'][1:] if base['payload'] else b''
            pool.append(q)
        elif k == 4 and base is not None:
            q = dict(base); q['pt'] = (base['pt'] % 254) + 1
            pool.append(q)
        else:
            p = D_packet(rng, rng.choice([1, 2, 8, 30]))
            base = p
            pool.append(p)
    return pool

def D_packet(rng, n):
    return dict(ver=rng.range(0, 255), mt=rng.choice([1, 3, 255, 2]), pt=rng.range(1, 255), ts=rng.next(), ifid=rng.next() & 0xFFFFFFFF, vendor=rng.below(65536),
                flags=rng.below(256), dev=rng.below(65536), stream=rng.below(256), seq=rng.below(65536), segtype=rng.choice([0, 4, 8, 12]), payload=rng.bytes(n))

def pk_line(i, p):
    if p is None:
        return 'PEMPTY %d' % i
    return 'PKT %d %d %d %d %d %d %d %d %d %d %d %d %s' % (i, p['ver'], p['mt'], p['pt'], p['ts'], p['ifid'], p['vendor'], p['flags'], p['dev'], p['stream'], p['seq'], p['segtype'], hx(p['payload']))

def knums(p):
    """K-line numbers + payload of a packet value (spec of what 'observable fields' are)"""
    if p is None:
        return ([1, 0, 0, 0, 0, 0, 0, 0, 0, 0, 0, 0, 0, 0], b'')
    ty = p['mt'] * 256 + p['pt']
    return ([p['ver'], p['dev'], p['stream'], p['seq'], p['mt'], p['pt'], p['ts'], p['ifid'], p['vendor'], p['flags'], p['segtype'], 1 if (p['mt'] and p['pt']) else 0, ty, len(p['payload'])], bytes(p['payload']))

def mut(p):
    if p is None:
        return dict(ver=1, mt=None, pt=0, ts=1, ifid=0, vendor=0, flags=1, dev=0, stream=0, seq=0, segtype=0, payload=b'', nopl=True)
    q = dict(p); q['ts'] = (p['ts'] + 1) % 2 ** 64; q['flags'] = p['flags'] ^ 1
    if p['payload']:
        q['payload'] = bytes([p['payload'][0] ^ 0xFF]) + p['payload'][1:]
    return q

def gen_c14(rng, cid, npool=6, nops=14):
    pool = pool_packets(rng, npool)
    lines = [pk_line(i, p) for i, p in enumerate(pool)]
    state = {i: p for i, p in enumerate(pool)}
    exp = []  # expected observations
    for _ in range(nops):
        op = rng.choice(['XCOPY', 'XMOVE', 'XASG', 'XMASG', 'XEQ', 'XEQ', 'XMUTCOPY', 'XSELF', 'XTYPE', 'XETH', 'XRAWHDR', 'XCMPEDIT'])
        a, b = rng.below(npool), rng.below(npool)
        if op == 'XEQ':
            lines.append('XEQ %d %d' % (a, b)); lines.append('XEQ %d %d' % (b, a)); lines.append('XEQ %d %d' % (a, a))
            exp.append(('eq', state[a], state[b]))
        elif op == 'XCOPY':
            lines += ['XCOPY %d %d' % (a, b), 'XSHOW %d' % a, 'XSHOW %d' % b]
            state[a] = state[b]; exp.append(('show', state[a])); exp.append(('show', state[b]))
        elif op == 'XASG':
            lines += ['XASG %d %d' % (a, b), 'XSHOW %d' % a, 'XSHOW %d' % b]
            state[a] = state[b]; exp.append(('show', state[a])); exp.append(('show', state[b]))
        elif op == 'XSELF':
            lines += ['XASG %d %d' % (a, a), 'XSHOW %d' % a, 'XMASG %d %d' % (a, a), 'XSHOW %d' % a]
            exp.append(('show', state[a])); exp.append(('show', state[a]))
        elif op == 'XMOVE':
            lines += ['XMOVE %d %d' % (a, b), 'XSHOW %d' % a]
            if a != b:
                state[a] = state[b]; state[b] = None
            exp.append(('show', state[a]))
        elif op == 'XMASG':
            lines += ['XMASG %d %d' % (a, b), 'XSHOW %d' % a]
            old = state[a]; state[a] = state[b]; state[b] = old
            exp.append(('show', state[a]))
        elif op == 'XRAWHDR':
            # the raw headers written into a destination that already holds other data (fill byte 0xA5 / 0xFF / 0x00)
            lines.append('XRAWHDR %d %d' % (a, rng.choice([0xA5, 0xFF, 0x00, 0x5A])))
            exp.append(('rawhdr', state[a]))
        elif op == 'XETH':
            # edit the payload in place through the non-const getPayload() (size changes under the packet), then observe / copy it
            if state[a] is None or state[a].get('nopl'):
                continue
            new = rng.bytes(rng.choice([0, 1, 5, 40, len(state[a]['payload']) + 1]))
            old = state[a]['payload']
            q = dict(state[a]); q['payload'] = (old + bytes(6))[:4] + be(len(new), 2) + new
            lines += ['XETH %d %s' % (a, hx(new)), 'XSHOW %d' % a]
            state[a] = q; exp.append(('show', q))
        elif op == 'XTYPE':
            # retag the payload through its public setters (bytes stay): also to not-valid types, which constructors would zero-fill
            if state[a] is None or state[a].get('nopl'):
                continue
            mt, raw = rng.choice([(0, 0), (0, 0), (0, 7), (1, 0), (3, 1), (1, 1), (255, 255), (2, 9)])
            lines += ['XTYPE %d %d %d %d' % (a, mt, raw, rng.below(2)), 'XSHOW %d' % a]
            q = dict(state[a]); q['mt'] = mt; q['pt'] = raw
            state[a] = q; exp.append(('show', q))
        elif op == 'XCMPEDIT':
            # compare - edit a header field in place through the typed setter - compare again - undo the edit - compare again, on a long
            # payload and on copies of it: what == answers must follow the current bytes, never an earlier comparison
            if a == b:
                continue
            n = rng.choice([6, 63, 64, 65, 200, 1000])
            base = dict(ver=1, mt=1, pt=8, ts=rng.next(), ifid=rng.below(1 << 32), vendor=0, flags=0, dev=rng.below(65536), stream=rng.below(256), seq=0, segtype=0,
                        payload=be(rng.below(65536), 2) + bytes(2) + be(n - 6, 2) + rng.bytes(n - 6))
            lines.append(pk_line(50, base)); lines.append('XCOPY %d 50' % a); lines.append('XCOPY %d 50' % b)
            state[a] = base; state[b] = base
            f0 = int.from_bytes(base['payload'][:2], 'big'); f1 = f0 ^ (1 << rng.below(16))
            def eq3():
                lines.append('XEQ %d %d' % (a, b)); lines.append('XEQ %d %d' % (b, a)); lines.append('XEQ %d %d' % (a, a))
                exp.append(('eq', state[a], state[b]))
            if rng.chance(1, 2):
                eq3()
            q = dict(base); q['payload'] = be(f1, 2) + base['payload'][2:]
            lines.append('XFLAGS %d %d' % (b, f1)); state[b] = q
            eq3()
            lines.append('XFLAGS %d %d' % (b, f0)); state[b] = base
            eq3()
            lines += ['XCOPY %d %d' % (a, b), 'XSHOW %d' % a]; state[a] = state[b]; exp.append(('show', state[a]))
            eq3()
        elif op == 'XMUTCOPY':
            # a copy shares no state with its original: mutate the copy, re-read the original
            if state[b] is None or a == b:
                continue
            lines += ['XCOPY %d %d' % (a, b), 'XMUT %d' % a, 'XSHOW %d' % b, 'XSHOW %d' % a]
            exp.append(('show', state[b])); state[a] = mut(state[b]); exp.append(('show', state[a]))
    return Case(cid, lines, dict(exp=exp))

def fields_equal(a, b):
    return knums(a) == knums(b)

def judge_c14(case, lines):
    an = anomalies(lines)
    if an:
        return an[0]
    obs = [l for l in lines if l.startswith(('K ', 'B '))]
    raws = [l for l in lines if l.startswith(('R 0 ', 'R -'))]
    ri = 0
    i = 0
    for e in case.meta['exp']:
        if e[0] == 'rawhdr':
            if ri >= len(raws):
                return 'transcript out of step (raw headers)'
            line = raws[ri]; ri += 1
            p = e[1]
            if p is None or p.get('nopl') or line.startswith('R -'):
                continue
            got = bytes.fromhex(line.split()[2][1:])    # headers of a packet without payload: decided by the comparison with the model
            mt = p['mt']
            ident = p['ifid'] if mt == 1 else (p['vendor'] if mt in (3, 255) else 0)
            want = bytes([p['ver'], 0]) + be(p['dev'], 2) + bytes([mt, p['stream']]) + be(p['seq'], 2) + \
                   be(p['ts'], 8) + be(ident, 4) + bytes([p['flags'], p['pt']]) + be(len(p['payload']) % 65536, 2)
            if got != want:
                return 'raw headers written into a used destination: got %s, the layout prescribes %s' % (got.hex(), want.hex())
            continue
        if e[0] == 'show':
            if i >= len(obs) or not obs[i].startswith('K '):
                return 'transcript out of step'
            got = D.kparse(obs[i]); i += 1
            want = knums(e[1])
            if (got[0], got[1]) != (want[0], want[1]):
                d = [x for x in range(14) if got[0][x] != want[0][x]]
                return 'after copy/move/assign the object differs from the source value (K fields %r; got %r want %r)' % (d, got[0], want[0])
        else:
            if i + 2 >= len(obs):
                return 'transcript out of step'
            ab, ba, aa = [[int(x) for x in o.split()[1:]] for o in obs[i:i + 3]]; i += 3
            if aa[0] != 1:
                return 'a == a is false'
            if ab[0] != ba[0]:
                return 'equality is not symmetric'
            if ab[1] != 1 - ab[0] or aa[1] != 0:
                return 'operator!= is not the negation of operator=='
            x, y = e[1], e[2]
            if x is not None and y is not None and x['payload'] and y['payload']:
                if bool(ab[0]) != fields_equal(x, y):
                    return 'a == b is %d but field-by-field comparison says %s' % (ab[0], fields_equal(x, y))
    return None

def run_c14(res, rng):
    n = 1500 if res.tier == 'quick' else 60000
    cases = corpus_cases('C14') + [gen_c14(rng.fork('v%d' % i), 'v%d' % i) for i in range(n)]
    # payload objects: copy / assign / equality / no shared state
    for i in range(300 if res.tier == 'quick' else 5000):
        r = rng.fork('y%d' % i)
        k1, k2 = r.choice(KINDS), r.choice(KINDS)
        a, b = D.rand_payload(r, k1, True), D.rand_payload(r, k2, True)
        lines = ['ONEW 1 %d' % k1, 'ONEW 2 %d' % k2, odata(1, k1, rand_data(r, k1)), odata(2, k2, rand_data(r, k2)), 'YEQ 1 1', 'YEQ 1 2', 'YEQ 2 1', 'YCOPY 3 1', 'YEQ 3 1', 'OSHOW 3', 'YMUT 3', 'OSHOW 1', 'YEQ 3 1',
                 'YASG 2 1', 'YEQ 2 1', 'OSHOW 2', 'TEQ 770 770 %s %s' % (hx(a), hx(a)), 'TEQ 770 771 %s %s' % (hx(a), hx(a)), 'TEQ 770 770 %s %s' % (hx(a), hx(b))]
        cases.append(Case('y%d' % i, lines, dict(exp=[], payload_case=True)))
    def proj(c, lines):
        return [l for l in lines if l.startswith(('K ', 'B ', 'R ', 'V ', 'W'))] + anomalies(lines)
    def judge(c, lines):
        if c.meta.get('payload_case'):
            an = anomalies(lines)
            if an: return an[0]
            b = [l for l in lines if l.startswith('B ')]
            r = [l for l in lines if l.startswith('R ')]
            if len(b) < 9 or len(r) < 3: return 'transcript incomplete'
            if b[0] != 'B 1 0': return 'payload a == a is false'
            if b[1] != b[2]: return 'payload equality is not symmetric'
            if b[3] != 'B 1 0': return 'a copy of a payload does not compare equal to its source'
            if r[0] != r[1]: return 'mutating a copy changed the original payload (shared state) or the copy differed'
            if b[5] != 'B 1 0' or r[2] != r[1]: return 'assigning a payload does not yield the source value'
            if b[6].split()[1:] != ['1', '1'] : return 'TECMP payload equality is not reflexive / value based'
            if b[7].split()[1] != '0': return 'TECMP payloads of different type compare equal'
            return None
        return judge_c14(c, lines)
    correspondence(res, cases, proj, judge, 'value semantics')
    res.cov['rule'] = 'pools of 6 packets (random, empty, zero-length payload, equal-looking, one byte / type different) x 14 random operations from {copy-construct, move-construct, copy-assign, move-assign, self-assign, ==/!= in both orders and on itself, copy-then-mutate-the-copy}; payload-object scripts (copy, assign, ==, mutate the copy, TECMP payload ==); judge = Python value-semantics simulation. non-trivial = distinct scripts'
    res.cov['distinct_nontrivial'] = len(set(tuple(c.lines) for c in cases))
    res.cov['samples'] = [sample_case(c, 10) for c in cases[:2]]

# ------------------------------------------------------------------ C15 TECMP
def gen_c15(rng, cid):
    dev, ifid, ts = rng.below(256), rng.next() & 0xFFFFFFFF, rng.next()
    kind = rng.choice(['can', 'canfd', 'lin', 'cm', 'bus', 'other', 'bad', 'canbig'])
    exp = None
    extra = rng.bytes(rng.choice([0, 0, 0, 2, 7]))
    if kind in ('can', 'canfd'):
        dlc = rng.choice([0, 1, 7, 8]) if kind == 'can' else rng.choice([9, 12, 16, 20, 24, 32, 48, 64, 10, 63])
        arb = rng.next() & 0xFFFFFFFF
        data = rng.bytes(dlc)
        crc = rng.bytes(rng.choice([0, 3, 3, 1]))
        pl = be(arb, 4) + bytes([dlc]) + data + crc
        f = tecmp_hdr(dev, 3, rng.choice([2, 3]), len(pl), ifid=ifid, ts=ts, seq=rng.below(65536), devflags=rng.below(65536), dataflags=rng.below(65536)) + pl + extra
        exp = [dict(kind='can' if dlc <= 8 else 'canfd', arb=arb & 0x1FFFFFFF, data=data, dev=dev, ts=ts, ifid=ifid)]
    elif kind == 'canbig':
        # length byte above the CAN-FD maximum with that many bytes really present: whatever is returned must come from the buffer
        dlc = rng.choice([65, 66, 67, 68, 72, 100, 200, 255])
        pl = be(rng.next() & 0xFFFFFFFF, 4) + bytes([dlc]) + rng.bytes(dlc) + rng.bytes(rng.choice([0, 3]))
        f = tecmp_hdr(dev, 3, rng.choice([2, 3]), len(pl), ifid=ifid, ts=ts) + pl
        exp = None
    elif kind == 'lin':
        n = rng.choice([0, 1, 2, 8, 20])
        data = rng.bytes(n); pid = rng.below(256); cs = rng.below(256)
        pl = bytes([pid, n]) + data + bytes([cs])
        f = tecmp_hdr(dev, 3, 4, len(pl), ifid=ifid, ts=ts) + pl + extra
        exp = [dict(kind='lin', id=pid & 0x3F, data=data, checksum=cs if not extra or True else cs, dev=dev, ts=ts, ifid=ifid)]
    elif kind == 'cm':
        serial = rng.choice([0, 1, 23140065, 0xFFFFFFFF, rng.next() & 0xFFFFFFFF])
        sw = [rng.below(256) for _ in range(3)]; hw = [rng.below(256) for _ in range(2)]
        pl = bytes([rng.below(256), rng.below(256), rng.below(256), 0]) + be(rng.below(65536), 2) + be(rng.below(65536), 2) + be(serial, 4) + bytes([0] + sw + hw) + rng.bytes(18)
        f = tecmp_hdr(dev, 1, rng.choice([0, 0, 5]), len(pl), ifid=ifid, ts=ts) + pl + extra
        exp = [dict(kind='cm', serial=str(serial).encode(), hw=('v%d.%d' % tuple(hw)).encode(), sw=('v%d.%d.%d' % tuple(sw)).encode(), dev=dev, ts=ts, ifid=ifid)]
    elif kind == 'bus':
        n = rng.choice([0, 1, 2, 9, 40])
        ents = [(rng.next() & 0xFFFFFFFF, rng.next() & 0xFFFFFFFF, rng.next() & 0xFFFFFFFF) for _ in range(n)]
        pl = rng.bytes(12) + b''.join(be(a, 4) + be(b, 4) + be(c, 4) for a, b, c in ents)
        f = tecmp_hdr(dev, 2, 0, len(pl), ifid=ifid, ts=ts) + pl
        exp = [dict(kind='bus', ifid=a, total=b, errors=c, dev=dev, ts=ts) for a, b, c in ents]
    elif kind == 'other':
        mt = rng.choice([0, 4, 10, 5, 77, 254, 3])
        dt = rng.choice([8, 0x10, 0x20, 0x80, 0, 1, 5, 0x0200, 0x0300, 0xFFFF]) if mt == 3 else rng.below(65536)
        pl = rng.bytes(rng.range(1, 40))
        f = tecmp_hdr(dev, mt, dt, len(pl), ifid=ifid, ts=ts) + pl
        exp = []
    else:
        # inner lengths that do not fit the buffer
        k = rng.below(5)
        if k == 0:
            pl = be(rng.next() & 0xFFFFFFFF, 4) + bytes([rng.range(3, 255)]) + rng.bytes(2); dt, mt = rng.choice([2, 3]), 3
        elif k == 1:
            pl = bytes([rng.below(256), rng.range(4, 255)]) + rng.bytes(3); dt, mt = 4, 3
        elif k == 2:
            pl = rng.bytes(rng.range(1, 35)); dt, mt = 0, 1
        elif k == 3:
            pl = rng.bytes(rng.range(1, 11)); dt, mt = 0, 2
        else:
            pl = rng.bytes(rng.range(1, 4)); dt, mt = rng.choice([2, 3]), 3
        f = tecmp_hdr(dev, mt, dt, len(pl), ifid=ifid, ts=ts) + pl
        if rng.chance(1, 3):
            f = tecmp_hdr(dev, mt, dt, len(pl) + rng.range(1, 30), ifid=ifid, ts=ts) + pl  # announced payload longer than the buffer
        exp = []
    return Case(cid, [D.feed_line(1, f)], dict(frames=[f], exp=exp))

def c15_siblings(rng, cid):
    """three to five TECMP messages decoded back to back in ONE case that differ from each other in a single field (same serial /
    other hardware version, same entry / other counter, ...): the conversion must be a function of the buffer alone"""
    dev, ifid, ts = rng.below(256), rng.next() & 0xFFFFFFFF, rng.next()
    kind = rng.choice(['cm', 'cm', 'bus', 'can', 'lin'])
    frames, exps = [], []
    if kind == 'cm':
        serial = rng.choice([0, 1, 23140065, rng.next() & 0xFFFFFFFF])
        sw = [rng.below(256) for _ in range(3)]; hw = [rng.below(256) for _ in range(2)]
        head = bytes([rng.below(256), rng.below(256), rng.below(256), 0]) + be(rng.below(65536), 2) + be(rng.below(65536), 2)
        tail = rng.bytes(18)
        for _ in range(rng.range(3, 5)):
            f = rng.choice(['hw0', 'hw1', 'sw', 'serial', 'none', 'dev', 'ts'])
            if f == 'hw0': hw = [(hw[0] + rng.range(1, 255)) & 255, hw[1]]
            elif f == 'hw1': hw = [hw[0], (hw[1] + rng.range(1, 255)) & 255]
            elif f == 'sw': sw = list(sw); sw[rng.below(3)] ^= 1 << rng.below(8)
            elif f == 'serial': serial ^= 1 << rng.below(32)
            elif f == 'dev': dev = (dev + 1) & 255
            elif f == 'ts': ts = (ts + 1) % 2 ** 64
            pl = head + be(serial, 4) + bytes([0] + sw + hw) + tail
            frames.append(tecmp_hdr(dev, 1, 0, len(pl), ifid=ifid, ts=ts) + pl)
            exps.append([dict(kind='cm', serial=str(serial).encode(), hw=('v%d.%d' % tuple(hw)).encode(), sw=('v%d.%d.%d' % tuple(sw)).encode(), dev=dev, ts=ts, ifid=ifid)])
    elif kind == 'bus':
        n = rng.choice([1, 2, 3])
        ents = [[rng.next() & 0xFFFFFFFF, rng.next() & 0xFFFFFFFF, rng.next() & 0xFFFFFFFF] for _ in range(n)]
        head = rng.bytes(12)
        for _ in range(rng.range(3, 5)):
            ents = [list(e) for e in ents]
            ents[rng.below(n)][rng.below(3)] ^= 1 << rng.below(32)
            pl = head + b''.join(be(a, 4) + be(b, 4) + be(c, 4) for a, b, c in ents)
            frames.append(tecmp_hdr(dev, 2, 0, len(pl), ifid=ifid, ts=ts) + pl)
            exps.append([dict(kind='bus', ifid=a, total=b, errors=c, dev=dev, ts=ts) for a, b, c in ents])
    elif kind == 'can':
        dlc = rng.choice([1, 7, 8]); arb = rng.next() & 0xFFFFFFFF; data = bytearray(rng.bytes(dlc)); crc = rng.bytes(3)
        for _ in range(rng.range(3, 5)):
            if rng.chance(1, 2): data[rng.below(dlc)] ^= 1 << rng.below(8)
            else: arb ^= 1 << rng.below(29)
            pl = be(arb, 4) + bytes([dlc]) + bytes(data) + crc
            frames.append(tecmp_hdr(dev, 3, 2, len(pl), ifid=ifid, ts=ts) + pl)
            exps.append([dict(kind='can', arb=arb & 0x1FFFFFFF, data=bytes(data), dev=dev, ts=ts, ifid=ifid)])
    else:
        n = rng.choice([1, 2, 8]); data = bytearray(rng.bytes(n)); pid = rng.below(256); cs = rng.below(256)
        for _ in range(rng.range(3, 5)):
            k = rng.below(3)
            if k == 0: data[rng.below(n)] ^= 1 << rng.below(8)
            elif k == 1: pid ^= 1 << rng.below(6)
            else: cs ^= 1 << rng.below(8)
            pl = bytes([pid, n]) + bytes(data) + bytes([cs])
            frames.append(tecmp_hdr(dev, 3, 4, len(pl), ifid=ifid, ts=ts) + pl)
            exps.append([dict(kind='lin', id=pid & 0x3F, data=bytes(data), checksum=cs, dev=dev, ts=ts, ifid=ifid)])
    return Case(cid, [D.feed_line(1, f) for f in frames], dict(frames=frames, exps=exps))

def judge_c15_seq(case, lines):
    an = anomalies(lines)
    if an:
        return an[0]
    calls = D.calls_of(lines)
    if len(calls) != len(case.meta['frames']):
        return 'transcript has %d decode calls, script %d' % (len(calls), len(case.meta['frames']))
    for i, ((n, ks, _), exp) in enumerate(zip(calls, case.meta['exps'])):
        sub = Case(case.cid, [], dict(exp=exp))
        r = judge_c15(sub, ['K ' + ' '.join(map(str, k[0])) + ' x' + k[1].hex() for k in ks])
        if r:
            return 'message %d of the sequence: %s' % (i, r)
    return None

def judge_c15(case, lines):
    an = anomalies(lines)
    if an:
        return an[0]
    ks = [D.kparse(l) for l in lines if l.startswith('K ')]
    exp = case.meta['exp']
    if exp is None:
        return None     # decided by the comparison with the model (and the sanitizers)
    if len(ks) != len(exp):
        return 'TECMP message yields %d packets, expected %d' % (len(ks), len(exp))
    for (n, p), e in zip(ks, exp):
        if n[1] != e['dev'] or n[6] != e['ts']:
            return 'device id / timestamp differ from the TECMP header'
        if e['kind'] in ('can', 'canfd'):
            ty = 257 if e['kind'] == 'can' else 258
            if n[12] != ty or n[7] != e['ifid']: return 'CAN packet type / interface id wrong'
            if int.from_bytes(p[4:8], 'big') & 0x1FFFFFFF != e['arb']: return 'arbitration id differs'
            if p[15] != len(e['data']) or p[16:16 + p[15]] != e['data']: return 'CAN data / length differ'
        elif e['kind'] == 'lin':
            if n[12] != 259 or n[7] != e['ifid']: return 'LIN packet type / interface id wrong'
            if p[4] & 0x3F != e['id'] or p[6] != e['checksum'] or p[7] != len(e['data']) or p[8:8 + p[7]] != e['data']: return 'LIN id / checksum / data differ'
        elif e['kind'] == 'cm':
            if n[12] != 769: return 'capture module packet type wrong'
            pos = 26; strs = []
            for _ in range(4):
                l = int.from_bytes(p[pos:pos + 2], 'big'); s = p[pos + 2:pos + 2 + l]; strs.append(s.split(b'\0')[0]); pos += 2 + l
            if strs[1] != e['serial'] or strs[2] != e['hw'] or strs[3] != e['sw']: return 'serial / version strings differ: %r' % strs
        elif e['kind'] == 'bus':
            if n[12] != 770 or n[7] != e['ifid']: return 'interface status packet type / interface id wrong'
            if int.from_bytes(p[0:4], 'big') != e['ifid'] or int.from_bytes(p[4:8], 'big') != e['total'] or int.from_bytes(p[20:24], 'big') != e['errors']:
                return 'per-interface counters differ'
    return None

def run_c15(res, rng):
    n = 2500 if res.tier == 'quick' else 120000
    cases = corpus_cases('C15') + [gen_c15(rng.fork('t%d' % i), 't%d' % i) for i in range(n)]
    # dispatch sweep on the implementation: all 256 message types x a data-type sample, short payload (must yield no packet unless supported)
    sw = []
    for mt in range(256):
        for dt in ([0, 1, 2, 3, 4, 5, 8, 0x10, 0x20, 0x80, 0xFF, 0x100, 0x200, 0x300, 0x400, 0xFF00, 0xFFFF] if res.tier == 'quick' else list(range(300)) + [0xFF00, 0xFFFF, 0x8000]):
            if mt in (1, 2) or (mt == 3 and dt in (2, 3, 4)):
                continue
            sw.append(tecmp_hdr(7, mt, dt, 40) + bytes(40))
    for j in range(0, len(sw), 200):
        fr = sw[j:j + 200]
        c = Case('sweep%d' % j, [D.feed_line(1, f) for f in fr], dict(frames=fr, exp=[]))
        cases.append(c)
    ct = D.tecmp_consistent_truncations(rng.fork('ctrunc'))
    for j in range(0, len(ct), 60):
        cases.append(Case('sweepct%d' % j, [D.feed_line(1, f) for f in ct[j:j + 60]], dict(frames=ct[j:j + 60], exp=[])))
    cases += [c15_siblings(rng.fork('sib%d' % i), 'sib%d' % i) for i in range(400 if res.tier == 'quick' else 20000)]
    # what the all-static TECMP decoder returned when it was called during static initialisation of the process (harness probe)
    cases.append(Case('sinit', ['SINIT'], dict(frames=[], exp=[])))
    def judge(c, lines):
        if c.cid == 'sinit':
            an = anomalies(lines)
            if an: return an[0]
            ns = [int(l.split()[1]) for l in lines if l.startswith('N ')]
            if ns != [0, 1, 0]:
                return 'called during static initialisation, the TECMP decoder returns %r packets for (truncated status, CAN, short status); expected [0, 1, 0]' % (ns,)
            return None
        if c.cid.startswith('sib'):
            return judge_c15_seq(c, lines)
        if c.cid.startswith('sweep'):
            an = anomalies(lines)
            if an: return an[0]
            if any(l.startswith('K ') for l in lines): return 'unsupported TECMP message / data type yields a packet'
            return None
        return judge_c15(c, lines)
    correspondence(res, cases, (lambda c, l: [x if x.startswith('K ') else 'N ' + x.split()[1] for x in l if x.startswith(('N ', 'K '))] + anomalies(l)), judge, 'TECMP conversion')
    res.cov['rule'] = 'TECMP frames from the table serialiser: CAN (dlc 0-8), CAN-FD (dlc 9-64), LIN (0-20 bytes), capture-module status (random serial / versions), bus status (0-40 entries), unsupported message/data types, inner lengths that do not fit, announced payload longer than the buffer, trailing bytes; sequences of 3-5 messages decoded back to back that differ from each other in one field (same serial / other hardware version, one counter, one data byte); the decoder called during static initialisation of the process (before main) on three canned frames; plus a sweep of all 256 message types x 17 (quick) / 303 (thorough) data types; status messages cut at every length below their fixed part with the inner vendor-data-length word rewritten to be consistent with the bytes present; judge = Python conversion spec. non-trivial = distinct frames of supported kinds'
    res.cov['distinct_nontrivial'] = len(set(tuple(c.lines) for c in cases if c.meta.get('exp')))
    res.cov['samples'] = [sample_case(c) for c in cases[:3]]

# ------------------------------------------------------------------ C16 status
def st_packet(rng, kind, dev, ifid=0):
    if kind == 'cm':
        pay = cm_payload(uptime=rng.next(), strings=[rng.bytes(rng.below(4)).replace(b'\0', b'x') for _ in range(4)])
        return dict(ver=1, mt=3, pt=1, ts=rng.next(), ifid=0, vendor=rng.below(65536), flags=0, dev=dev, stream=rng.below(3), seq=0, segtype=0, payload=pay)
    if kind == 'if':
        pay = if_payload(ifid=ifid, c=[rng.next() & 0xFFFFFFFF for _ in range(6)], status=rng.below(3))
        return dict(ver=1, mt=3, pt=2, ts=rng.next(), ifid=0, vendor=rng.below(65536), flags=0, dev=dev, stream=rng.below(3), seq=0, segtype=0, payload=pay)
    if kind == 'other':
        # control / vendor / undefined message types whose payload-type BYTE equals that of the status messages (1, 2), payloads of any size
        return dict(ver=1, mt=rng.choice([2, 255, 2, 255, 4, 0x7F]), pt=rng.choice([1, 2, 1, 2, 3]), ts=rng.next(), ifid=ifid, vendor=rng.below(65536), flags=0, dev=dev,
                    stream=0, seq=0, segtype=0, payload=rng.choice([rng.bytes(rng.range(1, 3)), rng.bytes(60), be(ifid, 4) + rng.bytes(40), cm_payload(uptime=rng.next())]))
    return dict(ver=1, mt=1, pt=rng.choice([1, 0x7E, 1, 2]), ts=rng.next(), ifid=ifid, vendor=0, flags=0, dev=dev, stream=0, seq=0, segtype=0, payload=can_payload(data=rng.bytes(4)))

def gen_c16(rng, cid, nops, devs=(1, 2, 3), ifs=(10, 20, 30)):
    lines = []
    spec = {}   # dev -> [packet, {ifid: packet}]   (the selected tracker object)
    spec2 = {}  # the other tracker object
    exp = []
    slot = 0
    probes = list(devs) + list(ifs) + [99]
    last = {}
    for _ in range(nops):
        k = rng.below(12)
        d = rng.choice(devs); i = rng.choice(ifs)
        if k < 7:
            kind = rng.choice(['cm', 'cm', 'if', 'if', 'if', 'data', 'other'])
            key = (kind, d, i if kind != 'cm' else 0)
            if key in last and rng.chance(2, 5):
                # the same message again with the SAME payload and only header fields changed (an idle interface whose flags /
                # vendor id / timestamp move), or with one payload byte changed
                p = dict(last[key])
                for f in rng.choice([['flags'], ['vendor'], ['flags', 'vendor'], ['ts'], ['stream'], ['ver'], ['payload'], ['flags', 'ts']]):
                    if f == 'flags': p['flags'] = rng.choice([0, 1, 2, 3, 0x10, 0x20, 0x80, 0xB3, rng.below(256) & 0xB3])
                    elif f == 'vendor': p['vendor'] = rng.below(65536)
                    elif f == 'ts': p['ts'] = rng.next()
                    elif f == 'stream': p['stream'] = rng.below(256)
                    elif f == 'ver': p['ver'] = rng.range(1, 255)
                    else:
                        b = bytearray(p['payload']); q = (rng.below(8) if kind == 'cm' else 4 + rng.below(8)) if kind in ('cm', 'if') else len(b) - 1; b[min(q, len(b) - 1)] ^= 1 << rng.below(8); p['payload'] = bytes(b)
            else:
                p = st_packet(rng, kind, d, i)
                p['flags'] = rng.choice([0, 0, 1, 2, 0x80, rng.below(256) & 0xB3])
            last[key] = p
            lines.append(pk_line(slot, p)); lines.append('SUPD %d' % slot); slot += 1
            if d in spec:
                if kind == 'cm': spec[d][0] = p
                elif kind == 'if': spec[d][1][i] = p
            elif kind == 'cm':
                spec[d] = [p, {}]
        elif k == 7 and rng.chance(1, 2):
            # copies of a tracker are separate objects: copy, then keep using either one
            import copy as _copy
            if rng.chance(1, 2):
                lines.append('SCOPY'); spec2 = _copy.deepcopy(spec)
            else:
                lines.append('SOTHER'); spec, spec2 = spec2, spec
        elif k == 8 and rng.chance(1, 2):
            # a re-announce job feeds the tracker its own stored interface packet, by reference: nothing may change
            lines.append('SUPDSELF %d %d' % (d, i))
        elif k < 9:
            lines.append('SRMDEV %d' % d); spec.pop(d, None)
        elif k < 11:
            lines.append('SRMIF %d %d' % (d, i))
            if d in spec: spec[d][1].pop(i, None)
        else:
            lines.append('SCLR'); spec = {}
        lines.append('SSHOW ' + ' '.join(map(str, probes)))
        exp.append({dd: (knums(v[0]), {ii: knums(pp) for ii, pp in v[1].items()}) for dd, v in spec.items()})
    return Case(cid, lines, dict(exp=exp, probes=probes))

def gen_c16_copy(rng, cid):
    """a populated tracker is copied; the COPY then receives, device by device, first a new message for the interface that device saw
    last before the copy, then for the others; afterwards the original is shown again: it must still hold what it held at the copy,
    the copy must hold the new messages (two trackers are two objects)"""
    import copy as _copy
    lines, exp, spec, slot = [], [], {}, 0
    devs = [rng.below(65536) for _ in range(rng.range(1, 3))]
    devs = list(dict.fromkeys(devs))
    ifs = {d: list(dict.fromkeys(rng.below(1 << 32) for _ in range(rng.range(1, 4)))) for d in devs}
    probes = devs + [i for d in devs for i in ifs[d]] + [99]
    def show(sp):
        lines.append('SSHOW ' + ' '.join(map(str, probes)))
        exp.append({dd: (knums(v[0]), {ii: knums(pp) for ii, pp in v[1].items()}) for dd, v in sp.items()})
    def upd(sp, kind, d, i):
        nonlocal slot
        p = st_packet(rng, kind, d, i)
        lines.append(pk_line(slot, p)); lines.append('SUPD %d' % slot); slot += 1
        if d in sp:
            if kind == 'cm': sp[d][0] = p
            else: sp[d][1][i] = p
        elif kind == 'cm':
            sp[d] = [p, {}]
    last = {}
    for d in devs:
        upd(spec, 'cm', d, 0)
        for i in ifs[d]:
            upd(spec, 'if', d, i); last[d] = i
    for _ in range(rng.below(4)):
        d = rng.choice(devs); i = rng.choice(ifs[d]); upd(spec, 'if', d, i); last[d] = i
    show(spec)
    lines.append('SCOPY'); orig = _copy.deepcopy(spec); cp = _copy.deepcopy(spec)
    lines.append('SOTHER')
    show(cp)
    for d in devs:
        order = [last[d]] + [i for i in ifs[d] if i != last[d]]
        if rng.chance(1, 3):
            upd(cp, 'cm', d, 0); show(cp)
        for i in order:
            upd(cp, 'if', d, i); show(cp)
    lines.append('SOTHER')
    show(orig)
    for d in devs:
        upd(orig, 'if', d, last[d]); show(orig)
    lines.append('SOTHER')
    show(cp)
    return Case(cid, lines, dict(exp=exp, probes=probes))

def gen_c16_wide(rng, cid, n, level):
    """more ids than any small hidden table has slots (pigeonhole): n interfaces under one device (level 'if') or n devices (level
    'dev') are announced, a random half is removed again, then every remaining id is looked up and updated once more and a few of
    the removed ones come back; snapshot with all lookups after every operation"""
    fam = rng.below(4)
    if fam == 0: ids = [rng.next() & 0xFFFFFFFF for _ in range(n)]
    elif fam == 1: base = rng.below(1 << 16); ids = [base + k for k in range(n)]
    elif fam == 2: sh = rng.range(4, 20); ids = [((k + 1) << sh) & 0xFFFFFFFF for k in range(n)]
    else: ids = [(k * 0x9E3779B1 + 12345) & 0xFFFFFFFF for k in range(n)]
    if level == 'dev':
        ids = [x & 0xFFFF for x in ids]
    ids = list(dict.fromkeys(ids))
    lines, exp, spec, slot = [], [], {}, 0
    dev0 = 7
    def show(extra):
        probes = extra + [99]
        lines.append('SSHOW ' + ' '.join(map(str, probes)))
        exp.append({dd: (knums(v[0]), {ii: knums(pp) for ii, pp in v[1].items()}) for dd, v in spec.items()})
        return probes
    allprobes = None
    def upd(kind, d, i):
        nonlocal slot
        p = st_packet(rng, kind, d, i)
        lines.append(pk_line(slot, p)); lines.append('SUPD %d' % slot); slot += 1
        if d in spec:
            if kind == 'cm': spec[d][0] = p
            else: spec[d][1][i] = p
        elif kind == 'cm':
            spec[d] = [p, {}]
    probes = ids[:]
    if level == 'if':
        upd('cm', dev0, 0); show(probes)
        for i in ids:
            upd('if', dev0, i); show(probes)
        gone = [i for i in ids if rng.chance(1, 2)]
        for i in gone:
            lines.append('SRMIF %d %d' % (dev0, i)); spec[dev0][1].pop(i, None); show(probes)
        for i in [x for x in ids if x not in gone] + gone[:5]:
            upd('if', dev0, i); show(probes)
    else:
        for d in ids:
            upd('cm', d, 0); show(probes)
        gone = [d for d in ids if rng.chance(1, 2)]
        for d in gone:
            lines.append('SRMDEV %d' % d); spec.pop(d, None); show(probes)
        for d in [x for x in ids if x not in gone] + gone[:5]:
            upd('cm', d, 0); upd('if', d, 5); show(probes)
    # every snapshot of this case uses the same probe list
    return Case(cid, lines, dict(exp=exp, probes=probes + [99]))

def judge_c16(case, lines):
    an = anomalies(lines)
    if an:
        return an[0]
    probes = case.meta['probes']
    # split into snapshots
    snaps = []
    for l in lines:
        if l.startswith('S '):
            snaps.append(dict(n=int(l.split()[1]), devs=[], sx=None))
        elif l.startswith('SD '):
            t = l.split(); snaps[-1]['devs'].append(dict(nif=int(t[1]), k=([int(x) for x in t[2:16]], bytes.fromhex(t[16][1:])), ifs=[], sy=None))
        elif l.startswith('SI '):
            t = l.split(); snaps[-1]['devs'][-1]['ifs'].append((int(t[1]), ([int(x) for x in t[2:16]], bytes.fromhex(t[16][1:]))))
        elif l.startswith('SY'):
            snaps[-1]['devs'][-1]['sy'] = [int(x) for x in l.split()[1:]]
        elif l.startswith('SX'):
            snaps[-1]['sx'] = [int(x) for x in l.split()[1:]]
    if len(snaps) != len(case.meta['exp']):
        return 'transcript has %d snapshots, script %d' % (len(snaps), len(case.meta['exp']))
    for si, (s, e) in enumerate(zip(snaps, case.meta['exp'])):
        got = {}
        for d in s['devs']:
            dv = d['k'][0][1]
            if dv in got:
                return 'step %d: two entries for device %d' % (si, dv)
            ifd = {}
            for (iid, kk) in d['ifs']:
                if iid in ifd:
                    return 'step %d: two entries for interface %d of device %d' % (si, iid, dv)
                ifd[iid] = (kk[0], kk[1])
            got[dv] = ((d['k'][0], d['k'][1]), ifd)
        want = {dd: ((v[0][0], v[0][1]), {ii: (kk[0], kk[1]) for ii, kk in v[1].items()}) for dd, v in e.items()}
        if got != want:
            return 'step %d: status holds devices %r, latest-message map has %r (or a stored packet is not the latest)' % (si, sorted(got), sorted(want))
        if s['n'] != len(s['devs']):
            return 'step %d: device count %d but %d entries' % (si, s['n'], len(s['devs']))
        # lookups: index of the matching entry or the element count
        order = [d['k'][0][1] for d in s['devs']]
        for q, r in zip(probes, s['sx']):
            w = order.index(q) if q in order else len(order)
            if r != w:
                return 'step %d: getIndexByDeviceId(%d) = %d, expected %d' % (si, q, r, w)
        for d in s['devs']:
            io = [x[0] for x in d['ifs']]
            for q, r in zip(probes, d['sy']):
                w = io.index(q) if q in io else len(io)
                if r != w:
                    return 'step %d: getIndexByInterfaceId(%d) = %d, expected %d' % (si, q, r, w)
    return None

def run_c16(res, rng):
    n = 1200 if res.tier == 'quick' else 60000
    cases = corpus_cases('C16') + [gen_c16(rng.fork('s%d' % i), 's%d' % i, rng.fork('n%d' % i).range(1, 25)) for i in range(n)]
    if res.tier == 'thorough':
        for i in range(3000):
            cases.append(gen_c16(rng.fork('e%d' % i), 'e%d' % i, 6, devs=(1, 2), ifs=(10, 20)))
    wide = [(70, 'if'), (70, 'dev'), (40, 'if'), (100, 'if')] if res.tier == 'quick' else \
           [(70, 'if'), (70, 'dev'), (140, 'if'), (140, 'dev'), (270, 'if'), (270, 'dev'), (520, 'if'), (520, 'dev'), (1100, 'if')]
    for j, (n_ids, level) in enumerate(wide):
        cases.append(gen_c16_wide(rng.fork('w%d' % j), 'w%d' % j, n_ids, level))
    for j in range(60 if res.tier == 'quick' else 3000):
        cases.append(gen_c16_copy(rng.fork('cp%d' % j), 'cp%d' % j))
    def proj(c, lines):
        return [l for l in lines if l.startswith('S')] + anomalies(lines)
    correspondence(res, cases, proj, judge_c16, 'status tracker = latest-message map')
    res.cov['rule'] = 'sequences of 1-25 operations over 3 devices x 3 interfaces from {update(cm status | interface status | data packet), removeDeviceById, removeInterfaceById, clear}, each followed by a full snapshot (entries in vector order, all lookups for 7 probe ids); plus copy cases (a populated tracker is copied, the copy is fed - first the interface each device saw last -, then the original is shown and fed again); plus wide-id cases: 40-100 (thorough: up to 1100) interface ids under one device / device ids (random, sequential, shifted, multiplicative families - more ids than a small hidden table has slots), all announced, half removed, every remaining id updated and looked up again; judge = Python dict-of-dicts latest-message map compared as a map, lookups against the snapshot order. non-trivial = distinct sequences with >= 3 operations'
    res.cov['distinct_nontrivial'] = len(set(tuple(c.lines) for c in cases if len(c.meta.get('exp', [])) >= 3))
    res.cov['samples'] = [sample_case(c, 8) for c in cases[:2]]
