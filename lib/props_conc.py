"""Checks for C19 (independent instances under concurrency) and C20 (no uninitialised memory)."""
import os, re
from common import *
from runner import *
import gen_enc, gen_dec, props_misc, props_enc

def mixed_workload(rng, n):
    """codec, decoder, builder, TECMP and status scripts; every case is a set of instances of its own"""
    cases = []
    for i in range(n):
        r = rng.fork('w%d' % i)
        k = i % 6
        if k == 0:
            cases += gen_enc.gen_encode_cases(r, 1, False, 'mxe%d_' % i)[0:1] if i > 12 else gen_enc.gen_encode_cases(Rng(i + 77), 7, False, 'mxe%d_' % i)[6:7]
        elif k == 1:
            cases.append(gen_dec.gen_history(r, 'mxd%d' % i, neps=3, nitems=5))
        elif k == 2:
            cases.append(props_misc.gen_c13(r, 'mxb%d' % i, r.choice(props_misc.KINDS)))
        elif k == 3:
            cases.append(props_misc.gen_c15(r, 'mxt%d' % i))
        elif k == 4:
            cases.append(props_misc.gen_c16(r, 'mxs%d' % i, r.range(3, 15)))
        else:
            cases.append(props_enc.gen_history(r, 'mxh%d' % i, r.range(2, 10)))
    return cases

def coq_eval(expr, imports='CMP.Inventory CMPGen.GenInventory'):
    cq = os.path.join(VERIF, 'coq')
    d = workdir()
    p = os.path.join(d, 'diag2.v')
    open(p, 'w').write('Require Import %s.\nFrom Coq Require Import List String.\nEval vm_compute in %s.\n' % (imports, expr))
    sh('timeout 900 make -j16 theories/Inventory.vo', cwd=cq, timeout=1000)
    r = sh('coqc -Q %s/theories CMP -Q %s/gen CMPGen %s' % (cq, cq, p), cwd=d, timeout=900)
    return re.findall(r'"([^"]*)"', r.stdout)

def all_lines(c, lines):
    return list(lines)

def tecmp_heavy(rng, n):
    """cases that hammer the static TECMP decoder with bus-status / CAN / LIN / capture-module frames of case-specific contents"""
    out = []
    for i in range(n):
        r = rng.fork('th%d' % i)
        fr = []
        for _ in range(60):
            k = r.below(4)
            if k <= 1:
                ne = r.range(2, 10)
                pl = r.bytes(12) + b''.join(be(i * 1000 + j, 4) + be(r.next() & 0xFFFFFFFF, 4) + be(i, 4) for j in range(ne))
                fr.append(tecmp_hdr(i & 255, 2, 0, len(pl), ifid=i, ts=r.next()) + pl)
            else:
                fr.append(r.choice(gen_dec.tecmp_samples(r)))
        out.append(Case('th%d' % i, [gen_dec.feed_line(1, f) for f in fr], dict(frames=fr)))
    return out

def run_c19(res, rng):
    if res.violations:
        res.cov['mutable_static_objects'] = coq_eval('mutable_statics')
    n = 240 if res.tier == 'quick' else 3000
    cases = mixed_workload(rng, n) + tecmp_heavy(rng, 64 if res.tier == 'quick' else 600)
    model = run_model(cases)
    ref = run_harness(cases, variant='asan', tag='ref')
    thr = 8 if res.tier == 'quick' else 16
    par = run_harness(cases, variant='asan', threads=thr, tag='par')
    runs = [('asan x%d threads' % thr, par)]
    if res.tier == 'thorough':
        runs.append(('tsan x16 threads', run_harness(cases, variant='tsan', threads=16, tag='tsan', env={'TSAN_OPTIONS': 'halt_on_error=1:exitcode=66'})))
    nbad = 0
    for name, out in runs:
        for c in cases:
            a, b = ref.get(c.cid, ['MISSING']), out.get(c.cid, ['MISSING'])
            if a != b:
                nbad += 1
                if nbad <= 2:
                    k = next((i for i, (x, y) in enumerate(zip(a, b)) if x != y), min(len(a), len(b)))
                    res.violation('concurrent instances (%s): case %s differs from its single-threaded run at observation %d: "%s" vs alone "%s"' % (
                        name, c.cid, k, (b[k] if k < len(b) else '<end>')[:200], (a[k] if k < len(a) else '<end>')[:200]), c.text(), True, 'judge')
    ndiff = sum(1 for c in cases if ref.get(c.cid) != model.get(c.cid))
    if ndiff and not nbad:
        c = next(c for c in cases if ref.get(c.cid) != model.get(c.cid))
        res.violation('correspondence model/implementation broken on %d workload case(s) (single-threaded), first %s; concurrent runs agree with the sequential ones' % (ndiff, c.cid), c.text(), False, 'correspondence')
    # copies of a decoder are separate instances too: copy while reassemblies are pending, then drive both
    from runner import correspondence
    cc = gen_dec.copy_cases(rng.fork('copy'), 'copy', 120 if res.tier == 'quick' else 4000)
    correspondence(res, cc, lambda c, lines: [l for l in lines if l.startswith(('K ', 'N '))], gen_dec.judge_copy, 'copied decoder is a separate instance')
    # ... and so are copies of a status tracker: copy a populated one, feed the copy, look at the original again
    sc = [props_misc.gen_c16_copy(rng.fork('scopy%d' % j), 'scopy%d' % j) for j in range(60 if res.tier == 'quick' else 2000)]
    correspondence(res, sc, lambda c, lines: [l for l in lines if l.startswith('S')], props_misc.judge_c16, 'copied status tracker is a separate instance')
    cases = cases + cc + sc
    res.cov['evaluations'] = len(cases) * (1 + len(runs))
    res.cov['distinct_nontrivial'] = len(set(tuple(c.lines) for c in cases))
    res.cov['schedules'] = [name for name, _ in runs]
    res.cov['correspondence_diffs'] = ndiff
    res.cov['judge_failures'] = nbad
    res.cov['traces_validated_against_impl'] = len(cases) - ndiff
    res.cov['rule'] = ('mixed workload (encoder batches and histories, decoder histories incl. TECMP through the static TECMP decoder, payload builders, status sequences), each case with its own Encoder/Decoder/Status objects; '
                       'run once sequentially and once with the cases distributed over 8 (quick) / 16 (thorough) threads without synchronisation (ASan build; TSan build in the thorough tier); per-case transcripts must be identical and equal to the model\'s; plus decoders copied while reassemblies are pending, original and copy then driven with the same remaining frames in any merge order (judge: each behaves as a reference decoder with a deep copy of the state); plus status trackers copied when populated, the copy fed (first the interface each device saw last), the original shown again (judge: latest-message map per object). non-trivial = distinct cases')
    res.cov['samples'] = [dict(case=c.cid, script=[l[:120] for l in c.lines[:3]]) for c in cases[:3]]

def stray_cases(rng, n):
    out = []
    for i in range(n):
        r = rng.fork('st%d' % i)
        fr = []
        for _ in range(r.range(2, 6)):
            e = (r.below(65536), r.below(4))
            ch = gen_dec.chain_frames(r, e, r.choice([0, 1, 2, r.below(65536)]), r.range(2, 4), mt=r.choice([1, 3]), ver=r.choice([1, 1, 2, 3]))
            k = r.below(4)
            if k == 0: fr += ch                      # complete chain
            elif k == 1: fr += ch[:1]                # aborted after the first segment
            elif k == 2: fr += ch[1:]                # stray continuation / last segments, no chain open
            else: fr += ch[:1] + gen_dec.chain_frames(r, (r.below(65536), r.below(4)), 0, 2, mt=1, ver=1)[1:]
        out.append(Case('stray%d' % i, [gen_dec.feed_line(1, f) for f in fr], dict(frames=fr)))
    return out

def run_c20(res, rng):
    if res.violations:
        res.cov['bad_allocation_forms'] = coq_eval('bad_allocs')
        res.cov['members_without_initialiser'] = coq_eval('bad_members', 'CMP.Inventory CMPGen.GenInventory CMPGen.GenLayout')
    n = 240 if res.tier == 'quick' else 4000
    cases = mixed_workload(rng, n) + stray_cases(rng, 120 if res.tier == 'quick' else 2000)
    # truncated TECMP status messages whose inner length agrees with the truncation: a read just behind the buffer returns foreign heap bytes
    ct = gen_dec.tecmp_consistent_truncations(rng.fork('ctrunc'))
    for j in range(0, len(ct), 80):
        cases.append(Case('ct%d' % j, [gen_dec.feed_line(1, x) for x in ct[j:j + 80]], dict(frames=ct[j:j + 80])))
    model = run_model(cases)
    outs = []
    # fresh operator-new blocks are pre-filled with a repeating pattern: uniform bytes and patterns that look like plausible field values
    # (segment types 4/8/12, versions, message types, small counters), so that a decision taken on an indeterminate member flips
    fills = ['a5', '5a', '04010100', '08010300', '0c01ff00', '00', '01', 'ff04010104030108'] if res.tier == 'quick' else         ['a5', '5a', '00', '01', 'ff', '04', '08', '0c', '04010100', '08010300', '0c01ff00', '04030300', '0401', '0801', 'ff04010104030108', '0004000800010003']
    for fill in fills:
        outs.append(run_harness(cases, variant='asan', env={'VERIF_FILL': fill, 'MALLOC_PERTURB_': str(int(fill[:2], 16) ^ 0xFF)}, tag='f' + fill))
    nbad = 0
    for c in cases:
        a = outs[0].get(c.cid, ['MISSING'])
        for fi, o in enumerate(outs[1:]):
            b = o.get(c.cid, ['MISSING'])
            if a != b:
                nbad += 1
                if nbad <= 2:
                    k = next((i for i, (x, y) in enumerate(zip(a, b)) if x != y), min(len(a), len(b)))
                    res.violation('output depends on prior heap contents: case %s observation %d is "%s" with fill pattern %s and "%s" with fill pattern %s' % (
                        c.cid, k, (a[k] if k < len(a) else '<end>')[:200], fills[0], (b[k] if k < len(b) else '<end>')[:200], fills[fi + 1]), c.text(), True, 'judge')
                break
    # a read outside every object the library owns returns indeterminate bytes whatever the fill pattern: ASan reports it
    for c in cases:
        an = [l for l in outs[0].get(c.cid, []) if l.startswith(ANOMALY) and ('overflow' in l or 'use-after' in l or 'uninit' in l)]
        if an:
            nbad += 1
            if nbad <= 3:
                res.violation('reads memory outside its own objects (contents indeterminate): case %s: %s' % (c.cid, an[0][:300]), c.text(), True, 'judge')
    if res.tier == 'thorough':
        # definedness checker on the unsanitised build
        sub = cases[:400]
        exe = ensure_harness('plain')
        d = workdir()
        p = os.path.join(d, 'vg_%d.txt' % os.getpid())
        write_script(p, sub)
        r = sh(['valgrind', '-q', '--error-exitcode=9', '--track-origins=no', exe, p], timeout=3000)
        os.unlink(p)
        if r.returncode == 9 or 'uninitialised' in r.stderr:
            nbad += 1
            res.violation('valgrind memcheck reports use of uninitialised memory: ' + summarize(r.stderr) + ' ' + ' '.join(l for l in r.stderr.split('\n') if 'uninitialised' in l)[:300], ''.join(c.text() for c in sub[:50]), True, 'judge')
        res.cov['valgrind_cases'] = len(sub)
    ndiff = sum(1 for c in cases if outs[0].get(c.cid) != model.get(c.cid))
    if ndiff and not nbad:
        c = next(c for c in cases if outs[0].get(c.cid) != model.get(c.cid))
        res.violation('correspondence model/implementation broken on %d workload case(s), first %s; outputs do not depend on the fill pattern' % (ndiff, c.cid), c.text(), False, 'correspondence')
    res.cov['evaluations'] = len(fills) * len(cases)
    res.cov['fill_patterns'] = fills
    res.cov['distinct_nontrivial'] = len(set(tuple(c.lines) for c in cases))
    res.cov['correspondence_diffs'] = ndiff
    res.cov['judge_failures'] = nbad
    res.cov['traces_validated_against_impl'] = len(cases) - ndiff
    res.cov['rule'] = ('the mixed workload of C19 (frames padded and unpadded, control/status/vendor messages, reassembly, TECMP conversion, builders) run once per fill pattern (8 quick / 16 thorough: uniform bytes and repeating patterns resembling segment types, versions, message types), every operator-new block being pre-filled with the pattern (and MALLOC_PERTURB_); '
                       'all observations (every frame byte, every header field and payload byte of every packet, every built payload) must be bit-identical across the two runs and equal to the heap-free model; thorough: valgrind memcheck on the unsanitised build. non-trivial = distinct cases')
    res.cov['samples'] = [dict(case=c.cid, script=[l[:120] for l in c.lines[:3]]) for c in cases[:3]]
