"""Checks for C11 / C12: generated accessor models (tie T) proved against the layout tables; the compiled accessors are run on
memory images (harness op ACC) and compared with (a) the generated models — validation of the translator — and (b) the layout
spec — the property oracle that yields the failing input when an obligation breaks."""
import json, os
from common import *
from runner import *

def ensure_acc_driver():
    d = ensure_translation()
    exe = os.path.join(d, 'acc_driver')
    if os.path.exists(exe):
        return exe
    gen_sync()
    cq = os.path.join(VERIF, 'coq')
    r = sh('timeout 900 make -j16 theories/AccEval.vo', cwd=cq, timeout=1000)
    if r.returncode != 0:
        raise BuildError('AccEval.vo does not build (generated accessors changed shape?):\n' + (r.stdout + r.stderr)[-3000:])
    ad = os.path.join(d, 'accx')
    os.makedirs(ad, exist_ok=True)
    r = sh('coqc -Q %s/theories CMP -Q %s/gen CMPGen %s/theories/ExtractAcc.v && cp %s/ocaml/acc_driver.ml . && ocamlfind ocamlopt -O3 -w -a accmodel.mli accmodel.ml acc_driver.ml -o acc_driver' % (cq, cq, cq, VERIF), cwd=ad, timeout=900)
    if r.returncode != 0:
        raise BuildError('acc_driver build failed:\n' + (r.stdout + r.stderr)[-3000:])
    os.replace(os.path.join(ad, 'acc_driver'), exe)
    return exe

def acc_index():
    d = ensure_translation()
    return json.load(open(os.path.join(d, 'acc_index.json')))

def values_for(rng, w, tier, exhaustive_bits):
    if w <= exhaustive_bits:
        return list(range(1 << w))
    vs = {0, 1, (1 << w) - 1, 1 << (w - 1), (1 << w) - 2, 0x5555555555555555 & ((1 << w) - 1), 0xAAAAAAAAAAAAAAAA & ((1 << w) - 1)}
    for k in range(0, w, max(1, w // 8)):
        vs.add(1 << k)
    n = 10 if tier == 'quick' else 120
    for _ in range(n):
        vs.add(rng.next() & ((1 << w) - 1))
    # in-range values of narrower fields stored in wide parameters (29-bit ids, 15/21-bit crcs, 6-bit ids ...)
    for nb in (2, 3, 6, 15, 21, 29):
        if nb < w:
            vs.add((1 << nb) - 1); vs.add(rng.next() & ((1 << nb) - 1))
    return sorted(vs)

def gen_acc_cases(rng, tier):
    idx = acc_index()
    spec = spec_list()
    cases = []
    exb = 8 if tier == 'quick' else 11
    nbg = 1 if tier == 'quick' else 6
    for m in idx['methods']:
        size = m['size']
        bgs = [bytes(size), b'\xff' * size] + [rng.bytes(size) for _ in range(nbg)]
        ps = m['params']
        sp = spec.get(m['name'], [])
        spec_masks = sorted(set(int(s_['mask']) for s_ in sp if s_['mask'] != '-'))
        if len(ps) == 0:
            argsets = [(0, 0)]
        elif len(ps) == 1:
            # getters that take a mask (getFlag(mask)): every enumerator of the layout table is an argument
            argsets = [(v, 0) for v in sorted(set(values_for(rng, ps[0], tier, exb)) | set(spec_masks))]
        else:
            masks = sorted(set(int(s['mask']) for s in sp if s['mask'] != '-')) or [1 << k for k in range(min(ps[0], 16))]
            argsets = [(k, v) for k in masks for v in ((0, 1) if ps[1] == 1 else values_for(rng, ps[1], tier, 4))]
        lines = []
        meta = []
        # relational inputs: the object already holds a transformation of the value about to be written (the same value, its byte
        # reversal, complement, neighbours, in either byte order, at every aligned position) - early-outs / caches of setters live here
        if len(ps) >= 1 and m.get('writes'):
            w = ps[0]
            nrel = 6 if tier == 'quick' else 16
            cand = [v for v in values_for(rng, w, tier, 0) if v not in (0, (1 << w) - 1)]
            picks = sorted(set([v for v in cand if v & (v - 1) == 0] + ([cand[rng.below(len(cand))] for _ in range(min(nrel, len(cand)))] if cand else [])))
            for v in picks:
                for nb in sorted(set([1, 2, 4, 8]) & set([(w + 7) // 8, 1 << max(0, ((w + 7) // 8 - 1)).bit_length()] + [4])):
                    mask = (1 << (8 * nb)) - 1
                    for t in (v, ~v, v + 1, v - 1, int.from_bytes((v & mask).to_bytes(nb, 'big'), 'little')):
                        for order in ('big', 'little'):
                            unit = (t & mask).to_bytes(nb, order)
                            bg = (unit * (size // nb + 1))[:size]
                            a2 = 0 if len(ps) == 1 else 1
                            lines.append('ACC %d %d %d %d %s' % (m['cls'], m['id'], v, a2, hx(bg)))
                            meta.append((v, a2, bg))
        if spec_masks:
            # mask-taking accessors: images with exactly one bit set / exactly one bit cleared, for every bit of the object - a
            # multi-bit mask (segmentation field, parity bits) meets every partial state of its field
            for b in range(8 * size):
                one = bytearray(size); one[b // 8] = 1 << (b % 8)
                allbut = bytearray(b'\xff' * size); allbut[b // 8] ^= 1 << (b % 8)
                for img in (bytes(one), bytes(allbut)):
                    for (a1, a2) in ([(k, v) for k in spec_masks for v in (0, 1)] if len(ps) == 2 else [(k, 0) for k in spec_masks]):
                        lines.append('ACC %d %d %d %d %s' % (m['cls'], m['id'], a1, a2, hx(img)))
                        meta.append((a1, a2, img))
        for bg in bgs:
            for (a1, a2) in argsets:
                lines.append('ACC %d %d %d %d %s' % (m['cls'], m['id'], a1, a2, hx(bg)))
                meta.append((a1, a2, bg))
                if len(lines) >= 600:
                    cases.append(Case('%s#%d' % (m['name'], len(cases)), lines, dict(method=m, args=meta))); lines = []; meta = []
        if lines:
            cases.append(Case('%s#%d' % (m['name'], len(cases)), lines, dict(method=m, args=meta)))
    return cases, idx

_spec_cache = {}
def spec_list():
    exe = ensure_acc_driver()
    if exe in _spec_cache:
        return _spec_cache[exe]
    r = sh([exe, '--list'])
    out = {}
    for ln in r.stdout.split('\n'):
        t = ln.split()
        if len(t) == 5:
            out.setdefault(t[0], []).append(dict(setter=t[1] == '1', ci=int(t[2]), fi=int(t[3]), mask=t[4]))
    _spec_cache[exe] = out
    return out

def run_acc_driver(queries):
    exe = ensure_acc_driver()
    d = workdir()
    p = os.path.join(d, 'accq_%d.txt' % os.getpid())
    with open(p, 'w') as f:
        f.write('\n'.join(queries) + '\n')
    r = sh([exe, p], timeout=1800)
    os.unlink(p)
    if r.returncode != 0:
        raise BuildError('acc_driver failed: ' + r.stderr[-1000:])
    return r.stdout.split('\n')[:len(queries)]

def coq_failing_labels():
    """names the obligations that no longer check (diagnosis only)"""
    cq = os.path.join(VERIF, 'coq')
    d = workdir()
    p = os.path.join(d, 'diag.v')
    open(p, 'w').write('Require Import CMP.Refine.\nFrom Coq Require Import List String.\nEval vm_compute in failing_labels.\n')
    sh('timeout 900 make -j16 theories/Refine.vo', cwd=cq, timeout=1000)
    r = sh('coqc -Q %s/theories CMP -Q %s/gen CMPGen %s' % (cq, cq, p), cwd=d, timeout=900)
    import re
    return re.findall(r'"([^"]+)"', r.stdout)

def wrapper_judge(res, rng, idx, spec, layout_only):
    """payload-level wrappers vs the Header accessor they must forward to: same image, same arguments -> same bytes, same result"""
    by_name = {m['name']: m for m in idx['methods']}
    lines_w, lines_t, meta = [], [], []
    by_design = {'ASAM::CMP::CanFdPayload::getCrc': 'ASAM::CMP::CanPayloadBase::Header::getCrcSbc',      # as in Refine.wrapper_ok
                 'ASAM::CMP::CanFdPayload::setCrc': 'ASAM::CMP::CanPayloadBase::Header::setCrcSbc'}
    for w in idx.get('wrappers', []):
        w = dict(w, target=by_design.get(w['name'], w['target']))
        t = by_name.get(w['target'])
        if t is None or len(t['params']) != w['nparams']:
            continue
        size = t['size']
        masks = sorted(set(int(s_['mask']) for s_ in spec.get(t['name'], []) if s_['mask'] != '-'))
        if w['nparams'] == 0:
            args = [(0, 0)]
        elif w['nparams'] == 1:
            wd = t['params'][0]
            args = [(v & ((1 << wd) - 1), 0) for v in ([0, 1, (1 << wd) - 1, 0x5A5A5A5A5A5A5A5A, rng.next()] + masks)]
        else:
            args = [(k, v) for k in (masks or [1, 2, 4, 0x80]) for v in (0, 1)]
        for k_img, img in enumerate((bytes(size), b'\xff' * size, rng.bytes(size), rng.bytes(size))):
            for (a1, a2) in args:
                # the object's type tag is part of its prior state: some wrappers run after the tag was changed through the public setters
                retag = 0 if k_img < 2 else rng.below(8)
                lines_w.append('FWD %d %d %d %d %s' % (w['id'], a1, a2, retag, hx(img)))
                lines_t.append('ACC %d %d %d %d %s' % (t['cls'], t['id'], a1, a2, hx(img)))
                meta.append((w, a1, a2, img))
    if not meta:
        return 0
    cw, ct = Case('wrappers', lines_w, {}), Case('wrapper-targets', lines_t, {})
    out = run_harness([cw, ct], tag='fwd')
    ow, ot = out.get('wrappers', []), out.get('wrapper-targets', [])
    n = 0
    for i, (w, a1, a2, img) in enumerate(meta):
        a = ow[i] if i < len(ow) else 'MISSING'; b = ot[i] if i < len(ot) else 'MISSING'
        if a != b:
            n += 1
            if n <= 2:
                res.violation('%s%s with argument(s) %d %d on a payload whose header bytes are %s gives "%s", the header accessor %s gives "%s": the wrapper does not forward' % (
                    'wire layout: ' if layout_only else 'field independence: ', w['name'], a1, a2, hx(img), a, w['target'], b), 'CASE replay\n' + lines_w[i] + '\n' + lines_t[i] + '\n', True, 'judge')
    res.cov['wrapper_comparisons'] = len(meta)
    return n

def composite_mask_judge(res, idx, spec, layout_only):
    meths = []
    for m in idx['methods']:
        masks = sorted(set(int(s_['mask']) for s_ in spec.get(m['name'], []) if s_['mask'] != '-'))
        if len(m['params']) == 2 and m.get('writes') and len(masks) >= 2:
            meths.append((m, masks))
    if not meths:
        return 0
    first, plan = [], []
    for m, masks in meths:
        size = m['size']
        pairs = [(a, b) for i, a in enumerate(masks) for b in masks[i + 1:]]
        # adjacent bits first (multi-bit fields are contiguous), then a sample of the others
        pairs.sort(key=lambda ab: (bin(ab[0] | ab[1]).count('1'), abs(ab[0].bit_length() - ab[1].bit_length())))
        imgs = [bytes(size), b'\xff' * size]
        for b in range(8 * size):
            one = bytearray(size); one[b // 8] = 1 << (b % 8); imgs.append(bytes(one))
        lines = []
        for (a, b) in pairs[:12]:
            for v in (0, 1):
                for img in imgs:
                    lines.append('ACC %d %d %d %d %s' % (m['cls'], m['id'], a, v, hx(img)))
                    lines.append('ACC %d %d %d %d %s' % (m['cls'], m['id'], a | b, v, hx(img)))
                    plan.append((m, a, b, v, img))
        first.append(Case('comp-' + m['name'], lines, {}))
    out1 = run_harness(first, tag='comp1')
    flat1 = [l for c in first for l in out1.get(c.cid, [])]
    if len(flat1) != 2 * len(plan):
        return 0
    second = Case('comp2', ['ACC %d %d %d %d %s' % (m['cls'], m['id'], b, v, flat1[2 * i].split()[1]) for i, (m, a, b, v, img) in enumerate(plan) if flat1[2 * i].startswith('A x')], {})
    out2 = run_harness([second], tag='comp2').get('comp2', [])
    n = 0; j = 0
    for i, (m, a, b, v, img) in enumerate(plan):
        if not flat1[2 * i].startswith('A x'):
            continue
        seq = out2[j] if j < len(out2) else 'MISSING'; j += 1
        both = flat1[2 * i + 1]
        if seq.split()[:2] != both.split()[:2]:
            n += 1
            if n <= 2:
                res.violation('%s%s(mask %d, %d) on memory image %s gives "%s", but setting mask %d and then mask %d gives "%s": a multi-bit mask does not set / clear exactly its bits' % (
                    'wire layout: ' if layout_only else 'field independence: ', m['name'], a | b, v, hx(img), both, a, b, seq),
                    'CASE replay\nACC %d %d %d %d %s\n' % (m['cls'], m['id'], a | b, v, hx(img)), True, 'judge')
    res.cov['composite_mask_comparisons'] = j
    return n

def run_acc(res, rng, layout_only):
    cases, idx = gen_acc_cases(rng, res.tier)
    impl = run_harness(cases)
    spec = spec_list()
    # (a) translator validation: compiled accessor vs generated model
    gq, gmap = [], []
    sq, smap = [], []
    for c in cases:
        m = c.meta['method']
        il = impl.get(c.cid, [])
        for k, (a1, a2, bg) in enumerate(c.meta['args']):
            if m.get('model', True):
                gq.append('G %s %d %d %s' % (m['name'], a1, a2, hx(bg))); gmap.append((c, k))
            for s in spec.get(m['name'], []):
                if s['mask'] != '-' and int(s['mask']) != a1:
                    continue
                v = a2 if (s['mask'] != '-' and s['setter']) else a1
                sq.append('S %d %d %d %d %s' % (s['ci'], s['fi'], 1 if s['setter'] else 0, v, hx(bg))); smap.append((c, k, s))
    gout = run_acc_driver(gq)
    sout = run_acc_driver(sq)
    ndiff = 0; first = None
    for (c, k), g in zip(gmap, gout):
        il = impl.get(c.cid, [])
        got = il[k] if k < len(il) else 'MISSING'
        if got != g:
            ndiff += 1
            if first is None:
                first = (c, k, got, g)
    njudge = 0
    checked = 0
    for (c, k, s), e in zip(smap, sout):
        if e == 'A -' or e == 'A ?':
            continue
        checked += 1
        il = impl.get(c.cid, [])
        got = il[k] if k < len(il) else 'MISSING'
        if s['setter']:
            ok = got.split()[:2] == e.split()[:2]
        else:
            ok = got.split()[1:3] == e.split()[1:3]
        if not ok:
            njudge += 1
            if njudge <= 3:
                a1, a2, bg = c.meta['args'][k]
                what = ('%s on memory image %s with argument(s) %d %d: library gives "%s", the layout prescribes "%s"' % (c.meta['method']['name'], hx(bg), a1, a2, got, e))
                res.violation(('wire layout: ' if layout_only else 'field independence: ') + what, 'CASE replay\n' + c.lines[k] + '\n# expected per layout: ' + e + '\n', True, 'judge')
    # composite masks: set(mA | mB, v) must equal set(mA, v) followed by set(mB, v) - the single-bit behaviour is what the layout table
    # prescribes (checked above), a multi-bit enumerator (segmentation field, parity bits) must be its composition
    ncomp = composite_mask_judge(res, idx, spec, layout_only)
    njudge += ncomp
    njudge += wrapper_judge(res, rng.fork('wrappers'), idx, spec, layout_only)
    an = [(c, l) for c in cases for l in impl.get(c.cid, []) if l.startswith(ANOMALY)]
    for c, l in an[:2]:
        res.violation('accessor run: ' + l, c.text(), True, 'judge')
    if first and njudge == 0:
        c, k, got, g = first
        res.violation('correspondence compiled accessor / generated model broken on %d input(s); first: %s -> library "%s", generated model "%s"; no layout violation found' % (ndiff, c.lines[k], got, g),
                      'CASE replay\n' + c.lines[k] + '\n', False, 'correspondence')
    nl = sum(len(c.lines) for c in cases)
    res.cov['evaluations'] += nl
    res.cov['correspondence_diffs'] = ndiff
    res.cov['judge_failures'] = njudge
    res.cov['spec_comparisons'] = checked
    res.cov['traces_validated_against_impl'] = nl - ndiff
    res.cov['distinct_nontrivial'] = len(set((c.meta['method']['name'], a) for c in cases for a in c.meta['args'] if any(a[2])))
    res.cov['methods_translated'] = len(idx['methods'])
    res.cov['methods_forwarding'] = len(idx['forwards'])
    res.cov['methods_untranslatable'] = [u[0] for u in idx['untranslatable'] if 'Header::' in u[0]]
    res.cov['samples'] = [dict(case=c.cid, script=c.lines[:3]) for c in cases[:3]]
    return cases, idx, impl

def run_c11(res, rng):
    if res.violations:
        res.cov['failing_obligations'] = coq_failing_labels()[:40]
    run_acc(res, rng, False)
    res.cov['rule'] = ('every dispatchable translated accessor (all header classes, Packet, PayloadType, TECMP headers) on backgrounds all-zero, all-ones and random; arguments: all values for parameters <= 8 bits (quick) / <= 16 bits (thorough), '
                       'boundary + walking-one + random otherwise, every flag enumerator x {set, clear}; compared with the generated model (translator validation) and with the layout spec (whole memory image after a set, value of a get). '
                       'non-trivial = distinct (method, arguments, non-zero background)')

def run_c12(res, rng):
    if res.violations:
        res.cov['failing_obligations'] = coq_failing_labels()[:40]
    cases, idx, impl = run_acc(res, rng, True)
    # default-constructed header objects: reserved bytes zero, documented defaults
    dcases = [Case('def%d' % c['id'], ['DEF %d' % c['id']], dict(cls=c)) for c in idx['classes'] if c['name'].endswith('Header')]
    dimpl = run_harness(dcases)
    RES = {'ASAM::CMP::CmpHeader': [(1, 1)], 'ASAM::CMP::CanPayloadBase::Header': [(2, 2)], 'ASAM::CMP::LinPayload::Header': [(2, 2), (5, 1)], 'ASAM::CMP::EthernetPayload::Header': [(2, 2)],
           'ASAM::CMP::AnalogPayload::Header': [(2, 1)], 'ASAM::CMP::CaptureModulePayload::Header': [(24, 1)], 'ASAM::CMP::InterfacePayload::Header': [(30, 2)], 'TECMP::CmpHeader': [(8, 2)]}
    SIZES = {'ASAM::CMP::CmpHeader': 8, 'ASAM::CMP::MessageHeader': 16, 'ASAM::CMP::CanPayloadBase::Header': 16, 'ASAM::CMP::LinPayload::Header': 8, 'ASAM::CMP::EthernetPayload::Header': 6,
             'ASAM::CMP::AnalogPayload::Header': 16, 'ASAM::CMP::CaptureModulePayload::Header': 26, 'ASAM::CMP::InterfacePayload::Header': 36, 'TECMP::CmpHeader': 28,
             'TECMP::CanPayload::Header': 5, 'TECMP::LinPayload::Header': 2, 'TECMP::CaptureModulePayload::Header': 36, 'TECMP::InterfacePayload::Header': 28}
    for c in dcases:
        l = dimpl.get(c.cid, ['A ?'])
        name = c.meta['cls']['name']
        if not l or not l[0].startswith('A x'):
            continue
        b = bytes.fromhex(l[0].split()[1][1:])
        if name in SIZES and len(b) != SIZES[name]:
            res.violation('wire layout: sizeof(%s) = %d, the standard prescribes %d' % (name, len(b), SIZES[name]), c.text(), True, 'judge')
        for off, n in RES.get(name, []):
            if any(b[off:off + n]):
                res.violation('wire layout: reserved bytes %d..%d of a default-constructed %s are %s, must be zero' % (off, off + n - 1, name, b[off:off + n].hex()), c.text(), True, 'judge')
        if name == 'ASAM::CMP::CmpHeader' and b[0] != 1:
            res.violation('wire layout: default CmpHeader version is %d, documented default 1' % b[0], c.text(), True, 'judge')
    res.cov['evaluations'] += len(dcases)
    # the raw headers a Packet serialises (getRawCmpHeader / getRawMessageHeader) into a destination that already holds other data:
    # every one of the 8 + 16 bytes is prescribed by the layout, reserved bytes are zero, for every message type
    import gen_enc
    from runner import correspondence
    rcases = []
    for i in range(120 if res.tier == 'quick' else 4000):
        r = rng.fork('raw%d' % i)
        p = gen_enc.gen_packet(r, r.range(1, 255), r.choice([0, 1, 8, 300]), mt=r.choice([1, 3, 255, 2, 0, 7, 0x42]))
        p['payload'] = r.bytes(len(p['payload'])); p['kind'] = None
        fill = r.choice([0xA5, 0xFF, 0x00, 0x5A, r.below(256)])
        rcases.append(Case('raw%d' % i, [gen_enc.pkt_line(0, p), 'XRAWHDR 0 %d' % fill], dict(p=p)))
    def rjudge(c, lines):
        an = anomalies(lines)
        if an:
            return an[0]
        p = c.meta['p']; mt = p['mt']
        ident = p['ifid'] if mt == 1 else (p['vendor'] if mt in (3, 255) else 0)
        want = bytes([p['ver'], 0]) + be(p['dev'], 2) + bytes([mt, p['stream']]) + be(p['seq'], 2) + be(p['ts'], 8) + be(ident, 4) + bytes([p['flags'], p['pt']]) + be(len(p['payload']) % 65536, 2)
        got = [l for l in lines if l.startswith('R 0 ')]
        if not got:
            return 'no raw header line'
        g = bytes.fromhex(got[0].split()[2][1:])
        if g != want:
            k = next(i for i in range(min(len(g), len(want))) if g[i] != want[i]) if len(g) == len(want) else -1
            return 'raw headers of a packet (message type %d) written into a used destination: byte %d is 0x%02x, the layout prescribes 0x%02x' % (mt, k, g[k] if k >= 0 else 0, want[k] if k >= 0 else 0)
        return None
    correspondence(res, rcases, lambda c, lines: [l for l in lines if l.startswith('R ')], rjudge, 'wire layout of the serialised packet headers')
    # the variable-length parts the builders lay out (length words, data, NUL / zero padding to even length): the raw bytes must be the
    # layout's, whatever the object held before - padding bytes included
    import props_misc
    bcases = []
    for j in range(400 if res.tier == 'quick' else 12000):
        r = rng.fork('bld%d' % j)
        kind = r.choice([49, 50, 50, 49, 8, 1, 3])
        bcases.append(props_misc.gen_c13(r, 'bld%d' % j, kind, thorough=res.tier == 'thorough'))
    def bjudge(c, lines):
        j = props_misc.judge_c13(c, lines)
        return ('wire layout of a built payload: ' + j) if j else None
    correspondence(res, bcases, lambda c, lines: [l for l in lines if l.startswith(('R ', 'W'))] + anomalies(lines), bjudge, 'wire layout of the payload builders')
    res.cov['rule'] = ('as C11, judged against the layout table (offset, width, bit range, big-endian) for every field of every class; plus default-constructed objects of every header class: sizeof, reserved bytes zero, documented defaults; plus the 24 raw header bytes Packet serialises into a pre-filled destination, for every message type; plus payloads built by setData over earlier related contents (capture-module strings, stream-id lists, vendor data, CAN / LIN / Ethernet data) compared byte for byte with the layout incl. the padding bytes. '
                       'non-trivial = distinct (method, arguments, non-zero background)')
