"""Generators and judges for the decoder family: C02, C04, C05, C06, C17, C18 (and the TECMP frames of C15).
The reference decoder below is written from the property statements and the layout table (DESIGN Appendix A),
independently of the Coq model and of the library."""
from common import *

# ------------------------------------------------------------------ payload validity per the layout rules
def blocks_fit(d, pos, k):
    for _ in range(k):
        if len(d) - pos < 2:
            return None
        l = int.from_bytes(d[pos:pos + 2], 'big')
        if len(d) - pos - 2 < l:
            return None
        pos += 2 + l
    return pos

def kind_valid(kind, d):
    n = len(d)
    if kind in (1, 2):
        return n >= 16 and (int.from_bytes(d[0:2], 'big') & 0x3FF) == 0 and d[12:14] == b'\0\0' and d[15] <= n - 16
    if kind == 3:
        return n >= 8 and d[7] <= n - 8
    if kind == 8:
        return n >= 6 and (int.from_bytes(d[0:2], 'big') & 0x3B) == 0 and int.from_bytes(d[4:6], 'big') <= n - 6
    if kind == 7:
        return n >= 16 and (d[1] & 3) in (0, 1)
    if kind == 49:
        return n >= 26 and blocks_fit(d, 26, 5) is not None
    if kind == 50:
        if n < 36 or d[29] > 2 or n - 36 < 2:
            return False
        c = int.from_bytes(d[36:38], 'big')
        c += c % 2
        if n - 38 < c:
            return False
        pos = 38 + c
        if n - pos < 2:
            return False
        return int.from_bytes(d[pos:pos + 2], 'big') <= n - pos - 2
    return True

TYPE_KIND = {(1, 1): 1, (1, 2): 2, (1, 3): 3, (1, 7): 7, (1, 8): 8, (3, 1): 49, (3, 2): 50}

def spec_packet(h, m, ver=None, mt=None, payload=None):
    """packet the decoder must report for message m of a frame with header h: list of K-line numbers + payload"""
    mt = h['mt'] if mt is None else mt
    ver = h['ver'] if ver is None else ver
    pay = bytes(m['payload'] if payload is None else payload)
    kind = TYPE_KIND.get((mt, m['pt']))
    ok = kind is None or kind_valid(kind, pay)
    ty = mt * 256 + m['pt'] if ok else 0
    if not ok:
        pay = bytes(len(pay))
    valid = 1 if (ty & 0xFF) != 0 and (ty & 0xFF00) != 0 else 0
    return ([ver, h['dev'], h['stream'], 0, (ty >> 8) & 255, ty & 255, m['ts'], m['ident'] if mt == 1 else 0,
             (m['ident'] & 0xFFFF) if mt in (3, 255) else 0, m['flags'], 0, valid, ty, len(pay) & 0xFFFF], pay)

class RefDecoder:
    """reference reassembly per C04/C05/C06/C17: table endpoint -> open chain"""
    def __init__(self):
        self.open = {}
    def feed(self, f):
        f = bytes(f)
        if len(f) < 8 or f[0] == 0:
            return None  # not a capture-module frame: not judged here
        h = dict(ver=f[0], dev=int.from_bytes(f[2:4], 'big'), mt=f[4], stream=f[5], seq=int.from_bytes(f[6:8], 'big'))
        e = (h['dev'], h['stream'])
        out = []
        pos = 8
        if len(f) == 8:
            self.open.pop(e, None)
        while len(f) - pos > 0:
            rem = len(f) - pos
            if rem < 16:
                self.open.pop(e, None); break
            plen = int.from_bytes(f[pos + 14:pos + 16], 'big')
            flags = f[pos + 12]; pt = f[pos + 13]
            if plen > rem - 16 or (flags & 0x40) or pt == 0:
                self.open.pop(e, None); break
            m = dict(ts=int.from_bytes(f[pos:pos + 8], 'big'), ident=int.from_bytes(f[pos + 8:pos + 12], 'big'), flags=flags, pt=pt,
                     plen=plen, payload=f[pos + 16:pos + 16 + plen])
            seg = flags & 12
            if seg == 0:
                self.open.pop(e, None)
                out.append(spec_packet(h, m))
                pos += 16 + plen
                continue
            if seg == 4:
                self.open[e] = dict(m=m, data=bytearray(m['payload']), ver=h['ver'], mt=h['mt'], seq=h['seq'])
            else:
                c = self.open.get(e)
                if c is not None:
                    if c['ver'] != h['ver'] or c['mt'] != h['mt'] or h['seq'] != (c['seq'] + 1) % 65536:
                        del self.open[e]
                    else:
                        c['data'] += m['payload']; c['seq'] = h['seq']
                        if seg == 12:
                            mm = dict(c['m'])
                            tot = len(c['data']) % 65536
                            out.append(spec_packet(h, mm, ver=c['ver'], mt=c['mt'], payload=bytes(c['data'][:tot])))
                            del self.open[e]
            break
        return out
    def pending(self):
        return len(self.open), sum(16 + len(c['data']) for c in self.open.values())

# ------------------------------------------------------------------ message / frame generators
def rand_payload(rng, kind, consistent=True):
    """(payload bytes) of a typed kind; consistent=False makes one inner length / flag inconsistent"""
    n = rng.choice([0, 1, 2, 3, 8, 12, 16, 20, 33, 64])
    if kind in (1, 2):
        data = rng.bytes(n)
        p = can_payload(flags=rng.choice([0, 0x0400, 0x0800, 0x3000, 0x3C00]), idword=rng.next() & 0xFFFFFFFF, crcword=rng.next() & 0xFFFFFFFF,
                        dlc=rng.below(16), data=data) + rng.bytes(rng.choice([0, 0, 1, 5]))
        if not consistent:
            k = rng.below(4)
            if k == 0: p = p[:15] + bytes([min(255, len(p) - 16 + rng.range(1, 3))]) + p[16:]
            elif k == 1: p = be(1 << rng.below(10), 2) + p[2:]
            elif k == 2: p = p[:12] + be(rng.range(1, 65535), 2) + p[14:]
            else: p = p[:rng.below(16)]
        return p
    if kind == 3:
        p = lin_payload(flags=rng.below(512), pid=rng.below(256), checksum=rng.below(256), data=rng.bytes(n)) + rng.bytes(rng.choice([0, 0, 2]))
        if not consistent:
            p = p[:7] + bytes([min(255, len(p) - 8 + rng.range(1, 4))]) + p[8:] if rng.chance(2, 3) else p[:rng.below(8)]
        return p
    if kind == 8:
        p = eth_payload(flags=rng.choice([0, 0x40, 0x80, 0x04, 0xC4]), data=rng.bytes(n * 3)) + rng.bytes(rng.choice([0, 0, 3]))
        if not consistent:
            k = rng.below(3)
            if k == 0: p = p[:4] + be(len(p) - 6 + rng.range(1, 300), 2) + p[6:]
            elif k == 1: p = be(rng.choice([1, 2, 8, 0x10, 0x20]), 2) + p[2:]
            else: p = p[:rng.below(6)]
        return p
    if kind == 7:
        p = analog_payload(flags=rng.choice([0, 1, 0xFFFC, 0xFFFD]), unit=rng.below(256), interval=rng.next() & 0xFFFFFFFF, offset=rng.next() & 0xFFFFFFFF,
                           scalar=rng.next() & 0xFFFFFFFF, data=rng.bytes(n))
        if not consistent:
            p = be(rng.choice([2, 3, 0xFF02, 7]), 2) + p[2:] if rng.chance(1, 2) else p[:rng.below(16)]
        return p
    if kind == 49:
        strs = [rng.bytes(rng.choice([0, 1, 2, 5, 11])).replace(b'\0', b'z') for _ in range(4)]
        p = cm_payload(uptime=rng.next(), gm=rng.next(), quality=rng.next() & 0xFFFFFFFF, utc=rng.below(65536), tsrc=rng.below(256), dom=rng.below(256),
                       gptp=rng.below(256), strings=strs, vendor=rng.bytes(rng.choice([0, 0, 3, 8])))
        if rng.chance(1, 4):
            p += rng.bytes(rng.range(1, 6))
        if not consistent:
            k = rng.below(4)
            if k == 3:
                # cut exactly at / one byte into / one byte before a block boundary
                pos = 26; cuts = [26, 27]
                for _ in range(5):
                    if pos + 2 > len(p): break
                    l = int.from_bytes(p[pos:pos + 2], 'big'); pos += 2 + l
                    cuts += [pos - 1, pos, pos + 1]
                p = p[:max(0, min(rng.choice(cuts), len(p) - 1))]
            elif k == 0:
                p = p[:rng.range(0, len(p) - 1)]
            elif k == 1:
                pos = 26 + 0
                p = p[:pos] + be(rng.choice([len(p), 0xFFFF, len(p) - pos - 1]), 2) + p[pos + 2:]
            else:
                p = p[:len(p) - rng.range(1, 3)]
        return p
    if kind == 50:
        p = if_payload(ifid=rng.next() & 0xFFFFFFFF, c=[rng.next() & 0xFFFFFFFF for _ in range(6)], iftype=rng.below(256), status=rng.below(3),
                       feat=rng.next() & 0xFFFFFFFF, ids=rng.bytes(rng.choice([0, 1, 2, 3, 7])), vendor=rng.bytes(rng.choice([0, 0, 1, 4])))
        if rng.chance(1, 4):
            p += rng.bytes(rng.range(1, 4))
        if not consistent:
            k = rng.below(5)
            if k == 4:
                # cut exactly at a structural boundary: inside / right after the count, after the ids, at the pad byte, inside the vendor length
                nids = int.from_bytes(p[36:38], 'big')
                cut = rng.choice([36, 37, 38, 38 + nids, 38 + nids + nids % 2, 38 + nids + nids % 2 + 1, 38 + nids + nids % 2 + 2])
                p = p[:min(cut, len(p) - 1)]
            elif k == 0: p = p[:rng.range(0, len(p) - 1)]
            elif k == 1: p = p[:29] + bytes([rng.range(3, 255)]) + p[30:]
            elif k == 2: p = p[:36] + be(rng.choice([0xFFFF, len(p) - 38 + 1, len(p)]), 2) + p[38:]
            else: p = p[:len(p) - 1]
        return p
    return rng.bytes(n)

def rand_msg(rng, mt, flags=None, consistent=True, kind=None):
    if kind is None:
        if mt == 1 and rng.chance(2, 3): kind = rng.choice([1, 2, 3, 7, 8])
        elif mt == 3 and rng.chance(2, 3): kind = rng.choice([49, 50])
    if kind is not None:
        pt = KIND_TYPE[kind][1]
        pay = rand_payload(rng, kind, consistent)
    else:
        pt = rng.choice([0x0F, 0xFF, 0x20, 0x7F, rng.range(9, 254)])
        pay = rng.bytes(rng.choice([0, 1, 2, 7, 16, 40]))
    if flags is None:
        flags = rng.below(256) & 0xB3
    return msg(rng.next() if rng.chance(3, 4) else rng.choice([0, 2 ** 64 - 1]), rng.next() & 0xFFFFFFFF, flags, pt, pay)

def rand_hdr(rng, eps=None):
    dev, stream = rng.choice(eps) if eps else (rng.below(65536), rng.below(256))
    return dict(ver=rng.range(1, 255), dev=dev, mt=rng.choice([1, 1, 3, 3, 255, 2, 9]), stream=stream, seq=rng.below(65536))

def frame_of(h, msgs, pad=0):
    return cmp_frame(h['ver'], h['dev'], h['mt'], h['stream'], h['seq'], msgs, pad)

def feed_line(k, b):
    return 'DFEED %d %s' % (k, hx(b))

def kparse(l):
    t = l.split()
    return ([int(x) for x in t[1:15]], bytes.fromhex(t[15][1:]))

def calls_of(lines):
    """split a transcript into per-DFEED observations: [(N numbers, [K...], anomalies)]"""
    out = []
    for l in lines:
        if l.startswith('N '):
            out.append(([int(x) for x in l.split()[1:]], [], []))
        elif l.startswith('K ') and out:
            out[-1][1].append(kparse(l))
        elif l.startswith(ANOMALY):
            if out: out[-1][2].append(l)
            else: out.append(([-1, -1, -1], [], [l]))
    return out

# ------------------------------------------------------------------ C04
def gen_c04(rng, cid):
    h = rand_hdr(rng)
    nm = rng.choice([0, 1, 1, 2, 3, 5, 8])
    msgs = [rand_msg(rng, h['mt'], consistent=rng.chance(3, 4)) for _ in range(nm)]
    f = frame_of(h, msgs)
    lines = []
    frames = []
    # a prior history on the same decoder: an open chain on this endpoint or another, or nothing
    k = rng.below(3)
    if k:
        hh = dict(h) if k == 1 else rand_hdr(rng)
        hh['seq'] = rng.below(65536)
        frames.append(frame_of(hh, [msg(1, 2, 4, 0x77, rng.bytes(5))]))
    mode = rng.below(4)
    if mode == 0: frames.append(f)
    elif mode == 1: frames.append(f + bytes(rng.range(1, 40)))
    elif mode == 2: frames.append(f[:rng.range(0, len(f))])
    else:
        frames.append(f); frames.append(f[:rng.range(8, len(f))] if len(f) > 8 else f); frames.append(f + bytes(rng.range(1, 17)))
    lines = [feed_line(1, x) for x in frames]
    return Case(cid, lines, dict(frames=frames))

def polyglot_cases(rng, tag, per_case=12):
    """capture-module frames that are ALSO plausible under the TECMP layout: every CMP header field that overlays a TECMP header field
    takes one of TECMP's legal values (message type byte = TECMP version 2/3, stream id = a TECMP message type, sequence counter = a
    TECMP data type, upper timestamp bytes = TECMP's reserved word) and the first payload word is the TECMP entry length that would tile
    the frame (or a neighbour). They start with a non-zero version byte, so they are capture-module frames and nothing else."""
    frames = []
    for mt in (3, 2, 1, 255):
        for stream in (0, 1, 2, 3, 4, 0x0A):
            for seq in (0, 1, 2, 3, 4, 8, 0x10, 0x20, 0x80):
                if not rng.chance(1, 2) and not (mt == 3 and stream == 3):
                    continue
                h = dict(ver=rng.choice([1, 1, 2, 3]), dev=rng.choice([0, 1, 0x100, rng.below(65536)]), mt=mt, stream=stream, seq=seq)
                ts = rng.next() & rng.choice([0xFFFFFFFFFFFF, 0xFFFFFFFFFFFF, 0xFFFFFFFF, 2 ** 64 - 1])
                variant = rng.below(4)
                if variant == 0 or mt not in (3,):
                    n = rng.choice([4, 8, 12, 16, 20, 40])
                    for delta in rng.choice([[0], [0], [0, 1], [0, -1]]):
                        w = (n - 4 + delta) & 0xFFFF
                        pay = be(w, 2) + rng.bytes(n - 2)
                        frames.append(frame_of(h, [msg(ts, rng.next() & 0xFFFFFFFF, rng.below(256) & 0xB3, rng.choice([0x7F, 0x20, 3, 4]), pay)]))
                elif variant == 1:
                    # a valid capture-module status payload whose uptime starts with the tiling length
                    body = cm_payload(uptime=0, strings=[rng.bytes(rng.below(4)).replace(b'\0', b'x') for _ in range(4)])
                    pay = be((len(body) - 4) & 0xFFFF, 2) + rng.bytes(6) + body[8:]
                    frames.append(frame_of(h, [msg(ts, 0, 0, 1, pay)]))
                elif variant == 2:
                    body = if_payload(ifid=0, c=[rng.next() & 0xFFFFFFFF for _ in range(6)], status=rng.below(3))
                    pay = be((len(body) - 4) & 0xFFFF, 2) + body[2:]
                    frames.append(frame_of(h, [msg(ts, 0, 0, 2, pay)]))
                else:
                    # two messages; the first word spans both, zero padding behind
                    p2 = rng.bytes(rng.choice([2, 6, 10]))
                    n = rng.choice([4, 8, 16])
                    total = n + 16 + len(p2)
                    pay = be((total - 4) & 0xFFFF, 2) + rng.bytes(n - 2)
                    frames.append(frame_of(h, [msg(ts, 1, 0, 0x7F, pay), msg(rng.next(), 2, 0, 0x7F, p2)], pad=rng.choice([0, 0, 4, 12])))
    cases = []
    for i in range(0, len(frames), per_case):
        fr = frames[i:i + per_case]
        cases.append(Case('%s%d' % (tag, i // per_case), [feed_line(1, x) for x in fr], dict(frames=fr)))
    return cases

def truncation_cases(rng, cid):
    """every truncation of one frame"""
    h = rand_hdr(rng)
    msgs = [rand_msg(rng, h['mt']) for _ in range(rng.range(1, 4))]
    f = frame_of(h, msgs)
    frames = [f[:n] for n in range(len(f) + 1)]
    return Case(cid, [feed_line(1, x) for x in frames], dict(frames=frames))

def judge_ref(case, lines, check_pending=False, eps_filter=None):
    """compare every decode call of the implementation with the reference decoder"""
    ref = RefDecoder()
    calls = calls_of(lines)
    frames = case.meta['frames']
    if len(calls) != len(frames):
        an = anomalies(lines)
        return 'transcript has %d decode calls, script %d%s' % (len(calls), len(frames), (' (' + an[0] + ')') if an else '')
    for i, (f, (n, ks, an)) in enumerate(zip(frames, calls)):
        if an:
            return 'call %d: %s' % (i, an[0])
        exp = ref.feed(f)
        if exp is None:
            continue
        if len(ks) != len(exp):
            return 'call %d (%d bytes): %d packets returned, wire carries %d' % (i, len(f), len(ks), len(exp))
        for j, (g, e) in enumerate(zip(ks, exp)):
            if g[0] != e[0] or g[1] != e[1]:
                names = ['version', 'device id', 'stream id', 'sequence counter', 'message type', 'payload type', 'timestamp', 'interface id', 'vendor id',
                         'flags', 'segment type', 'valid', 'type', 'length']
                d = [names[x] for x in range(14) if g[0][x] != e[0][x]] or ['payload bytes']
                return 'call %d packet %d: %s differ from the wire: got %r, wire %r' % (i, j, '/'.join(d), g[0], e[0])
        if check_pending:
            pc, pb = ref.pending()
            if n[1] != pc:
                return 'call %d: decoder holds %d pending reassemblies, %d chains are open' % (i, n[1], pc)
            if n[2] > pb:
                return 'call %d: %d bytes buffered, open chains received %d' % (i, n[2], pb)
    return None

# ------------------------------------------------------------------ C05 / C17 / C18 histories
def chain_frames(rng, e, start, nseg, mt=None, ver=None, sizes=None, trail=True, prefix=False):
    """frames of one well-formed segmented message of endpoint e with consecutive counters from start"""
    mt = rng.choice([1, 3, 255]) if mt is None else mt
    ver = rng.range(1, 255) if ver is None else ver
    ts, ident, fl, pt = rng.next(), rng.next() & 0xFFFFFFFF, rng.below(256) & 0xB3, rng.range(1, 255)
    out = []
    for i in range(nseg):
        seg = 4 if i == 0 else (12 if i == nseg - 1 else 8)
        n = sizes[i] if sizes else rng.choice([0, 1, 2, 5, 16, 40, 77])
        tr = b''
        if trail and rng.chance(1, 3):
            k = rng.below(4)
            if k == 0:
                # what follows the declared length is itself a complete, valid message (an older frame left in a reused buffer):
                # unsegmented, or a first segment - a segment is alone in its frame, the rest is ignored
                tr = msg(rng.next(), rng.next() & 0xFFFFFFFF, (rng.below(256) & 0xB3) | rng.choice([0, 0, 4]), rng.range(1, 255), rng.bytes(rng.choice([0, 3, 20])))
            else:
                tr = rng.bytes(rng.choice([1, 4, 9, 16, 40]))
        # later segments may carry different header fields: those of the first segment must win
        # (timestamp, id, flags and also the payload-type byte - any non-zero value)
        m = msg(ts if i == 0 else rng.next(), ident if i == 0 else rng.next() & 0xFFFFFFFF, (fl if i == 0 else rng.below(256) & 0xB3) | seg,
                pt if (i == 0 or rng.chance(1, 2)) else rng.range(1, 255), rng.bytes(n), trail=tr)
        pre = []
        if prefix and i > 0 and rng.chance(1, 4):
            # aggregated frame: valid unsegmented message(s) first, then the continuation segment. The unsegmented message cancels the
            # pending reassembly, so the segment behind it is an orphan (the chain is NOT delivered)
            pre = [msg(rng.next(), rng.next() & 0xFFFFFFFF, rng.below(256) & 0xB3, rng.range(1, 255), rng.bytes(rng.choice([0, 1, 9]))) for _ in range(rng.range(1, 2))]
        out.append(cmp_frame(ver, e[0], mt, e[1], (start + i) % 65536, pre + [m]))
    return out

def gen_history(rng, cid, neps=3, nitems=6, kinds=('chain', 'unseg', 'orphan', 'abort', 'garbage', 'tecmp', 'short', 'hdronly', 'mixed', 'tecmp8', 'pierced', 'chain')):
    """interleaving of per-endpoint item streams; each endpoint's frames stay in order"""
    eps = []
    base_dev = rng.below(65536)
    for i in range(neps):
        k = rng.below(4)
        if k == 0 or not eps:
            eps.append((base_dev if rng.chance(1, 2) else rng.below(65536), rng.below(4)))
        elif k == 1:
            # bit-neighbour of an existing endpoint in the 24-bit (device, stream) space: one or two flipped bits
            d, s = rng.choice(eps)
            v = (d << 8 | s)
            for _ in range(rng.range(1, 2)):
                v ^= 1 << rng.below(24)
            eps.append((v >> 8, v & 255))
        elif k == 2:
            # ids that collide under sloppy packings / hashes: stream bits moved into the device id and vice versa
            d, s = rng.choice(eps)
            sh = rng.choice([0, 4, 8])
            eps.append(((d ^ (s << sh)) & 0xFFFF, rng.choice([0, s, s ^ 1])) if rng.chance(1, 2) else (((d | (s << sh)) & 0xFFFF), rng.choice([s, 0])))
        else:
            d, s = rng.choice(eps)
            eps.append((d, rng.below(256)) if rng.chance(1, 2) else (rng.below(65536), s))
    eps = list(dict.fromkeys(eps))
    streams = []
    for e in eps:
        seq = rng.choice([0, 1, 65530, 65534, 65535, rng.below(65536)])
        fr = []
        for _ in range(rng.range(1, nitems)):
            k = rng.choice(kinds)
            if k == 'chain':
                c = chain_frames(rng, e, seq, rng.range(2, 6)); fr += c; seq += len(c)
            elif k == 'unseg':
                h = dict(ver=rng.range(1, 255), dev=e[0], mt=rng.choice([1, 3]), stream=e[1], seq=seq % 65536)
                fr.append(frame_of(h, [rand_msg(rng, h['mt'], flags=rng.below(256) & 0xB3) for _ in range(rng.range(1, 3))])); seq += 1
            elif k == 'orphan':
                c = chain_frames(rng, e, seq, rng.range(2, 4)); fr += c[1:]; seq += len(c)
            elif k == 'abort':
                c = chain_frames(rng, e, seq, rng.range(3, 5)); cut = rng.range(1, len(c) - 1); fr += c[:cut]; seq += len(c) + rng.below(2)
            elif k == 'pierced':
                # a non-CMP 8-byte buffer spelling this endpoint arrives in the middle of a chain: the chain must still complete
                c = chain_frames(rng, e, seq, rng.range(2, 4)); cut = rng.range(1, len(c) - 1)
                fr += c[:cut] + [bytes([0, rng.below(256)]) + be(e[0], 2) + bytes([rng.below(256), e[1], rng.below(256), rng.below(256)])] + c[cut:]; seq += len(c)
            elif k == 'garbage':
                h = dict(ver=rng.range(1, 255), dev=e[0], mt=1, stream=e[1], seq=seq % 65536)
                fr.append(frame_of(h, [rng.bytes(rng.range(1, 30))])); seq += 1
            elif k == 'hdronly':
                fr.append(cmp_hdr(rng.range(1, 255), e[0], 1, e[1], seq % 65536)); seq += 1
            elif k == 'tecmp':
                fr.append(tecmp_hdr(e[0] & 255, 3, 2, 9, ifid=5, ts=77) + bytes([0, 0, 1, 0x23, 4, 1, 2, 3, 4]))
            elif k == 'short':
                fr.append(rng.bytes(rng.below(8)))
            elif k == 'mixed':
                # chains whose continuation frames also carry unsegmented messages in front of the segment
                c = chain_frames(rng, e, seq, rng.range(2, 5), prefix=True); fr += c; seq += len(c)
            elif k == 'tecmp8':
                # an 8-byte buffer that is NOT a capture-module frame (first byte 0) whose bytes 2..3 / 5 spell this endpoint
                fr.append(bytes([0, rng.below(256)]) + be(e[0], 2) + bytes([rng.below(256), e[1], rng.below(256), rng.below(256)]))
        streams.append(fr)
    # random merge
    idx = [0] * len(streams)
    frames = []
    while any(idx[i] < len(streams[i]) for i in range(len(streams))):
        c = [i for i in range(len(streams)) if idx[i] < len(streams[i])]
        i = rng.choice(c)
        frames.append(streams[i][idx[i]]); idx[i] += 1
    return Case(cid, [feed_line(1, f) for f in frames], dict(frames=frames, eps=eps))

BIG_SPLITS = [[65535, 0], [65519, 0], [65520, 0], [65519, 1], [40000, 25535], [40000, 25520], [30000, 30000, 5535], [65535, 0, 0], [1, 65534],
              [40000, 25536], [40000, 30000], [8000] * 9, [65535, 1], [65535, 65535], [1400] * 47, [60000, 5000, 535, 0]]

def big_chain_cases(rng, tag, thorough=False):
    """segmented messages whose TOTAL payload is at, just below and above the 16-bit limits (65519/65520/65535/65536/...):
    few large segments, or many MTU-sized ones; alone, and interleaved with a small chain of a neighbouring endpoint"""
    cases = []
    splits = BIG_SPLITS if thorough else [BIG_SPLITS[i] for i in (0, 2, 4, 6, 9, 10, 11, 14)]
    for i, sizes in enumerate(splits):
        r = rng.fork('%s%d' % (tag, i))
        e = (r.below(65536), r.below(256))
        start = r.choice([0, 65535, 65534, r.below(65536)])
        fr = chain_frames(r, e, start, len(sizes), sizes=sizes, trail=r.chance(1, 2))
        if r.chance(1, 2):
            e2 = (e[0] ^ 1, e[1])
            other = chain_frames(r, e2, r.below(65536), 3)
            fr = fr[:1] + other[:2] + fr[1:] + other[2:]
        # afterwards a small complete chain on the same endpoint: the big one must not have damaged the decoder
        fr += chain_frames(r, e, start + len(sizes) + 3, 2)
        cases.append(Case('%s%d' % (tag, i), [feed_line(1, f) for f in fr], dict(frames=fr, eps=[e])))
    return cases

def many_endpoint_cases(rng, tag, thorough=False):
    """N endpoints (several device ids x stream ids) with a reassembly pending at the same moment: all first segments, then the
    remaining segments in another order; N around 255/256/257 and beyond"""
    cases = []
    for i, n in enumerate([255, 256, 257, 300, 513] + ([1025, 4097] if thorough else [])):
        r = rng.fork('%s%d' % (tag, i))
        base = r.below(65536)
        eps = [((base + j // 200) & 0xFFFF, j % 200) for j in range(n)]
        chains = [chain_frames(r, e, r.below(65536), r.choice([2, 2, 3]), sizes=None, trail=False) for e in eps]
        fr = [c[0] for c in chains]
        order = list(range(n))
        # Fisher-Yates with the case's own stream
        for a in range(n - 1, 0, -1):
            b = r.below(a + 1); order[a], order[b] = order[b], order[a]
        for j in order:
            fr += chains[j][1:]
        cases.append(Case('%s%d' % (tag, i), [feed_line(1, f) for f in fr], dict(frames=fr, eps=eps)))
    return cases

def pigeonhole_cases(rng, tag, thorough=False, sizes=None):
    """more endpoints pending at once than any small per-endpoint side structure (filter, cache, folded key) has slots, in three
    families: a DENSE block (consecutive device ids x all 256 stream ids - contains the pairs that collide under shift/xor/add style
    key foldings), random endpoints, one stream x consecutive device ids (thorough: up to 6000). All first segments; a random half is then completed or
    aborted (which releases whatever it shares with a survivor); every survivor then either gets an abort event followed by the stray
    remaining segments (nothing may be delivered) or its remaining segments (the message must be delivered intact)."""
    cases = []
    plan = sizes or ([('dense', 1024), ('random', 1000), ('devs', 800)] if not thorough else
                     [('dense', 1024), ('dense', 4096), ('random', 1000), ('random', 6000), ('devs', 800), ('devs', 4000)])
    for i, (fam, n) in enumerate(plan):
        r = rng.fork('%sph%d' % (tag, i))
        if fam == 'dense':
            d0 = r.choice([0, 1, r.below(60000)])
            eps = [((d0 + j // 256) & 0xFFFF, j % 256) for j in range(n)]
        elif fam == 'random':
            seen = set(); eps = []
            while len(eps) < n:
                e = (r.below(65536), r.below(256))
                if e not in seen:
                    seen.add(e); eps.append(e)
        else:
            st = r.below(256); d0 = r.below(65536 - n) if n < 65536 else 0
            eps = [((d0 + j) & 0xFFFF, st) for j in range(min(n, 65536))]
        chains = {e: chain_frames(r, e, r.choice([0, 1, 65534, r.below(65536)]), 3, trail=False) for e in eps}
        fr = [chains[e][0] for e in eps]
        half, surv = [], []
        for e in eps:
            (half if r.chance(1, 2) else surv).append(e)
        for e in half:
            if r.chance(1, 2):
                fr += chains[e][1:]
            else:
                fr.append(cmp_frame(1, e[0], 1, e[1], 9, [msg(5, 6, 0, 0x7E, b'a')]) if r.chance(1, 2) else cmp_frame(1, e[0], 1, e[1], 9, []))
        for e in surv:
            k = r.below(3)
            if k == 0:
                fr += [cmp_frame(1, e[0], 1, e[1], 9, [msg(5, 6, 0, 0x7E, b'a')])] + chains[e][1:]
            elif k == 1:
                fr += [cmp_frame(1, e[0], 1, e[1], 9, [])] + chains[e][1:]
            else:
                fr += chains[e][1:]
        cases.append(Case('%sph%d' % (tag, i), [feed_line(1, f) for f in fr], dict(frames=fr, eps=eps)))
    return cases

def copy_cases(rng, tag, n):
    """a Decoder is copied while reassemblies are pending; original and copy then both receive the remaining frames (any merge order).
    A copy is a separate instance: each must behave as the reference decoder with a deep copy of the state"""
    cases = []
    for i in range(n):
        r = rng.fork('%s%d' % (tag, i))
        eps = [(r.below(65536), r.below(4)) for _ in range(r.range(1, 3))]
        streams = []
        for e in eps:
            fr = []
            seq = r.below(65536)
            for _ in range(r.range(1, 3)):
                c = chain_frames(r, e, seq, r.range(2, 5), sizes=[r.choice([1, 7, 40, 300, 706]) for _ in range(5)]); fr += c; seq += len(c)
            streams.append(fr)
        frames = []
        idx = [0] * len(streams)
        while any(idx[j] < len(streams[j]) for j in range(len(streams))):
            j = r.choice([j for j in range(len(streams)) if idx[j] < len(streams[j])])
            frames.append(streams[j][idx[j]]); idx[j] += 1
        cut = r.range(1, max(1, len(frames) - 1))
        ops = [('feed', 1, f) for f in frames[:cut]] + [('copy', 2, 1)]
        rest1 = [('feed', 1, f) for f in frames[cut:]]
        rest2 = [('feed', 2, f) for f in frames[cut:]]
        k = r.below(3)
        ops += (rest1 + rest2) if k == 0 else (rest2 + rest1) if k == 1 else merge_keep_order(r, rest1, rest2)
        lines = [feed_line(o[1], o[2]) if o[0] == 'feed' else 'DCOPY %d %d' % (o[1], o[2]) for o in ops]
        cases.append(Case('%s%d' % (tag, i), lines, dict(ops=ops)))
    return cases

def judge_copy(case, lines):
    import copy
    an = anomalies(lines)
    if an:
        return 'anomaly: ' + an[0]
    calls = calls_of(lines)
    refs = {}
    ci = 0
    for o in case.meta['ops']:
        if o[0] == 'copy':
            if o[2] in refs:
                refs[o[1]] = copy.deepcopy(refs[o[2]])
            continue
        if ci >= len(calls):
            return 'transcript ends after %d decode calls' % ci
        n, ks, _ = calls[ci]; ci += 1
        exp = refs.setdefault(o[1], RefDecoder()).feed(o[2])
        if exp is None:
            continue
        if len(ks) != len(exp):
            return 'decoder %d, call %d: %d packets returned, its own history yields %d (a copied decoder shares state with its original?)' % (o[1], ci - 1, len(ks), len(exp))
        for g, e in zip(ks, exp):
            if g[0] != e[0] or g[1] != e[1]:
                return 'decoder %d, call %d: packet differs from what its own history yields (length %d vs %d)' % (o[1], ci - 1, g[0][13], e[0][13])
    return None

def slow_and_busy_cases(rng, tag, thorough=False):
    """(i) wall-clock time passes between two segments of a message (nothing in the property depends on time);
    (ii) tens of thousands of frames of OTHER endpoints are decoded between two segments of a message"""
    cases = []
    for i, ms in enumerate([2300] + ([6000] if thorough else [])):
        r = rng.fork('%sslow%d' % (tag, i))
        e = (r.below(65536), r.below(256))
        fr = chain_frames(r, e, r.choice([65534, r.below(65536)]), 3, trail=False)
        lines = [feed_line(1, fr[0]), feed_line(1, fr[1]), 'SLEEP %d' % ms, feed_line(1, fr[2])]
        cases.append(Case('%sslow%d' % (tag, i), lines, dict(frames=fr, eps=[e])))
    for i, nf in enumerate([33000] + ([66000, 140000] if thorough else [])):
        r = rng.fork('%sbusy%d' % (tag, i))
        e = (r.below(65536), r.below(256))
        e2 = (e[0] ^ 1, e[1])
        fr = chain_frames(r, e, r.below(65536), 3, trail=False)
        other = [cmp_frame(1, e2[0], 1, e2[1], j % 65536, [msg(j, 7, 0, 0x7E, bytes([j & 255]))]) for j in range(nf)]
        frames = [fr[0], fr[1]] + other + [fr[2]]
        cases.append(Case('%sbusy%d' % (tag, i), [feed_line(1, f) for f in frames], dict(frames=frames, eps=[e, e2])))
    return cases

def wrap_count_cases(rng, tag, thorough=False):
    """a 16-bit quantity that counts EVENTS (entries erased, messages completed, reassemblies aborted) wraps: between the abort of
    endpoint E's reassembly and a stray continuation segment of E, exactly N other reassemblies are opened and released again, N around
    2^16 (and 2^15). One frame per event: `[unsegmented message][first segment]` of a filler endpoint releases the previous filler
    reassembly and opens the next one (kind 'abort'); `[first]` then `[last]` completes one (kind 'done', two frames per event)."""
    cases = []
    plan = [(65535, 'abort'), (65536, 'abort'), (65534, 'abort'), (32767, 'done')] if not thorough else \
           [(n, k) for k in ('abort', 'done') for n in (32767, 32768, 65534, 65535, 65536)] + [(131071, 'abort')]
    for i, (n, kind) in enumerate(plan):
        r = rng.fork('%swrap%d' % (tag, i))
        e = (r.below(65536), r.below(256))
        f = (e[0] ^ 0x55, e[1] ^ 1)
        fr = chain_frames(r, e, r.below(65536), 4, trail=False)
        frames = [fr[0], fr[1], cmp_frame(1, e[0], 1, e[1], 7, [msg(1, 2, 0, 0x7E, b'x')])]
        for j in range(n):
            if kind == 'abort':
                frames.append(cmp_frame(1, f[0], 1, f[1], j % 65536, [msg(j, 7, 0, 0x7E, b'u'), msg(j, 7, 4, 0x7E, bytes([j & 255, 1]))]))
            else:
                frames.append(cmp_frame(1, f[0], 1, f[1], (2 * j) % 65536, [msg(j, 7, 4, 0x7E, bytes([j & 255]))]))
                frames.append(cmp_frame(1, f[0], 1, f[1], (2 * j + 1) % 65536, [msg(j, 7, 12, 0x7E, bytes([1]))]))
        frames += [fr[2], fr[3]]
        cases.append(Case('%swrap%d' % (tag, i), [feed_line(1, x) for x in frames], dict(frames=frames, eps=[e, f])))
    return cases

def alias_partner(r, e):
    """another endpoint that collides with e under some plausible folding of the 24-bit (device, stream) key"""
    d, s = e
    s2 = r.choice([s ^ 1, s ^ 2, s ^ 0x80, (s + 1) & 255, r.below(256), 0])
    if s2 == s:
        s2 = s ^ 1
    sh = r.choice([0, 4, 8, 8, 8])
    k = r.below(6)
    if k == 0:
        d2 = (d ^ ((s ^ s2) << sh)) & 0xFFFF           # xor fold
    elif k == 1:
        d2 = (d + ((s - s2) << sh)) & 0xFFFF           # additive fold
    elif k == 2:
        d2 = d | ((s ^ s2) << sh) & 0xFFFF             # or fold
    elif k == 3:
        d2, s2 = d ^ 0x100 ^ (r.below(255) << 8), s    # same low byte of the device id
    elif k == 4:
        d2 = d ^ (1 << r.range(8, 15))                 # one high bit
    else:
        d2, s2 = (d & 0xFF) | (r.below(256) << 8), s   # device id truncated to 8 bits
    if (d2 & 0xFFFF, s2) == (d, s):
        d2 ^= 0x100
    return d2 & 0xFFFF, s2

def alias_cases(rng, tag, n):
    """two or three endpoints whose (device, stream) pairs collide under plausible foldings of the 24-bit key (xor / or / add of the stream
    id into the device id at bit 0, 4, 8; truncation to 8 or 16 bits), each with chains in flight at the same time, counters equal or apart"""
    cases = []
    for i in range(n):
        r = rng.fork('%s%d' % (tag, i))
        d, s = r.below(65536), r.below(256)
        d2, s2 = alias_partner(r, (d, s))
        eps = [(d, s), (d2 & 0xFFFF, s2)]
        same = r.chance(1, 2)
        c0 = r.choice([0, 1, 65535, r.below(65536)])
        starts = [c0, c0 if same else r.below(65536)]
        mt, ver = r.choice([1, 3]), r.range(1, 255)
        chains = [chain_frames(r, eps[j], starts[j], r.range(2, 4), mt=mt, ver=ver) for j in range(2)]
        # all interleavings are legal; take a random merge, biased to alternate
        a, b = chains
        fr = []
        ia = ib = 0
        while ia < len(a) or ib < len(b):
            if ib >= len(b) or (ia < len(a) and r.chance(1, 2)):
                fr.append(a[ia]); ia += 1
            else:
                fr.append(b[ib]); ib += 1
        cases.append(Case('%s%d' % (tag, i), [feed_line(1, f) for f in fr], dict(frames=fr, eps=eps)))
    return cases

def frame_ep(f):
    if len(f) < 8 or f[0] == 0:
        return None
    return (int.from_bytes(f[2:4], 'big'), f[5])

def gen_c18(rng, cid):
    return with_projections(gen_history(rng, cid, neps=rng.range(2, 4), nitems=5))

def with_projections(c):
    """the interleaved history on decoder 1, then, per endpoint, only its own frames on a fresh decoder"""
    cid = c.cid
    frames = c.meta['frames']
    eps = list(dict.fromkeys(e for e in (frame_ep(f) for f in frames) if e is not None))
    lines = list(c.lines)
    for i, e in enumerate(eps):
        for f in frames:
            if frame_ep(f) == e:
                lines.append(feed_line(10 + i, f))
    return Case(cid, lines, dict(frames=frames, eps=eps))

def judge_c18(case, lines):
    an = anomalies(lines)
    if an:
        return 'anomaly: ' + an[0]
    frames = case.meta['frames']; eps = case.meta['eps']
    calls = calls_of(lines)
    full = calls[:len(frames)]
    rest = calls[len(frames):]
    per = {e: [] for e in eps}
    for f, (n, ks, _) in zip(frames, full):
        fe = frame_ep(f)
        for k in ks:
            e = (k[0][1], k[0][2])
            if fe is None:
                # TECMP / short buffers: whatever they return is not attributed to a capture-module endpoint by the frame
                continue
            per.setdefault(e, []).append(k)
    pos = 0
    for e in eps:
        cnt = sum(1 for f in frames if frame_ep(f) == e)
        alone = [k for (n, ks, _) in rest[pos:pos + cnt] for k in ks]
        pos += cnt
        if per.get(e, []) != alone:
            return 'endpoint %r: %d packets delivered in the interleaved history, %d when only its own frames are fed (or contents differ)' % (e, len(per.get(e, [])), len(alone))
    # packets attributed to endpoints that sent nothing
    for e in per:
        if e not in eps and per[e]:
            return 'packets delivered for endpoint %r which sent no frame' % (e,)
    return None

# ------------------------------------------------------------------ C06 faults
def gen_stream(rng, e, nmsgs, maxb=64):
    """one encoder stream built from the spec (greedy packing is not needed here: one message or one segment per frame, plus
    some aggregated frames); returns (frames, sent) where sent[i] = (first frame index, last frame index, expected K numbers, payload)"""
    ver = rng.range(1, 255)
    seq = rng.choice([1, 65500, rng.below(60000)])
    frames, sent, owner = [], [], []
    for mi in range(nmsgs):
        mt = rng.choice([1, 3])
        ts, ident, fl, pt = rng.next(), rng.next() & 0xFFFFFFFF, rng.below(256) & 0xB3, rng.choice([0x7E, 0xFE, 0x55])
        if rng.chance(1, 2):
            L = rng.range(1, 30)
            pay = rng.bytes(L)
            h = dict(ver=ver, dev=e[0], mt=mt, stream=e[1], seq=seq % 65536)
            frames.append(frame_of(h, [msg(ts, ident, fl, pt, pay)])); owner.append([mi]); seq += 1
            sent.append(dict(frames=[len(frames) - 1], seg=False, exp=spec_packet(h, dict(ts=ts, ident=ident, flags=fl, pt=pt, payload=pay))))
        else:
            nseg = rng.range(2, 5)
            chunks = [rng.bytes(rng.range(1, 20)) for _ in range(nseg)]
            idxs = []
            for i, c in enumerate(chunks):
                segb = 4 if i == 0 else (12 if i == nseg - 1 else 8)
                h = dict(ver=ver, dev=e[0], mt=mt, stream=e[1], seq=seq % 65536)
                frames.append(frame_of(h, [msg(ts, ident, fl | segb, pt, c)])); idxs.append(len(frames) - 1); owner.append([mi]); seq += 1
            pay = b''.join(chunks)
            h0 = dict(ver=ver, dev=e[0], mt=mt, stream=e[1], seq=0)
            sent.append(dict(frames=idxs, seg=True, exp=spec_packet(h0, dict(ts=ts, ident=ident, flags=fl | 4, pt=pt, payload=pay))))
    return frames, sent

def apply_faults(rng, frames, nfaults, positions=None):
    """returns list of (frame bytes, original index, corruption or None)"""
    seqv = [(f, i, None) for i, f in enumerate(frames)]
    for k in range(nfaults):
        if not seqv:
            break
        kind = rng.choice(['drop', 'dup', 'swap', 'cver', 'cmt'])
        p = rng.below(len(seqv)) if positions is None else positions[k] % len(seqv)
        f, i, c = seqv[p]
        if kind == 'drop':
            del seqv[p]
        elif kind == 'dup':
            seqv.insert(rng.range(p, len(seqv)), (f, i, c))
        elif kind == 'swap' and len(seqv) > 1:
            q = (p + 1) % len(seqv)
            seqv[p], seqv[q] = seqv[q], seqv[p]
        elif kind == 'cver':
            nv = rng.range(1, 255)
            seqv[p] = (bytes([nv]) + f[1:], i, ('ver', nv) if c is None else ('both', c, nv))
        elif kind == 'cmt':
            nm = rng.choice([1, 2, 3, 255, 9])
            seqv[p] = (f[:4] + bytes([nm]) + f[5:], i, ('mt', nm) if c is None else ('both', c, nm))
    return seqv

def merge_keep_order(rng, a, b):
    out = []
    ia = ib = 0
    while ia < len(a) or ib < len(b):
        if ib >= len(b) or (ia < len(a) and rng.chance(1, 2)):
            out.append(a[ia]); ia += 1
        else:
            out.append(b[ib]); ib += 1
    return out

def gen_c06(rng, cid, exhaustive_pos=None, second_endpoint=False):
    e = (rng.below(65536), rng.below(256))
    frames, sent = gen_stream(rng, e, rng.range(2, 8))
    faulty = apply_faults(rng, frames, rng.range(1, 4) if exhaustive_pos is None else 1, None if exhaustive_pos is None else [exhaustive_pos])
    # recovery: a fresh complete chain and a fresh unsegmented message afterwards, in order and uninterrupted on the endpoint
    rec, rsent = gen_stream(rng, e, 2)
    part1 = [f for f, _, _ in faulty]
    part2 = list(rec)
    if second_endpoint:
        # an unfaulted stream of ANOTHER endpoint (one that collides with e under sloppy key foldings) runs through the whole history
        e2 = alias_partner(rng, e)
        f2, s2 = gen_stream(rng, e2, rng.range(3, 6))
        cut = rng.below(len(f2) + 1)
        part1 = merge_keep_order(rng, part1, f2[:cut])
        part2 = merge_keep_order(rng, part2, f2[cut:])
        for x in s2:
            x['frames'] = [100000 + i for i in x['frames']]
        sent = sent + s2
    hist = part1 + part2
    return Case(cid, [feed_line(1, f) for f in hist], dict(frames=hist, sent=sent, faulty=faulty, rec=rsent, nrec=len(part2), npart1=len(part1), ep=e))

def judge_c06(case, lines):
    an = anomalies(lines)
    if an:
        return 'anomaly: ' + an[0]
    m = case.meta
    calls = calls_of(lines)
    if len(calls) != len(m['frames']):
        return 'transcript has %d decode calls, script %d' % (len(calls), len(m['frames']))
    nf = m.get('npart1', len(m['faulty']))
    delivered = [k for (n, ks, _) in calls for k in ks] if 'ep' in m else [k for (n, ks, _) in calls[:nf] for k in ks]
    if 'ep' in m:
        # the recovery messages are sent messages too
        delivered = [k for (n, ks, _) in calls[:nf] for k in ks] + [k for (n, ks, _) in calls[nf:] for k in ks if (k[0][1], k[0][2]) != tuple(m['ep'])]
    # every delivered packet must be byte-identical to a sent one; version / message type may differ only when the frames that
    # carried it were corrupted (a decoder cannot notice that)
    corrupted_idx = {i for (_, i, c) in m['faulty'] if c is not None}
    for k in delivered:
        ok = False
        for s in m['sent']:
            en, ep = s['exp']
            body = k[1] == ep and k[0][6] == en[6] and k[0][9] == en[9] and k[0][5] == en[5] and k[0][13] == en[13] and k[0][1:3] == en[1:3]
            if not body:
                continue
            if k[0][0] == en[0] and k[0][4] == en[4]:
                if k[0][7:9] == en[7:9]:
                    ok = True; break
                continue
            if all(i in corrupted_idx for i in s['frames']):
                ok = True; break
        if not ok:
            return 'delivered packet is not one of the sent messages (ts=%d len=%d payload %s..)' % (k[0][6], k[0][13], k[1][:16].hex())
    rec = [k for (n, ks, _) in calls[nf:] for k in ks if 'ep' not in m or (k[0][1], k[0][2]) == tuple(m['ep'])]
    want = [s['exp'] for s in m['rec']]
    if [(k[0], k[1]) for k in rec] != [(w[0], w[1]) for w in want]:
        return 'after the faults, the complete in-order messages were not delivered (%d of %d)' % (len(rec), len(want))
    return None

# ------------------------------------------------------------------ C02 arbitrary bytes
def tecmp_samples(rng):
    out = []
    out.append(tecmp_hdr(rng.below(256), 3, rng.choice([2, 3]), 9, ifid=rng.next() & 0xFFFFFFFF, ts=rng.next()) + be(rng.next() & 0xFFFFFFFF, 4) + bytes([4]) + rng.bytes(4))
    d = rng.choice([0, 1, 8, 9, 12, 64])
    out.append(tecmp_hdr(rng.below(256), 3, 3, 5 + d + 3) + be(rng.next() & 0xFFFFFFFF, 4) + bytes([d]) + rng.bytes(d + 3))
    l = rng.choice([0, 1, 8])
    out.append(tecmp_hdr(rng.below(256), 3, 4, 2 + l + 1) + bytes([rng.below(256), l]) + rng.bytes(l + 1))
    out.append(tecmp_hdr(rng.below(256), 1, 0, 36) + rng.bytes(36))
    k = rng.choice([0, 1, 3, 9])
    out.append(tecmp_hdr(rng.below(256), 2, 0, 12 + 12 * k) + rng.bytes(12 + 12 * k))
    out.append(tecmp_hdr(rng.below(256), rng.below(256), rng.below(65536), 8) + rng.bytes(8))
    # CAN / CAN-FD with a length byte above the CAN-FD maximum and all those bytes present
    d = rng.choice([65, 68, 100, 200, 255])
    out.append(tecmp_hdr(rng.below(256), 3, rng.choice([2, 3]), 5 + d + 3) + be(rng.next() & 0xFFFFFFFF, 4) + bytes([d]) + rng.bytes(d + 3))
    # status messages whose announced payload is shorter than their fixed part (bus status < 12 + 12, capture-module status < 36)
    n = rng.choice([0, 1, 5, 11, 12, 13, 23])
    out.append(tecmp_hdr(rng.below(256), 2, 0, n) + rng.bytes(n))
    n = rng.choice([0, 1, 17, 18, 35])
    out.append(tecmp_hdr(rng.below(256), 1, 0, n) + rng.bytes(n))
    return out

def tecmp_consistent_truncations(rng):
    """TECMP status messages cut at every length below their fixed part, with the inner vendor-data-length word REWRITTEN so that it is
    consistent with the bytes that are present (length - 12 and neighbours, 0, the usual 24): a lenient validator that trusts the inner
    length accepts exactly these. None of them is a complete message: no packet, no read behind the buffer."""
    out = []
    for mt, fixed in ((1, 36), (2, 24)):
        tmpl = bytearray(rng.bytes(fixed + 12))
        for n in range(0, fixed):
            if mt == 2 and n >= 12:
                # a bus status with its generic part complete and less than one entry: also no packet
                pass
            for v in sorted(set([max(0, n - 12), max(0, n - 11), max(0, n - 13), 0, 24, 5, 6])):
                b = bytearray(tmpl[:n])
                if n >= 6:
                    b[4:6] = be(v, 2)
                out.append(tecmp_hdr(rng.below(256), mt, 0, n) + bytes(b))
    return out

def mutate(rng, f):
    f = bytearray(f)
    k = rng.below(6)
    if k == 0 and f:
        return bytes(f[:rng.below(len(f) + 1)])
    if k == 1 and f:
        for _ in range(rng.range(1, 3)):
            f[rng.below(len(f))] = rng.choice([0, 1, 0xFF, 0x7F, 0x80, rng.below(256)])
        return bytes(f)
    if k == 2 and len(f) > 24:
        # corrupt a length / type / flag field of the first message
        off = rng.choice([20, 21, 22, 23, 4, 0])
        f[off] = rng.choice([0, 1, 0xFF, (f[off] + 1) & 255, (f[off] - 1) & 255])
        return bytes(f)
    if k == 3:
        return bytes(f) + rng.bytes(rng.range(1, 20))
    if k == 4 and len(f) >= 28 and f[0] == 0:
        off = rng.choice([5, 6, 7, 24, 25, 28, 29, 32] + ([33] if len(f) > 33 else []))
        if off < len(f):
            f[off] = rng.choice([0, 1, 0xFF, (f[off] + 1) & 255, rng.below(256)])
        return bytes(f)
    return bytes(f)

def gen_c02(rng, cid, big=False):
    frames = []
    n = rng.range(1, 20)
    for _ in range(n):
        k = rng.below(8)
        if k == 0:
            f = rng.bytes(rng.choice([0, 1, 7, 8, 9, 23, 24, 25, 40, 100, 600]))
        elif k == 1:
            f = bytes([0]) + rng.bytes(rng.range(7, 40))
        elif k in (2, 3):
            f = mutate(rng, rng.choice(tecmp_samples(rng)))
        elif k == 4:
            h = rand_hdr(rng)
            f = mutate(rng, frame_of(h, [rand_msg(rng, h['mt'], consistent=rng.chance(1, 2), flags=rng.below(256)) for _ in range(rng.range(1, 4))]))
        elif k == 5:
            e = (rng.below(4), rng.below(2))
            if rng.chance(1, 2):
                # a whole chain, continuation frames possibly aggregated behind unsegmented messages / followed by valid trailing messages
                ch = chain_frames(rng, e, rng.below(65536), rng.range(2, 4), prefix=True)
                frames += ch[:-1]
                f = ch[-1]
            else:
                f = mutate(rng, rng.choice(chain_frames(rng, e, rng.below(65536), rng.range(2, 4))))
        elif k == 6:
            h = rand_hdr(rng)
            f = frame_of(h, [rand_msg(rng, h['mt'], consistent=False)])
        else:
            h = rand_hdr(rng)
            f = frame_of(h, [rand_msg(rng, h['mt']) for _ in range(rng.range(1, 6))])
        frames.append(f)
        if rng.chance(1, 15):
            frames.append(None)        # decode(nullptr, n)
    if big:
        # 64 KiB buffers: many small messages, one big message, random
        h = rand_hdr(rng)
        frames = [frame_of(h, [msg(1, 2, 0, 0x7E, rng.bytes(4)) for _ in range(3270)]), frame_of(h, [msg(1, 2, 0, 0x7E, rng.bytes(65500))]), rng.bytes(65536),
                  bytes([0]) + rng.bytes(65535)]
    return Case(cid, [feed_line(1, f) if f is not None else 'DNULL 1 %d' % rng.choice([0, 8, 100]) for f in frames], dict(frames=[f if f is not None else b'' for f in frames]))

def judge_c02(case, lines):
    an = anomalies(lines)
    if an:
        return an[0]
    calls = calls_of(lines)
    frames = case.meta['frames']
    if len(calls) != len(frames):
        return 'transcript has %d decode calls, script %d' % (len(calls), len(frames))
    for i, (f, (n, ks, _)) in enumerate(zip(frames, calls)):
        if 12 * n[0] > len(f):
            return 'call %d: %d packets from %d bytes (more than one per 12 bytes)' % (i, n[0], len(f))
        if n[0] != len(ks):
            return 'call %d: count %d but %d packet records' % (i, n[0], len(ks))
    return None
