"""Checks for the encoder family: C01, C07, C08, C09, C10."""
from common import *
from runner import *
import gen_enc as G

def sample_case(c, n=6):
    return dict(case=c.cid, script=[l[:160] for l in c.lines[:n]])

def dist_stats(cases):
    """input distribution written into the evidence"""
    npk = {}
    lens = {'1-3': 0, 'fit': 0, 'boundary': 0, 'segmented': 0, 'huge': 0}
    maxes = {}
    mixed = 0
    for c in cases:
        m = c.meta
        if 'batch' not in m:
            continue
        npk[len(m['batch'])] = npk.get(len(m['batch']), 0) + 1
        maxes[m['max']] = maxes.get(m['max'], 0) + 1
        chunk = m['max'] - 24
        if len(set(p['mt'] for p in m['batch'])) > 1:
            mixed += 1
        for p in m['batch']:
            L = len(p['payload'])
            if L > 60000: lens['huge'] += 1
            elif abs(L - chunk) <= 2 or (chunk > 0 and min(L % chunk, chunk - L % chunk) <= 1 and L > chunk): lens['boundary'] += 1
            elif L > chunk: lens['segmented'] += 1
            elif L <= 3: lens['1-3'] += 1
            else: lens['fit'] += 1
    return dict(packets_per_batch=npk, payload_length_classes=lens, max_sizes=dict(sorted(maxes.items())[:20]), mixed_type_batches=mixed)

def nontrivial(cases):
    """distinct cases whose batch needs segmentation or aggregates >= 2 packets into one frame"""
    seen = set()
    for c in cases:
        m = c.meta
        if 'batch' not in m or not m['batch']:
            continue
        cap = m['max'] - 8
        seg = any(16 + len(p['payload']) > cap for p in m['batch'])
        agg = len(m['batch']) >= 2
        if seg or agg:
            seen.add((m['max'], m['min'], tuple((p['mt'], len(p['payload'])) for p in m['batch'])))
    return len(seen)

def enc_cases(rng, tier, tag):
    n = 1200 if tier == 'quick' else 30000
    cases = G.gen_encode_cases(rng, n, tier == 'thorough', tag)
    if tier == 'thorough':
        cases += G.small_scope_cases(tag + 'ss', 3)
    else:
        cases += G.small_scope_cases(tag + 'ss', 2)
    cases += G.big_ctx_cases(rng.fork('bigctx'), tag + 'bc', tier == 'thorough')
    cases += G.wrap_cases(rng.fork('wrapseg'), tag + 'wr', tier == 'thorough')
    cases += G.many_msg_cases(rng.fork('manymsg'), tag + 'mm', tier == 'thorough')
    cases += G.inplace_edit_cases(rng.fork('inplace'), tag + 'ip', 60 if tier == 'quick' else 3000)
    cases += G.container_cases(rng.fork('containers'), tag + 'ct', 12 if tier == 'quick' else 300)
    return cases

def proj_k(c, lines):
    return [l for l in lines if l.startswith(('K ', 'N '))] + anomalies(lines)

def proj_f(c, lines):
    return [l for l in lines if l.startswith(('F ', 'Q '))] + anomalies(lines)

def run_c01(res, rng):
    G.ALLOW_MT0 = False
    cases = corpus_cases('C01') + enc_cases(rng, res.tier, 'rt')
    # K lines: N carries hook numbers too; for C01 only the packet count matters
    def proj(c, lines):
        return [l if l.startswith('K ') else 'N ' + l.split()[1] for l in lines if l.startswith(('K ', 'N '))] + anomalies(lines)
    correspondence(res, cases, proj, G.judge_c01, 'encode-then-decode')
    res.cov['rule'] = ('batches from one splitmix64 stream: 1-6 (quick) / 1-12 (thorough) packets over all payload kinds, lengths aimed at cap-16+-2, k*(cap-16)+-1, 1..3, 65535; '
                       'max in {25,26,33,40,41,64,100,256,1500,65559,random} plus {65535..65561, 65600, 80000, 131072, 200000} with frame-filling packets and with several large packets aggregated into frames longer than 65535 bytes; batches handed over as vector / shared_ptr vector / list / deque (17-40 packets, crossing the blocks of the deque) / reverse iterators; batches whose packets had their payload edited in place (grown past the frame / shrunk) after the packet took it over; batches encoded after 65531..65535 earlier frames so that segment chains straddle the counter wrap; frames that aggregate exactly 255 / 256 / 257 (thorough: up to 4096) small messages followed by a packet that does not fit the rest, and batches of 257 one-frame packets;, min in {0,8,24,used-1,used,used+1,max-1,max,random}; plus all batches of <=2 (quick) / <=3 (thorough) packets over boundary lengths x {data,status} x 4 frame sizes x min in {0,max}. '
                       'non-trivial = distinct (ctx, type/length profile) whose batch is segmented or aggregates >= 2 packets')
    res.cov['distinct_nontrivial'] = nontrivial(cases)
    res.cov['input_distribution'] = dist_stats(cases)
    res.cov['samples'] = [sample_case(c) for c in cases[:2] + cases[-1:]]

def run_c07(res, rng):
    G.ALLOW_MT0 = True
    cases = corpus_cases('C07') + enc_cases(rng, res.tier, 'wf')
    # empty batches and min > used
    for i, (mn, mx) in enumerate([(0, 25), (64, 1500), (100, 100), (0, 65559)]):
        cases.append(G.enc_case('wfempty%d' % i, 3, 1, [], mn, mx, decode=False))
    # C07 is a relation on the implementation's frames: the judge is the independent walker; the model's frames are compared byte for byte
    def proj(c, lines):
        # what C07 talks about: frame sizes, message tiling, padding, payload bytes in order (not flags, counters or ids)
        out = []
        for f in G.frames_of(lines):
            h, msgs, rest = parse_frame(f)
            out.append((len(f), tuple(m['plen'] for m in msgs), len(rest), any(rest), b''.join(m['payload'] for m in msgs)))
        return out + anomalies(lines)
    correspondence(res, cases, proj, G.judge_c07, 'frame well-formedness')
    res.cov['rule'] = 'as C01 plus empty batches; judge = independent frame walker (lib/common.py parse_frame) on the implementation\'s frames: size bounds, header, >=1 message, tiling, zero padding exactly to min, payload bytes once and in order; non-trivial as C01'
    res.cov['distinct_nontrivial'] = nontrivial(cases)
    res.cov['input_distribution'] = dist_stats(cases)
    res.cov['samples'] = [sample_case(c) for c in cases[:2] + cases[-1:]]

def run_c08(res, rng):
    G.ALLOW_MT0 = True
    cases = corpus_cases('C08') + enc_cases(rng, res.tier, 'pk')
    def proj(c, lines):
        return G.structure(lines) + anomalies(lines)
    correspondence(res, cases, proj, G.judge_c08, 'segmentation/aggregation rules')
    res.cov['rule'] = 'as C01; observation = per frame (announced message type, [(segment bits, declared length, payload type)]); judge = greedy packing spec of DESIGN Appendix B re-implemented in Python (lib/gen_enc.py pack_spec) applied to the implementation\'s frames'
    res.cov['distinct_nontrivial'] = nontrivial(cases)
    res.cov['input_distribution'] = dist_stats(cases)
    res.cov['samples'] = [sample_case(c) for c in cases[:2] + cases[-1:]]

# ------------------------------------------------------------------ C09 histories
def gen_history(rng, cid, nops, wrap=False):
    lines = ['ENEW']
    ops = []
    dev, stream = 0, 0
    if wrap:
        # > 65536 frames on one configuration: 34 calls x 2000 one-byte packets at max 25 (one packet per frame)
        lines += ['EDEV 77', 'EGET', 'ESTR 5', 'EGET']
        ops += [('dev', 77), ('stream', 5)]
        p = G.gen_packet(rng, 1, 1, 1)
        p['payload'] = b'\x5a'
        lines.append(G.pkt_line(0, p))
        for k in range(34):
            lines.append('ENC 0 25 ' + ' '.join(['0'] * 2000))
            ops.append(('enc', [p] * 2000, 0, 25))
            lines.append('EGET')
        return Case(cid, lines, dict(ops=ops))
    slot = 0
    for i in range(nops):
        k = rng.below(10)
        if k == 0:
            d = rng.below(65536); lines.append('EDEV %d' % d); ops.append(('dev', d))
        elif k == 1:
            s = rng.below(256); lines.append('ESTR %d' % s); ops.append(('stream', s))
        elif k == 2:
            lines.append('ERST'); ops.append(('rst',))
        else:
            maxb = rng.choice([25, 40, 41, 64, 100, 1500])
            batch = G.gen_batch(rng, maxb, rng.range(0, 5), huge_ok=False)
            # packets without payload bytes are legal inputs of encode(): they open frames (and consume counters) without adding a message
            for p in batch:
                if rng.chance(1, 6):
                    p['payload'] = b''; p['pt'] = 0xFE; p['kind'] = None
            minb = G.pick_min(rng, maxb, batch) if batch else 0
            idx = []
            for p in batch:
                lines.append(G.pkt_line(slot, p)); idx.append(slot); slot += 1
            lines.append('ENC %d %d %s' % (minb, maxb, ' '.join(map(str, idx))))
            ops.append(('enc', batch, minb, maxb))
        lines.append('EGET')
    return Case(cid, lines, dict(ops=ops))

def judge_c09(case, lines):
    an = anomalies(lines)
    if an:
        return 'anomaly: ' + an[0]
    dev = stream = 0
    last = 0  # counter of the last emitted frame since the last reset, 0 if none
    it = iter(lines)
    cur_frames = []
    li = 0
    for op in case.meta['ops']:
        frames = []
        g = None
        while li < len(lines):
            l = lines[li]; li += 1
            if l.startswith('F '):
                frames.append(bytes.fromhex(l.split()[1][1:]))
            elif l.startswith('G '):
                g = [int(x) for x in l.split()[1:]]
                break
        if op[0] == 'dev': dev = op[1]; last = 0
        elif op[0] == 'stream': stream = op[1]; last = 0
        elif op[0] == 'rst': last = 0
        else:
            ver = op[1][0]['ver'] if op[1] else None
            for fi, f in enumerate(frames):
                h, msgs, rest = parse_frame(f)
                if h is None:
                    return 'frame shorter than a header'
                exp = (last + 1) % 65536
                if h['seq'] != exp:
                    return 'frame carries sequence counter %d, previous frame had %d' % (h['seq'], last)
                last = exp
                if h['dev'] != dev or h['stream'] != stream:
                    return 'frame carries device/stream %d/%d, configured %d/%d' % (h['dev'], h['stream'], dev, stream)
                if h['ver'] != ver:
                    return 'frame carries version %d, batch version %d' % (h['ver'], ver)
        if g is None:
            return 'missing encoder state line'
        if g[0] != dev or g[1] != stream or g[2] != last:
            return 'encoder reports dev/stream/counter %r, expected %r' % (g, [dev, stream, last])
    return None

def run_c09(res, rng):
    G.ALLOW_MT0 = True
    n = 300 if res.tier == 'quick' else 15000
    cases = corpus_cases('C09') + [gen_history(rng.fork('h%d' % i), 'h%d' % i, rng.fork('n%d' % i).range(1, 30)) for i in range(n)]
    cases.append(gen_history(rng.fork('wrap'), 'wrap', 0, wrap=True))
    def proj(c, lines):
        return G.headers(lines) + [l for l in lines if l.startswith(('G ', 'Q '))] + anomalies(lines)
    correspondence(res, cases, proj, judge_c09, 'sequence counters / identity')
    res.cov['rule'] = 'operation histories of 1-30 ops over {set device, set stream, restart, encode(batch 0-5 packets, ctx)} each followed by a read of the encoder state; one history of 68000 frames on one configuration crosses the 65535->0 wrap; non-trivial = histories with >= 2 encode calls'
    res.cov['distinct_nontrivial'] = len(set(tuple(c.lines) for c in cases if sum(1 for o in c.meta.get('ops', []) if o[0] == 'enc') >= 2))
    ops = {}
    for c in cases:
        for o in c.meta.get('ops', []):
            ops[o[0]] = ops.get(o[0], 0) + 1
    res.cov['input_distribution'] = dict(operations=ops)
    res.cov['samples'] = [sample_case(c, 10) for c in cases[:2]]

# ------------------------------------------------------------------ C10 history independence
def gen_c10(rng, cid, thorough, long_history=None):
    dev, stream = rng.below(65536), rng.below(256)
    lines = ['ENEW', 'EDEV %d' % dev, 'ESTR %d' % stream]
    slot = 0
    nh = rng.range(1, 6)
    if long_history:
        # the encoder has already produced long_history frames (quiet calls): the final batch straddles the counter wrap
        tiny = G.plain_packet(rng, rng.range(1, 255), 1, 1)
        lines.append(G.pkt_line(5000, tiny))
        lines += ['ENCQ 0 25 ' + ' '.join(['5000'] * 2000)] * (long_history // 2000) + ['ENCQ 0 25 ' + ' '.join(['5000'] * (long_history % 2000))]
        nh = rng.range(0, 2)
    for i in range(nh):
        maxb = rng.choice([25, 40, 64, 100, 1500])
        batch = G.gen_batch(rng, maxb, rng.range(0, 4), huge_ok=False)
        idx = []
        for p in batch:
            lines.append(G.pkt_line(slot, p)); idx.append(slot); slot += 1
        if rng.chance(1, 8):
            # an earlier call that left by exception (absurd minimum size): whatever it had built must not leak into the next call
            lines.append('ENCX %d %s' % (maxb, ' '.join(map(str, idx))))
        else:
            lines.append('ENC %d %d %s' % (G.pick_min(rng, maxb, batch) if batch else 0, maxb, ' '.join(map(str, idx))))
    maxb = G.gen_ctx(rng, None, thorough)
    if maxb > 2000: maxb = 1500
    batch = G.gen_batch(rng, maxb, rng.range(1, 5), huge_ok=False)
    # make segmentation likely: it is the case the property singles out
    if long_history:
        maxb = rng.choice([64, 100, 41])
        batch = [G.gen_packet(rng, batch[0]['ver'], 8, 1), G.gen_packet(rng, batch[0]['ver'], rng.range(3 * maxb, 8 * maxb), 1), G.gen_packet(rng, batch[0]['ver'], 8, 1)]
    elif rng.chance(1, 2):
        batch[rng.below(len(batch))] = G.gen_packet(rng, batch[0]['ver'], rng.range(maxb - 23, 3 * maxb))
    minb = G.pick_min(rng, maxb, batch)
    idx = []
    for p in batch:
        lines.append(G.pkt_line(slot, p)); idx.append(slot); slot += 1
    enc = 'ENC %d %d %s' % (minb, maxb, ' '.join(map(str, idx)))
    if not long_history and rng.chance(1, 3):
        # the call right before is RELATED to the one under test: same version and message type, frame sizes that agree in their low
        # 16 (or 8) bits or differ by one, same / swapped minimum - whatever an encoder might remember about "the same configuration"
        rel = G.plain_packet(rng, batch[0]['ver'], rng.choice([1, 8, 30]), batch[0]['mt'] if 'mt' in batch[0] else 1)
        lines.append(G.pkt_line(slot, rel))
        mprev = maxb + rng.choice([65536, 131072, 1 << 20, 256, 1, -1 if maxb > 25 else 1, 65536 + 256])
        lines.append('ENC %d %d %d' % (rng.choice([0, minb if minb <= mprev else 0]), mprev, slot)); slot += 1
    lines += ['EGET', 'B-MARK', enc, 'ENEW', 'EDEV %d' % dev, 'ESTR %d' % stream, 'B-MARK', enc]
    lines = [l for l in lines]
    return Case(cid, [l if l != 'B-MARK' else 'EGET' for l in lines], dict(batch=batch, min=minb, max=maxb, dev=dev, stream=stream))

def split_runs(lines):
    """frames after the 2nd-to-last and after the last EGET marker"""
    gs = [i for i, l in enumerate(lines) if l.startswith('G ')]
    if len(gs) < 2:
        return None, None
    a = [bytes.fromhex(l.split()[1][1:]) for l in lines[gs[-2] + 1:gs[-1]] if l.startswith('F ')]
    b = [bytes.fromhex(l.split()[1][1:]) for l in lines[gs[-1] + 1:] if l.startswith('F ')]
    return a, b

def judge_c10(case, lines):
    an = anomalies(lines)
    if an:
        return 'anomaly: ' + an[0]
    a, b = split_runs(lines)
    if a is None:
        return 'transcript incomplete'
    if len(a) != len(b):
        return 'encoder with history emits %d frames, fresh encoder %d' % (len(a), len(b))
    off = None
    for i, (x, y) in enumerate(zip(a, b)):
        if x[:6] != y[:6] or x[8:] != y[8:]:
            return 'frame %d differs between the used and the fresh encoder beyond the sequence counter' % i
        d = (int.from_bytes(x[6:8], 'big') - int.from_bytes(y[6:8], 'big')) % 65536
        if off is None: off = d
        elif d != off:
            return 'sequence counter offset is not constant (%d then %d)' % (off, d)
    return None

def run_c10(res, rng):
    G.ALLOW_MT0 = True
    n = 800 if res.tier == 'quick' else 30000
    cases = corpus_cases('C10') + [gen_c10(rng.fork('c%d' % i), 'c%d' % i, res.tier == 'thorough') for i in range(n)]
    for i, h in enumerate([65533, 65534, 65530] if res.tier == 'quick' else [65535, 65534, 65533, 65532, 65531, 65530, 65529, 65520, 65500, 131069]):
        cases.append(gen_c10(rng.fork('w%d' % i), 'w%d' % i, False, long_history=h))
    correspondence(res, cases, proj_f, judge_c10, 'history independence')
    res.cov['rule'] = 'pairs (history of 1-6 earlier encode calls with random batches/contexts - one in eight of them leaving by exception (minimum size SIZE_MAX) -, batch+context); the same batch is then encoded on a fresh encoder with the same ids; in a third of the pairs the call right before uses the same version and message type and a frame size that agrees with the tested one in its low 16 / 8 bits (+65536, +131072, +2^20, +256) or differs by one; plus histories of 65500..65535 (131069) earlier frames so that the final batch straddles the counter wrap; judge: frames equal apart from a constant counter offset; non-trivial = the final batch needs segmentation'
    res.cov['distinct_nontrivial'] = len(set(tuple(c.lines) for c in cases if 'batch' in c.meta and any(16 + len(p['payload']) > c.meta['max'] - 8 for p in c.meta['batch'])))
    res.cov['samples'] = [sample_case(c, 8) for c in cases[:2]]
