#!/usr/bin/env python3
"""Tie T: regenerates, from /repo's CURRENT sources, the Gallina model of the straight-line accessor layer.

Outputs (into --out):
  GenAccessors.v   every translatable method of every class of the library as bit-vector expressions over the object's
                   memory image (little-endian integer of 8*sizeof bits) and its parameters
  GenLayout.v      sizeof / field offsets / default member initialisers of every class with data members, enum values
  GenInventory.v   static-storage objects (from nm on freshly compiled objects), local objects of header classes and how
                   they are initialised, raw allocation forms and uninitialised scalar locals in library code
  gen_dispatch.inc C++ dispatch used by the harness op ACC (runs the compiled accessor on a memory image)
  acc_index.json   ids, parameter widths and return widths of the dispatchable accessors (for the generators)
Input: clang 14 `-ast-dump=json -ast-dump-filter=CMP` of every src/*.cpp, a g++-compiled layout probe, nm.
"""
import json, os, re, subprocess, sys, hashlib
from concurrent.futures import ThreadPoolExecutor

REPO = os.environ.get('VERIF_REPO', '/repo')
dec = json.JSONDecoder()

def docs(text):
    i = 0; n = len(text)
    while True:
        while i < n and text[i] in ' \n\r\t':
            i += 1
        if i >= n:
            break
        o, i = dec.raw_decode(text, i)
        yield o

def dump_ast(src):
    r = subprocess.run(['clang++', '-std=c++17', '-fsyntax-only', '-I' + REPO + '/include', '-Xclang', '-ast-dump=json', '-Xclang', '-ast-dump-filter=CMP', src],
                       stdout=subprocess.PIPE, stderr=subprocess.DEVNULL, text=True)
    return src, list(docs(r.stdout))

INT_TYPES = {'unsigned char': (8, False), 'unsigned short': (16, False), 'unsigned int': (32, False), 'unsigned long': (64, False), 'unsigned long long': (64, False),
             'signed char': (8, True), 'char': (8, True), 'short': (16, True), 'int': (32, True), 'long': (64, True), 'long long': (64, True), 'bool': (1, False), 'float': (32, False),
             'uint8_t': (8, False), 'uint16_t': (16, False), 'uint32_t': (32, False), 'uint64_t': (64, False), 'size_t': (64, False), 'std::size_t': (64, False),
             'int8_t': (8, True), 'int16_t': (16, True), 'int32_t': (32, True), 'int64_t': (64, True)}

class Untranslatable(Exception):
    pass

# ------------------------------------------------------------------ expression trees
def mk(op, *a):
    return (op,) + a
def Cst(c): return ('Cst', int(c))
def trunc(w, e):
    if e[0] == 'Cst':
        return Cst(e[1] & ((1 << w) - 1))
    if e[0] == 'Trunc' and e[1] <= w:
        return e
    if e[0] == 'Var' and e[2] <= w:
        return e
    return ('Trunc', w, e)

def coq(e):
    op = e[0]
    if op == 'Var': return '(Var %d %d)' % (e[1], e[2])
    if op == 'Cst': return '(Cst %s)' % (str(e[1]) if e[1] >= 0 else '(%d)' % e[1])
    if op in ('And', 'Or', 'Xor'): return '(%s %s %s)' % (op, coq(e[1]), coq(e[2]))
    if op == 'Not': return '(Not %s)' % coq(e[1])
    if op in ('Shl', 'Shr'): return '(%s %s %d)' % (op, coq(e[1]), e[2])
    if op == 'Trunc': return '(Trunc %d %s)' % (e[1], coq(e[2]))
    if op == 'NonZero': return '(NonZero %d %s)' % (e[1], coq(e[2]))
    if op == 'Ite': return '(Ite %s %s %s)' % (coq(e[1]), coq(e[2]), coq(e[3]))
    if op == 'Bswap': return '(bswap %d %s)' % (e[1], coq(e[2]))
    raise ValueError(op)

# ------------------------------------------------------------------ the translation unit index
class World:
    def __init__(self):
        self.byid = {}          # per TU: id -> node
        self.records = {}       # qualified name -> record node (with fields)
        self.rec_of_id = {}     # record id -> qualified name
        self.methods = {}       # mangled -> (qualified class, name, node with body)
        self.decl_mangled = {}  # decl id -> mangled
        self.enums = {}         # qualified enum name -> [(enumerator, value)]
        self.funcs = []         # all function-like nodes with bodies (for inventories): (qualname, node)
        self.rec_tu = {}        # qualified record name -> id table of the TU it was taken from

def qual_from_mangled(m):
    """_ZN[K]4ASAM3CMP9CmpHeader10getVersionEv -> ['ASAM','CMP','CmpHeader','getVersion']"""
    s = m[2:]
    if not s or s[0] != 'N':
        mm = re.match(r'(\d+)', s)
        if mm:
            n = int(mm.group(1)); return [s[len(mm.group(1)):len(mm.group(1)) + n]]
        return []
    s = s[1:]
    while s and s[0] in 'KVrRO':
        s = s[1:]
    names = []
    while s and s[0].isdigit():
        j = 0
        while s[j].isdigit(): j += 1
        n = int(s[:j]); names.append(s[j:j + n]); s = s[j + n:]
    return names

def walk(node, path, W, tu):
    k = node.get('kind')
    if 'id' in node:
        tu[node['id']] = node
    name = node.get('name')
    if k == 'NamespaceDecl':
        for c in node.get('inner', []):
            walk(c, path + [name] if name else path, W, tu)
        return
    if k == 'CXXRecordDecl' and name and 'inner' in node and node.get('completeDefinition'):
        q = '::'.join(path + [name])
        if any(c['kind'] == 'FieldDecl' for c in node['inner']) or q not in W.records:
            W.records[q] = node
            W.rec_tu[q] = tu
        W.rec_of_id[node['id']] = q
        for c in node['inner']:
            walk(c, path + [name], W, tu)
        return
    if k == 'CXXRecordDecl' and not name and 'inner' in node:
        # anonymous struct/union: members belong to the enclosing record for naming, offsets resolved by the probe
        for c in node['inner']:
            walk(c, path, W, tu)
        return
    if k == 'EnumDecl':
        q = '::'.join(path + [name or '<anon>'])
        vals = []
        last = -1
        for c in node.get('inner', []):
            if c['kind'] == 'EnumConstantDecl':
                tu[c['id']] = c
                v = const_value(c)
                if v is None: v = last + 1
                last = v
                vals.append((c['name'], v))
        W.enums.setdefault(q, vals)
        return
    if k in ('CXXMethodDecl', 'FunctionDecl', 'CXXConstructorDecl', 'CXXDestructorDecl', 'FunctionTemplateDecl'):
        if 'mangledName' in node:
            W.decl_mangled[node['id']] = node['mangledName']
        body = [c for c in node.get('inner', []) if c.get('kind') == 'CompoundStmt']
        if body and 'mangledName' in node:
            names = qual_from_mangled(node['mangledName'])
            if k == 'CXXMethodDecl' and len(names) >= 2:
                W.methods.setdefault(node['mangledName'], ('::'.join(names[:-1]), names[-1], node))
            W.funcs.append(('::'.join(names) if names else (name or '?'), node))
        for c in node.get('inner', []):
            walk(c, path, W, tu)
        return
    for c in node.get('inner', []):
        walk(c, path, W, tu)

def const_value(n, tu=None):
    """integer value of a constant-initialiser subtree if clang recorded it"""
    if n.get('kind') == 'ConstantExpr' and 'value' in n:
        return int(n['value'])
    if n.get('kind') == 'IntegerLiteral':
        return int(n['value'])
    if n.get('kind') == 'CXXBoolLiteralExpr':
        return 1 if n.get('value') else 0
    if n.get('kind') == 'DeclRefExpr' and tu is not None and n.get('referencedDecl', {}).get('kind') == 'EnumConstantDecl':
        d = tu.get(n['referencedDecl']['id'])
        if d is not None:
            return const_value(d, None)
    if n.get('kind') == 'DeclRefExpr' and tu is not None and n.get('referencedDecl', {}).get('kind') == 'VarDecl':
        # a named compile-time constant (static constexpr member, namespace-scope constexpr)
        d = tu.get(n['referencedDecl']['id'])
        if d is not None and (d.get('constexpr') or 'const ' in d.get('type', {}).get('qualType', '') + ' '):
            for c in d.get('inner', []):
                v = const_value(c, tu)
                if v is not None:
                    return v
        return None
    for c in n.get('inner', []):
        v = const_value(c, tu)
        if v is not None:
            return v
    return None

def type_info(t):
    q = (t.get('desugaredQualType') or t.get('qualType') or '').replace('const ', '').replace('volatile ', '').strip()
    if q in INT_TYPES:
        return INT_TYPES[q]
    return None

# ------------------------------------------------------------------ layout probe (g++, the ABI the library is built with)
def field_paths(W, q, node, prefix, cprefix, out):
    """enumerate leaf data members of record q with their C++ access path"""
    for c in node.get('inner', []):
        if c['kind'] == 'FieldDecl':
            nm = c.get('name')
            ti = type_info(c['type'])
            dq = (c['type'].get('desugaredQualType') or c['type']['qualType'])
            if not nm:
                continue
            if ti is not None or dq.endswith('*') or 'unique_ptr' in dq or 'vector' in dq or dq.startswith('enum ') or 'Type' in dq:
                out.append((prefix + nm, cprefix + nm, ti, c))
            else:
                # nested struct member: find its record
                sub = None
                for rq, rn in W.records.items():
                    if rq.endswith('::' + dq.split('::')[-1]) and (rq.startswith(q) or dq.replace('struct ', '').replace('class ', '') in rq):
                        sub = (rq, rn); break
                if sub:
                    field_paths(W, sub[0], sub[1], prefix + nm + '.', cprefix + nm + '.', out)
                else:
                    out.append((prefix + nm, cprefix + nm, None, c))
        elif c['kind'] == 'CXXRecordDecl' and not c.get('name') and 'inner' in c:
            field_paths(W, q, c, prefix, cprefix, out)

def run_probe(W, outdir):
    lines = ['#include <cstdio>', '#include <cstddef>']
    for h in sorted(os.listdir(REPO + '/include/asam_cmp')):
        lines.append('#include <asam_cmp/%s>' % h)
    lines.append('int main(){')
    recs = {}
    for q, node in sorted(W.records.items()):
        fl = []
        field_paths(W, q, node, '', '', fl)
        if not fl:
            continue
        recs[q] = fl
        lines.append(' printf("REC %s %%zu\\n", sizeof(%s));' % (q, q))
        for (pname, cpath, ti, c) in fl:
            lines.append(' { %s* o = nullptr; printf("FLD %s %s %%zu %%zu\\n", (size_t)((char*)&(o->%s) - (char*)o), sizeof(o->%s)); }' % (q, q, pname, cpath, cpath))
    lines.append(' return 0; }')
    src = os.path.join(outdir, 'layout_probe.cpp')
    open(src, 'w').write('\n'.join(lines))
    exe = os.path.join(outdir, 'layout_probe')
    r = subprocess.run(['g++', '-std=c++17', '-O0', '-w', '-fno-access-control', '-I' + REPO + '/include', src, '-o', exe], stdout=subprocess.PIPE, stderr=subprocess.PIPE, text=True)
    if r.returncode != 0:
        raise SystemExit('layout probe does not compile:\n' + r.stderr[-3000:])
    out = subprocess.run([exe], stdout=subprocess.PIPE, text=True).stdout
    layout = {}
    for ln in out.split('\n'):
        t = ln.split()
        if not t: continue
        if t[0] == 'REC':
            layout[t[1]] = dict(size=int(t[2]), fields={})
        elif t[0] == 'FLD':
            layout[t[1]]['fields'][t[2]] = (int(t[3]), int(t[4]))
    return layout, recs

# ------------------------------------------------------------------ symbolic execution of accessor bodies
class Sym:
    def __init__(self, W, tu, cls, layout, depth=0):
        self.W, self.tu, self.cls, self.layout, self.depth = W, tu, cls, layout, depth
        self.size = layout[cls]['size']
        self.mem = ('Var', 0, 8 * self.size)
        self.args = {}
        self.locals = {}      # id of a local VarDecl -> current symbolic value
        self.ret = None
        self.wrote = False
        self.reads = set()    # (byte offset, byte size) of every data member the body reads (for tie T2: read extents)

    def field_ref(self, n):
        """MemberExpr chain rooted at `this` -> (offset, size, typeinfo)"""
        path = []
        cur = n
        while cur['kind'] == 'MemberExpr':
            path.append(cur.get('name') or '')
            cur = cur['inner'][0]
            while cur['kind'] in ('ImplicitCastExpr', 'ParenExpr'):
                cur = cur['inner'][0]
        if cur['kind'] != 'CXXThisExpr' or getattr(self, 'pure', False):
            raise Untranslatable('member of something else than this')
        path = [p for p in reversed(path) if p]
        key = '.'.join(path)
        f = self.layout[self.cls]['fields'].get(key)
        if f is None:
            raise Untranslatable('unknown data member ' + key)
        ti = type_info(n['type'])
        if ti is None:
            dq = n['type'].get('desugaredQualType') or n['type'].get('qualType', '')
            w = self.enum_width(dq)
            if not w or w != 8 * f[1]:
                raise Untranslatable('member of non-integer type ' + key)
            ti = (w, False)
        return f[0], f[1], ti

    def read_field(self, off, size):
        self.reads.add((off, size))
        return trunc(8 * size, ('Shr', self.mem, 8 * off) if off else self.mem)

    def write_field(self, off, size, val):
        w = 8 * size
        mask = ((1 << w) - 1) << (8 * off)
        full = (1 << (8 * self.size)) - 1
        v = trunc(w, val)
        self.mem = ('Or', ('And', self.mem, Cst(full & ~mask)), ('Shl', v, 8 * off) if off else v)
        self.wrote = True

    def width_of(self, n):
        ti = type_info(n['type']) if 'type' in n else None
        if ti is None:
            dq = n.get('type', {}).get('desugaredQualType') or n.get('type', {}).get('qualType', '')
            # enums: underlying type from the enum declaration is not in the type string; use the declared width table
            w = self.enum_width(dq)
            if w: return (w, False)
            raise Untranslatable('type ' + dq)
        return ti

    def enum_width(self, dq):
        dq = dq.replace('const ', '').replace('enum ', '').strip()
        for q in self.W.enum_widths:
            if q == dq or q.endswith('::' + dq) or dq.endswith('::' + q.split('::')[-1]) and q.split('::')[-1] == dq.split('::')[-1] and (q in dq or dq in q):
                return self.W.enum_widths[q]
        last = dq.split('::')[-1]
        c = [w for q, w in self.W.enum_widths.items() if q.split('::')[-1] == last]
        if len(set(c)) == 1:
            return c[0]
        return None

    def ev(self, n):
        k = n['kind']
        inner = n.get('inner', [])
        if k in ('ParenExpr', 'ConstantExpr', 'ExprWithCleanups', 'MaterializeTemporaryExpr', 'CXXBindTemporaryExpr'):
            if k == 'ConstantExpr' and 'value' in n and type_info(n['type']):
                return Cst(int(n['value']) & ((1 << type_info(n['type'])[0]) - 1))
            return self.ev(inner[0])
        if k == 'IntegerLiteral':
            w, _ = self.width_of(n)
            return Cst(int(n['value']) & ((1 << w) - 1))
        if k == 'CXXBoolLiteralExpr':
            return Cst(1 if n['value'] else 0)
        if k in ('ImplicitCastExpr', 'CXXStaticCastExpr', 'CStyleCastExpr', 'CXXFunctionalCastExpr'):
            ck = n.get('castKind')
            sub = inner[0]
            if ck in ('LValueToRValue', 'NoOp', 'FunctionToPointerDecay', 'ConstructorConversion'):
                return self.ev(sub)
            v = self.ev(sub)
            if ck == 'IntegralToBoolean':
                return ('NonZero', self.width_of(sub)[0], v)
            if ck in ('IntegralCast', 'BooleanToSignedIntegral'):
                sw, ssigned = self.width_of(sub)
                dw, _ = self.width_of(n)
                if dw <= sw:
                    return trunc(dw, v)
                if ssigned:
                    hi = ((1 << dw) - 1) & ~((1 << sw) - 1)
                    return ('Ite', ('NonZero', 1, ('Shr', v, sw - 1)), ('Or', v, Cst(hi)), v)
                return v
            raise Untranslatable('cast ' + str(ck))
        if k == 'MemberExpr':
            off, size, ti = self.field_ref(n)
            return self.read_field(off, size)
        if k == 'DeclRefExpr':
            rd = n['referencedDecl']
            if rd['kind'] == 'ParmVarDecl':
                if rd['name'] not in self.args:
                    raise Untranslatable('unbound parameter')
                return self.args[rd['name']]
            if rd['kind'] == 'EnumConstantDecl':
                d = self.tu.get(rd['id'])
                v = const_value(d) if d else None
                if v is None:
                    raise Untranslatable('enum constant without value')
                return Cst(v & ((1 << self.width_of(n)[0]) - 1))
            if rd['kind'] == 'VarDecl' and rd['id'] in self.locals:
                return self.locals[rd['id']]
            if rd['kind'] == 'VarDecl':
                d = self.tu.get(rd['id'])
                if d is None:
                    raise Untranslatable('unknown variable')
                init = [c for c in d.get('inner', []) if 'type' in c]
                if not init or not ('constexpr' in json.dumps(d.get('type', {})) or d.get('constexpr') or 'const ' in d['type']['qualType']):
                    raise Untranslatable('non-constant variable ' + rd.get('name', ''))
                return trunc(self.width_of(d)[0], self.ev(init[-1]))
            raise Untranslatable('reference to ' + rd['kind'])
        if k == 'UnaryOperator':
            op = n['opcode']
            v = self.ev(inner[0])
            w, _ = self.width_of(n)
            if op == '~':
                return trunc(w, ('Not', v))
            if op == '!':
                return ('Xor', v, Cst(1))
            if op == '+':
                return v
            raise Untranslatable('unary ' + op)
        if k == 'BinaryOperator':
            op = n['opcode']
            a = self.ev(inner[0]); b = self.ev(inner[1])
            if op in ('&&', '||'):
                return ('And' if op == '&&' else 'Or', a, b)
            w, signed = self.width_of(n) if op not in ('==', '!=') else (1, False)
            if op in ('&', '|', '^'):
                return ({'&': 'And', '|': 'Or', '^': 'Xor'}[op], a, b)
            if op in ('<<', '>>'):
                if b[0] != 'Cst':
                    raise Untranslatable('shift by a non-constant')
                if op == '<<':
                    return trunc(w, ('Shl', a, b[1]))
                if signed and self.width_of(inner[0])[1]:
                    # arithmetic shift of a possibly negative value: only non-negative operands are supported (promoted unsigned)
                    pass
                return ('Shr', a, b[1])
            if op in ('==', '!='):
                ow = max(self.width_of(inner[0])[0], self.width_of(inner[1])[0])
                ne = ('NonZero', ow, ('Xor', a, b))
                return ne if op == '!=' else ('Xor', ne, Cst(1))
            raise Untranslatable('binary ' + op)
        if k == 'ConditionalOperator':
            return ('Ite', self.ev(inner[0]), self.ev(inner[1]), self.ev(inner[2]))
        if k == 'CallExpr':
            callee = inner[0]
            while callee['kind'] in ('ImplicitCastExpr',):
                callee = callee['inner'][0]
            name = callee.get('referencedDecl', {}).get('name')
            if name == 'swapEndian':
                a = self.ev(inner[1])
                w, _ = self.width_of(inner[1])
                return a if w == 8 else ('Bswap', w // 8, a)
            if name == 'to_underlying':
                return self.ev(inner[1])
            return self.free_call(callee, inner[1:], name)
        if k == 'CXXMemberCallExpr':
            return self.member_call(n, want_value=True)
        raise Untranslatable(k)

    def free_call(self, callee, argnodes, name):
        """call of a free (possibly template-instantiated) function with a body in this TU: executed symbolically on the argument
        values; it must be pure (no `this`, no writes)"""
        rd = callee.get('referencedDecl', {})
        fd = self.tu.get(rd.get('id')) if rd.get('kind') == 'FunctionDecl' else None
        if fd is None or self.depth > 6 or not any(c.get('kind') == 'CompoundStmt' for c in fd.get('inner', [])):
            raise Untranslatable('call to ' + str(name))
        args = [self.ev(a) for a in argnodes]
        sub = Sym(self.W, self.tu, self.cls, self.layout, self.depth + 1)
        sub.pure = True
        sub.run(fd, args)
        if sub.wrote or sub.ret is None:
            raise Untranslatable('call to ' + str(name) + ' (not a pure value function)')
        rt = fd['type']['qualType'].split('(')[0].strip()
        rti = type_info({'qualType': rt}) or ((self.enum_width(rt), False) if self.enum_width(rt) else None)
        if rti is None:
            raise Untranslatable('return type of ' + str(name))
        return trunc(rti[0], sub.ret)

    def member_call(self, n, want_value):
        inner = n['inner']
        me = inner[0]
        if me['kind'] != 'MemberExpr':
            raise Untranslatable('indirect member call')
        obj = me['inner'][0]
        while obj['kind'] in ('ImplicitCastExpr', 'ParenExpr'):
            obj = obj['inner'][0]
        if obj['kind'] != 'CXXThisExpr':
            raise Untranslatable('call on another object')
        mg = self.W.decl_mangled_all.get(me.get('referencedMemberDecl'))
        m = self.W.methods.get(mg)
        if m is None or self.depth > 6:
            raise Untranslatable('callee without body')
        args = [self.ev(a) for a in inner[1:]]
        sub = Sym(self.W, self.W.tu_of[mg], m[0], self.layout, self.depth + 1)
        if m[0] != self.cls:
            raise Untranslatable('callee of another class')
        sub.mem = self.mem
        sub.reads = self.reads
        sub.run(m[2], args)
        self.mem = sub.mem
        self.wrote = self.wrote or sub.wrote
        return sub.ret

    def run(self, mnode, args):
        params = [c for c in mnode['inner'] if c['kind'] == 'ParmVarDecl']
        for p, a in zip(params, args):
            self.args[p.get('name', '')] = trunc(self.width_of(p)[0], a)
        body = [c for c in mnode['inner'] if c['kind'] == 'CompoundStmt'][0]
        self.run_stmts([body])

    def fork(self):
        f = Sym(self.W, self.tu, self.cls, self.layout, self.depth)
        f.mem, f.args, f.locals, f.ret, f.wrote = self.mem, dict(self.args), dict(self.locals), self.ret, self.wrote
        f.pure = getattr(self, 'pure', False)
        f.reads = self.reads
        return f

    def run_stmts(self, stmts):
        """executes the statement list to the END OF THE FUNCTION (a return stops it): every `if` forks, both branches run through the
        rest of the function, and the final memories / return values are merged under the condition - so early returns, if/else
        ladders and ternaries all end up as the same kind of term"""
        stmts = list(stmts)
        while stmts:
            st = stmts.pop(0)
            k = st['kind']; inner = st.get('inner', [])
            if k == 'CompoundStmt':
                stmts = list(inner) + stmts
                continue
            if k in ('ExprWithCleanups', 'ParenExpr') and inner:
                stmts = [inner[0]] + stmts
                continue
            if k == 'NullStmt':
                continue
            if k == 'ReturnStmt':
                if inner:
                    self.ret = self.ev(inner[0])
                return
            if k == 'IfStmt':
                if st.get('hasInit') or st.get('hasVar'):
                    raise Untranslatable('if with initialiser')
                c = self.ev(inner[0])
                a, b = self.fork(), self.fork()
                a.run_stmts([inner[1]] + stmts)
                b.run_stmts(([inner[2]] if len(inner) > 2 else []) + stmts)
                self.mem = a.mem if a.mem == b.mem else ('Ite', c, a.mem, b.mem)
                self.wrote = a.wrote or b.wrote
                if (a.ret is None) != (b.ret is None):
                    raise Untranslatable('return value in one branch only')
                self.ret = None if a.ret is None else (a.ret if a.ret == b.ret else ('Ite', c, a.ret, b.ret))
                return
            if k == 'DeclStmt':
                for d in inner:
                    if d.get('kind') in ('StaticAssertDecl', 'TypedefDecl', 'TypeAliasDecl', 'UsingDecl'):
                        continue
                    if d.get('kind') != 'VarDecl' or d.get('storageClass') == 'static':
                        raise Untranslatable('declaration ' + str(d.get('kind')))
                    init = [c for c in d.get('inner', []) if 'type' in c or c.get('kind', '').endswith('Expr') or c.get('kind', '').endswith('Literal')]
                    if not init:
                        raise Untranslatable('local without initialiser')
                    self.locals[d['id']] = trunc(self.width_of(d)[0], self.ev(init[-1]))
                continue
            if k == 'BinaryOperator' and st.get('opcode') == '=':
                lhs = inner[0]
                if lhs['kind'] == 'DeclRefExpr' and lhs['referencedDecl']['id'] in self.locals:
                    self.locals[lhs['referencedDecl']['id']] = trunc(self.width_of(lhs)[0], self.ev(inner[1]))
                    continue
                if lhs['kind'] != 'MemberExpr':
                    raise Untranslatable('assignment to a non-member')
                off, size, ti = self.field_ref(lhs)
                self.write_field(off, size, self.ev(inner[1]))
                continue
            if k == 'CompoundAssignOperator':
                lhs = inner[0]; op = st['opcode'][:-1]
                if op not in ('&', '|', '^'):
                    raise Untranslatable('compound assignment ' + st['opcode'])
                if lhs['kind'] == 'DeclRefExpr' and lhs['referencedDecl']['id'] in self.locals:
                    w = self.width_of(lhs)[0]
                    self.locals[lhs['referencedDecl']['id']] = trunc(w, ({'&': 'And', '|': 'Or', '^': 'Xor'}[op], self.locals[lhs['referencedDecl']['id']], self.ev(inner[1])))
                    continue
                if lhs['kind'] != 'MemberExpr':
                    raise Untranslatable('compound assignment ' + st['opcode'])
                off, size, ti = self.field_ref(lhs)
                a = self.read_field(off, size); b = self.ev(inner[1])
                self.write_field(off, size, ({'&': 'And', '|': 'Or', '^': 'Xor'}[op], a, b))
                continue
            if k == 'CXXMemberCallExpr':
                self.member_call(st, want_value=False)
                continue
            raise Untranslatable('statement ' + k)

# ------------------------------------------------------------------ forwarding accessors of payload classes
def forwarding(mnode):
    """body is `[return] getHeader()->m(params...)`: returns the callee member decl id or None"""
    body = [c for c in mnode['inner'] if c['kind'] == 'CompoundStmt'][0]
    st = body.get('inner', [])
    if len(st) != 1:
        return None
    s = st[0]
    if s['kind'] == 'ReturnStmt' and s.get('inner'):
        s = s['inner'][0]
    while s['kind'] in ('ExprWithCleanups', 'ImplicitCastExpr', 'ParenExpr'):
        s = s['inner'][0]
    if s['kind'] != 'CXXMemberCallExpr':
        return None
    me = s['inner'][0]
    if me['kind'] != 'MemberExpr' or not me.get('isArrow'):
        return None
    obj = me['inner'][0]
    while obj['kind'] in ('ImplicitCastExpr', 'ParenExpr'):
        obj = obj['inner'][0]
    if obj['kind'] != 'CXXMemberCallExpr':
        return None
    gh = obj['inner'][0]
    if gh.get('name') != 'getHeader':
        return None
    params = [c.get('name') for c in mnode['inner'] if c['kind'] == 'ParmVarDecl']
    args = []
    for a in s['inner'][1:]:
        while a['kind'] in ('ImplicitCastExpr', 'ParenExpr'):
            a = a['inner'][0]
        if a['kind'] != 'DeclRefExpr':
            return None
        args.append(a['referencedDecl'].get('name'))
    if args != params:
        return None
    return me.get('referencedMemberDecl')

# ------------------------------------------------------------------ inventories
def inventory_functions(W):
    """(ii) local objects of library classes and (iii) allocation forms / uninitialised scalar locals in library code"""
    locals_, allocs = [], []
    memcpy_inited = set()
    def strip(x):
        while x.get('kind') in ('ImplicitCastExpr', 'ParenExpr', 'ExprWithCleanups', 'CStyleCastExpr', 'CXXStaticCastExpr', 'CXXReinterpretCastExpr') and x.get('inner'):
            x = x['inner'][0]
        return x
    def memcpy_into(st, var):
        """st is `memcpy(&var, src, sizeof(var))` (or sizeof of var's type): every byte of var is assigned before any read"""
        st = strip(st)
        if st.get('kind') != 'CallExpr' or len(st.get('inner', [])) != 4:
            return False
        if strip(st['inner'][0]).get('referencedDecl', {}).get('name') != 'memcpy':
            return False
        dst = strip(st['inner'][1])
        if dst.get('kind') != 'UnaryOperator' or dst.get('opcode') != '&' or strip(dst['inner'][0]).get('referencedDecl', {}).get('id') != var['id']:
            return False
        sz = strip(st['inner'][3])
        if sz.get('kind') != 'UnaryExprOrTypeTraitExpr' or sz.get('name') != 'sizeof':
            return False
        if sz.get('inner'):
            return strip(sz['inner'][0]).get('referencedDecl', {}).get('id') == var['id']
        return sz.get('argType', {}).get('qualType', '?').replace('const ', '') == var['type']['qualType'].replace('const ', '')
    def visit(fn, n):
        k = n.get('kind')
        if k == 'CompoundStmt':
            ch = n.get('inner', [])
            for i, c in enumerate(ch):
                if c.get('kind') == 'DeclStmt' and i + 1 < len(ch):
                    for d in c.get('inner', []):
                        if d.get('kind') == 'VarDecl' and 'init' not in d and memcpy_into(ch[i + 1], d):
                            memcpy_inited.add(d['id'])
        if k == 'VarDecl' and n.get('storageClass') != 'static':
            t = n['type'].get('desugaredQualType') or n['type']['qualType']
            has_init = 'init' in n
            tq = t.replace('const ', '')
            if not has_init and (type_info(n['type']) is not None or tq.endswith('*') or tq.endswith(']')):
                allocs.append((fn, 'MemcpyInitLocal' if n.get('id') in memcpy_inited else 'UninitLocal', n.get('name', ''), tq))
            if any(tq.replace('class ', '').replace('struct ', '') == q or tq.endswith('::' + q.split('::')[-1]) and q.endswith(tq.split('::')[-1]) for q in W.records):
                locals_.append((fn, n.get('name', ''), tq, n.get('init', 'default')))
        if k == 'VarDecl' and n.get('storageClass') == 'static':
            allocs.append((fn, 'LocalStatic', n.get('name', ''), n['type']['qualType']))
        if k == 'CXXNewExpr':
            allocs.append((fn, 'NewArray' if n.get('isArray') else 'New', '', n['type']['qualType']))
        if k == 'CallExpr':
            c = n['inner'][0]
            while c['kind'] == 'ImplicitCastExpr':
                c = c['inner'][0]
            nm = c.get('referencedDecl', {}).get('name')
            if nm in ('malloc', 'calloc', 'realloc', 'alloca', 'aligned_alloc'):
                allocs.append((fn, 'Malloc', nm, ''))
        if k == 'CXXMemberCallExpr':
            me = n['inner'][0]
            if me.get('name') == 'reserve':
                allocs.append((fn, 'Reserve', '', ''))
        for c in n.get('inner', []):
            visit(fn, c)
    seen = set()
    for fn, node in W.funcs:
        if node.get('mangledName') in seen:
            continue
        seen.add(node.get('mangledName'))
        for c in node.get('inner', []):
            if c.get('kind') == 'CompoundStmt':
                visit(fn, c)
    return locals_, allocs

def static_objects(outdir):
    """(i) objects with static storage duration, from the symbol tables of freshly compiled (unsanitised) objects"""
    od = os.path.join(outdir, 'obj_nm')
    os.makedirs(od, exist_ok=True)
    srcs = sorted(f for f in os.listdir(REPO + '/src') if f.endswith('.cpp'))
    def cc(f):
        subprocess.run(['g++', '-std=c++17', '-O0', '-w', '-I' + REPO + '/include', '-c', os.path.join(REPO, 'src', f), '-o', os.path.join(od, f[:-4] + '.o')], stderr=subprocess.DEVNULL)
    with ThreadPoolExecutor(16) as ex:
        list(ex.map(cc, srcs))
    out = []
    for f in srcs:
        o = os.path.join(od, f[:-4] + '.o')
        if not os.path.exists(o):
            raise SystemExit('cannot compile ' + f)
        # sysv format carries the section: an object is immutable iff it lives in a read-only section, whatever its binding
        # (local, global, weak, unique: inline variables and statics of inline functions are 'u' / 'V')
        r = subprocess.run(['nm', '-C', '--defined-only', '-f', 'sysv', o], stdout=subprocess.PIPE, text=True).stdout
        for ln in r.split('\n'):
            t = [x.strip() for x in ln.split('|')]
            if len(t) < 7 or t[3] not in ('OBJECT', 'TLS'):
                continue
            name, sect = t[0], t[6]
            if name.startswith('guard variable'):
                out.append((f, name, 'mutable'))
                continue
            if name.startswith(('.L', '__gnu', 'std::__', 'typeinfo', 'vtable', 'DW.ref', '.rodata', 'construction vtable', 'VTT')) or name.startswith('std::piecewise') or 'std::ignore' in name:
                continue
            if name.startswith('std::') or name.startswith('__'):
                continue
            const = sect.startswith(('.rodata', '.data.rel.ro')) and t[3] != 'TLS'
            out.append((f, name, 'const' if const else 'mutable'))
    return sorted(set(out))

# ------------------------------------------------------------------ main
def main():
    out = '.'
    if '--out' in sys.argv:
        out = sys.argv[sys.argv.index('--out') + 1]
    os.makedirs(out, exist_ok=True)
    srcs = sorted(os.path.join(REPO, 'src', f) for f in os.listdir(REPO + '/src') if f.endswith('.cpp'))
    W = World()
    W.tu_of = {}
    W.decl_mangled_all = {}
    with ThreadPoolExecutor(16) as ex:
        res = list(ex.map(dump_ast, srcs))
    for src, ds in res:
        tu = {}
        before = set(W.methods)
        W.decl_mangled = {}
        for d in ds:
            walk(d, ['ASAM'] if d.get('kind') == 'NamespaceDecl' and d.get('name') == 'CMP' else [], W, tu)
        W.decl_mangled_all.update(W.decl_mangled)
        for mg in set(W.methods) - before:
            W.tu_of[mg] = tu
    # enum underlying widths
    W.enum_widths = {}
    for src, ds in res:
        def ew(n, path):
            if n.get('kind') in ('NamespaceDecl', 'CXXRecordDecl') and n.get('name'):
                path = path + [n['name']]
            if n.get('kind') == 'EnumDecl' and n.get('name'):
                ft = n.get('fixedUnderlyingType')
                w = type_info(ft)[0] if ft and type_info(ft) else 32
                W.enum_widths['::'.join(path + [n['name']])] = w
            for c in n.get('inner', []):
                ew(c, path)
        for d in ds:
            ew(d, ['ASAM'] if d.get('kind') == 'NamespaceDecl' and d.get('name') == 'CMP' else [])
    layout, recs = run_probe(W, out)

    # ---- accessors
    methods_out = []      # (qualname, size, [param widths], mem expr or None, (ret width, expr) or None)
    untranslatable = []
    forwards = []
    sig_only = []
    for mg, (cls, name, node) in sorted(W.methods.items(), key=lambda kv: (kv[1][0], kv[1][1], kv[0])):
        if cls not in layout:
            fw = None
        tu = W.tu_of[mg]
        params = [c for c in node['inner'] if c['kind'] == 'ParmVarDecl']
        q = cls + '::' + name
        fw = forwarding(node)
        if fw is not None:
            tm = W.decl_mangled_all.get(fw)
            if tm and tm in W.methods:
                forwards.append((q, W.methods[tm][0] + '::' + W.methods[tm][1]))
                continue
        if cls not in layout:
            untranslatable.append((q, 'class without data-member layout'))
            continue
        try:
            s = Sym(W, tu, cls, layout)
            pw = []
            args = []
            for i, p in enumerate(params):
                w = s.width_of(p)[0]
                pw.append(w)
                args.append(('Var', i + 1, w))
            s.run(node, args)
            rt = node['type']['qualType'].split('(')[0].strip()
            ret = None
            if rt != 'void':
                if s.ret is None:
                    raise Untranslatable('no return value')
                rti = type_info({'qualType': rt})
                rw = rti[0] if rti else (s.enum_width(rt) or None)
                if rw is None:
                    rw = type_info(node['inner'][-1].get('type', {})) or None
                if rw is None:
                    # typedef'd return types: take the width of the returned expression's node type
                    raise Untranslatable('return type ' + rt)
                ret = (rw, trunc(rw, s.ret))
            methods_out.append((q, s.size, pw, s.mem if s.wrote else None, ret, mg))
            READS[q] = sorted(s.reads)
        except Untranslatable as e:
            untranslatable.append((q, str(e)))
            sig_only_entry(W, tu, cls, layout, node, params, q, mg, sig_only, recs)
        except (KeyError, IndexError, TypeError) as e:
            untranslatable.append((q, 'translator: %s %s' % (type(e).__name__, e)))
            sig_only_entry(W, tu, cls, layout, node, params, q, mg, sig_only, recs)

    # payload-level wrappers: every method of an outer payload class whose name is also a method of that class' Header record must be
    # a pure forwarder `[return] getHeader()->name(params...)` to exactly that Header method
    global WRAPPERS
    WRAPPERS = []
    header_methods = {}
    for mg, (cls, name, node) in W.methods.items():
        if cls.endswith('::Header') and cls in layout:
            header_methods.setdefault(cls, set()).add(name)
    def bases_of(q):
        n = W.records.get(q)
        return [b['type']['qualType'].replace('class ', '').replace('struct ', '') for b in (n.get('bases', []) if n else [])]
    def header_of(q, depth=0):
        if q + '::Header' in header_methods:
            return q + '::Header'
        if depth > 3:
            return None
        for b in bases_of(q):
            for cand in (b, 'ASAM::CMP::' + b, 'TECMP::' + b):
                if cand in W.records:
                    h = header_of(cand, depth + 1)
                    if h:
                        return h
        return None
    fwd = dict(forwards)
    for mg, (cls, name, node) in sorted(W.methods.items(), key=lambda kv: (kv[1][0], kv[1][1], kv[0])):
        if cls.endswith('::Header'):
            continue
        h = header_of(cls)
        if h and name in header_methods[h] and name not in ('getHeader',):
            WRAPPERS.append((cls + '::' + name, fwd.get(cls + '::' + name, ''), h + '::' + name))
    write_outputs(out, W, layout, recs, methods_out, untranslatable, forwards, sig_only)
    # tie T2: guard / decision functions of layer B in the arithmetic IR (Cir.v)
    import code2coq
    text, done, lost = code2coq.write_gencode(out, W, layout, READS)
    write_if_changed(os.path.join(out, 'GenCode.v'), text)
    json.dump(dict(translated=[q for q, _ in done], lost=lost), open(os.path.join(out, 'code_index.json'), 'w'), indent=1)

READS = {}

def sig_only_entry(W, tu, cls, layout, node, params, q, mg, sig_only, recs):
    """a method whose body cannot be translated still gets a harness dispatch entry (from its signature alone), so that the layout
    spec can be run against the compiled code when searching for a failing input"""
    try:
        # only plain byte images (every data member a scalar / enumeration): the harness runs the accessor on raw memory
        for (pname, cpath, ti, c) in recs.get(cls, []):
            dq = (c['type'].get('desugaredQualType') or c['type']['qualType'])
            if ti is None and not dq.startswith('enum ') and not W_enum_like(W, dq) and '::(anonymous' not in dq and 'union' not in dq:
                return
        s = Sym(W, tu, cls, layout)
        pw = [s.width_of(p)[0] for p in params]
        rt = node['type']['qualType'].split('(')[0].strip()
        ret = None
        if rt != 'void':
            rti = type_info({'qualType': rt})
            rw = rti[0] if rti else (s.enum_width(rt) or None)
            if rw is None:
                return
            ret = (rw, None)
        const = node['type']['qualType'].rstrip().endswith('const')
        sig_only.append((q, s.size, pw, None if const else 'W', ret, mg))
    except Exception:
        return

def coq_str(s):
    return '"' + s.replace('"', '""') + '"'

def default_inits(W, layout, recs):
    """per record: list (field path, offset, size, default value or None)"""
    res = {}
    for q, fl in recs.items():
        if q not in layout:
            continue
        rows = []
        for (pname, cpath, ti, c) in fl:
            if pname not in layout[q]['fields']:
                continue
            off, size = layout[q]['fields'][pname]
            dv = None
            if c.get('hasInClassInitializer'):
                v = const_value(c, W.rec_tu.get(q))
                if v is None:
                    # floating literal 0.f etc.
                    txt = json.dumps(c.get('inner', []))
                    if 'FloatingLiteral' in txt:
                        m = re.search(r'"FloatingLiteral".*?"value": "([^"]+)"', txt)
                        dv = 0 if (m and float(m.group(1)) == 0.0) else None
                    else:
                        dv = 0 if '"InitListExpr"' in txt and 'inner' not in c['inner'][0] else None
                else:
                    dv = v & ((1 << (8 * size)) - 1)
            rows.append((pname, off, size, dv))
            dq = (c['type'].get('desugaredQualType') or c['type']['qualType'])
            # members through which two objects of the class can share state after a copy: shared ownership, raw pointers, references
            if re.search(r'shared_ptr|weak_ptr|reference_wrapper|\*|&', c['type']['qualType'] + ' ' + dq):
                ALIASING.append((q, pname, c['type']['qualType']))
            scalar = ti is not None or dq.endswith('*') or dq.startswith('enum ') or W_enum_like(W, dq)
            if scalar and not c.get('hasInClassInitializer'):
                UNINIT.append((q, pname))
        res[q] = rows
    return res

UNINIT = []
ALIASING = []
WRAPPERS = []
def W_enum_like(W, dq):
    last = dq.replace('const ', '').split('::')[-1]
    return any(e.split('::')[-1] == last for e in W.enum_widths)

def write_outputs(out, W, layout, recs, methods_out, untranslatable, forwards, sig_only=()):
    L = []
    L.append('(* GENERATED by translator/cxx2coq.py from the current sources of /repo — do not edit. *)')
    L.append('From Coq Require Import ZArith List String.\nRequire Import CMP.Bv.\nImport ListNotations.\nLocal Open Scope Z_scope.\nLocal Open Scope string_scope.\n')
    L.append('Record method_model := { mm_size : Z; mm_params : list Z; mm_mem : option bv; mm_ret : option (Z * bv) }.\n')
    L.append('Definition gen_methods : list (string * method_model) := [')
    rows = []
    for (q, size, pw, mem, ret, mg) in methods_out:
        rows.append('  (%s, {| mm_size := %d; mm_params := [%s]; mm_mem := %s; mm_ret := %s |})' % (
            coq_str(q), size, '; '.join(map(str, pw)), 'Some ' + coq(mem) if mem is not None else 'None',
            'Some (%d, %s)' % (ret[0], coq(ret[1])) if ret else 'None'))
    L.append(';\n'.join(rows))
    L.append('].\n')
    L.append('Definition gen_forwards : list (string * string) := [')
    L.append(';\n'.join('  (%s, %s)' % (coq_str(a), coq_str(b)) for a, b in sorted(set(forwards))))
    L.append('].\n')
    L.append('(* payload-level wrappers of Header accessors: (wrapper, what it forwards to ("" = not a pure forwarder), what it must forward to) *)')
    L.append('Definition gen_wrappers : list (string * string * string) := [')
    L.append(';\n'.join('  (%s, %s, %s)' % (coq_str(a), coq_str(b), coq_str(c)) for a, b, c in sorted(set(WRAPPERS))))
    L.append('].\n')
    L.append('Definition gen_untranslatable : list (string * string) := [')
    L.append(';\n'.join('  (%s, %s)' % (coq_str(a), coq_str(b)) for a, b in sorted(set(untranslatable))))
    L.append('].')
    write_if_changed(os.path.join(out, 'GenAccessors.v'), '\n'.join(L) + '\n')

    di = default_inits(W, layout, recs)
    G = ['(* GENERATED by translator/cxx2coq.py from the current sources of /repo — do not edit. *)',
         'From Coq Require Import ZArith List String.\nImport ListNotations.\nLocal Open Scope Z_scope.\nLocal Open Scope string_scope.\n',
         '(* class name, sizeof, data members (path, byte offset, byte size, default member initialiser) *)',
         'Definition gen_records : list (string * (Z * list (string * Z * Z * option Z))) := [']
    rr = []
    for q in sorted(di):
        rr.append('  (%s, (%d, [%s]))' % (coq_str(q), layout[q]['size'], '; '.join('(%s, %d, %d, %s)' % (coq_str(n), o, s, 'Some %d' % d if d is not None else 'None') for n, o, s, d in di[q])))
    G.append(';\n'.join(rr)); G.append('].\n')
    G.append('(* scalar / enumeration / pointer data members WITHOUT a default member initialiser: (class, member path) *)')
    G.append('Definition gen_uninit_members : list (string * string) := [')
    G.append(';\n'.join('  (%s, %s)' % (coq_str(a), coq_str(b)) for a, b in sorted(set(UNINIT))))
    G.append('].\n')
    G.append('(* data members of shared-ownership / raw-pointer / reference type: (class, member, declared type) *)')
    G.append('Definition gen_aliasing_members : list (string * string * string) := [')
    G.append(';\n'.join('  (%s, %s, %s)' % (coq_str(a), coq_str(b), coq_str(c)) for a, b, c in sorted(set(ALIASING))))
    G.append('].\n')
    G.append('Definition gen_enums : list (string * list (string * Z)) := [')
    G.append(';\n'.join('  (%s, [%s])' % (coq_str(q), '; '.join('(%s, %d)' % (coq_str(n), v) for n, v in vals)) for q, vals in sorted(W.enums.items())))
    G.append('].')
    write_if_changed(os.path.join(out, 'GenLayout.v'), '\n'.join(G) + '\n')

    statics = static_objects(out)
    locals_, allocs = inventory_functions(W)
    I = ['(* GENERATED by translator/cxx2coq.py from the current sources of /repo — do not edit. *)',
         'From Coq Require Import ZArith List String.\nImport ListNotations.\nLocal Open Scope string_scope.\n',
         '(* objects with static storage duration defined by the library (object file, demangled symbol, mutable / const) *)',
         'Definition gen_statics : list (string * string * string) := [',
         ';\n'.join('  (%s, %s, %s)' % (coq_str(a), coq_str(b), coq_str(c)) for a, b, c in statics), '].\n',
         '(* local objects of library classes created in library code: (function, variable, type, initialisation form) *)',
         'Definition gen_local_objects : list (string * string * string * string) := [',
         ';\n'.join('  (%s, %s, %s, %s)' % tuple(coq_str(x) for x in r) for r in sorted(set(locals_))), '].\n',
         '(* raw allocation forms and scalar / pointer / array locals without initialiser in library code: (function, kind, name, type) *)',
         'Definition gen_allocs : list (string * string * string * string) := [',
         ';\n'.join('  (%s, %s, %s, %s)' % tuple(coq_str(x) for x in r) for r in sorted(set(allocs))), '].']
    write_if_changed(os.path.join(out, 'GenInventory.v'), '\n'.join(I) + '\n')

    # ---- C++ dispatch for the harness and index for the generators
    idx = dict(classes=[], methods=[])
    cls_ids = {}
    D = ['// GENERATED by translator/cxx2coq.py — runs a compiled accessor on a memory image (harness op ACC)',
         'static bool accDispatch(int cls, int method, Bytes& mem, unsigned long long arg, unsigned long long arg2, unsigned long long& ret, int& hasRet)', '{', '    (void) arg; (void) arg2; (void) ret; (void) hasRet;', '    switch (cls * 1000 + method)', '    {']
    mid = {}
    modelled = set(m[0] + m[5] for m in methods_out)
    for (q, size, pw, memx, ret, mg) in list(methods_out) + list(sig_only):
        cls, name = q.rsplit('::', 1)
        if len(pw) > 2:
            continue
        node = W.methods[mg][2]
        params = [c for c in node['inner'] if c['kind'] == 'ParmVarDecl']
        if cls not in cls_ids:
            cls_ids[cls] = len(cls_ids) + 1
            idx['classes'].append(dict(id=cls_ids[cls], name=cls, size=size))
        m = mid.setdefault(cls, {})
        k = len(m) + 1
        m[name + mg] = k
        is_packed = cls in layout
        idx['methods'].append(dict(cls=cls_ids[cls], id=k, name=q, params=pw, ret=ret[0] if ret else 0, writes=memx is not None, size=size, model=(q + mg) in modelled))
        call_arg = ', '.join('Conv{%s}' % v for p, v in zip(params, ['arg', 'arg2']))
        D.append('        case %d:  // %s' % (cls_ids[cls] * 1000 + k, q))
        D.append('        {')
        D.append('            if (mem.size() != sizeof(%s)) return false;' % cls)
        D.append('            alignas(8) unsigned char raw[sizeof(%s)];' % cls)
        D.append('            memcpy(raw, mem.data(), sizeof(raw));')
        D.append('            auto* o = reinterpret_cast<%s*>(raw);' % cls)
        rt = node['type']['qualType'].split('(')[0].strip()
        if rt == 'void':
            D.append('            o->%s(%s);' % (name, call_arg))
        elif rt == 'float':
            D.append('            ret = fbits(o->%s(%s)); hasRet = 1;' % (name, call_arg))
        else:
            D.append('            ret = static_cast<unsigned long long>(o->%s(%s)); hasRet = 1;' % (name, call_arg))
        D.append('            memcpy(mem.data(), raw, sizeof(raw));')
        D.append('            return true;')
        D.append('        }')
    D += ['    }', '    return false;', '}']
    # payload-level wrappers: run the wrapper on a typed payload object constructed over the memory image (harness op FWD)
    D += ['// GENERATED: runs a payload-level wrapper of a Header accessor on an object built from the image (harness op FWD)',
          'static bool fwdDispatch(int id, Bytes& mem, unsigned long long arg, unsigned long long arg2, unsigned long long& ret, int& hasRet, int retag)', '{',
          '    (void) arg; (void) arg2; (void) ret; (void) hasRet; (void) mem; (void) retag;', '    switch (id)', '    {']
    idx['wrappers'] = []
    by_q = {}
    for mg, (cls, name, node) in W.methods.items():
        by_q.setdefault(cls + '::' + name, node)
    wid = 0
    for (wq, got, want) in sorted(set(WRAPPERS)):
        node = by_q.get(wq)
        if node is None:
            continue
        cls, name = wq.rsplit('::', 1)
        concrete = 'ASAM::CMP::CanPayload' if cls == 'ASAM::CMP::CanPayloadBase' else cls
        params = [c for c in node['inner'] if c['kind'] == 'ParmVarDecl']
        if len(params) > 2:
            continue
        wid += 1
        idx['wrappers'].append(dict(id=wid, name=wq, target=want, nparams=len(params)))
        call_arg = ', '.join('Conv{%s}' % v for p_, v in zip(params, ['arg', 'arg2']))
        rt = node['type']['qualType'].split('(')[0].strip()
        D.append('        case %d:  // %s' % (wid, wq))
        D.append('        {')
        D.append('            %s o(mem.data(), mem.size());' % concrete)
        D.append('            applyRetag(o, retag);')
        if rt == 'void':
            D.append('            o.%s(%s);' % (name, call_arg))
        elif rt == 'float':
            D.append('            ret = fbits(o.%s(%s)); hasRet = 1;' % (name, call_arg))
        else:
            D.append('            ret = static_cast<unsigned long long>(o.%s(%s)); hasRet = 1;' % (name, call_arg))
        D.append('            mem.assign(o.getRawPayload(), o.getRawPayload() + o.getLength());')
        D.append('            return true;')
        D.append('        }')
    D += ['    }', '    return false;', '}']
    D += ['// bytes of a default-constructed object of a wire header class (harness op DEF)', 'static bool accDefault(int cls, Bytes& out)', '{', '    switch (cls)', '    {']
    for c in idx['classes']:
        if c['name'].endswith('Header'):
            D += ['        case %d: { %s o; out.assign(reinterpret_cast<const uint8_t*>(&o), reinterpret_cast<const uint8_t*>(&o) + sizeof(o)); return true; }' % (c['id'], c['name'])]
    D += ['    }', '    (void) out;', '    return false;', '}']
    pre = ['static float bitsToFloat(uint32_t u) { float f; memcpy(&f, &u, 4); return f; }',
           '// converts the script argument to whatever parameter type the accessor declares (integers, bool, float bit pattern, enumerations)',
           'struct Conv { unsigned long long v; template <typename T> operator T() const {',
           '    if constexpr (std::is_same_v<T, float>) return bitsToFloat(static_cast<uint32_t>(v));',
           '    else if constexpr (std::is_same_v<T, bool>) return v != 0;',
           '    else return static_cast<T>(v); } };']
    write_if_changed(os.path.join(out, 'gen_dispatch.inc'), '\n'.join(pre + D) + '\n')
    idx['untranslatable'] = [list(x) for x in sorted(set(untranslatable))]
    idx['forwards'] = [list(x) for x in sorted(set(forwards))]
    json.dump(idx, open(os.path.join(out, 'acc_index.json'), 'w'), indent=1)
    print('translated %d methods, %d forwarding, %d untranslatable; %d records; %d static objects' % (len(methods_out), len(set(forwards)), len(set(untranslatable)), len(di), len(statics)))

def write_if_changed(path, text):
    if os.path.exists(path) and open(path).read() == text:
        return
    open(path, 'w').write(text)

if __name__ == '__main__':
    main()
