"""Tie T2: translates, from /repo's CURRENT sources, the guard / decision functions of layer B (payload validators, the message-level
validity check, the segment-type predicates, the encoder's segmentation-flag rule) into the arithmetic IR of coq/theories/Cir.v.

A function body becomes ONE expression (type cexp): statements are translated in continuation style (`T x = e; rest` -> KLet x e rest,
`if (c) A; rest` -> KIte c (A; rest) (rest), `return e` -> e, constant-trip `for` loops are unrolled), every arithmetic node carries the
C++ type clang computed for it (result = exact integer operation, then wrapped to that type), `&&` / `||` are short-circuit, every
`data[i]` is a bounds-checked read, and `reinterpret_cast<const Header*>(data + k)->getX(args)` is a call KAcc of the bit-vector model of
that accessor (tie T, GenAccessors.v) on the bytes at offset k, checked against the byte extents the accessor reads.
Anything outside this fragment makes the function untranslatable: it is then listed in gen_code_lost with the reason.
"""
import json, re
from cxx2coq import INT_TYPES, type_info, const_value, Untranslatable

# functions translated: (qualified name, reason it matters)
TARGETS = [
    'ASAM::CMP::Packet::isValidPacket',
    'ASAM::CMP::CanPayloadBase::isValidPayload',
    'ASAM::CMP::LinPayload::isValidPayload',
    'ASAM::CMP::EthernetPayload::isValidPayload',
    'ASAM::CMP::AnalogPayload::isValidPayload',
    'ASAM::CMP::CaptureModulePayload::isValidPayload',
    'ASAM::CMP::InterfacePayload::isValidPayload',
    'ASAM::CMP::Decoder::isSegmentedPacket',
    'ASAM::CMP::Decoder::isFirstSegment',
    'ASAM::CMP::Encoder::buildSegmentationFlag',
]

# view accessors of the typed payload classes (member functions: the buffer is the payload's own byte vector, variable 1 its size);
# a returned pointer is reported as its offset into the payload, -1 for nullptr
VIEW_TARGETS = [
    'ASAM::CMP::LinPayload::getData',
    'ASAM::CMP::CanPayloadBase::getData',
    'ASAM::CMP::EthernetPayload::getData',
    'ASAM::CMP::AnalogPayload::getSamplesCount',
    'ASAM::CMP::AnalogPayload::getData',
    'ASAM::CMP::InterfacePayload::getStreamIdsCount',
    'ASAM::CMP::InterfacePayload::getStreamIds',
    'ASAM::CMP::InterfacePayload::getVendorDataLength',
    'ASAM::CMP::InterfacePayload::getVendorData',
]

THIS = ('THIS',)
VEC = ('VEC',)

BINOPS = {'+': 'OAdd', '-': 'OSub', '*': 'OMul', '/': 'ODiv', '%': 'ORem', '&': 'OAnd', '|': 'OOr', '^': 'OXor', '<<': 'OShl', '>>': 'OShr'}
CMPOPS = {'<': 'CLt', '<=': 'CLe', '>': 'CGt', '>=': 'CGe', '==': 'CEq', '!=': 'CNe'}

class Ptr:
    def __init__(self, off, pointee):
        self.off, self.pointee = off, pointee     # off: cexp; pointee: type string

def K(*a): return tuple(a)
def kconst(z): return K('KConst', int(z))
def kadd(a, b):
    if a[0] == 'KConst' and b[0] == 'KConst': return kconst(a[1] + b[1])
    if a[0] == 'KConst' and a[1] == 0: return b
    if b[0] == 'KConst' and b[1] == 0: return a
    return K('KBin', 'OAdd', 64, False, a, b)

def coq(e):
    k = e[0]
    z = lambda v: str(v) if v >= 0 else '(%d)' % v
    b = lambda v: 'true' if v else 'false'
    if k == 'KConst': return '(KConst %s)' % z(e[1])
    if k == 'KVar': return '(KVar %d)' % e[1]
    if k == 'KByte': return '(KByte %s)' % coq(e[1])
    if k == 'KAcc': return '(KAcc "%s" %s %s %s)' % (e[1], coq(e[2]), coq(e[3]), coq(e[4]))
    if k == 'KBin': return '(KBin %s %d %s %s %s)' % (e[1], e[2], b(e[3]), coq(e[4]), coq(e[5]))
    if k == 'KCmp': return '(KCmp %s %s %s)' % (e[1], coq(e[2]), coq(e[3]))
    if k == 'KNot': return '(KNot %s)' % coq(e[1])
    if k == 'KNeg': return '(KNeg %d %s %s)' % (e[1], b(e[2]), coq(e[3]))
    if k == 'KCpl': return '(KCpl %d %s %s)' % (e[1], b(e[2]), coq(e[3]))
    if k in ('KAndS', 'KOrS'): return '(%s %s %s)' % (k, coq(e[1]), coq(e[2]))
    if k == 'KIte': return '(KIte %s\n  %s\n  %s)' % (coq(e[1]), coq(e[2]), coq(e[3]))
    if k == 'KLet': return '(KLet %d %s\n  %s)' % (e[1], coq(e[2]), coq(e[3]))
    if k == 'KCast': return '(KCast %d %s %s)' % (e[1], b(e[2]), coq(e[3]))
    if k == 'KBswap': return '(KBswap %d %s)' % (e[1], coq(e[2]))
    if k == 'KRd': return '(KRd %d %s)' % (e[1], coq(e[2]))
    raise ValueError(k)

class CodeSym:
    def __init__(self, W, tu, layout, depth=0):
        self.W, self.tu, self.layout, self.depth = W, tu, layout, depth
        self.vars = {}        # decl id -> ('int', var index, (w, signed)) | ('ptr', Ptr)
        self.nvars = [0]      # shared counter (list so that sub-translations share it)
        self.accs = set()     # accessor names used

    def fresh(self):
        self.nvars[0] += 1
        return self.nvars[0] - 1

    # ---------- types
    def ity(self, n):
        t = n.get('type', {})
        if (t.get('qualType') or '').rstrip().endswith('&'):
            t = {'qualType': t['qualType'].rstrip()[:-1].strip(), 'desugaredQualType': (t.get('desugaredQualType') or t['qualType']).rstrip().rstrip('&').strip()}
        ti = type_info(t)
        if ti is not None:
            return ti
        dq = (t.get('desugaredQualType') or t.get('qualType') or '').replace('const ', '').replace('enum ', '').strip()
        w = self.enum_width(dq)
        if w:
            return (w, False)
        raise Untranslatable('type ' + dq)

    def enum_width(self, dq):
        last = dq.split('::')[-1]
        c = [w for q, w in self.W.enum_widths.items() if q.split('::')[-1] == last and (q.endswith(dq) or dq.endswith(q) or q.split('::')[-1] == dq)]
        if len(set(c)) == 1:
            return c[0]
        c = [w for q, w in self.W.enum_widths.items() if q.split('::')[-1] == last]
        if len(set(c)) == 1:
            return c[0]
        return None

    def is_ptr(self, n):
        q = n.get('type', {}).get('desugaredQualType') or n.get('type', {}).get('qualType', '')
        return q.rstrip().endswith('*')

    def pointee(self, n):
        q = n.get('type', {}).get('qualType', '')
        return q.rstrip()[:-1].replace('const ', '').replace('struct ', '').replace('class ', '').strip()

    def sizeof_type(self, q):
        q = q.replace('const ', '').replace('struct ', '').replace('class ', '').strip()
        if q in INT_TYPES:
            return max(1, INT_TYPES[q][0] // 8)
        for cand in (q, 'ASAM::CMP::' + q, 'TECMP::' + q):
            if cand in self.layout:
                return self.layout[cand]['size']
        c = [v['size'] for k, v in self.layout.items() if k.endswith('::' + q)]
        if len(set(c)) == 1:
            return c[0]
        w = self.enum_width(q)
        if w:
            return w // 8
        raise Untranslatable('sizeof ' + q)

    def record_name(self, q):
        q = q.replace('const ', '').replace('struct ', '').replace('class ', '').strip()
        for cand in (q, 'ASAM::CMP::' + q, 'TECMP::' + q):
            if cand in self.layout:
                return cand
        c = [k for k in self.layout if k.endswith('::' + q)]
        if len(c) == 1:
            return c[0]
        raise Untranslatable('record ' + q)

    # ---------- expressions: returns a cexp (integers) or a Ptr
    def ev(self, n):
        k = n['kind']; inner = n.get('inner', [])
        if k in ('ParenExpr', 'ExprWithCleanups', 'MaterializeTemporaryExpr', 'CXXBindTemporaryExpr'):
            return self.ev(inner[0])
        if k == 'ConstantExpr':
            if 'value' in n and not self.is_ptr(n):
                return kconst(int(n['value']))
            return self.ev(inner[0])
        if k == 'IntegerLiteral':
            return kconst(int(n['value']))
        if k == 'CXXBoolLiteralExpr':
            return kconst(1 if n['value'] else 0)
        if k == 'CXXNullPtrLiteralExpr' or k == 'GNUNullExpr':
            return Ptr(kconst(-1), 'uint8_t')
        if k == 'CXXThisExpr':
            if getattr(self, 'size_var', None) is None:
                raise Untranslatable('this outside a payload member function')
            return THIS
        if k == 'MemberExpr':
            base = self.ev(inner[0])
            if base is THIS and n.get('name') == 'payloadData':
                return VEC
            raise Untranslatable('member ' + str(n.get('name')))
        if k == 'UnaryExprOrTypeTraitExpr':
            if n.get('name') != 'sizeof':
                raise Untranslatable(n.get('name', 'trait'))
            if 'argType' in n:
                return kconst(self.sizeof_type(n['argType'].get('desugaredQualType') or n['argType']['qualType']))
            sub = inner[0]
            while sub['kind'] == 'ParenExpr':
                sub = sub['inner'][0]
            return kconst(self.sizeof_type(sub['type'].get('desugaredQualType') or sub['type']['qualType']))
        if k in ('ImplicitCastExpr', 'CXXStaticCastExpr', 'CStyleCastExpr', 'CXXFunctionalCastExpr', 'CXXReinterpretCastExpr', 'CXXConstCastExpr'):
            ck = n.get('castKind'); sub = inner[0]
            v = self.ev(sub)
            if v is THIS or v is VEC:
                if ck in ('LValueToRValue', 'NoOp', 'UncheckedDerivedToBase', 'DerivedToBase'):
                    return v
                raise Untranslatable('cast of this')
            if isinstance(v, Ptr):
                if ck == 'NullToPointer':
                    return Ptr(kconst(-1), self.pointee(n))
                if ck in ('LValueToRValue', 'NoOp', 'BitCast'):
                    return Ptr(v.off, self.pointee(n)) if self.is_ptr(n) else v
                raise Untranslatable('pointer cast ' + str(ck))
            if ck in ('LValueToRValue', 'NoOp', 'ConstructorConversion'):
                return v
            if ck == 'IntegralToBoolean':
                return K('KCmp', 'CNe', v, kconst(0))
            if ck in ('IntegralCast', 'BooleanToSignedIntegral'):
                w, sg = self.ity(n)
                if v[0] == 'KConst' and not sg and 0 <= v[1] < (1 << w):
                    return v
                if v[0] == 'KConst' and sg and -(1 << (w - 1)) <= v[1] < (1 << (w - 1)):
                    return v
                return K('KCast', w, sg, v)
            raise Untranslatable('cast ' + str(ck))
        if k == 'DeclRefExpr':
            rd = n['referencedDecl']
            if rd['id'] in self.vars:
                v = self.vars[rd['id']]
                return v[1] if v[0] == 'ptr' else K('KVar', v[1])
            if rd['kind'] == 'EnumConstantDecl':
                d = self.tu.get(rd['id'])
                v = const_value(d) if d else None
                if v is None:
                    raise Untranslatable('enum constant without value')
                return kconst(v)
            if rd['kind'] == 'VarDecl':
                v = const_value(n, self.tu)
                if v is None:
                    # a named compile-time constant whose initialiser is an expression (sizeof ..., arithmetic on other constants)
                    d = self.tu.get(rd['id'])
                    init = [c for c in (d or {}).get('inner', []) if 'type' in c or c.get('kind', '').endswith('Expr') or c.get('kind', '').endswith('Literal')]
                    if d is not None and init and (d.get('constexpr') or 'const ' in d.get('type', {}).get('qualType', '') + ' '):
                        e = self.ev(init[-1])
                        if not isinstance(e, Ptr):
                            return e
                    raise Untranslatable('variable ' + rd.get('name', ''))
                return kconst(v)
            raise Untranslatable('reference to ' + rd['kind'] + ' ' + rd.get('name', ''))
        if k == 'ArraySubscriptExpr':
            p = self.ev(inner[0]); i = self.ev(inner[1])
            if not isinstance(p, Ptr) or isinstance(i, Ptr):
                raise Untranslatable('subscript of a non-pointer')
            if self.sizeof_type(p.pointee) != 1:
                raise Untranslatable('subscript of ' + p.pointee)
            return K('KByte', kadd(p.off, i))
        if k == 'UnaryOperator':
            op = n['opcode']
            if op == '*':
                p = self.ev(inner[0])
                if not isinstance(p, Ptr):
                    raise Untranslatable('dereference')
                sz = self.sizeof_type(p.pointee)
                if sz == 1:
                    return K('KByte', p.off)
                if sz in (2, 4, 8) and p.pointee.replace('const ', '').strip() in INT_TYPES and not INT_TYPES[p.pointee.replace('const ', '').strip()][1]:
                    return K('KRd', sz, p.off)       # an unsigned integer read straight out of the byte buffer (little-endian host)
                raise Untranslatable('dereference of ' + p.pointee)
            v = self.ev(inner[0])
            if isinstance(v, Ptr):
                raise Untranslatable('unary ' + op + ' on a pointer')
            if op == '!':
                return K('KNot', v)
            if op == '+':
                return v
            w, sg = self.ity(n)
            if op == '-':
                return K('KNeg', w, sg, v)
            if op == '~':
                return K('KCpl', w, sg, v)
            raise Untranslatable('unary ' + op)
        if k == 'BinaryOperator':
            op = n['opcode']
            if op in ('&&', '||'):
                a = self.ev(inner[0]); b = self.ev(inner[1])
                return K('KAndS' if op == '&&' else 'KOrS', a, b)
            if op == ',':
                raise Untranslatable('comma')
            a = self.ev(inner[0]); b = self.ev(inner[1])
            if isinstance(a, Ptr) or isinstance(b, Ptr):
                if op == '+' and isinstance(a, Ptr) and not isinstance(b, Ptr):
                    s = self.sizeof_type(a.pointee)
                    return Ptr(kadd(a.off, b if s == 1 else K('KBin', 'OMul', 64, False, b, kconst(s))), a.pointee)
                raise Untranslatable('pointer arithmetic ' + op)
            if op in CMPOPS:
                return K('KCmp', CMPOPS[op], a, b)
            if op in BINOPS:
                w, sg = self.ity(n)
                return K('KBin', BINOPS[op], w, sg, a, b)
            raise Untranslatable('binary ' + op)
        if k == 'ConditionalOperator':
            c = self.ev(inner[0]); a = self.ev(inner[1]); b = self.ev(inner[2])
            if isinstance(a, Ptr) and isinstance(b, Ptr):
                return Ptr(K('KIte', c, a.off, b.off), a.pointee if a.off != kconst(-1) else b.pointee)
            if isinstance(a, Ptr) or isinstance(b, Ptr):
                raise Untranslatable('conditional pointer')
            return K('KIte', c, a, b)
        if k == 'CXXMemberCallExpr':
            me = inner[0]
            if me['kind'] != 'MemberExpr':
                raise Untranslatable('indirect member call')
            obj = self.ev(me['inner'][0])
            if obj is VEC:
                if me.get('name') == 'data' and len(inner) == 1:
                    return Ptr(kconst(0), 'uint8_t')
                if me.get('name') == 'size' and len(inner) == 1:
                    return K('KVar', self.size_var)
                raise Untranslatable('vector member ' + str(me.get('name')))
            if obj is THIS:
                mg = self.W.decl_mangled_all.get(me.get('referencedMemberDecl'))
                m = self.W.methods.get(mg)
                if m is None:
                    raise Untranslatable('callee without body: ' + str(me.get('name')))
                return self.call_fd(m[2], self.W.tu_of[mg], inner[1:], me.get('name'))
            if not isinstance(obj, Ptr):
                raise Untranslatable('member call on a non-pointer object')
            mg = self.W.decl_mangled_all.get(me.get('referencedMemberDecl'))
            m = self.W.methods.get(mg)
            if m is None:
                raise Untranslatable('callee without body: ' + str(me.get('name')))
            q = m[0] + '::' + m[1]
            if self.record_name(obj.pointee) != m[0]:
                raise Untranslatable('accessor of another class than the pointee')
            args = [self.ev(a) for a in inner[1:]]
            if len(args) > 2 or any(isinstance(a, Ptr) for a in args):
                raise Untranslatable('accessor arguments')
            args += [kconst(0)] * (2 - len(args))
            self.accs.add(q)
            return K('KAcc', q, obj.off, args[0], args[1])
        if k == 'CallExpr':
            callee = inner[0]
            while callee['kind'] in ('ImplicitCastExpr',):
                callee = callee['inner'][0]
            name = callee.get('referencedDecl', {}).get('name')
            if name == 'swapEndian':
                a = self.ev(inner[1]); w, _ = self.ity(inner[1])
                return a if w == 8 else K('KBswap', w // 8, a)
            if name == 'to_underlying':
                return self.ev(inner[1])
            return self.call(callee, inner[1:], name)
        raise Untranslatable(k)

    def call(self, callee, argnodes, name):
        """call of a function whose body is available: its body, translated as one expression, under bindings of its parameters"""
        rd = callee.get('referencedDecl', {})
        fd = self.tu.get(rd.get('id'))
        if fd is None or not any(c.get('kind') == 'CompoundStmt' for c in fd.get('inner', [])):
            mg = self.W.decl_mangled_all.get(rd.get('id'))
            m = self.W.methods.get(mg)
            if m is not None:
                fd = m[2]; tu = self.W.tu_of[mg]
            else:
                raise Untranslatable('call to ' + str(name))
        else:
            tu = self.tu
        return self.call_fd(fd, tu, argnodes, name)

    def call_fd(self, fd, tu, argnodes, name):
        if self.depth > 6:
            raise Untranslatable('call depth')
        sub = CodeSym(self.W, tu, self.layout, self.depth + 1)
        sub.nvars = self.nvars; sub.accs = self.accs
        sub.size_var = getattr(self, 'size_var', None)
        params = [c for c in fd['inner'] if c['kind'] == 'ParmVarDecl']
        binds = []
        for p, a in zip(params, argnodes):
            v = self.ev(a)
            if v is THIS or v is VEC:
                raise Untranslatable('object passed as an argument')
            if isinstance(v, Ptr):
                # a pointer argument may be a computed offset: bind it so that it is evaluated once
                i = self.fresh()
                binds.append((i, v.off))
                sub.vars[p['id']] = ('ptr', Ptr(K('KVar', i), sub.pointee(p)))
            else:
                i = self.fresh(); w, sg = sub.ity(p)
                sub.vars[p['id']] = ('int', i, (w, sg))
                binds.append((i, K('KCast', w, sg, v)))
        body = [c for c in fd['inner'] if c['kind'] == 'CompoundStmt'][0]
        sub.ret_ptr = fd['type']['qualType'].split('(')[0].rstrip().endswith('*')
        e = sub.stmts([body])
        for i, v in reversed(binds):
            e = K('KLet', i, v, e)
        if sub.ret_ptr:
            rt = fd['type']['qualType'].split('(')[0].rstrip()[:-1].replace('const ', '').strip()
            return Ptr(e, rt)
        return e

    def ref_call(self, n):
        """n is a call of a function whose body is available and that has a non-const integer reference parameter"""
        if n.get('kind') != 'CallExpr':
            return None
        callee = n['inner'][0]
        while callee['kind'] in ('ImplicitCastExpr',):
            callee = callee['inner'][0]
        rd = callee.get('referencedDecl', {})
        fd = self.tu.get(rd.get('id')); tu = self.tu
        if fd is None or not any(c.get('kind') == 'CompoundStmt' for c in fd.get('inner', [])):
            mg = self.W.decl_mangled_all.get(rd.get('id'))
            m = self.W.methods.get(mg)
            if m is None:
                return None
            fd = m[2]; tu = self.W.tu_of[mg]
        params = [c for c in fd['inner'] if c['kind'] == 'ParmVarDecl']
        if not any(is_mut_ref(p) for p in params):
            return None
        return fd, tu, n['inner'][1:]

    def call_cps(self, fd, tu, argnodes, k):
        if self.depth > 5:
            raise Untranslatable('call depth')
        sub = CodeSym(self.W, tu, self.layout, self.depth + 1)
        sub.nvars = self.nvars; sub.accs = self.accs
        params = [c for c in fd['inner'] if c['kind'] == 'ParmVarDecl']
        binds = []
        for p, a in zip(params, argnodes):
            if is_mut_ref(p):
                an = strip_expr(a)
                if an.get('kind') != 'DeclRefExpr' or an['referencedDecl']['id'] not in self.vars or self.vars[an['referencedDecl']['id']][0] != 'int':
                    raise Untranslatable('reference argument that is not an integer local')
                sub.vars[p['id']] = self.vars[an['referencedDecl']['id']]      # the same variable
                continue
            v = self.ev(a)
            if isinstance(v, Ptr):
                sub.vars[p['id']] = ('ptr', Ptr(v.off, sub.pointee(p)))
            else:
                i = self.fresh(); w, sg = sub.ity(p)
                sub.vars[p['id']] = ('int', i, (w, sg))
                binds.append((i, K('KCast', w, sg, v)))
        sub.ret_k = k
        body = [c for c in fd['inner'] if c['kind'] == 'CompoundStmt'][0]
        e = sub.stmts([body])
        for i, v in reversed(binds):
            e = K('KLet', i, v, e)
        return e

    # ---------- statements, continuation style: the value of the statement list is the value the function returns
    def stmts(self, sts):
        sts = list(sts)
        if not sts:
            if getattr(self, 'ret_k', None):
                return self.ret_k(None)
            raise Untranslatable('control reaches the end of the function without a return')
        st = sts[0]; rest = sts[1:]
        k = st['kind']; inner = st.get('inner', [])
        if k == '__unrolled__':
            return self.unrolled(st['seq'], st['rest'] + rest)
        if k == 'CompoundStmt':
            return self.stmts(list(inner) + rest)
        if k in ('ExprWithCleanups',) and inner:
            return self.stmts([inner[0]] + rest)
        if k == 'NullStmt':
            return self.stmts(rest)
        if k == 'ReturnStmt':
            if not inner:
                if getattr(self, 'ret_k', None):
                    return self.ret_k(None)
                raise Untranslatable('return without a value')
            v = self.ev(inner[0])
            if isinstance(v, Ptr):
                if not getattr(self, 'ret_ptr', False):
                    raise Untranslatable('returns a pointer')
                v = v.off
            if v is THIS or v is VEC:
                raise Untranslatable('returns an object')
            if getattr(self, 'ret_k', None):
                return self.ret_k(v)
            return v
        if k == 'IfStmt':
            if st.get('hasInit') or st.get('hasVar'):
                raise Untranslatable('if with initialiser')
            cn, neg = strip_expr(inner[0]), False
            while cn.get('kind') == 'UnaryOperator' and cn.get('opcode') == '!':
                neg = not neg; cn = strip_expr(cn['inner'][0])
            rc = self.ref_call(cn)
            if rc:
                # `if ([!]helper(..., ref, ...)) A; rest`: the helper's body is inlined and the rest of this function continues at each
                # of its return points, so that what it stored through its reference parameters is visible afterwards
                def kont(v, inner=inner, rest=rest, neg=neg):
                    if v is None:
                        raise Untranslatable('void helper used as a condition')
                    saved = dict(self.vars)
                    if v[0] == 'KConst':
                        # the helper returned a literal at this return point: only the branch taken is continued
                        taken = (v[1] != 0) != neg
                        r = self.stmts(([inner[1]] if taken else ([inner[2]] if len(inner) > 2 else [])) + rest)
                        self.vars = saved
                        return r
                    a = self.stmts([inner[1]] + rest)
                    self.vars = dict(saved)
                    b = self.stmts(([inner[2]] if len(inner) > 2 else []) + rest)
                    self.vars = saved
                    return K('KIte', K('KNot', v) if neg else v, a, b)
                return self.call_cps(rc[0], rc[1], rc[2], kont)
            c = self.ev(inner[0])
            saved = dict(self.vars)
            a = self.stmts([inner[1]] + rest)
            self.vars = dict(saved)
            b = self.stmts(([inner[2]] if len(inner) > 2 else []) + rest)
            self.vars = saved
            return K('KIte', c, a, b)
        if k == 'DeclStmt':
            binds = []
            for d in inner:
                if d.get('kind') in ('StaticAssertDecl', 'TypedefDecl', 'TypeAliasDecl', 'UsingDecl'):
                    continue
                if d.get('kind') != 'VarDecl' or d.get('storageClass') == 'static':
                    raise Untranslatable('declaration ' + str(d.get('kind')))
                init = [c for c in d.get('inner', []) if 'type' in c or c.get('kind', '').endswith('Expr') or c.get('kind', '').endswith('Literal')]
                if not init:
                    # `T x; memcpy(&x, p, sizeof x);` - an unsigned integer read out of the byte buffer
                    m = memcpy_into(rest[0] if rest else None, d['id'])
                    ti = type_info(d.get('type', {}))
                    if m is None or ti is None or ti[1] or len(inner) != 1:
                        raise Untranslatable('local without initialiser')
                    src = self.ev(m[0]); nbytes = self.ev(m[1])
                    if not isinstance(src, Ptr) or nbytes != kconst(ti[0] // 8) or self.sizeof_type(src.pointee) != 1:
                        raise Untranslatable('memcpy into a local from something else than the byte buffer')
                    i = self.fresh()
                    self.vars[d['id']] = ('int', i, ti)
                    return K('KLet', i, K('KRd', ti[0] // 8, src.off), self.stmts(rest[1:]))
                v = self.ev(init[-1])
                if v is THIS or v is VEC:
                    raise Untranslatable('local object')
                if isinstance(v, Ptr):
                    if v.off[0] in ('KConst', 'KVar'):
                        self.vars[d['id']] = ('ptr', Ptr(v.off, self.pointee(d)) if self.is_ptr(d) else v)
                    else:
                        i = self.fresh()
                        binds.append((i, v.off))
                        self.vars[d['id']] = ('ptr', Ptr(K('KVar', i), self.pointee(d) if self.is_ptr(d) else v.pointee))
                else:
                    i = self.fresh(); w, sg = self.ity(d)
                    self.vars[d['id']] = ('int', i, (w, sg))
                    binds.append((i, v))
            e = self.stmts(rest)
            for i, v in reversed(binds):
                e = K('KLet', i, v, e)
            return e
        if k == 'BinaryOperator' and st.get('opcode') == '=':
            lhs = inner[0]
            if lhs['kind'] != 'DeclRefExpr' or lhs['referencedDecl']['id'] not in self.vars:
                raise Untranslatable('assignment to something else than a local')
            var = self.vars[lhs['referencedDecl']['id']]
            v = self.ev(inner[1])
            if var[0] == 'ptr':
                if not isinstance(v, Ptr):
                    raise Untranslatable('pointer assignment')
                self.vars[lhs['referencedDecl']['id']] = ('ptr', Ptr(v.off, var[1].pointee))
                return self.stmts(rest)
            return K('KLet', var[1], v, self.stmts(rest))
        if k == 'CompoundAssignOperator':
            lhs = inner[0]; op = st['opcode'][:-1]
            if lhs['kind'] != 'DeclRefExpr' or lhs['referencedDecl']['id'] not in self.vars:
                raise Untranslatable('compound assignment to something else than a local')
            var = self.vars[lhs['referencedDecl']['id']]
            v = self.ev(inner[1])
            if var[0] == 'ptr':
                if op != '+' or isinstance(v, Ptr):
                    raise Untranslatable('pointer compound assignment')
                s = self.sizeof_type(var[1].pointee)
                self.vars[lhs['referencedDecl']['id']] = ('ptr', Ptr(kadd(var[1].off, v if s == 1 else K('KBin', 'OMul', 64, False, v, kconst(s))), var[1].pointee))
                return self.stmts(rest)
            if op not in BINOPS:
                raise Untranslatable('compound assignment ' + st['opcode'])
            # the operation is carried out in the computation type clang reports, then converted to the variable's type
            ct = st.get('computeResultType') or st.get('computeLHSType') or {}
            cti = type_info(ct) or var[2]
            cur = K('KVar', var[1])
            if cti != var[2]:
                cur = K('KCast', cti[0], cti[1], cur)
            r = K('KBin', BINOPS[op], cti[0], cti[1], cur, v)
            if cti != var[2]:
                r = K('KCast', var[2][0], var[2][1], r)
            return K('KLet', var[1], r, self.stmts(rest))
        if k == 'UnaryOperator' and st.get('opcode') in ('++', '--'):
            lhs = inner[0]
            if lhs['kind'] != 'DeclRefExpr' or lhs['referencedDecl']['id'] not in self.vars or self.vars[lhs['referencedDecl']['id']][0] != 'int':
                raise Untranslatable('increment of something else than an integer local')
            var = self.vars[lhs['referencedDecl']['id']]
            r = K('KBin', 'OAdd' if st['opcode'] == '++' else 'OSub', var[2][0], var[2][1], K('KVar', var[1]), kconst(1))
            return K('KLet', var[1], r, self.stmts(rest))
        if k == 'CallExpr' and self.ref_call(st):
            rc = self.ref_call(st)
            def kont2(v, rest=rest):
                saved = dict(self.vars)
                r = self.stmts(rest)
                self.vars = saved
                return r
            return self.call_cps(rc[0], rc[1], rc[2], kont2)
        if k == 'ForStmt':
            # for (T i = a; i < b; ++i) with literal a, b, the body not assigning i: unrolled
            init, _, cond, inc, body = (inner + [None] * 5)[:5]
            try:
                d = init['inner'][0]
                a = const_value(d['inner'][-1], self.tu)
                assert cond['kind'] == 'BinaryOperator' and cond['opcode'] in ('<', '<=', '!=')
                cl = cond['inner'][0]
                while cl['kind'] in ('ImplicitCastExpr', 'ParenExpr'):
                    cl = cl['inner'][0]
                assert cl['referencedDecl']['id'] == d['id']
                b = const_value(cond['inner'][1], self.tu)
                assert inc['kind'] == 'UnaryOperator' and inc['opcode'] == '++' and inc['inner'][0]['referencedDecl']['id'] == d['id']
                assert a is not None and b is not None
                if cond['opcode'] == '<=':
                    b += 1
                assert 0 <= b - a <= 64 and not assigns(body, d['id'])
            except (AssertionError, KeyError, IndexError, TypeError):
                raise Untranslatable('loop that is not a constant-trip for loop')
            i = self.fresh(); w, sg = self.ity(d)
            self.vars[d['id']] = ('int', i, (w, sg))
            seq = []
            for v in range(a, b):
                seq.append(('bind', i, v))
                seq.append(body)
            return self.unrolled(seq, rest)
        raise Untranslatable('statement ' + k)

    def unrolled(self, seq, rest):
        if not seq:
            return self.stmts(rest)
        h = seq[0]
        if isinstance(h, tuple):
            # bind the loop counter, then continue: encoded as a synthetic statement list through a closure
            return K('KLet', h[1], kconst(h[2]), self.unrolled(seq[1:], rest))
        # the body followed by the remaining iterations: the remaining iterations are re-entered through a marker statement
        marker = {'kind': '__unrolled__', 'seq': seq[1:], 'rest': rest}
        return self.stmts([h, marker])

def memcpy_into(st, did):
    """st is `memcpy(&x, src, n)` with x the local declared as did: returns (src node, n node)"""
    if st is None:
        return None
    st = strip_expr(st)
    if st.get('kind') != 'CallExpr':
        return None
    callee = st['inner'][0]
    while callee.get('kind') == 'ImplicitCastExpr':
        callee = callee['inner'][0]
    if callee.get('referencedDecl', {}).get('name') != 'memcpy' or len(st['inner']) != 4:
        return None
    a0 = strip_expr(st['inner'][1])
    while a0.get('kind') in ('CStyleCastExpr', 'CXXStaticCastExpr', 'CXXReinterpretCastExpr', 'ImplicitCastExpr'):
        a0 = strip_expr(a0['inner'][0])
    if a0.get('kind') != 'UnaryOperator' or a0.get('opcode') != '&':
        return None
    t = strip_expr(a0['inner'][0])
    if t.get('kind') != 'DeclRefExpr' or t['referencedDecl']['id'] != did:
        return None
    src = st['inner'][2]
    while src.get('kind') in ('ImplicitCastExpr', 'CStyleCastExpr', 'CXXStaticCastExpr', 'CXXReinterpretCastExpr') and src.get('castKind') in ('BitCast', 'NoOp') and 'void' in src.get('type', {}).get('qualType', ''):
        src = src['inner'][0]
    return src, st['inner'][3]

def strip_expr(n):
    while n.get('kind') in ('ImplicitCastExpr', 'ParenExpr', 'ExprWithCleanups', 'MaterializeTemporaryExpr') and n.get('inner'):
        n = n['inner'][0]
    return n

def is_mut_ref(p):
    q = p.get('type', {}).get('qualType', '')
    return q.rstrip().endswith('&') and not q.lstrip().startswith('const ')

def assigns(n, did):
    if n is None:
        return False
    if n.get('kind') in ('BinaryOperator', 'CompoundAssignOperator', 'UnaryOperator') and (n.get('opcode') in ('=', '++', '--') or n.get('kind') == 'CompoundAssignOperator'):
        l = n['inner'][0]
        if l.get('kind') == 'DeclRefExpr' and l['referencedDecl']['id'] == did:
            return True
    return any(assigns(c, did) for c in n.get('inner', []))

def translate_function(W, layout, q, view=False):
    cands = [(mg, m) for mg, m in W.methods.items() if m[0] + '::' + m[1] == q]
    if not cands:
        return None, 'function not found in the sources', None
    mg, (cls, name, node) = sorted(cands)[0]
    tu = W.tu_of[mg]
    cs = CodeSym(W, tu, layout)
    params = [c for c in node['inner'] if c['kind'] == 'ParmVarDecl']
    sig = []
    try:
        if view:
            cs.fresh(); cs.size_var = cs.fresh()
            cs.ret_ptr = node['type']['qualType'].split('(')[0].rstrip().endswith('*')
            sig = [('payloadData', 0), ('size', 64)]
            if params:
                raise Untranslatable('view accessor with parameters')
        for p in params:
            if cs.is_ptr(p):
                cs.vars[p['id']] = ('ptr', Ptr(kconst(0), cs.pointee(p)))
                cs.fresh()
                sig.append((p.get('name', ''), 0))
            else:
                i = cs.fresh(); w, sg = cs.ity(p)
                cs.vars[p['id']] = ('int', i, (w, sg))
                sig.append((p.get('name', ''), w))
        body = [c for c in node['inner'] if c['kind'] == 'CompoundStmt'][0]
        e = cs.stmts([body])
        return e, None, (sig, sorted(cs.accs))
    except Untranslatable as ex:
        return None, str(ex), None
    except (KeyError, IndexError, TypeError, AttributeError) as ex:
        return None, 'translator: %s %s' % (type(ex).__name__, ex), None

def write_gencode(out, W, layout, reads):
    """reads: accessor qualified name -> sorted list of (byte offset, byte size) of the data members its body reads"""
    L = ['(* GENERATED by translator/code2coq.py from the current sources of /repo - do not edit. *)',
         'From Coq Require Import ZArith List String.', 'Require Import CMP.Cir.', 'Import ListNotations.',
         'Local Open Scope Z_scope.', 'Local Open Scope string_scope.', '']
    done, lost, absent, used = [], [], [], set()
    for q in TARGETS + VIEW_TARGETS:
        e, why, info = translate_function(W, layout, q, view=q in VIEW_TARGETS)
        ident = 'code_' + re.sub(r'[^A-Za-z0-9]+', '_', q.replace('ASAM::CMP::', ''))
        if e is None:
            # a function that no longer exists has nothing to be checked (absent); one that exists but leaves the translatable
            # fragment is a lost obligation
            (absent if why == 'function not found in the sources' else lost).append((q, why))
            L.append('(* %s: %s *)' % (q, why))
            L.append('Definition %s : option cexp := None.\n' % ident)
            continue
        sig, accs = info
        used.update(accs)
        L.append('(* %s(%s) *)' % (q, ', '.join('%s:%s' % (n, 'ptr' if w == 0 else 'u%d' % w) for n, w in sig)))
        L.append('Definition %s : option cexp := Some\n %s.\n' % (ident, coq(e)))
        done.append((q, ident))
    L.append('Definition gen_code : list (string * option cexp) := [' + '; '.join('("%s", %s)' % (q, i) for q, i in done) + '].')
    L.append('Definition gen_code_lost : list (string * string) := [' + '; '.join('("%s", "%s")' % (q, w.replace('"', "'")) for q, w in lost) + '].')
    L.append('Definition gen_code_absent : list string := [' + '; '.join('"%s"' % q for q, w in absent) + '].')
    L.append('(* byte extents (offset, size) inside the object that each accessor called from the functions above reads *)')
    L.append('Definition gen_reads : list (string * list (Z * Z)) := [' + ';\n  '.join(
        '("%s", [%s])' % (q, '; '.join('(%d, %d)' % r for r in reads.get(q, [(-1, 0)]))) for q in sorted(set(reads) | used)) + '].')
    return '\n'.join(L) + '\n', done, lost + [(q, 'absent: ' + w) for q, w in absent]
